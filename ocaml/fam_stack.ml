open BinNums
open Datatypes
open HBytes
open Drv_util

(* Translates the scenario language of the Go stack driver into operations of the world model (Model/Hap.v) and
   prints the model's answers in the abstract observation form; tools/vlib/props/stackcommon.py brings the
   implementation's observations into the same form. *)

let cid_of s = match split_on '.' s with
  | [a; i] -> (n_of_int (int_of_string a), n_of_int (int_of_string i))
  | _ -> failwith ("bad cid " ^ s)
let cid_str (a, i) = Printf.sprintf "%d.%d" (int_of_n a) (int_of_n i)

let val_str (v : Charac.gval) = match v with
  | Charac.VNil -> "nil"
  | Charac.VBool b -> if b then "b:1" else "b:0"
  | Charac.VFloat (b, _) -> "f:" ^ Fam_charac.hex16_of_n b
  | Charac.VInt z -> "n:" ^ Fam_charac.dec_of_z z
  | Charac.VStr (s, _, _, _) -> "s:" ^ hx s
  | Charac.VComposite _ -> "x"

let ascii0 s = L.map (fun c -> n_of_int (Char.code c)) (L.of_seq (String.to_seq s))
(* controller names: a token "h<hex>" stands for the bytes it encodes *)
let ascii s =
  let n = String.length s in
  if n > 1 && n mod 2 = 1 && s.[0] = 'h' && (try ignore (unhex (String.sub s 1 (n-1))); true with _ -> false)
  then unhex (String.sub s 1 (n-1)) else ascii0 s
let str_of (l : coq_N list) = String.concat "" (L.map (fun x -> String.make 1 (Char.chr (int_of_n x))) l)

let parse_table (t : string) : (Hap.cid * Charac.charac) list =
  L.map (fun row -> match split_on ',' row with
      | [id; f; perms; mn; mx; v] ->
        let has c = String.contains perms c in
        (cid_of id, { Charac.format = Fam_charac.fmt_of f; p_read = has 'r'; p_write = has 'w'; p_event = has 'e';
                      cvalue = (match Fam_charac.parse_val v with Charac.VNil -> None | x -> Some x);
                      minv = Fam_charac.bound_of mn; maxv = Fam_charac.bound_of mx; upd_same = (String.contains perms 'S') })
      | _ -> failwith "bad table row") (split_on ';' t)

(* a JSON scalar as the Go driver writes it in the case line -> gval with the oracle annotations the PUT path needs *)
let json_val (s : string) : Charac.gval =
  if s = "true" then Charac.VBool true else if s = "false" then Charac.VBool false
  else if s = "null" then Charac.VNil
  else if s = "OBJ" then Charac.VComposite (n_of_int 0)
  else if s = "ARR" then Charac.VComposite (n_of_int 1)
  else if String.length s > 0 && s.[0] = 'J' then
    (match split_on '~' (String.sub s 1 (String.length s - 1)) with
     | [_; raw] -> Charac.VStr (unhex raw, N0, N0, false)
     | _ -> failwith "bad J token")
  else if String.length s > 0 && s.[0] = '"' then Charac.VStr (ascii0 (String.sub s 1 (String.length s - 2)), N0, N0, false)
  else begin
    (* numbers in the scenarios are small integers or k/2: f2u = truncation; bits via the annotation "num@bits@uint" *)
    match split_on '@' s with
    | [_; bits; u] -> Charac.VFloat (n_of_hex_be bits, Fam_charac.n_of_dec u)
    | _ -> failwith ("number without annotation: " ^ s)
  end

let resp_tlv (r : Hap.resp) : string = match r with
  | Hap.RTlv (st, None) -> Printf.sprintf "st%d" (int_of_n st)
  | Hap.RTlv (st, Some e) -> Printf.sprintf "st%d/err%d" (int_of_n st) (int_of_n e)
  | Hap.RHttp500 -> "http500"
  | Hap.RRefused470 -> "http470"
  | Hap.RHttp400Closed -> "http400"
  | Hap.RClosed -> "closed"
  | Hap.RNoConn -> "closed"
  | Hap.RPanic -> "closed"
  | _ -> "other"

let entries_str es = String.concat "," (L.map (fun ((i, v), st) ->
    cid_str i ^ (match v with Some x -> "=" ^ val_str x | None -> "")
    ^ (match st with Some z -> "!" ^ Fam_charac.dec_of_z z | None -> "")) es)

let run (toks : string list) : string =
  match toks with
  | "sk" :: rest ->
    let tbl = ref [] in
    let ops = L.filter (fun t -> if String.length t > 4 && String.sub t 0 4 = "tbl=" then (tbl := parse_table (String.sub t 4 (String.length t - 4)); false)
                         else not ((String.length t > 4 && (String.sub t 0 4 = "pin=" || String.sub t 0 4 = "fsz=")) || (String.length t > 5 && (String.sub t 0 5 = "nacc=" || String.sub t 0 5 = "wseg=")))) rest in
    (* the pairing database always holds the accessory's own entity (name = device id, public and private key) *)
    let acc_name = ascii0 "\001accessory" in
    let w = ref (let e = Hap.empty_world !tbl in { e with Hap.store = [(acc_name, n_of_int 1000000)] }) in
    let ctrl_store () = L.filter (fun (n, _) -> n <> acc_name) !w.Hap.store in
    let secured : (string, bool) Hashtbl.t = Hashtbl.create 8 in
    let dead : (string, bool) Hashtbl.t = Hashtbl.create 8 in
    let stale_fin : (string, bool) Hashtbl.t = Hashtbl.create 8 in
    let cnum : (string, int) Hashtbl.t = Hashtbl.create 8 in
    let next = ref 0 in
    let conn c = match Hashtbl.find_opt cnum c with Some n -> n_of_int n | None -> N0 in
    let keyids : (string, int) Hashtbl.t = Hashtbl.create 8 in
    let keyid name = match Hashtbl.find_opt keyids name with Some k -> n_of_int k | None ->
      let k = Hashtbl.length keyids + 1 in Hashtbl.add keyids name k; n_of_int k in
    let out = ref [] in
    let emit s = out := s :: !out in
    let takeback : (string, bool) Hashtbl.t = Hashtbl.create 4 in
    let cb_seen = ref 0 and ev_seen : (string, int) Hashtbl.t = Hashtbl.create 8 in
    let step o = let (w', r) = Hap.step Hap.fixed !w o in w := w'; r in
    let tr c = if Hashtbl.find_opt secured c = Some true then Hap.TSession else Hap.TPlain in
    let alive c = Hashtbl.mem cnum c && not (Hashtbl.find_opt dead c = Some true) in
    let req c e =
      let r = step (Hap.OReq (conn c, tr c, e)) in
      (match r with Hap.RClosed | Hap.RHttp400Closed | Hap.RNoConn -> Hashtbl.replace dead c true | _ -> ());
      r in
    L.iter (fun op ->
        let p = split_on ':' op in
        match p with
        | ["N"; c] -> incr next; Hashtbl.replace cnum c !next; Hashtbl.replace secured c false; Hashtbl.replace dead c false;
          ignore (step (Hap.OConnect (conn c)))
        | ["K"; c] -> if Hashtbl.mem cnum c then (ignore (step (Hap.OClose (conn c))); Hashtbl.replace dead c true)
        | ["W"] -> ()
        | ["TB"; id] -> Hashtbl.replace takeback id true
        | "GCB" :: _ -> ()      (* a read callback of the application: not consulted by writes, sets and notifications *)
        | ["ST"] -> emit ("stored=" ^ String.concat "+" (L.sort compare (L.map (fun (n, _) -> hx n) (ctrl_store ()))))
        | ["TXT"] -> emit ("sf=" ^ (if ctrl_store () = [] then "1" else "0"))
        | ["CB"] ->
          let l = !w.Hap.cblog in
          let fresh = L.filteri (fun i _ -> i >= !cb_seen) l in
          cb_seen := L.length l;
          emit ("cb=" ^ String.concat "," (L.map (fun (i, v) -> cid_str i ^ "=" ^ val_str v) fresh))
        | "L" :: id :: v -> ignore (step (Hap.OLocalSet (cid_of id, json_val (String.concat ":" v))))
        | ["S"; c; ctrl; variant] ->
          if not (alive c) then emit "S=noconn" else begin
            let parts = ref [] in
            let send m = let r = req c (Hap.EPairSetup m) in parts := resp_tlv r :: !parts;
              (match r with Hap.RTlv (_, None) -> true | _ -> false) in
            let name = ascii ctrl and pk = keyid ctrl in
            let gen = Hap.IGenuine (name, pk) in
            (match variant with
             | "ok" -> if send Hap.PSStart && send (Hap.PSVerify (Hap.AValid, Hap.PRight)) then ignore (send (Hap.PSKeyExch (Hap.KSession, gen, false)))
             | "wrongcode" -> if send Hap.PSStart && send (Hap.PSVerify (Hap.AValid, Hap.PWrong)) then ignore (send (Hap.PSKeyExch (Hap.KOther, gen, false)))
             | "wrongproof" -> if send Hap.PSStart then (ignore (send (Hap.PSVerify (Hap.AValid, Hap.PWrong))); ignore (send (Hap.PSKeyExch (Hap.KOther, gen, false))))
             | "noproof" -> if send Hap.PSStart then (ignore (send (Hap.PSVerify (Hap.AValid, Hap.PMissing))); ignore (send (Hap.PSKeyExch (Hap.KOther, gen, false))))
             | "a0" | "aN" | "a2N" | "aempty" ->
               if send Hap.PSStart then (ignore (send (Hap.PSVerify (Hap.AZeroModN, Hap.PWrong))); ignore (send (Hap.PSKeyExch (Hap.KZero, gen, false))))
             | "aNforged" | "a0forged" | "aemptyforged" ->
               if send Hap.PSStart then (ignore (send (Hap.PSVerify (Hap.AZeroModN, Hap.PWrong))); ignore (send (Hap.PSKeyExch (Hap.KOther, gen, false))))
             | "wrongcodezero" ->
               if send Hap.PSStart then (ignore (send (Hap.PSVerify (Hap.AValid, Hap.PWrong))); ignore (send (Hap.PSKeyExch (Hap.KZero, gen, false))))
             | "m5zeroempty" -> ignore (send (Hap.PSKeyExch (Hap.KZero, gen, false)))
             | "m5emptyhkdf" -> ignore (send (Hap.PSKeyExch (Hap.KOther, gen, false)))
             | "m5first" -> ignore (send (Hap.PSKeyExch (Hap.KZero, gen, false)))
             | "start" -> ignore (send Hap.PSStart)
             | "m3" -> ignore (send (Hap.PSVerify (Hap.AValid, Hap.PRight)))
             | "m3wrong" -> ignore (send (Hap.PSVerify (Hap.AValid, Hap.PWrong)))
             | "m5" -> ignore (send (Hap.PSKeyExch (Hap.KSession, gen, false)))
             | "m5flip" -> ignore (send (Hap.PSKeyExch (Hap.KSession, Hap.ITampered, false)))
             | "m5short" | "m5empty" -> ignore (send (Hap.PSKeyExch (Hap.KSession, Hap.ITampered, true)))
             | "m5inner" -> ignore (send (Hap.PSKeyExch (Hap.KSession, Hap.IMalformed, false)))
             | "m5zerokey" -> ignore (send (Hap.PSKeyExch (Hap.KZero, gen, false)))
             | "m5randkey" | "m5of_a" | "m5of_b" | "m5of_c" -> ignore (send (Hap.PSKeyExch (Hap.KOther, gen, false)))
             | "m5wrongsigner" | "m5zerosig" | "m5nosig" | "m5othersig" -> ignore (send (Hap.PSKeyExch (Hap.KSession, Hap.IBadSig (name, pk), false)))
             | "replayok" ->
               (* a transcript recorded on another exchange: the proof was made for another accessory key, the key
                  exchange is sealed under another session key *)
               ignore (send Hap.PSStart); ignore (send (Hap.PSVerify (Hap.AValid, Hap.PWrong))); ignore (send (Hap.PSKeyExch (Hap.KOther, gen, false)))
             | "badstep" -> ignore (send Hap.PSBadStep)
             | "badmethod" -> ignore (send Hap.PSBadMethod)
             | "garbage" -> ignore (send Hap.PSBadStep)
             | _ -> parts := ["badvariant"]);
            emit ("S=" ^ String.concat "/" (L.rev !parts))
          end
        | ["V"; c; ctrl; variant] ->
          if not (alive c) then emit "V=noconn" else begin
            let parts = ref [] in
            let last = ref Hap.RNoContent in
            let send m = let r = req c (Hap.EPairVerify m) in last := r; parts := resp_tlv r :: !parts;
              (match r with Hap.RTlv (_, None) -> true | _ -> false) in
            let name = ascii ctrl in
            let fin so sh wf n s = Hap.PVFinish (so, sh, wf, n, s) in
            let stored n = Hap.store_get !w.Hap.store n <> None in
            let success = ref false in
            (match variant with
             | "ok" -> if send (Hap.PVStart true) then
                 (* the signature is genuine when the controller's key is the one stored under its name *)
                 let genuine = (match Hap.store_get !w.Hap.store name with Some k -> k = keyid ctrl | None -> false) in
                 if send (fin true false true name (if genuine then Hap.SGenuine else Hap.SInvalid)) then success := true
             | "badsig" | "reordered" | "stale" | "samekey-badsig" | "samekey-reordered" -> if send (Hap.PVStart true) then ignore (send (fin true false true name Hap.SInvalid))
             | "unknown" -> if send (Hap.PVStart true) then ignore (send (fin true false true (ascii ("nobody-" ^ ctrl)) Hap.SInvalid))
             | "unknowntail" ->
               (* the paired name with its last byte changed: a name nobody paired under (the scenarios keep names distinct) *)
               let tail = (match L.rev name with x :: r -> L.rev (n_of_int ((int_of_n x) lxor 1) :: r) | [] -> []) in
               if send (Hap.PVStart true) then ignore (send (fin true false true tail Hap.SInvalid))
             | "reflect" | "accname" -> if send (Hap.PVStart true) then ignore (send (fin true false true acc_name Hap.SInvalid))
             | "zerokey" | "randkey" | "flip" -> if send (Hap.PVStart true) then ignore (send (fin false false true name Hap.SInvalid))
             | "inner-garbage" | "inner-trailing" -> if send (Hap.PVStart true) then ignore (send (fin true false false name Hap.SInvalid))
             | "short0" | "short7" | "short15" -> if send (Hap.PVStart true) then ignore (send (fin false true true name Hap.SInvalid))
             | "short16" -> if send (Hap.PVStart true) then ignore (send (fin false false true name Hap.SInvalid))
             | "keylen31" | "keylen33" | "keylen0" -> ignore (send (Hap.PVStart false))
             | "finishfirst" ->
               (* sealed under the all-zero key: opens exactly when no start has keyed this connection's controller *)
               let keyed = (match Hap.get_conn !w.Hap.conns (conn c) with Some cn -> cn.Hap.hc_pv_keyed | None -> false) in
               ignore (send (fin (not keyed) false true name Hap.SInvalid))
             | "startonly" -> let okk = send (Hap.PVStart true) in Hashtbl.replace stale_fin c (not okk)
             | "startzerokeep" | "startlow1" | "startlow2" | "startlow3" | "startlow4" | "startlow5" | "startlow6" ->
               (* the accessory derives new keys only when it ACCEPTS the start; the controller's record of its earlier
                  exchange is unchanged *)
               if send (Hap.PVStart true) then Hashtbl.replace stale_fin c true
             | "badstartkeep" -> ignore (send (Hap.PVStart false))
             | "finish" ->
               let genuine = (match Hap.store_get !w.Hap.store name with Some k -> k = keyid ctrl | None -> false) in
               if (try Hashtbl.find stale_fin c with Not_found -> false) then
                 (* the finish of an exchange the accessory has replaced: sealed under a key it no longer holds *)
                 ignore (send (fin false false true name Hap.SInvalid))
               else if send (fin true false true name (if genuine then Hap.SGenuine else Hap.SInvalid)) then success := true
             | "garbage" -> ignore (send Hap.PVBadStep)
             | _ -> parts := ["badvariant"]);
            ignore stored;
            if !success then Hashtbl.replace secured c true;
            emit ("V=" ^ String.concat "/" (L.rev !parts))
          end
        | ["Q"; c] ->
          if not (alive c) then emit "Q=noconn" else begin
            let r = step (Hap.OReq (conn c, Hap.TPlain, Hap.EAccessories)) in
            emit ("Q=" ^ (match r with
                | Hap.RRefused470 -> "refused470" | Hap.RAccessories _ -> "served200" | Hap.RClosed -> "closed"
                | Hap.RHttp400Closed -> "http400" | _ -> "other"));
            ignore (step (Hap.OClose (conn c))); Hashtbl.replace dead c true
          end
        | ["G"; c; ids] ->
          let num x = (try int_of_string x with _ -> 0) in       (* strconv.Atoi: not a number = 0 *)
          let toks = split_on ',' ids in
          let wellformed = L.for_all (fun t -> L.length (split_on '.' t) = 2) toks in
          if not (alive c) then emit "G=noconn"
          else if not wellformed then
            (* an entry that is not <aid>.<iid>: the request is refused as a whole *)
            emit ("G=" ^ (match req c (Hap.ECharsGet ([], false)) with
                | Hap.RHttp500 -> "500:-" | Hap.RRefused470 -> "470" | Hap.RChars (st, es) -> Printf.sprintf "%d:%s" (int_of_n st) (entries_str es) | r -> resp_tlv r))
          else begin
            let l = L.map (fun t -> match split_on '.' t with [a; i] -> (n_of_int (num a), n_of_int (num i)) | _ -> (N0, N0)) toks in
            emit ("G=" ^ (match req c (Hap.ECharsGet (l, true)) with
                | Hap.RChars (st, es) -> Printf.sprintf "%d:%s" (int_of_n st) (entries_str es)
                | Hap.RRefused470 -> "470" | r -> resp_tlv r))
          end
        | ["PSPLIT"; c; o; id] ->
          (* the subscription request of c and a plaintext request of o, in either order: independent connections *)
          if not (alive c) || not (alive o) then emit "PSPLIT=noconn" else begin
            let ro = req o Hap.EAccessories in
            let rc = req c (Hap.ECharsPut [((cid_of id, None), Some (Hap.EvBool true))]) in
            emit (Printf.sprintf "PSPLIT=%s/%s"
                    (match rc with Hap.RNoContent -> "204" | Hap.RChars (st, _) -> string_of_int (int_of_n st) | Hap.RRefused470 -> "470" | _ -> "other")
                    (match ro with Hap.RRefused470 -> "470,canary=0" | Hap.RAccessories _ -> "200,canary=1" | _ -> "other"))
          end
        | "LSPLIT" :: c :: id :: vs ->
          (* local sets while a subscription request of c is being handled: the sets first, then the request *)
          if not (alive c) then emit "LSPLIT=noconn" else begin
            L.iter (fun v -> ignore (step (Hap.OLocalSet (cid_of id, json_val v)))) (split_on '/' (String.concat ":" vs));
            let rc = req c (Hap.ECharsPut [((cid_of id, None), Some (Hap.EvBool true))]) in
            emit (Printf.sprintf "LSPLIT=%s"
                    (match rc with Hap.RNoContent -> "204" | Hap.RChars (st, _) -> string_of_int (int_of_n st) | Hap.RRefused470 -> "470" | _ -> "other"))
          end
        | ["DUPW"; a; b; c; n] ->
          (* two writers of the same value: one change per characteristic and round, one event each (C10_at_most_once per change) *)
          emit (if alive a && alive b && alive c then Printf.sprintf "DUPW=ok/%s" n else "DUPW=noconn")
        | ["CHURN"; _] -> emit "CHURN=ok"
        | ["HSPLIT"; c; _] ->
          (* two requests with a step no handler has a name for, however the first one's header is cut into segments: both answered *)
          if not (alive c) then emit "HSPLIT=noconn" else begin
            ignore (req c (Hap.EPairSetup Hap.PSBadStep)); ignore (req c (Hap.EPairSetup Hap.PSBadStep)); emit "HSPLIT=answered" end
        | ["RSC"; n] -> emit (Printf.sprintf "RSC=ok/%s" n)      (* connections are independent objects in the model *)
        | ["STALL"; c; _; _; _] -> emit (if alive c then "STALL=ok" else "STALL=noconn")
        | ["SRPMANY"; _n] -> emit "SRPMANY=ok"     (* C04_srp_completes: whatever the accessory's secret b *)
        | ["STORMA"; c; _n] -> emit (if alive c then "STORMA=ok" else "STORMA=noconn")
        | ["STORM"; c; _n] ->
          (* n local changes while the subscribed connection keeps sending requests: every interleaving delivers each change
             once, in order (C10_exactly_the_subscribed_others per change); the scenario ends here *)
          emit (if alive c then "STORM=ok" else "STORM=noconn")
        | ["VR"; _ctrl; _n] ->
          (* replays of a recorded exchange on new connections: the accessory's pair-verify key is fresh per connection
             (a finish sealed under another exchange's key never opens: C03_install_iff_genuine) *)
          emit "VR=fresh"
        | ["RACE"; a; b; _n] ->
          (* concurrent reads on two connections: nothing changes, every interleaving answers alike *)
          if not (alive a) || not (alive b) then emit "RACE=noconn" else
            emit ("RACE=" ^ (match req a Hap.EAccessories, req b (Hap.ECharsGet ([], true)) with
                | Hap.RAccessories _, Hap.RChars _ -> "ok" | _ -> "refused"))
        | ["A"; c] ->
          if not (alive c) then emit "A=noconn" else
            emit ("A=" ^ (match req c Hap.EAccessories with
                | Hap.RAccessories db -> "200:" ^ String.concat "," (L.map (fun (i, v) -> cid_str i ^ "=" ^ val_str v) db)
                | Hap.RRefused470 -> "470" | r -> resp_tlv r))
        | ["PM"; c; entries] ->
          if not (alive c) then emit "P=noconn" else begin
            let es = L.map (fun e ->
                match split_on '~' e with
                | [id; v; ev] ->
                  let vv = if v = "-" then None else Some (json_val v) in
                  let e' = if ev = "1" then Some (Hap.EvBool true) else if ev = "0" then Some (Hap.EvBool false) else None in
                  ((cid_of id, vv), e')
                | _ -> failwith "bad PM entry") (split_on '+' entries) in
            emit ("P=" ^ (match req c (Hap.ECharsPut es) with
                | Hap.RNoContent -> "204:" | Hap.RChars (st, es) -> Printf.sprintf "%d:%s" (int_of_n st) (entries_str es)
                | Hap.RRefused470 -> "470" | r -> resp_tlv r))
          end
        | "P" :: c :: id :: rest ->
          if not (alive c) then emit "P=noconn" else begin
            let n = L.length rest in
            let ev = L.nth rest (n - 1) in
            let v = String.concat ":" (L.filteri (fun i _ -> i < n - 1) rest) in
            let vv = if v = "-" then None else Some (json_val v) in
            let e = if ev = "-" then None else if ev = "1" then Some (Hap.EvBool true) else if ev = "0" then Some (Hap.EvBool false) else Some Hap.EvOther in
            emit ("P=" ^ (match req c (Hap.ECharsPut [((cid_of id, vv), e)]) with
                | Hap.RNoContent -> "204:" | Hap.RChars (st, es) -> Printf.sprintf "%d:%s" (int_of_n st) (entries_str es)
                | Hap.RRefused470 -> "470" | r -> resp_tlv r));
            (* an application callback that takes a remote "true" back: a local set of false right after the write *)
            if Hashtbl.mem takeback id && vv = Some (Charac.VBool true) then ignore (step (Hap.OLocalSet (cid_of id, Charac.VBool false)))
          end
        | ["R"; c; ctrl; what] ->
          if not (alive c) then emit "R=noconn" else
            let e = (match what with "add" -> Hap.EPairingsAdd (ascii ctrl, keyid ctrl) | "addnokey" -> Hap.EPairingsAdd (ascii ctrl, N0)
                           | "addshortkey" | "addlongkey" -> Hap.EPairingsAdd (ascii ctrl, keyid ("badlen-" ^ ctrl))
                           | "remove" -> Hap.EPairingsRemove (ascii ctrl) | _ -> Hap.EPairingsOther) in
            emit ("R=" ^ resp_tlv (req c e))
        | ["X"; c; ep; _m] ->
          if not (alive c) then emit "X=noconn" else begin
            let e = (match ep with
                | "accessories" -> Hap.EAccessories
                | "characteristics" -> Hap.ECharsGet ([cid_of "2.9"; cid_of "4.13"], true)
                | "characteristics-put" -> Hap.ECharsPut [((cid_of "2.9", Some (Charac.VBool true)), Some (Hap.EvBool true))]
                | "pairings" -> Hap.EPairingsAdd (ascii "intruder", keyid "intruder")
                | "pairings-remove" -> Hap.EPairingsRemove (ascii "c0")
                | "resource" -> Hap.EResource
                | "get-missing" -> Hap.ECharsGet ([cid_of "9.99"; cid_of "1.999"], true)
                | "get-writeonly" -> Hap.ECharsGet ([cid_of "1.2"; cid_of "4.11"], true)
                | "get-one" -> Hap.ECharsGet ([cid_of "2.9"], true)
                | "put-readonly" -> Hap.ECharsPut [((cid_of "4.12", Some (Charac.VInt (z_of_int 9))), None)]
                | "put-noevents" -> Hap.ECharsPut [((cid_of "4.13", None), Some (Hap.EvBool true))]
                | "put-missing" -> Hap.ECharsPut [((cid_of "9.99", Some (Charac.VInt (z_of_int 1))), None)]
                | _ -> Hap.EIdentify) in
            let r = step (Hap.OReq (conn c, Hap.TPlain, e)) in
            (match r with Hap.RClosed | Hap.RHttp400Closed | Hap.RNoConn -> Hashtbl.replace dead c true | _ -> ());
            emit ("X=" ^ (match r with
                | Hap.RRefused470 -> "470" | Hap.RClosed | Hap.RNoConn -> "closed" | Hap.RNoContent -> "204"
                | Hap.RAccessories _ | Hap.RChars _ -> "served" | Hap.RTlv _ -> "served" | Hap.RHttp500 -> "500" | _ -> "other"))
          end
        | ["B"; c; ep; _body] ->
          (* bodies of B operations are malformed by construction (see the generator): the handler answers with an
             error status and changes nothing; protected endpoints refuse unverified connections first *)
          if not (alive c) then emit "B=noconn" else begin
            let e = (match ep with "ps" -> Hap.EPairSetup Hap.PSBadStep | "pv" -> Hap.EPairVerify Hap.PVBadStep
                               | "pairings" -> Hap.EPairingsOther | "chars" -> Hap.ECharsGet ([], false)
                               | "resource" -> Hap.EResource | _ -> Hap.EIdentify) in
            emit ("B=" ^ (match req c e with
                | Hap.RHttp500 -> "500" | Hap.RRefused470 -> "470" | Hap.RNoContent -> "204"
                | Hap.RClosed | Hap.RNoConn | Hap.RHttp400Closed -> "closed" | _ -> "other"))
          end
        | ["E"; c] ->
          if not (alive c) then emit "E=noconn" else begin
            ignore (req c (Hap.ECharsGet ([cid_of "1.2"], true)));
            let mine = L.filter (fun ((k, _), _) -> k = conn c) !w.Hap.outbox in
            let seen = (match Hashtbl.find_opt ev_seen c with Some n -> n | None -> 0) in
            let fresh = L.filteri (fun i _ -> i >= seen) mine in
            Hashtbl.replace ev_seen c (L.length mine);
            emit ("E=" ^ String.concat ";" (L.sort compare (L.map (fun ((_, i), v) -> cid_str i ^ "=" ^ val_str v) fresh)))
          end
        | _ -> emit ("badop:" ^ op)) ops;
    String.concat " " (L.rev !out)
  | _ -> "badcase"
