open BinNums
open Datatypes
open HBytes
open Drv_util

let str (l : coq_N list) = String.concat "" (L.map (fun x -> String.make 1 (Char.chr (int_of_n x))) l)
let num_text o suffix_of = match o with
  | None -> "-"
  | Some ((t, _), is_int) -> str t ^ (if suffix_of is_int then "i" else "f")

let run (toks : string list) : string =
  match toks with
  | ["char"; name] ->
    (match L.find_opt (fun k -> str k.CatalogGen.cc_name = name) CatalogGen.char_ctors with
     | None -> "unknown"
     | Some k ->
       let emb = str k.CatalogGen.cc_embedded in
       (* SetMinValue(int) on an Int stores an int, SetMinValue(float64) on a Float a float64 whatever the literal *)
       let sfx _ = (emb = "Int") in
       let def = (match str k.CatalogGen.cc_default_kind, k.CatalogGen.cc_default with
           | "num", Some ((t, _), _) -> "num:" ^ str t
           | "bool", _ -> "bool" | "string", _ -> "string" | "bytes", _ -> "string" | "", _ -> "none" | x, _ -> "other:" ^ x) in
       Printf.sprintf "type=%s format=%s perms=%s min=%s max=%s step=%s default=%s unit=%s"
         (str k.CatalogGen.cc_type_used) (str k.CatalogGen.cc_format) (String.concat "," (L.map str k.CatalogGen.cc_perms))
         (num_text k.CatalogGen.cc_min sfx) (num_text k.CatalogGen.cc_max sfx) (num_text k.CatalogGen.cc_step sfx) def (str k.CatalogGen.cc_unit))
  | ["svc"; name] ->
    (match L.find_opt (fun s -> str s.CatalogGen.sc_name = name) CatalogGen.svc_ctors with
     | None -> "unknown"
     | Some s ->
       if not s.CatalogGen.sc_has_base then "panic" else
       Printf.sprintf "type=%s chars=%s" (str (Catalog.svc_type s)) (String.concat "," (L.map str (Catalog.svc_char_types s))))
  | ["accessories"] -> "-"
  | _ -> "badcase"
