open Datatypes
open Drv_util

(* ss <op> ...: C:<c>:<local>:<remote> | V:<c> | R:<c> | X:<c>.  The table key of a connection is the pair of its
   addresses (hap/context.go: local + remote), numbered in order of first appearance; Close removes only its own entry *)
let run (toks : string list) : string =
  match toks with
  | "ss" :: ops ->
    let pairs : (string, int) Hashtbl.t = Hashtbl.create 8 in
    let keyof : (int, int) Hashtbl.t = Hashtbl.create 8 in
    let sops = L.map (fun t -> match split_on ':' t with
        | ["C"; c; l; r] ->
          let k = (match Hashtbl.find_opt pairs (l ^ "|" ^ r) with Some k -> k | None ->
              let k = Hashtbl.length pairs in Hashtbl.add pairs (l ^ "|" ^ r) k; k) in
          Hashtbl.replace keyof (int_of_string c) k;
          Sessions.SConnect (nat_of_int (int_of_string c))
        | ["V"; c] -> Sessions.SVerify (nat_of_int (int_of_string c))
        | ["R"; c] -> Sessions.SRequest (nat_of_int (int_of_string c))
        | ["X"; c] -> Sessions.SClose (nat_of_int (int_of_string c))
        | _ -> failwith "bad op") ops in
    let key c = nat_of_int (match Hashtbl.find_opt keyof (int_of_nat c) with Some k -> k | None -> 1000 + int_of_nat c) in
    let outs = Sessions.srun key true Sessions.empty_table sops in
    String.concat " " (L.map (fun o -> match o with
        | Sessions.ONone -> "-" | Sessions.OServed -> "served" | Sessions.ORefused -> "refused" | Sessions.ONoSession -> "nosession") outs)
  | _ -> "badcase"
