open BinNums
open Datatypes
open HBytes
open Drv_util

let rec split_at k l = if k = 0 then ([], l) else match l with [] -> ([], []) | x :: r -> let (a, b) = split_at (k-1) r in (x :: a, b)

let pieces mode (data : coq_N list) : coq_N list list =
  if data = [] then [] else
  if mode = "onebyte" then L.map (fun b -> [b]) data
  else if String.length mode > 6 && String.sub mode 0 6 = "sched:" then begin
    let sizes = L.map int_of_string (split_on ',' (String.sub mode 6 (String.length mode - 6))) in
    let rec go sizes d = match d with [] -> [] | _ ->
      (match sizes with
       | [] -> [d]
       | s :: rest -> let s = max s 1 in let (a, b) = split_at s d in a :: go rest b) in
    go sizes data end
  else [data]

(* key derivation is pure: cache it per (role, secret) so that many cases on one secret pay HKDF once *)
let session_cache : (string * string, Framing.session) Hashtbl.t = Hashtbl.create 16
let session role shared =
  let k = (role, hx shared) in
  match Hashtbl.find_opt session_cache k with
  | Some s -> s
  | None ->
    let s = if role = "srv" then Framing.new_server_session shared else Framing.new_client_session shared in
    Hashtbl.add session_cache k s; s
let peer role = if role = "srv" then "cli" else "srv"

let run (toks : string list) : string =
  match toks with
  | "enc" :: shared :: role :: mode :: msgs ->
    let sh = unhex shared in
    (* mode prefixes: lazy+ (when the results are read makes no difference to a pure function), ctr<N>+ *)
    let ctr = ref N0 and mode = ref mode in
    let continue = ref true in
    while !continue do
      if String.length !mode > 5 && String.sub !mode 0 5 = "lazy+" then mode := String.sub !mode 5 (String.length !mode - 5)
      else if String.length !mode > 3 && String.sub !mode 0 3 = "ctr" then begin
        let i = String.index !mode '+' in
        let d = String.sub !mode 3 (i - 3) in
        ctr := L.fold_left (fun acc c -> BinNat.N.add (BinNat.N.mul acc (n_of_int 10)) (n_of_int (Char.code c - 48))) N0 (L.init (String.length d) (String.get d));
        mode := String.sub !mode (i + 1) (String.length !mode - i - 1)
      end else continue := false
    done;
    let mode = !mode in
    let at s = { s with Framing.enc_ctr = !ctr; Framing.dec_ctr = !ctr } in
    let readers = L.map (fun m -> pieces mode (unhex m)) msgs in
    let (wires, _) = Framing.send_all (at (session role sh)) readers in
    let (ds, _) = Framing.recv_all (at (session (peer role) sh)) wires in
    let show d = match d with Some pt -> hx pt | None -> "err" in
    String.concat " " (L.mapi (fun i (w, d) ->
        Printf.sprintf "w%d=%s r%d=%s d%d=%s" i (hx w) i (match d with Some pt -> hx pt | None -> "fail") i (show d))
        (L.combine wires ds))
  | "seal" :: shared :: role :: msgs ->
    let sh = unhex shared in
    let readers = L.map (fun m -> let d = unhex m in if d = [] then [] else [d]) msgs in
    let (wires, _) = Framing.send_all (session role sh) readers in
    String.concat " " (L.mapi (fun i w -> Printf.sprintf "w%d=%s" i (hx w)) wires)
  | "sealf" :: shared :: role :: chunks ->
    (* a peer that frames by itself: one frame per given chunk (empty chunks included), counters from 0 *)
    let s = session role (unhex shared) in
    let cs = L.map (fun m -> if m = "-" then [] else unhex m) chunks in
    "w0=" ^ hx (Framing.spec_wire_from Framing.cc_seal s.Framing.enc_key N0 O cs)
  | "sealc" :: shared :: role :: ctr :: msgs ->
    let sh = unhex shared in
    let c = L.fold_left (fun acc ch -> BinNat.N.add (BinNat.N.mul acc (n_of_int 10)) (n_of_int (Char.code ch - 48))) N0 (L.init (String.length ctr) (String.get ctr)) in
    let readers = L.map (fun m -> let d = unhex m in if d = [] then [] else [d]) msgs in
    let s0 = session role sh in
    let (wires, _) = Framing.send_all { s0 with Framing.enc_ctr = c } readers in
    String.concat " " (L.mapi (fun i w -> Printf.sprintf "w%d=%s" i (hx w)) wires)
  | ["decc"; shared; role; ctr; stream] ->
    let s = session role (unhex shared) in
    let c = L.fold_left (fun acc ch -> BinNat.N.add (BinNat.N.mul acc (n_of_int 10)) (n_of_int (Char.code ch - 48))) N0 (L.init (String.length ctr) (String.get ctr)) in
    let inp = unhex stream in
    let (out, st) = Framing.decrypt_stream Framing.cc_open (nat_of_int (L.length inp + 1)) s.Framing.dec_key c inp in
    "out=" ^ hx out ^ " st=" ^ (match st with Framing.RClean -> "clean" | Framing.RError _ -> "err")
  | ["dec"; shared; role; stream] ->
    let s = session role (unhex shared) in
    let inp = unhex stream in
    let (out, st) = Framing.decrypt_stream Framing.cc_open (nat_of_int (L.length inp + 1)) s.Framing.dec_key N0 inp in
    "out=" ^ hx out ^ " st=" ^ (match st with Framing.RClean -> "clean" | Framing.RError _ -> "err")
  | "decs" :: shared :: role :: segs ->
    let s = session role (unhex shared) in
    let (out, st) = Framing.decrypt_segments Framing.cc_open s.Framing.dec_key N0 (L.map unhex segs) in
    "out=" ^ hx out ^ " st=" ^ (match st with Framing.RClean -> "clean" | Framing.RError _ -> "err")
  | _ -> "badcase"
