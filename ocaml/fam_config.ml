open BinNums
open Datatypes
open HBytes
open Drv_util

let bytes_of_string (s : string) : coq_N list = L.init (String.length s) (fun i -> byte_table.(Char.code s.[i]))
let str (l : coq_N list) = String.concat "" (L.map (fun x -> String.make 1 (Char.chr (int_of_n x))) l)

(* prefix-notation JSON trees: n | t | f | #<hex>; | s<hex>; | a<count>;... | o<count>;(<hexkey>;<value>)... *)
let parse_tree (s : string) : Config.json =
  let pos = ref 0 in
  let until_semi () =
    let j = String.index_from s !pos ';' in
    let r = String.sub s !pos (j - !pos) in
    pos := j + 1; r in
  let rec value () : Config.json =
    let c = s.[!pos] in
    incr pos;
    match c with
    | 'n' -> Config.JNull
    | 't' -> Config.JBool true
    | 'f' -> Config.JBool false
    | '#' -> Config.JNum (unhex (until_semi ()))
    | 's' -> Config.JStr (unhex (until_semi ()))
    | 'a' -> let n = int_of_string (until_semi ()) in Config.JArr (elems n)
    | 'o' -> let n = int_of_string (until_semi ()) in Config.JObj (members n)
    | _ -> failwith "bad tree"
  and elems n = if n = 0 then Config.JNil else (let v = value () in Config.JCons (v, elems (n - 1)))
  and members n = if n = 0 then Config.MNil else
      (let k = unhex (until_semi ()) in let v = value () in Config.MCons (k, v, members (n - 1))) in
  value ()

let run (toks : string list) : string =
  match toks with
  | ["pin"; h] ->
    (match Pin.validate_pin Extracted.invalid_pins (unhex h) with
     | Some f -> "ok:" ^ hx f
     | None -> "err")
  | ["xhm"; pin; sid; cat; flags] ->
    let fl = if flags = "-" then [] else L.map (fun x -> n_of_int (int_of_string x)) (split_on ',' flags) in
    (match Pin.xhm_of_pin (unhex pin) (unhex sid) (n_of_int (int_of_string cat)) fl with
     | Some u -> "ok:" ^ hx u
     | None -> "err")
  | ["strip"; a; b] ->
    if Config.same_hash_input (parse_tree a) (parse_tree b) then "eq=1" else "eq=0"
  | "hist" :: ops ->
    let d = ref Config.empty_disk in
    let running = ref false and last_version = ref N0 and starts = ref 0 in
    let pin = ref "00102003" and sid = ref "HOME" in
    let out = ref [] in
    let emit s = out := s :: !out in
    let key_of name = n_of_int (1000 + (Hashtbl.hash name) mod 1000) in
    let seen_keys : (int * int) list ref = ref [] in
    let self_id () = (match !d.Config.d_uuid with Some u -> u | None -> []) in
    let controllers () =
      L.sort compare (L.filter_map (fun ((n, _), priv) -> if priv then None else Some (if n = self_id () then "SELF" else str n)) !d.Config.d_entities) in
    let paired name = L.mem name (controllers ()) in
    L.iter (fun op ->
        let p = split_on ':' op in
        if String.length op > 8 && String.sub op 0 8 = "dirname=" then ()      (* where the storage lives does not matter *)
        else if String.length op > 4 && String.sub op 0 4 = "pin=" then pin := String.sub op 4 (String.length op - 4)
        else if String.length op > 4 && String.sub op 0 4 = "sid=" then sid := str (unhex (String.sub op 4 (String.length op - 4)))
        else match p with
          | ["S"; st; _vals; cat] ->
            running := false;
            incr starts;
            (match Pin.validate_pin Extracted.invalid_pins (bytes_of_string !pin) with
             | None -> emit "S=err"
             | Some _ ->
               let (d', cfg) = Config.start !d [n_of_int !starts] (n_of_int !starts) (bytes_of_string st) in
               d := d'; running := true; last_version := cfg.Config.c_version;
               let uri = (match Pin.xhm_of_pin (bytes_of_string !pin) (bytes_of_string !sid) (n_of_int (int_of_string cat)) [n_of_int 2] with
                   | Some u -> hx u | None -> hx (bytes_of_string "err")) in
               let k = int_of_n cfg.Config.c_key in
               (if not (L.mem_assoc k !seen_keys) then seen_keys := (k, !starts) :: !seen_keys);
               emit (Printf.sprintf "S=id%d,key%d,c%d,sf%d,ci%s,disk1,x%s"
                       (match cfg.Config.c_id with x :: _ -> int_of_n x | [] -> -1)
                       (L.assoc k !seen_keys) (int_of_n cfg.Config.c_version)
                       (if cfg.Config.c_discoverable then 1 else 0) cat uri))
          | ["X"] -> running := false
          | ["T"] ->
            if !running then emit (Printf.sprintf "T=sf%d,c%d" (if Config.discoverable_now !d then 1 else 0) (int_of_n !last_version))
            else emit "T=stopped"
          | [("P" | "U") as k; name] ->
            if !running then emit (k ^ "=running")
            else if k = "P" then d := Config.pair !d (bytes_of_string name) (key_of name)
            else d := Config.unpair !d (bytes_of_string name)
          | ["PSELF"] ->
            if not !running then emit "PSELF=stopped"
            else (d := Config.pair !d (self_id ()) (key_of "SELF"); emit "PSELF=st2/st4/st6[M2okM6ok]")
          | ["PS"; name] ->
            if not !running then emit "PS=stopped"
            else (d := Config.pair !d (bytes_of_string name) (key_of name); emit "PS=st2/st4/st6[M2okM6ok]")
          | [("AD" | "RM") as k; admin; name] ->
            if not !running then emit (k ^ "=stopped")
            else if not (paired admin) then emit (k ^ "=verify-failed")
            else begin
              (if k = "AD" then d := Config.pair !d (bytes_of_string name) (key_of name)
               else d := Config.unpair !d (bytes_of_string name));
              emit (k ^ "=st2")
            end
          | ["LC"] ->
            (* the stored identity renamed (uuid file and the accessory's own entity), key pair kept; the new name is first
               seen at the next start *)
            if !running then emit "LC=running"
            else (match !d.Config.d_uuid with
                | None -> emit "LC=nouuid"
                | Some old ->
                  let nw = [n_of_int (!starts + 1)] in
                  let dd = !d in
                  d := { dd with Config.d_uuid = Some nw;
                                 Config.d_entities = L.map (fun ((n, k), priv) -> if n = old && priv then ((nw, k), priv) else ((n, k), priv)) dd.Config.d_entities })
          | ["RA"; admin; name] ->
            (* over one verified connection: the admin removes its own pairing, then adds <name> *)
            if not !running then emit "RA=stopped"
            else if not (paired admin) then emit "RA=verify-failed"
            else begin
              d := Config.unpair !d (bytes_of_string admin);
              d := Config.pair !d (bytes_of_string name) (key_of name);
              emit "RA=st2/st2"
            end
          | [("D" | "Z") as k; file] ->
            if !running then emit (k ^ "=running")
            else begin
              let dd = !d in
              match file with
              | "version" -> d := { dd with Config.d_version = None }
              | "configHash" -> d := { dd with Config.d_hash = (if k = "D" then None else Some []) }
              | _ -> emit "badfile"
            end
          | ["E"] ->
            let own = L.length (L.filter (fun ((_, _), priv) -> priv) !d.Config.d_entities) in
            emit (Printf.sprintf "E=%d:%s" own (String.concat "+" (controllers ())))
          | _ -> emit ("badop:" ^ op)) ops;
    String.concat " " (L.rev !out)
  | _ -> "badcase"
