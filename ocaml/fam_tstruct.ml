open BinNums
open Datatypes
open HBytes
open Drv_util
open TlvStruct

(* big integers as decimal strings <-> Z via the extracted arithmetic *)
let z_of_dec (s : string) : coq_Z =
  let neg = String.length s > 0 && s.[0] = '-' in
  let acc = ref Z0 in
  String.iteri (fun i c -> if not (neg && i = 0) then
                   acc := BinInt.Z.add (BinInt.Z.mul !acc (z_of_int 10)) (z_of_int (Char.code c - 48))) s;
  if neg then BinInt.Z.opp !acc else !acc
let dec_of_z (z : coq_Z) : string =
  let neg = (match z with Zneg _ -> true | _ -> false) in
  let a = ref (if neg then BinInt.Z.opp z else z) in
  if !a = Z0 then "0" else begin
    let b = Buffer.create 20 in
    let ten = z_of_int 10 in
    while !a <> Z0 do
      let d = int_of_z (BinInt.Z.modulo !a ten) in
      Buffer.add_char b (Char.chr (48 + d));
      a := BinInt.Z.div !a ten
    done;
    let s = Buffer.contents b in
    let n = String.length s in
    (if neg then "-" else "") ^ String.init n (fun i -> s.[n - 1 - i])
  end

let parse_fields (s : string) : fields =
  let s = (if String.length s > 4 && String.sub s 0 4 = "rtp:" then
             (let i = String.index s '=' in String.sub s (i + 1) (String.length s - i - 1)) else s) in
  let pos = ref 0 in
  let peek () = if !pos < String.length s then s.[!pos] else '\000' in
  let rec fields () : fields =
    let j = !pos in
    while peek () >= '0' && peek () <= '9' do incr pos done;
    let tag = int_of_string (String.sub s j (!pos - j)) in
    incr pos; (* : *)
    let c = peek () in
    incr pos;
    let t = (match c with
        | 'B' -> TU8 | 'H' -> TU16 | 'W' -> TU32 | 'Q' -> TU64 | 'h' -> TI16 | 'w' -> TI32 | 'q' -> TI64
        | 'f' -> TF32 | 'b' -> TBool | 's' -> TStr | 'y' -> TBytes
        | 'S' | 'L' | 'I' ->
          incr pos;
          let inner = fields () in
          incr pos;
          (match c with 'S' -> TStruct inner | 'L' -> TList inner | _ -> TInline inner)
        | _ -> failwith "bad type") in
    if peek () = ',' then (incr pos; FCons (n_of_int tag, t, fields ())) else FCons (n_of_int tag, t, FNil) in
  fields ()

let is_hex c = (c >= '0' && c <= '9') || (c >= 'a' && c <= 'f')

let parse_vals (fs : fields) (s : string) : vals =
  let pos = ref 0 in
  let peek () = if !pos < String.length s then s.[!pos] else '\000' in
  let hexrun () = let j = !pos in while is_hex (peek ()) do incr pos done; String.sub s j (!pos - j) in
  let rec value (t : ty) : coq_val =
    match t with
    | TStruct fs -> VStruct (strct fs)
    | TList fs | TInline fs ->
      incr pos; (* [ *)
      let rec elems () = if peek () = ']' then LNil else begin
          if peek () = ';' then incr pos;
          let e = strct fs in LCons (e, elems ()) end in
      let l = elems () in incr pos; VList l
    | TStr | TBytes -> incr pos; VBytes (unhex (hexrun ()))
    | TBool -> let b = peek () = '1' in incr pos; VBool b
    | TF32 -> incr pos; let h = hexrun () in
      VNum (L.fold_left (fun acc c -> BinInt.Z.add (BinInt.Z.mul acc (z_of_int 16)) (z_of_int (hexval c))) Z0 (L.init (String.length h) (String.get h)))
    | _ -> let j = !pos in
      if peek () = '-' then incr pos;
      while peek () >= '0' && peek () <= '9' do incr pos done;
      VNum (z_of_dec (String.sub s j (!pos - j)))
  and strct (fs : fields) : vals =
    incr pos; (* ( *)
    let rec go (fs : fields) (first : bool) : vals =
      match fs with
      | FNil -> VNil
      | FCons (_, t, r) -> if not first then incr pos; let v = value t in VCons (v, go r false) in
    let vs = go fs true in
    incr pos; (* ) *)
    vs in
  strct fs

let rec show_val (t : ty) (v : coq_val) : string =
  match t, v with
  | TStruct fs, VStruct vs -> show_vals fs vs
  | (TList fs | TInline fs), VList l ->
    let rec go l = match l with LNil -> [] | LCons (e, r) -> show_vals fs e :: go r in
    "[" ^ String.concat ";" (go l) ^ "]"
  | _, VBytes b -> "h" ^ hx b
  | _, VBool b -> if b then "1" else "0"
  | TF32, VNum z ->
    let rec hex z n = if n = 0 then "" else hex (BinInt.Z.div z (z_of_int 16)) (n - 1) ^ Printf.sprintf "%x" (int_of_z (BinInt.Z.modulo z (z_of_int 16))) in
    "x" ^ hex z 8
  | _, VNum z -> dec_of_z z
  | _, _ -> "?"
and show_vals (fs : fields) (vs : vals) : string =
  let rec go fs vs = match fs, vs with
    | FCons (_, t, fr), VCons (v, vr) -> show_val t v :: go fr vr
    | _, _ -> [] in
  "(" ^ String.concat "," (go fs vs) ^ ")"

let knobs () = if (try Sys.getenv "HC_MODEL_PINNED" = "1" with Not_found -> false) then pinned_knobs else fixed_knobs

let show_outcome fs = function
  | Ok vs -> show_vals fs vs
  | Err _ -> "err"
  | Panic -> "panic"
  | OutOfFuel -> "outoffuel"

let run (toks : string list) : string =
  match toks with
  | ["rt"; td; vd] ->
    let fs = parse_fields td in
    let vs = parse_vals fs vd in
    let enc = marshal (knobs ()) fs vs in
    "enc=" ^ hx enc ^ " dec=" ^ show_outcome fs (unmarshal (knobs ()) fs enc)
  | ["un"; td; h] ->
    let fs = parse_fields td in
    "dec=" ^ show_outcome fs (unmarshal (knobs ()) fs (if h = "-" then [] else unhex h))
  | _ -> "badcase"
