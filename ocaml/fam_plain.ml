open Datatypes
open Drv_util

(* pm <segment hex,...> <buffer sizes,...> <oracle n|U|B,...|->   |   he <header hex|-> <bytes hex|-> *)
let unhex_or s = if s = "-" then [] else unhex s
let run (toks : string list) : string =
  match toks with
  | ["he"; h; b] ->
    (match PlainFrame.header_end (unhex_or h) (unhex_or b) with
     | Some n -> string_of_int (int_of_nat n) | None -> "-1")
  | ["pm"; segs; maxes; orc] ->
    let segs = L.map unhex_or (split_on ',' segs) in
    let maxes = L.map (fun m -> nat_of_int (int_of_string m)) (split_on ',' maxes) in
    let orc = if orc = "-" then [] else L.map (fun o ->
        if o = "U" then PlainFrame.CUnknown else if o = "B" then PlainFrame.CBad
        else PlainFrame.CL (n_of_dec o)) (split_on ',' orc) in
    let rs = PlainFrame.preads PlainFrame.pst0 [] segs maxes orc in
    if rs = [] then "-" else
      String.concat " " (L.map (fun (n, s) ->
          Printf.sprintf "%d/%d/%s/%d" (int_of_nat n) (L.length s.PlainFrame.ps_header) (dec_of_n s.PlainFrame.ps_body)
            (if s.PlainFrame.ps_unframed then 1 else 0)) rs)
  | ["pw"; stream; evs; orc] ->
    let orc = if orc = "-" then [] else L.map (fun o ->
        if o = "U" then PlainFrame.CUnknown else if o = "B" then PlainFrame.CBad
        else PlainFrame.CL (n_of_dec o)) (split_on ',' orc) in
    let w = ref (PlainRead.winit (unhex_or stream) orc) in
    let state (c : PlainRead.cst) =
      Printf.sprintf "%d/%d/%s/%d/%d" (L.length c.PlainRead.c_plain) (L.length c.PlainRead.c_p.PlainFrame.ps_header)
        (dec_of_n c.PlainRead.c_p.PlainFrame.ps_body) (if c.PlainRead.c_p.PlainFrame.ps_unframed then 1 else 0)
        (if c.PlainRead.c_resp then 1 else 0) in
    let outs = L.map (fun e ->
        let num () = int_of_string (String.sub e 1 (String.length e - 1)) in
        match e.[0] with
        | 'A' -> w := PlainRead.wstep !w (PlainRead.EArrive (nat_of_int (num ()))); "-"
        | 'V' -> w := PlainRead.wstep !w PlainRead.EVerify; "-"
        | 'D' -> w := PlainRead.wstep !w PlainRead.EDone; "-"
        | 'R' ->
          let max = nat_of_int (num ()) in
          let (((r, _), _), _) = PlainRead.cread !w.PlainRead.w_c !w.PlainRead.w_sock max !w.PlainRead.w_orc in
          w := PlainRead.wstep !w (PlainRead.ERead max);
          let c = !w.PlainRead.w_c in
          if c.PlainRead.c_enc || c.PlainRead.c_closed then "s" else
          (match r with
           | PlainRead.PHand d -> "h:" ^ hx d ^ "/" ^ state c
           | PlainRead.PZero -> "z/" ^ state c
           | PlainRead.PBlock -> "b"
           | PlainRead.PClosed | PlainRead.PSecure -> "s")
        | _ -> "bad") (split_on ',' evs) in
    String.concat " " outs
  | _ -> "badcase"
