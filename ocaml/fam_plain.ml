open Datatypes
open Drv_util

(* pm <segment hex,...> <buffer sizes,...> <oracle n|U|B,...|->   |   he <header hex|-> <bytes hex|-> *)
let unhex_or s = if s = "-" then [] else unhex s
let run (toks : string list) : string =
  match toks with
  | ["he"; h; b] ->
    (match PlainFrame.header_end (unhex_or h) (unhex_or b) with
     | Some n -> string_of_int (int_of_nat n) | None -> "-1")
  | ["pm"; segs; maxes; orc] ->
    let segs = L.map unhex_or (split_on ',' segs) in
    let maxes = L.map (fun m -> nat_of_int (int_of_string m)) (split_on ',' maxes) in
    let orc = if orc = "-" then [] else L.map (fun o ->
        if o = "U" then PlainFrame.CUnknown else if o = "B" then PlainFrame.CBad
        else PlainFrame.CL (n_of_dec o)) (split_on ',' orc) in
    let rs = PlainFrame.preads PlainFrame.pst0 [] segs maxes orc in
    if rs = [] then "-" else
      String.concat " " (L.map (fun (n, s) ->
          Printf.sprintf "%d/%d/%s/%d" (int_of_nat n) (L.length s.PlainFrame.ps_header) (dec_of_n s.PlainFrame.ps_body)
            (if s.PlainFrame.ps_unframed then 1 else 0)) rs)
  | _ -> "badcase"
