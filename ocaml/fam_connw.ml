open BinNums
open Datatypes
open HBytes
open Drv_util

(* the model is run on the schedule in which writers enter one after the other (any schedule gives, by
   C08_payloads_intact_contiguous, the concatenation of the completed writes); the observable compared with the
   implementation is "decryptable, and the plaintext is the payloads in some order" *)
let run (toks : string list) : string =
  match toks with
  | "cw" :: _shared :: _order :: payloads ->
    (* a keep-alive writer is one more writer of one more payload (any number of times): it does not change what
       the other payloads look like at the peer *)
    let payloads = L.filter (fun p -> p <> "KA") payloads in
    let chunks p = HBytes.chunks (nat_of_int 1024) (unhex p) in
    let evs = L.concat (L.mapi (fun i p ->
        let c = chunks p in
        ConnWrite.Enter (nat_of_int i, c) :: L.init (L.length c + 1) (fun _ -> ConnWrite.Step (nat_of_int i))) payloads) in
    let s = ConnWrite.wrun true evs in
    (* check in-order counters executable-y and reassemble per completed write *)
    let rec ordered i l = match l with [] -> true | ((c, _), _) :: r -> int_of_n c = i && ordered (i+1) r in
    if not (ordered 0 s.ConnWrite.sock) then "undecryptable" else
    let by_writer = L.map (fun (t, cs) -> hx (L.concat cs)) s.ConnWrite.coq_done in
    "ok " ^ String.concat "," (L.sort compare by_writer)
  | "resp" :: ops ->
    (* resp B | P:<hex> | F | N:<hex> ...   what reaches the connection when response parts and notifications are mixed *)
    let rops = L.map (fun o ->
        if o = "B" then Respond.RBegin else if o = "F" then Respond.RFinish
        else if String.length o > 2 && o.[0] = 'P' then Respond.RPart (unhex (String.sub o 2 (String.length o - 2)))
        else if String.length o > 2 && o.[0] = 'N' then Respond.RNotify (unhex (String.sub o 2 (String.length o - 2)))
        else failwith "bad resp op") ops in
    let s = Respond.rrun true rops in
    "out=" ^ String.concat "," (L.map (fun it -> match it with
        | Respond.Part (_, p) -> "P:" ^ hx p | Respond.Note n -> "N:" ^ hx n) s.Respond.rout)
    ^ " pending=" ^ String.concat "," (L.map hx s.Respond.pending)
  | _ -> "badcase"
