open BinNums
open Datatypes
open HBytes
open Drv_util

let n_of_hex s = n_of_hex_be s
let rec z_of_dec (s : string) : coq_Z =
  if String.length s > 0 && s.[0] = '-' then BinInt.Z.opp (z_of_dec (String.sub s 1 (String.length s - 1)))
  else begin
    let acc = ref Z0 in
    String.iter (fun c -> acc := BinInt.Z.add (BinInt.Z.mul !acc (z_of_int 10)) (z_of_int (Char.code c - 48))) s; !acc end
let n_of_dec s = match z_of_dec s with Zpos p -> Npos p | _ -> N0
let rec dec_of_pos p = (* decimal string of a positive, via repeated division in OCaml ints of chunks *)
  let ten = z_of_int 10 in
  let rec go z acc = match z with
    | Z0 -> if acc = "" then "0" else acc
    | _ -> let q = BinInt.Z.div z ten and r = BinInt.Z.modulo z ten in go q (string_of_int (int_of_z r) ^ acc) in
  go (Zpos p) ""
let dec_of_z z = match z with Z0 -> "0" | Zpos p -> dec_of_pos p | Zneg p -> "-" ^ dec_of_pos p
let hex16_of_n (x : coq_N) : string =
  let sixteen = n_of_int 16 in
  let rec go x k acc = if k = 0 then acc else
      go (BinNat.N.div x sixteen) (k-1) (Printf.sprintf "%x" (int_of_n (BinNat.N.modulo x sixteen)) ^ acc) in
  go x 16 ""

let parse_val (t : string) : Charac.gval =
  match split_on ':' t with
  | ["nil"] -> Charac.VNil
  | ["b"; x] -> Charac.VBool (x = "1")
  | "f" :: bits :: rest -> Charac.VFloat (n_of_hex bits, (match rest with u :: _ -> n_of_dec u | [] -> N0))
  | ["i"; d] -> Charac.VInt (z_of_dec d)
  | "s" :: h :: rest ->
    (match rest with
     | [u; f; b] -> Charac.VStr (unhex h, n_of_dec u, n_of_hex f, b = "1")
     | _ -> Charac.VStr (unhex h, N0, N0, false))
  | ["o"; i] -> Charac.VComposite (n_of_int (2 * int_of_string i))
  | ["a"; i] -> Charac.VComposite (n_of_int (2 * int_of_string i + 1))
  | _ -> failwith ("bad value " ^ t)

let show_val (v : Charac.gval option) : string =
  match v with
  | None -> "nil"
  | Some Charac.VNil -> "nil"
  | Some (Charac.VBool b) -> if b then "b:1" else "b:0"
  | Some (Charac.VFloat (b, _)) -> "f:" ^ hex16_of_n b
  | Some (Charac.VInt z) -> "i:" ^ dec_of_z z
  | Some (Charac.VStr (s, _, _, _)) -> "s:" ^ hx s
  | Some (Charac.VComposite i) -> if int_of_n i mod 2 = 0 then "x:o" else "x:a"

let fmt_of s = match s with
  | "string" -> Charac.FString | "bool" -> Charac.FBool | "float" -> Charac.FFloat | "uint8" -> Charac.FU8
  | "uint16" -> Charac.FU16 | "uint32" -> Charac.FU32 | "int32" -> Charac.FI32 | "uint64" -> Charac.FU64
  | "data" -> Charac.FData | "tlv8" -> Charac.FTlv8 | _ -> Charac.FOther

let bound_of t = if t = "-" then Charac.BNone else
    match parse_val t with Charac.VInt z -> Charac.BInt z | Charac.VFloat (b, _) -> Charac.BFloat b | _ -> Charac.BNone

let run (toks : string list) : string =
  let toks = (match toks with "cc" :: _ :: rest -> "ch" :: rest | t -> t) in
  match toks with
  | "ch" :: f :: perms :: mn :: mx :: init :: ops ->
    let has c = String.contains perms c in
    let iv = (match parse_val init with Charac.VNil -> None | v -> Some v) in
    let c0 = { Charac.format = fmt_of f; p_read = has 'r'; p_write = has 'w'; p_event = has 'e';
               cvalue = iv; minv = bound_of mn; maxv = bound_of mx; upd_same = (String.contains perms 'S') } in
    let c = ref c0 and out = ref [] and cbs = ref [] and stop = ref false in
    L.iter (fun op ->
        if not !stop then begin
          let i = String.index op ':' in
          let k = String.sub op 0 i and rest = String.sub op (i+1) (String.length op - i - 1) in
          if k = "ST" then out := show_val !c.Charac.cvalue :: !out else
          if k = "B" then begin
            (* the range is declared again: B:<min>,<max> *)
            let j = String.index rest ',' in
            let mn = String.sub rest 0 j and mx = String.sub rest (j+1) (String.length rest - j - 1) in
            (match Charac.cstep2 true !c (Charac.CRedeclare (bound_of mn, bound_of mx)) with
             | Ok (c', _) -> c := c'
             | _ -> ());
            out := show_val !c.Charac.cvalue :: !out
          end else
          let cop = match k with
            | "L" -> Charac.CLocal (parse_val rest)
            | "G" -> Charac.CGetFn (None, parse_val rest)
            | "R" | "GR" ->
              let j = String.index rest ':' in
              let conn = n_of_int (int_of_string (String.sub rest 0 j)) in
              let v = parse_val (String.sub rest (j+1) (String.length rest - j - 1)) in
              if k = "R" then Charac.CRemote (conn, v) else Charac.CGetFn (Some conn, v)
            | _ -> failwith "bad op" in
          match Charac.cstep true !c cop with
          | Ok (c', l) ->
            c := c'; out := show_val c'.Charac.cvalue :: !out;
            cbs := !cbs @ L.map (fun cb ->
                (match cb.Charac.cb_origin with Charac.Local -> "L" | Charac.Remote k -> "R" ^ string_of_int (int_of_n k))
                ^ "/" ^ show_val (Some cb.Charac.cb_new) ^ "/" ^ show_val cb.Charac.cb_old) l
          | _ -> out := "panic" :: !out; stop := true
        end) ops;
    let wt = Charac.well_typed !c in
    String.concat " " (L.rev !out) ^ " cbs=" ^ String.concat "," !cbs
    ^ " getter=" ^ (if !c.Charac.cvalue = None then "skip" else if wt || fmt_of f = Charac.FOther then "ok" else "panic")
    ^ " json=ok"
  | _ -> "badcase"
