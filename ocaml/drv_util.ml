(* Hand-written glue between the extracted model (Model) and the line-oriented case files. *)
open BinNums
open Datatypes
module L = Stdlib.List

let rec pos_of_int (i : int) : positive =
  if i = 1 then Coq_xH else if i land 1 = 1 then Coq_xI (pos_of_int (i lsr 1)) else Coq_xO (pos_of_int (i lsr 1))
let n_of_int (i : int) : coq_N = if i = 0 then N0 else Npos (pos_of_int i)
let rec int_of_pos (p : positive) : int =
  match p with Coq_xH -> 1 | Coq_xO q -> 2 * int_of_pos q | Coq_xI q -> 2 * int_of_pos q + 1
let int_of_n (x : coq_N) : int = match x with N0 -> 0 | Npos p -> int_of_pos p
let rec nat_of_int (i : int) : nat = if i = 0 then O else S (nat_of_int (i - 1))
let rec int_of_nat (x : nat) : int = match x with O -> 0 | S y -> 1 + int_of_nat y
let z_of_int (i : int) : coq_Z = if i = 0 then Z0 else if i > 0 then Zpos (pos_of_int i) else Zneg (pos_of_int (-i))
let int_of_z (x : coq_Z) : int = match x with Z0 -> 0 | Zpos p -> int_of_pos p | Zneg p -> - (int_of_pos p)

(* decimal strings for numbers beyond OCaml's int: only used for printing/parsing N as hex *)
let byte_table = Array.init 256 n_of_int
let hexval c = match c with
  | '0'..'9' -> Char.code c - 48 | 'a'..'f' -> Char.code c - 87 | 'A'..'F' -> Char.code c - 55
  | _ -> failwith "bad hex"
let unhex (s : string) : coq_N list =
  let len = String.length s / 2 in
  let rec go i acc = if i < 0 then acc else
      go (i - 1) (byte_table.(hexval s.[2*i] * 16 + hexval s.[2*i+1]) :: acc) in
  go (len - 1) []
let hx (l : coq_N list) : string =
  let b = Buffer.create 64 in
  L.iter (fun x -> Buffer.add_string b (Printf.sprintf "%02x" (int_of_n x))) l;
  Buffer.contents b

(* N <-> big hex (little-endian nibble folding), for 64-bit and larger numbers *)
let n_of_hex_be (s : string) : coq_N =
  let acc = ref N0 in
  String.iter (fun c -> acc := BinNat.N.add (BinNat.N.mul !acc (n_of_int 16)) (n_of_int (hexval c))) s; !acc

let split_on c s = String.split_on_char c s

(* decimal numbers of any size (accessory ids are uint64) *)
let n_of_dec (s : string) : coq_N =
  let ten = n_of_int 10 in
  let acc = ref N0 in
  String.iter (fun ch -> acc := BinNat.N.add (BinNat.N.mul !acc ten) (n_of_int (Char.code ch - 48))) s; !acc
let dec_of_n (x : coq_N) : string =
  let ten = n_of_int 10 in
  let rec go x acc = if x = N0 then acc else
      go (BinNat.N.div x ten) (String.make 1 (Char.chr (48 + int_of_n (BinNat.N.modulo x ten))) ^ acc) in
  if x = N0 then "0" else go x ""
