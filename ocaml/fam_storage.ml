open BinNums
open Datatypes
open HBytes
open Drv_util

let ascii (s : string) : coq_N list = L.map (fun c -> n_of_int (Char.code c)) (L.of_seq (String.to_seq s))

let run (toks : string list) : string =
  match toks with
  | "hist" :: ops ->
    let d = ref [] in
    let out = ref [] in
    L.iter (fun t ->
        match split_on ':' t with
        | ["S"; k; v] -> d := Storage.st_set true !d (unhex k) (unhex v)
        | ["G"; k] -> (match Storage.st_get !d (unhex k) with
            | Some v -> out := ("g=" ^ hx v) :: !out
            | None -> out := "g=nf" :: !out)
        | ["D"; k] -> d := Storage.st_delete !d (unhex k)
        | ["L"; s] -> let ks = L.sort compare (L.map hx (Storage.st_keys !d (unhex s))) in
          out := ("l=" ^ String.concat "," ks) :: !out
        | ["R"] -> ()
        | _ -> failwith "bad op") ops;
    String.concat " " (L.rev !out)
  | _ -> "badcase"

let run_db (toks : string list) : string =
  match toks with
  | "db" :: ops ->
    let d = ref [] in
    let out = ref [] in
    let content n p q = ascii (n ^ "." ^ p ^ "." ^ q) in
    let show v = String.concat "" (L.map (fun x -> String.make 1 (Char.chr (int_of_n x))) v) in
    L.iter (fun t ->
        match split_on ':' t with
        | ["SV"; n; p; q] -> d := Storage.st_set true !d (Storage.entity_key (unhex n)) (content n p q)
        | ["LD"; n] -> (match Storage.db_load !d (unhex n) with
            | Some v -> out := ("ld=" ^ show v) :: !out
            | None -> out := "ld=nf" :: !out)
        | ["RM"; n] -> d := Storage.st_delete !d (Storage.entity_key (unhex n))
        | ["LS"] ->
          let es = L.map (fun k -> match Storage.fs_get !d k with Some v -> show v | None -> "?") (Storage.db_list !d) in
          out := ("ls=" ^ String.concat "," (L.sort compare es)) :: !out
        | ["R"] -> ()
        | _ -> failwith "bad op") ops;
    String.concat " " (L.rev !out)
  | _ -> "badcase"

(* crash <olds> <sets> <i> : olds/sets = comma separated key:val (hex) or "-" ; the model applies the first i
   file-system operations of the Sets in [sets] to the directory holding [olds]; prints every named key *)
let run_crash (toks : string list) : string =
  match toks with
  | ["ops"; k; v] ->
    let nm = Storage.sanitize (unhex k) in
    String.concat " " (L.map (fun o -> match o with
        | Storage.OpenCreate n -> "OpenCreate:" ^ hx n
        | Storage.OpenCreateTrunc n -> "OpenCreateTrunc:" ^ hx n
        | Storage.WriteAt0 (n, v) -> "WriteAt0:" ^ hx n ^ ":" ^ hx v
        | Storage.Sync n -> "Sync:" ^ hx n
        | Storage.Close n -> "Close:" ^ hx n
        | Storage.Rename (a, b) -> "Rename:" ^ hx a ^ ":" ^ hx b
        | Storage.Remove n -> "Remove:" ^ hx n) (Storage.set_ops true nm (unhex v)))
  | "crashdb" :: olds :: sets :: i :: _ ->
    (* SaveEntity name pub: file = entity_key name; the observable is the public key; <name>:DEL = the entity is deleted *)
    let parse s = if s = "-" then [] else L.map (fun kv -> match split_on ':' kv with
        | [k; v] -> (unhex k, unhex v) | _ -> failwith "bad kv") (split_on ',' s) in
    let parsew s = if s = "-" then [] else L.map (fun kv -> match split_on ':' kv with
        | [k; "DEL"] -> Storage.WDelete (Storage.entity_key (unhex k))
        | [k; v] -> Storage.WSet (Storage.entity_key (unhex k), unhex v) | _ -> failwith "bad kv") (split_on ',' s) in
    let olds = parse olds in
    let wsets = parsew sets in
    let sets = if sets = "-" then [] else L.map (fun kv -> match split_on ':' kv with [k; _] -> (unhex k, []) | _ -> failwith "bad kv") (split_on ',' sets) in
    let ek (k, v) = (Storage.entity_key k, v) in
    let d0 = L.fold_left (fun d (k, v) -> Storage.st_set true d k v) [] (L.map ek olds) in
    let ops = Storage.writes_ops wsets in
    let rec firstn k l = if k = 0 then [] else match l with [] -> [] | x :: r -> x :: firstn (k-1) r in
    let d' = Storage.apply_ops d0 (firstn (int_of_string i) ops) in
    let names = L.sort_uniq compare (L.map (fun (k, _) -> hx k) (olds @ sets)) in
    let outs = L.map (fun k -> match Storage.db_load d' (unhex k) with
        | Some v -> k ^ "=" ^ hx v | None -> k ^ "=nf") names in
    let outs = outs @ [Printf.sprintf "list=%d" (L.length (Storage.db_list d'))] in
    String.concat " " (L.sort compare outs)
  | "crash" :: olds :: sets :: i :: rest ->
    let parse s = if s = "-" then [] else L.map (fun kv -> match split_on ':' kv with
        | [k; v] -> (unhex k, unhex v) | _ -> failwith "bad kv") (split_on ',' s) in
    let parsew s = if s = "-" then [] else L.map (fun kv -> match split_on ':' kv with
        | [k; "DEL"] -> Storage.WDelete (unhex k)
        | [k; v] -> Storage.WSet (unhex k, unhex v) | _ -> failwith "bad kv") (split_on ',' s) in
    let olds = parse olds in
    let wsets = parsew sets in
    let sets = L.map (fun w -> match w with Storage.WSet (k, v) -> (k, v) | Storage.WDelete k -> (k, [])) wsets in
    let thens = (match rest with [_; t] -> parse t | _ -> []) in
    let d0 = L.fold_left (fun d (k, v) -> Storage.st_set true d k v) [] olds in
    let ops = Storage.writes_ops wsets in
    let rec firstn k l = if k = 0 then [] else match l with [] -> [] | x :: r -> x :: firstn (k-1) r in
    let d' = Storage.apply_ops d0 (firstn (int_of_string i) ops) in
    let d' = L.fold_left (fun d (k, v) -> Storage.st_set true d k v) d' thens in
    let keys = L.sort_uniq compare (L.map (fun (k, _) -> hx k) (olds @ sets @ thens)) in
    String.concat " " (L.sort compare (L.map (fun k -> match Storage.st_get d' (unhex k) with
        | Some v -> k ^ "=" ^ hx v | None -> k ^ "=nf") keys))
  | _ -> "badcase"
