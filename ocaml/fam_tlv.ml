open BinNums
open Datatypes
open HBytes
open Drv_util

let gets c tags pfx =
  String.concat "" (L.map (fun t ->
      Printf.sprintf " %s%d=%s/%d" pfx t (hx (Tlv8.get_bytes c (n_of_int t)))
        (int_of_n (Tlv8.get_byte c (n_of_int t)))) tags)

let run (toks : string list) : string =
  match toks with
  | "sets" :: ops ->
    let tags = ref [0; 255] in
    let reads = Buffer.create 64 in
    let idx = ref (-1) in
    let c = L.fold_left (fun c t ->
        incr idx;
        if String.length t > 0 && t.[0] = '?' then begin
          let tag = int_of_string (String.sub t 1 (String.length t - 1)) in
          tags := tag :: !tags;
          Buffer.add_string reads (Printf.sprintf " q%d=%s/%d" !idx (hx (Tlv8.get_bytes c (n_of_int tag)))
                                     (int_of_n (Tlv8.get_byte c (n_of_int tag))));
          c end else
        match split_on ':' t with
        | [tg; v] ->
          let tag = int_of_string tg in
          tags := tag :: !tags;
          let v = unhex v in
          (match v with
           | [b] when tag mod 2 = 1 -> Tlv8.set_byte c (n_of_int tag) b
           | _ -> Tlv8.set_bytes c (n_of_int tag) v)
        | _ -> failwith "bad set") [] ops in
    let tags = L.sort_uniq compare !tags in
    let ser = Tlv8.serialise c in
    let out = "ser=" ^ hx ser ^ Buffer.contents reads in
    (match Tlv8.parse ser with
     | Ok c2 -> out ^ " reparse=ok" ^ gets c tags "a" ^ gets c2 tags "b"
     | Err _ -> out ^ " reparse=err"
     | Panic -> out ^ " reparse=panic"
     | OutOfFuel -> out ^ " reparse=outoffuel")
  | ["parse"; h] ->
    let inp = unhex h in
    (match Tlv8.parse inp with
     | Ok c ->
       let rec take k l = if k = 0 then [] else match l with [] -> [] | x :: r -> int_of_n x :: take (k-1) r in
       let tags = L.sort_uniq compare (0 :: 255 :: take 64 inp) in
       "parse=ok ser=" ^ hx (Tlv8.serialise c) ^ gets c tags "b"
     | Err _ -> "parse=err"
     | Panic -> "panic"
     | OutOfFuel -> "outoffuel")
  | _ -> "badcase"
