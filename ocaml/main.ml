let families : (string * (string list -> string)) list = [
  "tlv", Fam_tlv.run;
  "frame", Fam_frame.run;
  "conn", Fam_conn.run;
  "charac", Fam_charac.run;
  "stack", Fam_stack.run;
  "catalog", Fam_catalog.run;
  "ids", Fam_ids.run;
  "config", Fam_config.run;
  "tstruct", Fam_tstruct.run;
  "connw", Fam_connw.run;
  "storage", Fam_storage.run;
  "db", Fam_storage.run_db;
  "crash", Fam_storage.run_crash;
  "sess", Fam_sess.run;
  "plain", Fam_plain.run;
]

let () =
  if Array.length Sys.argv < 2 then (prerr_endline "usage: modelrun <family>"; exit 2);
  let f = try Stdlib.List.assoc Sys.argv.(1) families
    with Not_found -> (prerr_endline "unknown family"; exit 2) in
  (try
     while true do
       let line = input_line stdin in
       if line <> "" then begin
         match String.split_on_char ' ' line with
         | id :: toks -> print_string id; print_char ' '; print_endline (f toks)
         | [] -> ()
       end
     done
   with End_of_file -> ())
