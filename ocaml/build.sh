#!/bin/sh
# usage: build.sh <extract-dir> <out-binary>; compiles extracted modules + hand-written driver
set -e
cd "$1"
cp /verif/ocaml/*.ml .
ORDER=$(ocamlfind ocamldep -sort *.mli *.ml)
ocamlfind ocamlopt -w -a -o "$2" $ORDER
