#!/bin/sh
# usage: build.sh <extract-dir> <out-binary>; compiles extracted modules + hand-written driver
set -e
HERE="$(cd "$(dirname "$0")" && pwd)"
cd "$1"
cp "$HERE"/*.ml .
ORDER=$(ocamlfind ocamldep -sort *.mli *.ml)
ocamlfind ocamlopt -w -a -o "$2" $ORDER
