open BinNums
open Datatypes
open HBytes
open Drv_util

let run (toks : string list) : string =
  match toks with
  | ["cr"; shared; evs; bsizes] ->
    let s = Fam_frame.session "srv" (unhex shared) in
    let evs = if evs = "-" then [] else L.map (fun e ->
        if e = "T" then ConnRead.SockTimeout else if e = "E" then ConnRead.SockEOF
        else ConnRead.SockData (unhex (String.sub e 2 (String.length e - 2)))) (split_on ',' evs) in
    (* "w<n>" between reads: a write on the same connection, which the read path does not see *)
    let bs = L.map (fun b -> nat_of_int (int_of_string b)) (L.filter (fun b -> b <> "" && b.[0] <> 'w') (split_on ',' bsizes)) in
    let ((rs, _), _) = ConnRead.run_reads (not (try Sys.getenv "HC_MODEL_PINNED" = "1" with Not_found -> false)) Framing.cc_open s.Framing.dec_key (ConnRead.init_conn N0) bs evs in
    String.concat " " (L.map (fun r -> match r with
        | ConnRead.RData d -> "d:" ^ hx d
        | ConnRead.RTimeout -> "t"
        | ConnRead.RZero -> "z"
        | ConnRead.RErr c -> if int_of_n c = 1 then "e:eof" else "e:err"
        | ConnRead.RBlocked -> "b") rs)
  | _ -> "badcase"
