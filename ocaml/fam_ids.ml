open BinNums
open Datatypes
open HBytes
open Drv_util

let str (l : coq_N list) = String.concat "" (L.map (fun x -> String.make 1 (Char.chr (int_of_n x))) l)

let chars_of_service (name : string) : int =
  match L.find_opt (fun s -> str s.CatalogGen.sc_name = name) CatalogGen.svc_ctors with
  | Some s -> L.length (Catalog.svc_char_types s)
  | None -> failwith ("unknown service " ^ name)

let strip name =
  let name = (match String.index_opt name '~' with Some i -> String.sub name 0 i | None -> name) in
  let name = (match String.index_opt name '+' with Some i -> String.sub name 0 i | None -> name) in
  (match String.index_opt name '^' with Some i -> String.sub name 0 i | None -> name)

(* ^k: k characteristics added to the service before the accessory enters the container *)
let late name =
  match String.index_opt name '^' with
  | None -> 0
  | Some i ->
    let j = ref (i + 1) in
    while !j < String.length name && name.[!j] >= '0' && name.[!j] <= '9' do incr j done;
    int_of_string (String.sub name (i + 1) (!j - i - 1))

let run (toks : string list) : string =
  match toks with
  | ["ids"; spec] ->
    let accs = split_on ';' spec in
    let m = ref Ids.empty_container in
    let outs = ref [] and js = ref [] in
    let pos : int option list ref = ref [] in     (* per constructed object: its position among the members, if it is one *)
    L.iteri (fun ai a ->
        if String.length a > 0 && a.[0] = '-' then begin
          let k = int_of_string (String.sub a 1 (String.length a - 1)) in
          let mem = (try L.nth !pos k with _ -> None) in
          (match mem with
           | Some p ->
             m := Ids.remove_accessory !m (Some (nat_of_int p));
             pos := L.mapi (fun i x -> if i = k then None else match x with Some q when q > p -> Some (q - 1) | y -> y) !pos
           | None -> ());
          pos := !pos @ [None];
          outs := Printf.sprintf "a%d=rm" ai :: !outs
        end else
        let a = if String.length a > 0 && a.[0] = '@' then String.sub a 1 (String.length a - 1) else a in   (* encoded early: no effect on ids *)
        let (eid, svcs) = (match String.index_opt a ':' with
            | Some i -> (n_of_dec (String.sub a 0 i), String.sub a (i+1) (String.length a - i - 1))
            | None -> (n_of_dec a, "")) in
        let specs = "NewAccessoryInformation" :: (if svcs = "" then [] else split_on ',' svcs) in
        let shape = L.map (fun n -> nat_of_int (chars_of_service (strip n) + late n)) specs in
        let before = L.length !m.Ids.c_accs in
        let (m', ok) = Ids.add_accessory !m eid shape in
        m := m';
        if not ok then (pos := !pos @ [None]; outs := Printf.sprintf "a%d=rej" ai :: !outs)
        else begin
          pos := !pos @ [Some before];
          let (aid, _) = L.nth !m.Ids.c_accs before in
          let ids = String.concat "," (L.map (fun x -> string_of_int (int_of_n x)) (Ids.instance_ids shape)) in
          outs := Printf.sprintf "a%d=%s:%s" ai (dec_of_n aid) ids :: !outs
        end) accs;
    ignore js;
    let final = L.map (fun (aid, shape) -> Printf.sprintf "%s:%s" (dec_of_n aid)
                          (String.concat "," (L.map (fun x -> string_of_int (int_of_n x)) (Ids.instance_ids shape)))) !m.Ids.c_accs in
    String.concat " " (L.rev !outs) ^ " json=" ^ String.concat ";" final ^ " wf=ok"
  | _ -> "badcase"
