From HC Require Import Base.HBytes Model.Charac Model.Hap.
From Coq Require Import ZifyBool ZifyNat ZifyN.
Open Scope N_scope.

Lemma get_set_conn_same l c v : get_conn (set_conn l c v) c = Some v.
Proof.
  induction l as [|[k x] l IH]; cbn [set_conn get_conn].
  - rewrite N.eqb_refl. reflexivity.
  - destruct (k =? c) eqn:E; cbn [get_conn]; rewrite E; [reflexivity|exact IH].
Qed.
Lemma get_set_conn_other l c d v : c <> d -> get_conn (set_conn l c v) d = get_conn l d.
Proof.
  intros H. induction l as [|[k x] l IH]; cbn [set_conn get_conn].
  - destruct (c =? d) eqn:E; [apply N.eqb_eq in E; contradiction|reflexivity].
  - destruct (k =? c) eqn:E; cbn [get_conn].
    + apply N.eqb_eq in E. subst k. destruct (c =? d) eqn:E2; [apply N.eqb_eq in E2; contradiction|reflexivity].
    + destruct (k =? d); [reflexivity|exact IH].
Qed.
Lemma set_conn_same l c v : get_conn l c = Some v -> set_conn l c v = l.
Proof.
  induction l as [|[k x] l IH]; cbn [set_conn get_conn]; [discriminate|].
  destruct (k =? c) eqn:E; [intros H; injection H as ->; reflexivity|intros H; rewrite IH; auto].
Qed.

Definition unverified_conn (cn : hconn) : Prop := hc_crypt cn = false /\ hc_next cn = false.

(** ---- C01: an unverified connection is refused every protected operation, with no effect ---- *)
Lemma protected_refused w c cn t e :
  get_conn (conns w) c = Some cn -> hc_open cn = true -> unverified_conn cn ->
  protected fixed e = true ->
  let '(w', r) := step fixed w (OReq c t e) in
  (r = RRefused470 \/ r = RHttp400Closed) /\
  store w' = store w /\ chars w' = chars w /\ outbox w' = outbox w /\ cblog w' = cblog w /\
  (forall d, d <> c -> get_conn (conns w') d = get_conn (conns w) d) /\
  (forall cn', get_conn (conns w') c = Some cn' -> unverified_conn cn' /\ hc_subs cn' = (if hc_open cn' then hc_subs cn else [])).
Proof.
  intros Hg Ho [Hc Hn] Hp. cbn [step]. rewrite Hg, Ho. cbn [negb].
  rewrite Hc, Hn. cbn [orb].
  destruct t; cbn [negb].
  - (* plaintext: refused by Authenticate *)
    rewrite Hp. cbn [andb negb k_auth_requires_crypt fixed]. cbn [hc_crypt negb andb].
    split; [left; reflexivity|]. unfold upd_conn. cbn [store chars outbox cblog conns].
    repeat split; auto.
    + intros d Hd. apply get_set_conn_other. congruence.
    + rewrite get_set_conn_same in H. injection H as <-. cbn. auto.
    + rewrite get_set_conn_same in H. injection H as <-. cbn. auto.
    + rewrite get_set_conn_same in H. injection H as <-. cbn. reflexivity.
  - (* ciphertext on a plaintext connection *)
    cbn [hc_crypt]. split; [right; reflexivity|].
    unfold close_conn, upd_conn. cbn [conns]. rewrite get_set_conn_same. cbn [store chars outbox cblog conns].
    repeat split; auto.
    + intros d Hd. rewrite !get_set_conn_other by congruence. reflexivity.
    + rewrite get_set_conn_same in H. injection H as <-. cbn. auto.
    + rewrite get_set_conn_same in H. injection H as <-. cbn. auto.
    + rewrite get_set_conn_same in H. injection H as <-. cbn. reflexivity.
  - cbn [hc_crypt]. split; [right; reflexivity|].
    unfold close_conn, upd_conn. cbn [conns]. rewrite get_set_conn_same. cbn [store chars outbox cblog conns].
    repeat split; auto.
    + intros d Hd. rewrite !get_set_conn_other by congruence. reflexivity.
    + rewrite get_set_conn_same in H. injection H as <-. cbn. auto.
    + rewrite get_set_conn_same in H. injection H as <-. cbn. auto.
    + rewrite get_set_conn_same in H. injection H as <-. cbn. reflexivity.
Qed.

(** ---- what the characteristic handlers can touch ---- *)
Lemma apply_update_frame w i v o chk :
  conns (apply_update w i v o chk) = conns w /\ store (apply_update w i v o chk) = store w.
Proof.
  unfold apply_update. destruct (get_char (chars w) i) as [ch|]; [|auto].
  destruct (update true ch v o chk) as [[ch' cbs]| | |]; auto.
  set (w1 := mkWorld (store w) (conns w) (set_char (chars w) i ch') (outbox w) (cblog w)).
  assert (H : conns w1 = conns w /\ store w1 = store w) by (split; reflexivity).
  clearbody w1. revert w1 H. induction cbs as [|cb cbs IH]; intros w1 H; cbn [fold_left]; [exact H|].
  apply IH. cbn [conns store]. exact H.
Qed.

Definition flags (cn : hconn) := (hc_open cn, hc_crypt cn, hc_next cn, hc_ps cn, hc_pv cn, hc_pv_keyed cn).

Lemma do_put_frame : forall ws w c,
  let '(w', _) := do_put w c ws in
  store w' = store w /\
  forall k, option_map flags (get_conn (conns w') k) = option_map flags (get_conn (conns w) k).
Proof.
  induction ws as [|[[i v] ev] ws IH]; intros w c; cbn [do_put]; [auto|].
  destruct (get_char (chars w) i) as [ch|]; [|apply IH].
  set (w1 := match v with Some VNil => w | Some x => apply_update w i x (Remote c) true | None => w end).
  assert (H1 : conns w1 = conns w /\ store w1 = store w).
  { unfold w1. destruct v as [[]|]; auto; apply apply_update_frame. }
  destruct H1 as [Hc1 Hs1].
  destruct ev as [e|].
  - destruct (observable_ch ch); cbn [negb].
    + destruct (get_conn (conns w1) c) as [cn|] eqn:Eg.
      * match goal with |- context [do_put ?W c ws] => specialize (IH W c); destruct (do_put W c ws) as [w2 errs] end.
        destruct IH as [Hs Hf]. cbn [store conns] in *. split; [congruence|].
        intros k. rewrite Hf. rewrite <- Hc1.
        destruct (N.eq_dec c k) as [->|Hne].
        -- rewrite get_set_conn_same, Eg. reflexivity.
        -- rewrite get_set_conn_other by exact Hne. reflexivity.
      * specialize (IH w1 c). destruct (do_put w1 c ws) as [w2 errs]. destruct IH as [Hs Hf].
        split; [congruence|]. intros k. rewrite Hf, Hc1. reflexivity.
    + specialize (IH w1 c). destruct (do_put w1 c ws) as [w2 errs]. destruct IH as [Hs Hf].
      split; [congruence|]. intros k. rewrite Hf, Hc1. reflexivity.
  - specialize (IH w1 c). destruct (do_put w1 c ws) as [w2 errs]. destruct IH as [Hs Hf].
    split; [congruence|]. intros k. rewrite Hf, Hc1. reflexivity.
Qed.

Definition verified_flags (f : bool * bool * bool * psstate * N * bool) : bool :=
  let '(o, c, n, _, _, _) := f in (o && (c || n))%bool.
Lemma verified_flags_eq w c : verified w c = match option_map flags (get_conn (conns w) c) with Some f => verified_flags f | None => false end.
Proof. unfold verified. destruct (get_conn (conns w) c); reflexivity. Qed.

(** ---- C03 / C01: a connection becomes verified only by a genuine finish ---- *)
Definition genuine_finish (w : world) (o : op) (c : connid) : Prop :=
  exists t n cn, o = OReq c t (EPairVerify (PVFinish true false true n SGenuine)) /\
    get_conn (conns w) c = Some cn /\ hc_pv cn = 2 /\ store_get (store w) n <> None.

Lemma pv_install_genuine step keyed stor m :
  let '(_, _, install, _) := pv_handle fixed step keyed stor m in
  install = true -> exists n, m = PVFinish true false true n SGenuine /\ step = 2 /\ store_get stor n <> None.
Proof.
  destruct m as [l|so sh wf n s| |]; cbn [pv_handle]; try discriminate.
  - destruct (negb (step =? 0)); [discriminate|]. destruct l; discriminate.
  - destruct (step =? 2) eqn:Es; cbn [negb]; [|discriminate]. apply N.eqb_eq in Es.
    destruct sh; cbn; [discriminate|]. destruct so; cbn [negb]; [|discriminate].
    destruct wf; cbn [negb]; [|discriminate].
    destruct (store_get stor n) as [[|kp]|] eqn:Eg; try discriminate. destruct s; cbn; [|discriminate].
    intros _. exists n. repeat split; auto. congruence.
Qed.

Lemma verified_close w d c : verified (close_conn w d) c = true -> d <> c /\ verified w c = true.
Proof.
  unfold close_conn. destruct (get_conn (conns w) d) as [cn|] eqn:Eg.
  - unfold verified. cbn [conns]. destruct (N.eq_dec d c) as [->|Hne].
    + rewrite get_set_conn_same. cbn. discriminate.
    + rewrite get_set_conn_other by exact Hne. auto.
  - intros H. split; [|exact H]. intros ->. unfold verified in H. rewrite Eg in H. discriminate.
Qed.

Lemma verified_step w o c :
  verified (fst (step fixed w o)) c = true -> verified w c = true \/ genuine_finish w o c.
Proof.
  destruct o as [d|d|d t e|i v]; cbn [step fst].
  - (* connect *) unfold verified, upd_conn. cbn [conns].
    destruct (N.eq_dec d c) as [->|Hne].
    + rewrite get_set_conn_same. cbn. discriminate.
    + rewrite get_set_conn_other by exact Hne. auto.
  - (* close *) unfold close_conn. destruct (get_conn (conns w) d) as [cn|] eqn:Eg; [|auto].
    unfold verified. cbn [conns]. destruct (N.eq_dec d c) as [->|Hne].
    + rewrite get_set_conn_same. cbn. discriminate.
    + rewrite get_set_conn_other by exact Hne. auto.
  - destruct (get_conn (conns w) d) as [cn0|] eqn:Eg; [|auto].
    destruct (hc_open cn0) eqn:Eo; cbn [negb fst]; [|auto].
    set (cn := mkConn true (hc_crypt cn0 || hc_next cn0) false (hc_ps cn0) (hc_pv cn0) (hc_pv_keyed cn0) (hc_subs cn0)).
    set (w1 := upd_conn w d cn).
    assert (Hv1 : forall k, verified w1 k = verified w k).
    { intros k. unfold verified, w1, upd_conn. cbn [conns]. destruct (N.eq_dec d k) as [->|Hne].
      - rewrite get_set_conn_same, Eg. unfold cn. cbn. rewrite Eo. destruct (hc_crypt cn0), (hc_next cn0); reflexivity.
      - rewrite get_set_conn_other by exact Hne. reflexivity. }
    destruct (match hc_crypt cn with true => match t with TSession => true | _ => false end
                                   | false => match t with TPlain => true | _ => false end end) eqn:Er.
    2:{ cbn [negb fst]. intros H. apply verified_close in H. destruct H as [_ H]. rewrite Hv1 in H. auto. }
    cbn [negb].
    destruct (protected fixed e && negb (hc_crypt cn) && k_auth_requires_crypt fixed)%bool; cbn [fst].
    { rewrite Hv1. auto. }
    destruct e; cbn [fst]; try (rewrite Hv1; auto; fail).
    + destruct wellformed; cbn [fst]; rewrite Hv1; auto.
    + (* PUT *)
      pose proof (do_put_frame writes w1 d) as Hf. destruct (do_put w1 d writes) as [w2 errs]. cbn [fst].
      destruct Hf as [_ Hf]. rewrite verified_flags_eq, Hf, <- verified_flags_eq, Hv1. auto.
    + unfold verified. cbn [conns]. fold (verified w1 c). rewrite Hv1. auto.
    + unfold verified. cbn [conns]. fold (verified w1 c). rewrite Hv1. auto.
    + (* pair-setup never touches the session *)
      destruct (ps_handle fixed (hc_ps cn) (store w1) m) as [[ps' st'] r]. cbn [fst].
      unfold verified. cbn [conns]. destruct (N.eq_dec d c) as [->|Hne].
      * rewrite get_set_conn_same. cbn [hc_open hc_crypt hc_next]. unfold cn. cbn [hc_crypt].
        intros H. left. unfold verified. rewrite Eg, Eo. rewrite orb_false_r in H. exact H.
      * rewrite get_set_conn_other by exact Hne. fold (verified w1 c). rewrite Hv1. auto.
    + (* pair-verify *)
      pose proof (pv_install_genuine (hc_pv cn) (hc_pv_keyed cn) (store w1) m) as Hi.
      destruct (pv_handle fixed (hc_pv cn) (hc_pv_keyed cn) (store w1) m) as [[[pv' keyed'] install] r]. cbn [fst].
      unfold verified, upd_conn. cbn [conns]. destruct (N.eq_dec d c) as [->|Hne].
      * rewrite get_set_conn_same. cbn [hc_open hc_crypt hc_next]. unfold cn. cbn [hc_crypt].
        destruct install.
        -- intros _. right. destruct (Hi eq_refl) as (n & -> & Hs & Hst).
           exists t, n, cn0. repeat split; auto.
        -- intros H. left. unfold verified. rewrite Eg, Eo. rewrite orb_false_r in H. exact H.
      * rewrite get_set_conn_other by exact Hne. fold (verified w1 c). rewrite Hv1. auto.
  - (* local set *)
    unfold verified. rewrite (proj1 (apply_update_frame w i v Local false)). auto.
Qed.

(** ---- C02: the pairing store changes only by a genuine key exchange or by /pairings of a
        verified connection ---- *)
Definition genuine_keyexch (w : world) (o : op) : Prop :=
  exists c t n pk cn, o = OReq c t (EPairSetup (PSKeyExch KSession (IGenuine n pk) false)) /\
    get_conn (conns w) c = Some cn /\ ps_step (hc_ps cn) = 4 /\ ps_key (hc_ps cn) = ESrp.
Definition admin_pairings (w : world) (o : op) : Prop :=
  exists c t e cn, o = OReq c t e /\ (exists n pk, e = EPairingsAdd n pk \/ e = EPairingsRemove n) /\
    get_conn (conns w) c = Some cn /\ (hc_crypt cn || hc_next cn)%bool = true.

Lemma ps_store_change st stor m :
  let '(_, stor', _) := ps_handle fixed st stor m in
  stor' <> stor -> exists n pk, m = PSKeyExch KSession (IGenuine n pk) false /\ ps_step st = 4 /\ ps_key st = ESrp
                   \/ (m = PSKeyExch KZero (IGenuine n pk) false /\ ps_step st = 4 /\ ps_key st = EZero).
Proof.
  destruct m as [|a p|sk inner short| |]; cbn [ps_handle]; try congruence.
  - destruct (ps_step st =? 0); congruence.
  - destruct (negb (ps_step st =? 2)); [congruence|]. destruct a; [destruct p|..]; cbn; congruence.
  - destruct (ps_step st =? 4) eqn:Es; cbn [negb]; [|congruence]. apply N.eqb_eq in Es.
    destruct short; cbn; [congruence|].
    destruct sk, (ps_key st) eqn:Ek, inner; cbn; try congruence; intros _; eauto 10.
Qed.

(** invariant of the repaired controller: in step 4 (proof accepted) the encryption key is the SRP
    session key.  (False of the pinned code: A = 0 left step 4 with the zero key.) *)
Definition ps_inv (st : psstate) : Prop := ps_step st = 4 -> ps_key st = ESrp.

Lemma ps_handle_inv st stor m : ps_inv st -> ps_inv (fst (fst (ps_handle fixed st stor m))).
Proof.
  unfold ps_inv. intros Hi. destruct m as [|a p|sk inner short| |]; cbn [ps_handle].
  - destruct (ps_step st =? 0); cbn; discriminate.
  - destruct (negb (ps_step st =? 2)); cbn; [discriminate|]. destruct a; [destruct p|..]; cbn; try discriminate. auto.
  - destruct (ps_step st =? 4) eqn:Es; cbn [negb]; [|cbn; discriminate].
    destruct short; cbn; [discriminate|].
    destruct sk, (ps_key st), inner; cbn; discriminate.
  - exact Hi.
  - exact Hi.
Qed.

(** without a right setup-code proof the controller never reaches step 4 *)
Lemma ps_handle_no_proof st stor m :
  m <> PSVerify AValid PRight -> ps_step st <> 4 -> ps_step (fst (fst (ps_handle fixed st stor m))) <> 4.
Proof.
  intros Hm Hs. destruct m as [|a p|sk inner short| |]; cbn [ps_handle]; try exact Hs.
  - destruct (ps_step st =? 0); cbn; discriminate.
  - destruct (negb (ps_step st =? 2)); cbn; [discriminate|]. destruct a; [destruct p|..]; cbn; try discriminate. congruence.
  - destruct (ps_step st =? 4) eqn:Es; cbn [negb]; [apply N.eqb_eq in Es; contradiction|cbn; discriminate].
Qed.

Lemma ps_store_change_inv st stor m : ps_inv st ->
  snd (fst (ps_handle fixed st stor m)) <> stor ->
  exists n pk, m = PSKeyExch KSession (IGenuine n pk) false /\ ps_step st = 4 /\ ps_key st = ESrp.
Proof.
  intros Hi. pose proof (ps_store_change st stor m) as H.
  destruct (ps_handle fixed st stor m) as [[st' stor'] r]. cbn [fst snd]. intros Hne.
  destruct (H Hne) as (n & pk & [Hg|(Hm & Hs & Hk)]); [eauto|].
  specialize (Hi Hs). congruence.
Qed.

Definition world_ps_inv (w : world) : Prop := forall c cn, get_conn (conns w) c = Some cn -> ps_inv (hc_ps cn).

Lemma ps_inv_new : ps_inv (hc_ps new_conn).
Proof. unfold ps_inv. cbn. discriminate. Qed.

Lemma flags_ps w w' : (forall k, option_map flags (get_conn (conns w') k) = option_map flags (get_conn (conns w) k)) ->
  world_ps_inv w -> world_ps_inv w'.
Proof.
  intros Hf Hi c cn Hg. specialize (Hf c). rewrite Hg in Hf. cbn in Hf.
  destruct (get_conn (conns w) c) as [cn0|] eqn:E; [|discriminate]. cbn in Hf.
  specialize (Hi c cn0 E). unfold flags in Hf. injection Hf as _ _ _ Hps _ _. rewrite Hps. exact Hi.
Qed.

Lemma step_ps_inv w o : world_ps_inv w -> world_ps_inv (fst (step fixed w o)).
Proof.
  intros Hi. destruct o as [d|d|d t e|i v]; cbn [step fst].
  - intros c cn. unfold upd_conn. cbn [conns]. destruct (N.eq_dec d c) as [->|Hne].
    + rewrite get_set_conn_same. intros H; injection H as <-. apply ps_inv_new.
    + rewrite get_set_conn_other by exact Hne. apply Hi.
  - unfold close_conn. destruct (get_conn (conns w) d) as [cn0|] eqn:Eg; [|exact Hi].
    intros c cn. cbn [conns]. destruct (N.eq_dec d c) as [->|Hne].
    + rewrite get_set_conn_same. intros H; injection H as <-. cbn [hc_ps]. apply (Hi c cn0 Eg).
    + rewrite get_set_conn_other by exact Hne. apply Hi.
  - destruct (get_conn (conns w) d) as [cn0|] eqn:Eg; [|exact Hi].
    destruct (hc_open cn0); cbn [negb fst]; [|exact Hi].
    set (cn := mkConn true (hc_crypt cn0 || hc_next cn0) false (hc_ps cn0) (hc_pv cn0) (hc_pv_keyed cn0) (hc_subs cn0)).
    set (w1 := upd_conn w d cn).
    assert (Hi1 : world_ps_inv w1).
    { intros c cn'. unfold w1, upd_conn. cbn [conns]. destruct (N.eq_dec d c) as [->|Hne].
      - rewrite get_set_conn_same. intros H; injection H as <-. cbn [hc_ps]. apply (Hi c cn0 Eg).
      - rewrite get_set_conn_other by exact Hne. apply Hi. }
    assert (Hcl : world_ps_inv (close_conn w1 d)).
    { unfold close_conn. destruct (get_conn (conns w1) d) as [cn1|] eqn:Eg1; [|exact Hi1].
      intros c cn'. cbn [conns]. destruct (N.eq_dec d c) as [->|Hne].
      - rewrite get_set_conn_same. intros H; injection H as <-. cbn [hc_ps]. apply (Hi1 c cn1 Eg1).
      - rewrite get_set_conn_other by exact Hne. apply Hi1. }
    destruct (negb _); cbn [fst]; [exact Hcl|].
    destruct (protected fixed e && negb (hc_crypt cn) && k_auth_requires_crypt fixed)%bool; cbn [fst]; [exact Hi1|].
    destruct e; cbn [fst]; try exact Hi1.
    + destruct wellformed; exact Hi1.
    + pose proof (do_put_frame writes w1 d) as Hf. destruct (do_put w1 d writes) as [w2 errs]. cbn [fst].
      eapply flags_ps; [exact (proj2 Hf)|exact Hi1].
    + pose proof (ps_handle_inv (hc_ps cn) (store w1) m) as Hp.
      destruct (ps_handle fixed (hc_ps cn) (store w1) m) as [[ps' st'] r]. cbn [fst].
      intros c cn'. cbn [conns]. destruct (N.eq_dec d c) as [->|Hne].
      * rewrite get_set_conn_same. intros H; injection H as <-. cbn [hc_ps fst] in *. apply Hp. apply (Hi c cn0 Eg).
      * rewrite get_set_conn_other by exact Hne. apply Hi1.
    + destruct (pv_handle fixed (hc_pv cn) (hc_pv_keyed cn) (store w1) m) as [[[pv' keyed'] install] r]. cbn [fst].
      intros c cn'. unfold upd_conn. cbn [conns]. destruct (N.eq_dec d c) as [->|Hne].
      * rewrite get_set_conn_same. intros H; injection H as <-. cbn [hc_ps]. apply (Hi c cn0 Eg).
      * rewrite get_set_conn_other by exact Hne. apply Hi1.
  - eapply flags_ps; [|exact Hi]. intros k. rewrite (proj1 (apply_update_frame w i v Local false)). reflexivity.
Qed.

Ltac nochange := let H := fresh "Hnc" in intros H; exfalso; apply H; cbn; (reflexivity || congruence).

Lemma store_step w o : world_ps_inv w ->
  store (fst (step fixed w o)) <> store w -> genuine_keyexch w o \/ admin_pairings w o.
Proof.
  intros Hi. destruct o as [d|d|d t e|i v]; cbn [step fst].
  - nochange.
  - unfold close_conn. destruct (get_conn (conns w) d); nochange.
  - destruct (get_conn (conns w) d) as [cn0|] eqn:Eg; [|nochange].
    destruct (hc_open cn0); cbn [negb fst]; [|nochange].
    set (cn := mkConn true (hc_crypt cn0 || hc_next cn0) false (hc_ps cn0) (hc_pv cn0) (hc_pv_keyed cn0) (hc_subs cn0)).
    set (w1 := upd_conn w d cn).
    assert (Hs1 : store w1 = store w) by reflexivity.
    assert (Hcl : store (close_conn w1 d) = store w).
    { unfold close_conn. destruct (get_conn (conns w1) d); reflexivity. }
    destruct (negb _); cbn [fst]; [nochange|].
    destruct (protected fixed e && negb (hc_crypt cn) && k_auth_requires_crypt fixed)%bool eqn:Ep; cbn [fst]; [nochange|].
    destruct e; cbn [fst]; try nochange.
    + destruct wellformed; nochange.
    + pose proof (do_put_frame writes w1 d) as Hf. destruct (do_put w1 d writes) as [w2 errs]. cbn [fst].
      destruct Hf as [Hf _]. nochange.
    + intros _. right. exists d, t, (EPairingsAdd n pk), cn0. split; [reflexivity|]. split; [eauto|]. split; [exact Eg|].
      cbn in Ep. unfold cn in Ep. cbn in Ep. destruct (hc_crypt cn0 || hc_next cn0)%bool; [reflexivity|discriminate].
    + intros _. right. exists d, t, (EPairingsRemove n), cn0. split; [reflexivity|]. split; [exists n, 0; auto|]. split; [exact Eg|].
      cbn in Ep. unfold cn in Ep. cbn in Ep. destruct (hc_crypt cn0 || hc_next cn0)%bool; [reflexivity|discriminate].
    + pose proof (ps_store_change_inv (hc_ps cn) (store w1) m (Hi d cn0 Eg)) as Hc.
      destruct (ps_handle fixed (hc_ps cn) (store w1) m) as [[ps' st'] r]. cbn [fst snd store] in *.
      intros Hne. left. destruct (Hc Hne) as (n & pk & -> & H4 & Hk). exists d, t, n, pk, cn0. auto.
    + destruct (pv_handle fixed (hc_pv cn) (hc_pv_keyed cn) (store w1) m) as [[[pv' keyed'] install] r]. nochange.
  - rewrite (proj2 (apply_update_frame w i v Local false)). nochange.
Qed.

(** ---- C13: no handler panics; recovery ---- *)
Lemma ps_no_panic st stor m : snd (ps_handle fixed st stor m) <> RPanic.
Proof.
  destruct m as [|a p|sk inner short| |]; cbn [ps_handle]; try discriminate.
  - destruct (ps_step st =? 0); discriminate.
  - destruct (negb (ps_step st =? 2)); [discriminate|]. destruct a; [destruct p|..]; discriminate.
  - destruct (negb (ps_step st =? 4)); [discriminate|]. destruct short; cbn; [discriminate|].
    destruct sk, (ps_key st), inner; cbn; discriminate.
Qed.
Lemma pv_no_panic step keyed stor m : snd (pv_handle fixed step keyed stor m) <> RPanic.
Proof.
  destruct m as [l|so sh wf n s| |]; cbn [pv_handle]; try discriminate.
  - destruct (negb (step =? 0)); [discriminate|]. destruct l; discriminate.
  - destruct (negb (step =? 2)); [discriminate|]. destruct sh; cbn; [discriminate|].
    destruct so; cbn; [|discriminate]. destruct wf; cbn; [|discriminate].
    destruct (store_get stor n) as [[|kp]|]; try discriminate. destruct s; discriminate.
Qed.

Lemma step_no_panic w o : snd (step fixed w o) <> RPanic.
Proof.
  destruct o as [d|d|d t e|i v]; cbn [step snd]; try discriminate.
  destruct (get_conn (conns w) d) as [cn0|]; [|discriminate].
  destruct (hc_open cn0); cbn [negb]; [|discriminate].
  destruct (negb _); cbn [snd]; [destruct (hc_crypt _); discriminate|].
  destruct (protected fixed e && _ && _)%bool; [discriminate|].
  destruct e; cbn [snd]; try discriminate.
  - destruct wellformed; [|discriminate]. unfold do_get. destruct (existsb _ _); discriminate.
  - destruct (do_put _ d writes) as [w2 [|x errs]]; discriminate.
  - pose proof (ps_no_panic (hc_ps (mkConn true (hc_crypt cn0 || hc_next cn0) false (hc_ps cn0) (hc_pv cn0) (hc_pv_keyed cn0) (hc_subs cn0)))
                             (store (upd_conn w d (mkConn true (hc_crypt cn0 || hc_next cn0) false (hc_ps cn0) (hc_pv cn0) (hc_pv_keyed cn0) (hc_subs cn0)))) m) as H.
    destruct (ps_handle fixed _ _ m) as [[ps' st'] r]. exact H.
  - pose proof (pv_no_panic (hc_pv cn0) (hc_pv_keyed cn0)
                             (store (upd_conn w d (mkConn true (hc_crypt cn0 || hc_next cn0) false (hc_ps cn0) (hc_pv cn0) (hc_pv_keyed cn0) (hc_subs cn0)))) m) as H.
    cbn [hc_pv hc_pv_keyed]. destruct (pv_handle fixed _ _ _ m) as [[[pv' k'] ins] r]. exact H.
Qed.

(** after at most one rejected start request the same connection accepts a correct handshake *)
Lemma ps_recovers st stor n pk :
  let st1 := fst (fst (ps_handle fixed st stor PSStart)) in
  let st2 := if ps_step st =? 0 then st1 else fst (fst (ps_handle fixed st1 stor PSStart)) in
  ps_step st2 = 2 /\
  let '(st3, _, r3) := ps_handle fixed st2 stor (PSVerify AValid PRight) in
  r3 = RTlv 4 None /\
  let '(_, stor', r4) := ps_handle fixed st3 stor (PSKeyExch KSession (IGenuine n pk) false) in
  r4 = RTlv 6 None /\ stor' = store_put stor n pk.
Proof.
  cbn zeta. cbn [ps_handle]. destruct (ps_step st =? 0) eqn:E; cbn [fst ps_step ps_key N.eqb negb]; repeat split; reflexivity.
Qed.

Lemma eqb_bytes_refl' a : eqb_bytes a a = true.
Proof. unfold eqb_bytes. rewrite Nat.eqb_refl. cbn. induction a as [|x a IH]; [reflexivity|]. cbn. rewrite N.eqb_refl. exact IH. Qed.

Lemma pv_recovers step keyed stor n pk : store_get stor n = Some (N.pos pk) ->
  let s1 := fst (fst (fst (pv_handle fixed step keyed stor (PVStart true)))) in
  let '(s2, k2, _, _) := if step =? 0 then pv_handle fixed step keyed stor (PVStart true)
                         else pv_handle fixed s1 keyed stor (PVStart true) in
  s2 = 2 /\ k2 = true /\
  pv_handle fixed s2 k2 stor (PVFinish true false true n SGenuine) = (0, true, true, RTlv 4 None).
Proof.
  intros Hs. cbn zeta. cbn [pv_handle]. destruct (step =? 0) eqn:E; cbn [negb fst N.eqb]; rewrite Hs; repeat split; reflexivity.
Qed.

(** ---- C10: fan-out ---- *)
Lemma notify_spec w i v origin k j v' :
  In (k, j, v') (notify w i v origin) <->
  j = i /\ v' = v /\ exists cn, In (k, cn) (conns w) /\ hc_open cn = true /\
    (match origin with Some o => k <> o | None => True end) /\ existsb (cid_eqb i) (hc_subs cn) = true.
Proof.
  unfold notify. rewrite in_flat_map. split.
  - intros [[k0 cn] [Hin H]].
    destruct (hc_open cn && negb (match origin with Some o => k0 =? o | None => false end) && existsb (cid_eqb i) (hc_subs cn))%bool eqn:E; [|destruct H].
    destruct H as [H|[]]. injection H as <- <- <-.
    apply andb_true_iff in E. destruct E as [E E3]. apply andb_true_iff in E. destruct E as [E1 E2].
    repeat split; auto. exists cn. repeat split; auto.
    destruct origin as [o|]; [|exact I]. apply negb_true_iff, N.eqb_neq in E2. exact E2.
  - intros (-> & -> & cn & Hin & Ho & Hor & Hs). exists (k, cn). split; [exact Hin|].
    rewrite Ho, Hs. destruct origin as [o|]; cbn.
    + apply N.eqb_neq in Hor. rewrite Hor. cbn. left. reflexivity.
    + left. reflexivity.
Qed.

Lemma notify_at_most_once w i v origin :
  NoDup (map fst (conns w)) -> NoDup (map (fun e => fst (fst e)) (notify w i v origin)).
Proof.
  unfold notify. induction (conns w) as [|[k cn] l IH]; cbn [map flat_map]; intros Hn; [constructor|].
  inversion Hn as [|? ? Hnotin Hn']; subst.
  destruct (hc_open cn && _ && _)%bool; cbn [app map fst]; [|apply IH; exact Hn'].
  constructor; [|apply IH; exact Hn'].
  intros Hin. apply Hnotin. apply in_map_iff in Hin. destruct Hin as [[[k' j] v'] [Hk Hin]]. cbn in Hk. subst k'.
  apply in_flat_map in Hin. destruct Hin as [[k2 cn2] [Hin2 H]].
  destruct (hc_open cn2 && _ && _)%bool; [|destruct H]. destruct H as [H|[]]. injection H as -> _ _.
  apply in_map_iff. exists (k, cn2). auto.
Qed.

(** no event, no callback, no change when the written value equals the stored one, when the
    characteristic is not writable (remote), or when the value cannot be represented *)
Lemma apply_update_silent w i v o chk ch :
  get_char (chars w) i = Some ch -> update true ch v o chk = Ok (ch, []) ->
  outbox (apply_update w i v o chk) = outbox w /\ cblog (apply_update w i v o chk) = cblog w.
Proof. intros Hg Hu. unfold apply_update. rewrite Hg, Hu. cbn. auto. Qed.

(** ---- C11 over HTTP: subscribing to a characteristic without event permission ---- *)
Lemma put_event_refused w c i ch e :
  get_char (chars w) i = Some ch -> p_event ch = false ->
  do_put w c [(i, None, Some e)] = (w, [(i, None, Some (-70406)%Z)]).
Proof. intros Hg Hp. cbn [do_put]. rewrite Hg. unfold observable_ch. rewrite Hp. cbn. reflexivity. Qed.

(** ---- C09: shape of a GET /characteristics answer ---- *)
Lemma do_get_shape w ids :
  match do_get fixed w ids with
  | RChars status entries =>
      map (fun e => fst (fst e)) entries = ids /\
      Forall (fun e => match get_char (chars w) (fst (fst e)) with
                       | Some ch => snd (fst e) = cvalue ch /\ (status = 207 -> snd e = Some 0%Z) /\ (status = 200 -> snd e = None)
                       | None => snd (fst e) = None /\ snd e = Some (-70402)%Z end) entries /\
      (status = 207 <-> exists i, In i ids /\ get_char (chars w) i = None) /\
      (status = 200 \/ status = 207) /\
      (status = 207 -> Forall (fun e => snd e <> None) entries)
  | _ => False
  end.
Proof.
  unfold do_get.
  set (entries := map (fun i => match get_char (chars w) i with Some ch => (i, cvalue ch, None) | None => (i, None, Some (-70402)%Z) end) ids).
  assert (Hids : map (fun e => fst (fst e)) entries = ids).
  { unfold entries. rewrite map_map. transitivity (map (fun i => i) ids); [apply map_ext; intros i; destruct (get_char (chars w) i); reflexivity|apply map_id]. }
  destruct (existsb (fun i => match get_char (chars w) i with None => true | _ => false end) ids) eqn:Em.
  - cbn [k_multistatus_complete fixed].
    set (entries' := map _ entries).
    assert (Hids' : map (fun e => fst (fst e)) entries' = ids).
    { unfold entries'. rewrite map_map. rewrite <- Hids. apply map_ext. intros [[i v] [s|]]; reflexivity. }
    split; [exact Hids'|]. split; [|split; [|split; [right; reflexivity|]]].
    + unfold entries', entries. rewrite map_map. apply Forall_map. apply Forall_forall. intros i _.
      destruct (get_char (chars w) i) eqn:Eg; cbn [fst snd]; rewrite Eg; repeat split; auto. discriminate.
    + split; [intros _|reflexivity]. apply existsb_exists in Em. destruct Em as [i [Hin Hm]]. exists i. split; [exact Hin|].
      destruct (get_char (chars w) i); [discriminate|reflexivity].
    + intros _. unfold entries', entries. rewrite map_map. apply Forall_map. apply Forall_forall. intros i _.
      destruct (get_char (chars w) i); cbn; discriminate.
  - split; [exact Hids|]. split; [|split; [|split; [left; reflexivity|discriminate]]].
    + unfold entries. apply Forall_map. apply Forall_forall. intros i Hin.
      destruct (get_char (chars w) i) eqn:Eg; cbn [fst snd]; rewrite Eg.
      * repeat split; auto. discriminate.
      * exfalso. assert (existsb (fun i => match get_char (chars w) i with None => true | _ => false end) ids = true).
        { apply existsb_exists. exists i. rewrite Eg. auto. } congruence.
    + split; [discriminate|]. intros [i [Hin Hg]]. exfalso.
      assert (existsb (fun i => match get_char (chars w) i with None => true | _ => false end) ids = true).
      { apply existsb_exists. exists i. rewrite Hg. auto. } congruence.
Qed.

(** ---- connections do not interfere: a request on d leaves the session state of c <> d alone ---- *)
Lemma step_other_conn w d t e c : c <> d ->
  option_map flags (get_conn (conns (fst (step fixed w (OReq d t e)))) c) = option_map flags (get_conn (conns w) c).
Proof.
  intros Hne. assert (Hne' : d <> c) by congruence. cbn [step].
  destruct (get_conn (conns w) d) as [cn0|] eqn:Eg; [|reflexivity].
  destruct (hc_open cn0); cbn [negb fst]; [|reflexivity].
  set (cn := mkConn true (hc_crypt cn0 || hc_next cn0) false (hc_ps cn0) (hc_pv cn0) (hc_pv_keyed cn0) (hc_subs cn0)).
  set (w1 := upd_conn w d cn).
  assert (H1 : get_conn (conns w1) c = get_conn (conns w) c).
  { unfold w1, upd_conn. cbn [conns]. apply get_set_conn_other. exact Hne'. }
  assert (Hcl : get_conn (conns (close_conn w1 d)) c = get_conn (conns w) c).
  { unfold close_conn. destruct (get_conn (conns w1) d); [|exact H1]. cbn [conns]. rewrite get_set_conn_other by exact Hne'. exact H1. }
  destruct (negb _); cbn [fst]; [rewrite Hcl; reflexivity|].
  destruct (protected fixed e && _ && _)%bool; cbn [fst]; [rewrite H1; reflexivity|].
  destruct e; cbn [fst]; try (rewrite H1; reflexivity).
  - destruct wellformed; cbn [fst]; rewrite H1; reflexivity.
  - pose proof (do_put_frame writes w1 d) as Hf. destruct (do_put w1 d writes) as [w2 errs]. cbn [fst].
    rewrite (proj2 Hf c), H1. reflexivity.
  - cbn [conns]. rewrite H1. reflexivity.
  - cbn [conns]. rewrite H1. reflexivity.
  - destruct (ps_handle fixed (hc_ps cn) (store w1) m) as [[ps' st'] r]. cbn [fst conns].
    rewrite get_set_conn_other by exact Hne'. rewrite H1. reflexivity.
  - destruct (pv_handle fixed (hc_pv cn) (hc_pv_keyed cn) (store w1) m) as [[[pv' k'] ins] r]. cbn [fst].
    unfold upd_conn. cbn [conns]. rewrite get_set_conn_other by exact Hne'. rewrite H1. reflexivity.
Qed.

(** ---- a peer without the setup code and without a paired long-term key, on connection c ---- *)
Definition adv_on (c : connid) (o : op) : Prop :=
  match o with
  | OReq d _ (EPairSetup (PSVerify AValid PRight)) => d <> c           (* cannot prove knowledge of the setup code *)
  | OReq d _ (EPairVerify (PVFinish _ _ _ _ SGenuine)) => d <> c       (* cannot sign with a paired long-term key *)
  | _ => True
  end.
Definition unv (w : world) (c : connid) : Prop :=
  verified w c = false /\ forall cn, get_conn (conns w) c = Some cn -> ps_step (hc_ps cn) <> 4.

Lemma adv_step w o c : unv w c -> adv_on c o -> unv (fst (step fixed w o)) c.
Proof.
  intros [Hv Hs] Ha. split.
  - destruct (verified (fst (step fixed w o)) c) eqn:E; [|reflexivity].
    destruct (verified_step w o c E) as [H|(t & n & cn & -> & _)]; [congruence|].
    cbn in Ha. congruence.
  - destruct o as [d|d|d t e|i v].
    + cbn [step fst]. unfold upd_conn. cbn [conns]. intros cn. destruct (N.eq_dec d c) as [->|Hne].
      * rewrite get_set_conn_same. intros H; injection H as <-. cbn. discriminate.
      * rewrite get_set_conn_other by exact Hne. apply Hs.
    + cbn [step fst]. unfold close_conn. destruct (get_conn (conns w) d) as [cn0|] eqn:Eg; [|exact Hs].
      cbn [conns]. intros cn. destruct (N.eq_dec d c) as [->|Hne].
      * rewrite get_set_conn_same. intros H; injection H as <-. cbn [hc_ps]. apply (Hs cn0 Eg).
      * rewrite get_set_conn_other by exact Hne. apply Hs.
    + destruct (N.eq_dec c d) as [->|Hne].
      2:{ intros cn Hg. pose proof (step_other_conn w d t e c Hne) as Hf. rewrite Hg in Hf. cbn in Hf.
          destruct (get_conn (conns w) c) as [cn1|] eqn:E1; [|discriminate]. cbn in Hf. unfold flags in Hf.
          injection Hf as _ _ _ Hps _ _. rewrite Hps. apply (Hs cn1 eq_refl). }
      cbn [step]. destruct (get_conn (conns w) d) as [cn0|] eqn:Eg; [|cbn [fst]; rewrite Eg; discriminate].
      specialize (Hs cn0 eq_refl).
      destruct (hc_open cn0); cbn [negb fst]; [|intros cn; rewrite Eg; intros H; injection H as <-; exact Hs].
      set (cn := mkConn true (hc_crypt cn0 || hc_next cn0) false (hc_ps cn0) (hc_pv cn0) (hc_pv_keyed cn0) (hc_subs cn0)).
      set (w1 := upd_conn w d cn).
      assert (H1 : forall cn', get_conn (conns w1) d = Some cn' -> ps_step (hc_ps cn') <> 4).
      { unfold w1, upd_conn. cbn [conns]. rewrite get_set_conn_same. intros cn' H; injection H as <-. exact Hs. }
      assert (Hcl : forall cn', get_conn (conns (close_conn w1 d)) d = Some cn' -> ps_step (hc_ps cn') <> 4).
      { unfold close_conn. unfold w1 at 1. unfold upd_conn at 1. cbn [conns]. rewrite get_set_conn_same. cbn [conns].
        rewrite get_set_conn_same. intros cn' H; injection H as <-. exact Hs. }
      destruct (negb _); cbn [fst]; [exact Hcl|].
      destruct (protected fixed e && _ && _)%bool; cbn [fst]; [exact H1|].
      destruct e; cbn [fst]; try exact H1.
      * destruct wellformed; exact H1.
      * pose proof (do_put_frame writes w1 d) as Hf. destruct (do_put w1 d writes) as [w2 errs]. cbn [fst].
        intros cn' Hg. pose proof (proj2 Hf d) as Hfd. rewrite Hg in Hfd. unfold w1 at 1 in Hfd. unfold upd_conn in Hfd. cbn [conns] in Hfd.
        rewrite get_set_conn_same in Hfd. cbn in Hfd. unfold flags in Hfd. injection Hfd as _ _ _ Hps _ _. rewrite Hps. exact Hs.
      * pose proof (ps_handle_no_proof (hc_ps cn) (store w1) m) as Hp.
        destruct (ps_handle fixed (hc_ps cn) (store w1) m) as [[ps' st'] r]. cbn [fst conns] in *.
        rewrite get_set_conn_same. intros cn' H; injection H as <-. cbn [hc_ps]. apply Hp; [|exact Hs].
        intros ->. cbn in Ha. congruence.
      * destruct (pv_handle fixed (hc_pv cn) (hc_pv_keyed cn) (store w1) m) as [[[pv' k'] ins] r]. cbn [fst].
        unfold upd_conn. cbn [conns]. rewrite get_set_conn_same. intros cn' H; injection H as <-. exact Hs.
    + cbn [step fst]. rewrite (proj1 (apply_update_frame w i v Local false)). exact Hs.
Qed.

Lemma adv_run : forall ops w c, unv w c -> Forall (adv_on c) ops -> unv (fst (run fixed w ops)) c.
Proof.
  induction ops as [|o ops IH]; intros w c Hu Ha; cbn [run]; [exact Hu|].
  inversion Ha; subst.
  pose proof (adv_step w o c Hu H1) as H. destruct (step fixed w o) as [w1 x]. cbn [fst] in H.
  specialize (IH w1 c H H2). destruct (run fixed w1 ops) as [w2 xs]. exact IH.
Qed.

(** adversary-only histories (no connection ever proves the setup code or signs with a paired key)
    never change the pairing store *)
Definition adv_all (o : op) : Prop := forall c, adv_on c o.

Lemma adv_store : forall ops w, (forall c, unv w c) -> world_ps_inv w -> Forall adv_all ops ->
  store (fst (run fixed w ops)) = store w.
Proof.
  induction ops as [|o ops IH]; intros w Hu Hi Ha; cbn [run]; [reflexivity|].
  inversion Ha as [|? ? Ho Hops]; subst.
  assert (Hst : store (fst (step fixed w o)) = store w).
  { assert (Hdec : forall a b : name * N, {a = b} + {a <> b}) by (decide equality; [apply N.eq_dec|apply (list_eq_dec N.eq_dec)]).
    destruct (list_eq_dec Hdec (store (fst (step fixed w o))) (store w)) as [E|E]; [exact E|].
    exfalso. destruct (store_step w o Hi E) as [(c & t & n & pk & cn & -> & Hg & H4 & _)|(c & t & e & cn & -> & _ & Hg & Hv)].
    - destruct (Hu c) as [_ Hs]. apply (Hs cn Hg). exact H4.
    - destruct (Hu c) as [Hvf _]. unfold verified in Hvf. rewrite Hg in Hvf.
      destruct (hc_open cn) eqn:Eo; [cbn in Hvf; congruence|].
      (* a closed connection: the request is answered RNoConn and nothing changes *)
      apply E. cbn [step]. rewrite Hg, Eo. reflexivity. }
  pose proof (fun c => adv_step w o c (Hu c) (Ho c)) as Hu1.
  pose proof (step_ps_inv w o Hi) as Hi1.
  destruct (step fixed w o) as [w1 x]. cbn [fst] in *.
  specialize (IH w1 Hu1 Hi1 Hops). destruct (run fixed w1 ops) as [w2 xs]. cbn [fst] in *. congruence.
Qed.

Lemma empty_world_ok cs : (forall c, unv (empty_world cs) c) /\ world_ps_inv (empty_world cs).
Proof. split; [intros c; split; [reflexivity|cbn; discriminate]|intros c cn; cbn; discriminate]. Qed.

(** ---- pinned behaviours, refuted by computation ---- *)
Definition demo_chars : list (cid * charac) :=
  [((2, 9), mkChar FBool true true true (Some (VBool false)) BNone BNone false);
   ((4, 13), mkChar FString true true false (Some (VStr [67;65;78;65;82;89] 0 0 false)) BNone BNone false)].

Lemma pinned_plaintext_served :
  snd (run (mkKnobs true true false true true true) (empty_world demo_chars) [OConnect 1; OReq 1 TPlain EAccessories])
  = [RNoContent; RAccessories [((2, 9), VBool false); ((4, 13), VStr [67;65;78;65;82;89] 0 0 false)]].
Proof. vm_compute. reflexivity. Qed.

Lemma pinned_pairings_unprotected :
  store (fst (run (mkKnobs true true true false true true) (empty_world demo_chars) [OConnect 1; OReq 1 TPlain (EPairingsAdd [105] 66)]))
  = [([105], 66)].
Proof. vm_compute. reflexivity. Qed.

Lemma pinned_zero_key_stores :
  let ops := [OConnect 1; OReq 1 TPlain (EPairSetup PSStart); OReq 1 TPlain (EPairSetup (PSVerify AZeroModN PRight));
              OReq 1 TPlain (EPairSetup (PSKeyExch KZero (IGenuine [105] 66) false))] in
  Forall adv_all ops /\
  store (fst (run (mkKnobs false true true true true true) (empty_world demo_chars) ops)) = [([105], 66)] /\
  store (fst (run fixed (empty_world demo_chars) ops)) = [].
Proof.
  cbn zeta. split; [|split; vm_compute; reflexivity].
  repeat constructor; intros c; cbn; auto.
Qed.

Lemma pinned_bad_signature_verifies :
  let w0 := mkWorld [([99], 7)] [] demo_chars [] [] in
  let ops := [OConnect 1; OReq 1 TPlain (EPairVerify (PVStart true)); OReq 1 TPlain (EPairVerify (PVFinish true false true [99] SInvalid))] in
  Forall adv_all ops /\
  verified (fst (run (mkKnobs true false true true true true) w0 ops)) 1 = true /\
  verified (fst (run fixed w0 ops)) 1 = false.
Proof.
  cbn zeta. split; [|split; vm_compute; reflexivity].
  repeat constructor; intros c; cbn; auto.
Qed.

Lemma pinned_panics :
  snd (ps_handle (mkKnobs true true true true false true) (mkPS 4 ESrp) [] (PSKeyExch KSession ITampered false)) = RPanic /\
  snd (ps_handle (mkKnobs true true true true false true) (mkPS 4 ESrp) [] (PSKeyExch KSession IMalformed true)) = RPanic /\
  snd (pv_handle (mkKnobs true true true true false true) 2 true [] (PVFinish false false true [] SInvalid)) = RPanic.
Proof. repeat split. Qed.

Lemma pinned_multistatus_incomplete :
  do_get (mkKnobs true true true true true false) (empty_world demo_chars) [(2, 9); (2, 99)] =
  RChars 207 [((2, 9), Some (VBool false), None); ((2, 99), None, Some (-70402)%Z)].
Proof. vm_compute. reflexivity. Qed.

(** non-vacuity: an honest controller pairs, verifies, reads, subscribes; another connection's write is notified *)
Lemma hap_nonvacuous :
  let ops := [OConnect 1;
              OReq 1 TPlain (EPairSetup PSStart); OReq 1 TPlain (EPairSetup (PSVerify AValid PRight));
              OReq 1 TPlain (EPairSetup (PSKeyExch KSession (IGenuine [99] 7) false));
              OReq 1 TPlain (EPairVerify (PVStart true)); OReq 1 TPlain (EPairVerify (PVFinish true false true [99] SGenuine));
              OReq 1 TSession (ECharsPut [((2, 9), None, Some (EvBool true))]);
              OConnect 2; OReq 2 TPlain (ECharsGet [(2, 9)] true);
              OLocalSet (2, 9) (VBool true);
              OReq 1 TSession (ECharsGet [(2, 9); (7, 7)] true)] in
  let '(w, rs) := run fixed (empty_world demo_chars) ops in
  store w = [([99], 7)] /\ verified w 1 = true /\ verified w 2 = false /\
  outbox w = [(1, (2, 9), VBool true)] /\
  nth 8 rs RPanic = RRefused470 /\
  nth 10 rs RPanic = RChars 207 [((2, 9), Some (VBool true), Some 0%Z); ((7, 7), None, Some (-70402)%Z)].
Proof. vm_compute. repeat split; reflexivity. Qed.

(** ---- C04: a correct controller always gets through, from any world, on a fresh connection ---- *)
Lemma store_get_put s n k : store_get (store_put s n k) n = Some k.
Proof. unfold store_put. cbn [store_get]. rewrite eqb_bytes_refl'. reflexivity. Qed.

Ltac symstep := cbn [run step]; unfold upd_conn; cbn [conns]; rewrite ?get_set_conn_same; cbn.

Lemma honest_run w c n p :
  let pk := N.pos p in
  let ops := [OConnect c;
              OReq c TPlain (EPairSetup PSStart); OReq c TPlain (EPairSetup (PSVerify AValid PRight));
              OReq c TPlain (EPairSetup (PSKeyExch KSession (IGenuine n pk) false));
              OReq c TPlain (EPairVerify (PVStart true)); OReq c TPlain (EPairVerify (PVFinish true false true n SGenuine));
              OReq c TSession EAccessories] in
  let '(w', rs) := run fixed w ops in
  rs = [RNoContent; RTlv 2 None; RTlv 4 None; RTlv 6 None; RTlv 2 None; RTlv 4 None; RAccessories (db_of w)] /\
  store w' = store_put (store w) n pk /\ verified w' c = true /\ chars w' = chars w.
Proof.
  cbn zeta. do 8 (symstep; rewrite ?get_set_conn_same; rewrite ?eqb_bytes_refl').
  unfold verified, db_of. cbn. rewrite ?get_set_conn_same. cbn. auto.
Qed.

(** a wrong setup code is answered with authentication error 2 and stores nothing *)
Lemma wrong_code_run w c n pk :
  let ops := [OConnect c; OReq c TPlain (EPairSetup PSStart); OReq c TPlain (EPairSetup (PSVerify AValid PWrong));
              OReq c TPlain (EPairSetup (PSKeyExch KOther (IGenuine n pk) false))] in
  let '(w', rs) := run fixed w ops in
  rs = [RNoContent; RTlv 2 None; RTlv 4 (Some 2); RHttp500] /\ store w' = store w.
Proof.
  cbn zeta. do 5 (symstep; rewrite ?get_set_conn_same). auto.
Qed.

(** ---- C11: what an event tells a subscriber ---- *)
Lemma get_set_char_same : forall l i ch v, get_char l i = Some ch -> get_char (set_char l i v) i = Some v.
Proof.
  induction l as [|[k x] l IH]; intros i ch v H; cbn [get_char set_char] in *; [discriminate|].
  destruct (cid_eqb k i) eqn:E; cbn [get_char]; rewrite E; [reflexivity|]. eapply IH. exact H.
Qed.

(** every event an update adds to the outbox is about the updated characteristic and carries the
    value that is STORED after the update (nil when nothing is stored) *)
Lemma fold_events (i : cid) (val : gval) (base : list (connid * cid * gval)) : forall (cbs : list callback) w1,
  (forall e, In e (outbox w1) -> In e base \/ (snd (fst e) = i /\ snd e = val)) ->
  forall e, In e (outbox (fold_left (fun w cb =>
        mkWorld (store w) (conns w) (chars w)
                (outbox w ++ notify w i val (match cb_origin cb with Remote k => Some k | Local => None end))
                (match cb_origin cb with Remote _ => cblog w ++ [(i, cb_new cb)] | Local => cblog w end)) cbs w1)) ->
  In e base \/ (snd (fst e) = i /\ snd e = val).
Proof.
  induction cbs as [|cb cbs IH]; intros w1 Hob e; cbn [fold_left]; [apply Hob|].
  apply IH. cbn [outbox]. intros e0 Hin. apply in_app_or in Hin. destruct Hin as [Hin|Hin]; [apply Hob; exact Hin|].
  right. destruct e0 as [[k j] v0]. apply notify_spec in Hin. destruct Hin as (-> & -> & _). split; reflexivity.
Qed.

Lemma apply_update_event_value w i v o chk e :
  In e (outbox (apply_update w i v o chk)) ->
  In e (outbox w) \/
  (snd (fst e) = i /\ exists ch ch' cbs, get_char (chars w) i = Some ch /\ update true ch v o chk = Ok (ch', cbs) /\
                     snd e = match cvalue ch' with Some x => x | None => VNil end).
Proof.
  unfold apply_update. destruct (get_char (chars w) i) as [ch|] eqn:Hg; [|auto].
  destruct (update true ch v o chk) as [[ch' cbs]| | |] eqn:Hu; auto.
  intros Hin. apply (fold_events i (match cvalue ch' with Some x => x | None => VNil end) (outbox w)) in Hin.
  - destruct Hin as [H|[H1 H2]]; [left; exact H|]. right. split; [exact H1|]. exists ch, ch', cbs. auto.
  - cbn [outbox]. intros e0 H. left. exact H.
Qed.

Lemma update_unreadable strict c v o chk c' cbs :
  p_read c = false -> update strict c v o chk = Ok (c', cbs) -> cvalue c' = cvalue c.
Proof.
  intros Hp. unfold update. destruct (convert strict (format c) v); [|intros H; injection H as <- _; reflexivity].
  destruct (iface_eq (cvalue c) (clamp c g)) as [b|]; [|discriminate].
  destruct (b && negb (upd_same c))%bool; [intros H; injection H as <- _; reflexivity|].
  destruct (chk && negb (p_write c))%bool; [intros H; injection H as <- _; reflexivity|].
  intros H. injection H as <- _. cbn [cvalue]. rewrite Hp. reflexivity.
Qed.

(** C11: whatever is written to (or set on) a characteristic without read permission, the events that
    tell its subscribers about the change carry no value *)
Lemma event_never_reveals_unreadable w i v o chk ch e :
  get_char (chars w) i = Some ch -> p_read ch = false -> cvalue ch = None ->
  In e (outbox (apply_update w i v o chk)) -> In e (outbox w) \/ (snd (fst e) = i /\ snd e = VNil).
Proof.
  intros Hg Hp Hv Hin. destruct (apply_update_event_value w i v o chk e Hin) as [H|(Hi & ch0 & ch' & cbs & Hg0 & Hu & Hval)]; [left; exact H|].
  right. split; [exact Hi|]. rewrite Hg in Hg0. injection Hg0 as <-.
  rewrite (update_unreadable true ch v o chk ch' cbs Hp Hu), Hv in Hval. exact Hval.
Qed.

(** a subscription entry for a characteristic without event permission is answered with -70406 wherever
    it stands in a write of several entries, and what follows it is processed as if it were not there *)
Lemma put_event_refused_any w c i ch e rest :
  get_char (chars w) i = Some ch -> p_event ch = false ->
  do_put w c ((i, None, Some e) :: rest) = (fst (do_put w c rest), (i, None, Some (-70406)%Z) :: snd (do_put w c rest)).
Proof.
  intros Hg Hp. cbn [do_put]. rewrite Hg. unfold observable_ch. rewrite Hp. cbn [negb].
  destruct (do_put w c rest); reflexivity.
Qed.
