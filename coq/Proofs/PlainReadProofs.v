(** Proofs about Model/PlainRead.v, for EVERY byte stream, every oracle, every schedule of arrivals, reads, accepted
    pair-verify requests and finished responses. *)
From HC Require Import Base.HBytes Model.PlainFrame Model.PlainRead.
From Coq Require Import List Bool Arith NArith Lia.
Import ListNotations.
Open Scope N_scope.

Definition secure (c : cst) : bool := c_pending c || c_enc c.

(** everything that came from the network, in order: handed over in plain text, or kept as the beginning of the
    encrypted stream, or still buffered / on its way *)
Definition accounted (w : world) : bytes :=
  w_delivered w ++ c_received (w_c w) ++ c_plain (w_c w) ++ w_sock w ++ w_future w.

Ltac fin :=
  cbn [c_closed c_enc c_pending c_plain c_received c_resp c_p negb orb andb fst snd app];
  repeat match goal with |- _ /\ _ => split end; intros;
  repeat match goal with |- _ /\ _ => split end;
  repeat match goal with
         | H : c_resp _ = true, H2 : at_boundary _ = true, Hw : (at_boundary _ && c_resp _) = false |- _ =>
           rewrite H, H2 in Hw; discriminate Hw
         end;
  try discriminate; try congruence; try tauto;
  try (repeat split; congruence);
  try (match goal with Hpl : c_plain _ = _ |- _ => rewrite ?Hpl end; cbn [app]; reflexivity);
  try (rewrite <- ?app_assoc; cbn [app];
       match goal with Hps : _ ++ _ = _ :: _ |- _ => rewrite ?Hps end; reflexivity);
  try (rewrite <- ?app_assoc; reflexivity);
  try (rewrite ?app_assoc; rewrite firstn_skipn; rewrite <- ?app_assoc;
       try match goal with Hps : _ ++ _ = _ :: _ |- _ => rewrite ?Hps end; reflexivity);
  try (match goal with H1 : c_resp _ = true, H2 : at_boundary _ = true |- _ => rewrite ?H1, ?H2 end; cbn; auto);
  auto using orb_true_r.

Lemma cread_cases c sock max orc :
  let '(r, c', sock', orc') := cread c sock max orc in
  (* bytes *)
  (c_closed c' = false ->
     match r with
     | PHand d => c_received c' = c_received c /\ d ++ c_plain c' ++ sock' = c_plain c ++ sock
     | _ => c_received c' ++ c_plain c' ++ sock' = c_received c ++ c_plain c ++ sock
     end) /\
  (c_received c = [] -> (c_pending c' || c_enc c') = false -> c_received c' = []) /\
  (* no plain text once a secure session is pending or there *)
  (secure c = true -> (match r with PHand _ => False | _ => True end) /\ secure c' = true) /\
  (* nothing of the next message while a request is being handled *)
  (c_resp c = true -> at_boundary (c_p c) = true ->
     (match r with PHand _ => False | _ => True end) /\ c_p c' = c_p c /\ c_resp c' = true) /\
  (c_closed c = true -> c' = c /\ r = PClosed).
Proof.
  unfold cread, secure.
  destruct (c_closed c) eqn:Hcl; [fin|].
  destruct (c_enc c) eqn:Henc; [fin|].
  destruct (c_plain c) as [|x pl] eqn:Hpl.
  - destruct max as [|max']; [fin|]. destruct sock as [|y sk]; [fin|].
    cbv iota beta.
    remember (firstn (S max') (y :: sk)) as plain eqn:Eplain.
    remember (skipn (S max') (y :: sk)) as sock' eqn:Esock.
    assert (Hps : plain ++ sock' = y :: sk) by (subst; apply firstn_skipn).
    destruct (c_pending c) eqn:Hp.
    + destruct (ps_unframed (c_p c)); fin.
    + destruct (at_boundary (c_p c) && c_resp c) eqn:Hw; [fin|].
      destruct (pm_bytes (c_p c) plain (S max') orc) as [[n p'] orc'] eqn:Hpm. fin.
  - cbv iota beta. remember (x :: pl) as plain eqn:Eplain.
    destruct (c_pending c) eqn:Hp.
    + destruct (ps_unframed (c_p c)); fin.
    + destruct (at_boundary (c_p c) && c_resp c) eqn:Hw; [fin|].
      destruct (pm_bytes (c_p c) plain max orc) as [[n p'] orc'] eqn:Hpm. fin.
Qed.

Definition Wok (stream : bytes) (w : world) : Prop :=
  (c_closed (w_c w) = false -> accounted w = stream) /\
  (secure (w_c w) = false -> c_received (w_c w) = []).

Lemma wstep_ok stream w e : Wok stream w -> Wok stream (wstep w e).
Proof.
  intros [Hacc Hrec]. destruct e as [k|max| |]; unfold wstep.
  - split; cbn [w_c w_sock w_future w_delivered]; [|exact Hrec].
    intros Hc. rewrite <- (Hacc Hc). unfold accounted. cbn [w_c w_sock w_future w_delivered].
    rewrite <- !app_assoc, firstn_skipn. reflexivity.
  - pose proof (cread_cases (w_c w) (w_sock w) max (w_orc w)) as H.
    destruct (cread (w_c w) (w_sock w) max (w_orc w)) as [[[r c'] sock'] orc'].
    destruct H as (Hb & Hr & Hs & _ & Hcl).
    assert (Hsec' : secure c' = false -> secure (w_c w) = false).
    { intros H'. destruct (secure (w_c w)) eqn:E; [|reflexivity]. destruct (Hs eq_refl) as [_ H2]. congruence. }
    split; cbn [w_c w_sock w_future w_delivered].
    + intros Hc'. assert (Hc : c_closed (w_c w) = false).
      { destruct (c_closed (w_c w)) eqn:E; [|reflexivity]. destruct (Hcl eq_refl) as [-> _]. congruence. }
      rewrite <- (Hacc Hc). specialize (Hb Hc'). unfold accounted. cbn [w_c w_sock w_future w_delivered].
      destruct r as [d| | | |].
      * destruct Hb as [Hb1 Hb2].
        assert (Hns : secure (w_c w) = false).
        { destruct (secure (w_c w)) eqn:E; [|reflexivity]. destruct (Hs eq_refl) as [F _]. destruct F. }
        rewrite Hb1, (Hrec Hns). cbn [app]. rewrite <- app_assoc. f_equal.
        rewrite !app_assoc. f_equal. rewrite <- !app_assoc. exact Hb2.
      * f_equal. rewrite !app_assoc. f_equal. rewrite <- !app_assoc. exact Hb.
      * f_equal. rewrite !app_assoc. f_equal. rewrite <- !app_assoc. exact Hb.
      * f_equal. rewrite !app_assoc. f_equal. rewrite <- !app_assoc. exact Hb.
      * f_equal. rewrite !app_assoc. f_equal. rewrite <- !app_assoc. exact Hb.
    + intros H'. apply Hr; [apply Hrec, Hsec', H' | exact H'].
  - split; cbn [w_c w_sock w_future w_delivered c_closed c_received].
    + exact Hacc.
    + unfold secure; cbn. discriminate.
  - split; cbn [w_c w_sock w_future w_delivered c_closed c_received]; [exact Hacc | exact Hrec].
Qed.

(** Nothing is lost, duplicated or reordered on the way into the secure session: at every moment of every run what
    came from the network is, in order, what was handed over in plain text, then what is kept as the beginning of
    the encrypted stream, then what is buffered, then what has not been read. *)
Theorem every_byte_accounted_for stream orc evs :
  let w := wrun stream orc evs in
  c_closed (w_c w) = false -> accounted w = stream.
Proof.
  assert (H : Wok stream (wrun stream orc evs)).
  { unfold wrun. generalize (winit stream orc), (conj (fun _ => eq_refl) (fun _ => eq_refl) : Wok stream (winit stream orc)).
    induction evs as [|e evs IH]; intros w Hw; cbn [fold_left]; [exact Hw|]. apply IH, wstep_ok, Hw. }
  exact (proj1 H).
Qed.

Lemma wstep_secure w e : secure (w_c w) = true ->
  secure (w_c (wstep w e)) = true /\ w_delivered (wstep w e) = w_delivered w.
Proof.
  intros Hs. destruct e as [k|max| |]; unfold wstep.
  - split; [exact Hs | reflexivity].
  - pose proof (cread_cases (w_c w) (w_sock w) max (w_orc w)) as H.
    destruct (cread (w_c w) (w_sock w) max (w_orc w)) as [[[r c'] sock'] orc'].
    destruct H as (_ & _ & H & _). destruct (H Hs) as [H1 H2]. cbn [w_c w_delivered]. split; [exact H2|].
    destruct r; [destruct H1 | | | |]; reflexivity.
  - split; [unfold secure; cbn; reflexivity | reflexivity].
  - split; [exact Hs | reflexivity].
Qed.

(** Once the pair-verify handler has accepted a request — the secure session is pending or in use — nothing is handed
    over in plain text any more, whatever arrives and whatever else happens. *)
Theorem no_plain_text_after_the_finish w evs : secure (w_c w) = true ->
  w_delivered (fold_left wstep evs w) = w_delivered w.
Proof.
  revert w. induction evs as [|e evs IH]; intros w Hs; cbn [fold_left]; [reflexivity|].
  destruct (wstep_secure w e Hs) as [H1 H2]. rewrite (IH _ H1). exact H2.
Qed.

Definition handling (c : cst) : bool := c_resp c && at_boundary (c_p c).

Lemma wstep_handling w e : e <> EDone -> handling (w_c w) = true ->
  handling (w_c (wstep w e)) = true /\ w_delivered (wstep w e) = w_delivered w.
Proof.
  intros Hne Hh. unfold handling in *. apply andb_true_iff in Hh. destruct Hh as [Hr Hb].
  destruct e as [k|max| |]; unfold wstep; [| | |congruence].
  - cbn. rewrite Hr, Hb. auto.
  - pose proof (cread_cases (w_c w) (w_sock w) max (w_orc w)) as H.
    destruct (cread (w_c w) (w_sock w) max (w_orc w)) as [[[r c'] sock'] orc'].
    destruct H as (_ & _ & _ & H & _). destruct (H Hr Hb) as (H1 & H2 & H3). cbn [w_c w_delivered].
    rewrite H2, H3, Hb. split; [reflexivity|]. destruct r; [destruct H1 | | | |]; reflexivity.
  - cbn. rewrite Hr, Hb. auto.
Qed.

(** While a request is being handled and all of it has been handed over, no byte of what follows it is handed over
    — not to the byte net/http reads ahead in the background either — until the response is written. *)
Theorem nothing_handed_over_while_handling w evs : Forall (fun e => e <> EDone) evs -> handling (w_c w) = true ->
  w_delivered (fold_left wstep evs w) = w_delivered w.
Proof.
  revert w. induction evs as [|e evs IH]; intros w Hf Hh; cbn [fold_left]; [reflexivity|].
  inversion Hf as [|x l Hne Hrest]; subst.
  destruct (wstep_handling w e Hne Hh) as [H1 H2]. rewrite (IH _ Hrest H1). exact H2.
Qed.
