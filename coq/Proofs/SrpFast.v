(** The SRP model executed: a fast modular exponentiation (Bignums over native 63-bit integers,
    square and multiply) proved equal to [b ^ e mod n], so that what the correspondence run
    evaluates under vm_compute is the very function the theorems of Proofs/SrpProofs.v speak about.
    This file is the only one of the development that depends on the standard library's axioms
    for primitive integers (Uint63.*_spec); no theorem of Properties/ depends on it. *)
From Coq Require Import ZArith Zpow_facts List Lia.
From Bignums Require Import BigZ.
From HC Require Import Base.HBytes Base.Sha512 Model.Srp Proofs.SrpProofs.
Import ListNotations.
Open Scope Z_scope.

Fixpoint mexp_pos (b : bigZ) (e : positive) (n : bigZ) : bigZ :=
  match e with
  | xH => BigZ.modulo b n
  | xO e' => let r := mexp_pos b e' n in BigZ.modulo (BigZ.mul r r) n
  | xI e' => let r := mexp_pos b e' n in BigZ.modulo (BigZ.mul (BigZ.modulo (BigZ.mul r r) n) b) n
  end.
Definition mexp_fast (b e n : Z) : Z :=
  match e with
  | Zpos p => BigZ.to_Z (mexp_pos (BigZ.of_Z b) p (BigZ.of_Z n))
  | _ => b ^ e mod n
  end.

Lemma sq_mul_mod r b n : ((r mod n * (r mod n)) mod n * b) mod n = (r * r * b) mod n.
Proof. rewrite <- Zmult_mod. rewrite Zmult_mod_idemp_l. reflexivity. Qed.

Lemma mexp_pos_spec b n : forall e, BigZ.to_Z (mexp_pos b e n) = BigZ.to_Z b ^ Zpos e mod BigZ.to_Z n.
Proof.
  induction e as [e IH|e IH|]; cbn [mexp_pos].
  - rewrite BigZ.spec_modulo, BigZ.spec_mul, BigZ.spec_modulo, BigZ.spec_mul, IH.
    rewrite Pos2Z.inj_xI, Z.pow_add_r, Z.pow_twice_r, Z.pow_1_r by lia.
    apply sq_mul_mod.
  - rewrite BigZ.spec_modulo, BigZ.spec_mul, IH.
    rewrite Pos2Z.inj_xO, Z.pow_twice_r. rewrite <- Zmult_mod. reflexivity.
  - rewrite BigZ.spec_modulo, Z.pow_1_r. reflexivity.
Qed.

Theorem mexp_fast_spec b e n : mexp_fast b e n = mexp_spec b e n.
Proof.
  unfold mexp_fast, mexp_spec. destruct e as [|p|p]; try reflexivity.
  rewrite mexp_pos_spec, !BigZ.spec_of_Z. reflexivity.
Qed.

(** hence everything computed with the fast version is what the specification version denotes *)
Lemma client_fast G user pin a salt Bb :
  client mexp_fast G user pin a salt Bb = client mexp_spec G user pin a salt Bb.
Proof. unfold client, client_S. rewrite !mexp_fast_spec. reflexivity. Qed.
Print Assumptions client_fast.
