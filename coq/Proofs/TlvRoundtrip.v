(** Round trip of the struct TLV8 codec: Unmarshal (Marshal v) = v (repaired tree). *)
From HC Require Import Base.HBytes Base.HBytesProofs Model.TlvStruct Proofs.TlvStructProofs.
From Coq Require Import ZifyBool ZifyNat ZifyN.
Open Scope N_scope.

Notation K := fixed_knobs.

(** ** 1. the raw items of an encoding *)
Definition itm := (N * bytes)%type.
Definition flat (l : list itm) : bytes := concat (map (fun p => item (fst p) (snd p)) l).
Definition short (p : itm) : Prop := (length (snd p) <= 255)%nat.

Lemma items_fuel_enough : forall f1 f2 b, (length b < f1)%nat -> (length b < f2)%nat -> items_fuel f1 b = items_fuel f2 b.
Proof.
  induction f1 as [|f1 IH]; intros f2 b H1 H2; [lia|]. destruct f2 as [|f2]; [lia|]. cbn [items_fuel].
  destruct b as [|t [|n rest]]; try reflexivity.
  destruct (length rest <? N.to_nat n)%nat eqn:E; [reflexivity|].
  rewrite (IH f2); [reflexivity| |]; rewrite skipn_length; cbn [length] in *; lia.
Qed.

Lemma items_fuel_step f t n rest : items_fuel (S f) (t :: n :: rest) =
  if (length rest <? N.to_nat n)%nat then RErr (match rest with [] => EEof | _ => EOther end)
  else match items_fuel f (skipn (N.to_nat n) rest) with
       | ROk l => ROk ((t, firstn (N.to_nat n) rest) :: l)
       | RErr e => RErr e
       end.
Proof. reflexivity. Qed.

Lemma items_cons t v rest : (length v <= 255)%nat ->
  items (item t v ++ rest) = match items rest with ROk l => ROk ((t, v) :: l) | RErr e => RErr e end.
Proof.
  intros Hv. unfold items, item. change ((t :: N.of_nat (length v) :: v) ++ rest) with (t :: N.of_nat (length v) :: (v ++ rest)).
  rewrite items_fuel_step.
  assert (En : N.to_nat (N.of_nat (length v)) = length v) by lia. rewrite En.
  assert (Hlt : (length (v ++ rest) <? length v)%nat = false) by (rewrite app_length; apply Nat.ltb_ge; lia).
  rewrite Hlt. rewrite skipn_app, skipn_all, Nat.sub_diag. cbn [skipn app].
  rewrite firstn_app, Nat.sub_diag, firstn_all. cbn [firstn]. rewrite app_nil_r.
  rewrite (items_fuel_enough _ (S (length rest)) rest); [reflexivity| |]; cbn [length]; rewrite ?app_length; lia.
Qed.

Lemma items_flat l rest : Forall short l ->
  items (flat l ++ rest) = match items rest with ROk r => ROk (l ++ r) | RErr e => RErr e end.
Proof.
  induction l as [|[t v] l IH]; intros H; cbn [flat map concat app].
  - destruct (items rest); reflexivity.
  - inversion H as [|? ? Hs Hr]; subst. fold (flat l). rewrite <- app_assoc, items_cons by exact Hs.
    rewrite (IH Hr). destruct (items rest); reflexivity.
Qed.

Lemma items_nil : items [] = ROk [].
Proof. reflexivity. Qed.

Lemma items_of_flat l : Forall short l -> items (flat l) = ROk l.
Proof. intros H. rewrite <- (app_nil_r (flat l)), items_flat by exact H. rewrite items_nil, app_nil_r. reflexivity. Qed.

Lemma flat_app a b : flat (a ++ b) = flat a ++ flat b.
Proof. unfold flat. rewrite map_app, concat_app. reflexivity. Qed.

(** write_bytes as items *)
Definition frags (tag : N) (v : bytes) : list itm := map (pair tag) (chunks 255 v).
Lemma write_bytes_flat tag v : write_bytes tag v = flat (frags tag v).
Proof. unfold write_bytes, flat, frags. rewrite map_map. reflexivity. Qed.
Lemma frags_short tag v : Forall short (frags tag v).
Proof.
  unfold frags. apply Forall_map. pose proof (chunks_len 255 v) as H.
  eapply Forall_impl; [|exact H]. intros c Hc. exact Hc.
Qed.

(** ** 2. read() of the repaired tree as a left fold *)
Definition fstep (st : rmap * list N) (p : itm) : rmap * list N :=
  let '(m, seen) := st in
  let '(t, v) := p in
  match v with
  | [] => (m, if t =? 0 then [] else seen)
  | _ =>
    (match mget m t with
     | [] => mset m t [v]
     | old => if existsb (N.eqb t) seen then mset m t (append_last old v) else mset m t (old ++ [v])
     end, t :: seen)
  end.

Lemma fill_fold : forall its m ld seen, fill K its m ld seen = fst (fold_left fstep its (m, seen)).
Proof.
  induction its as [|[t v] its IH]; intros m ld seen; [reflexivity|]. cbn [fill fold_left fstep].
  destruct v as [|x v'].
  - rewrite IH. rewrite andb_true_r. reflexivity.
  - rewrite IH. cbn [k_read_fixed fixed_knobs]. rewrite andb_false_r.
    destruct (mget m t); reflexivity.
Qed.

Definition fillmap (its : list itm) : rmap := fst (fold_left fstep its ([], [])).

Lemma read_flat l : Forall short l -> read K (flat l) = ROk (fillmap l).
Proof. intros H. unfold read. rewrite items_of_flat by exact H. rewrite fill_fold. reflexivity. Qed.

(** ** 3. association lists *)
Definition keys (m : rmap) : list N := map fst m.
Definition no_empty (m : rmap) : Prop := Forall (fun p => snd p <> []) m.

Lemma mget_notin m t : ~ In t (keys m) -> mget m t = [].
Proof.
  induction m as [|[k l] m IH]; cbn [keys map fst mget]; intros H; [reflexivity|].
  destruct (N.eqb_spec k t) as [->|Ne]; [exfalso; apply H; left; reflexivity|apply IH; intros Hi; apply H; right; exact Hi].
Qed.
Lemma mdel_notin m t : ~ In t (keys m) -> mdel m t = m.
Proof.
  induction m as [|[k l] m IH]; cbn [keys map fst mdel]; intros H; [reflexivity|].
  destruct (N.eqb_spec k t) as [->|Ne]; [exfalso; apply H; left; reflexivity|f_equal; apply IH; intros Hi; apply H; right; exact Hi].
Qed.
Lemma mget_app m F t : mget (m ++ F) t = match mget m t with [] => if existsb (N.eqb t) (keys m) then [] else mget F t | l => l end.
Proof.
  induction m as [|[k l] m IH]; cbn [app mget keys map fst existsb]; [destruct (mget F t); reflexivity|].
  rewrite (N.eqb_sym t k). destruct (k =? t); cbn [orb]; [destruct l; reflexivity|exact IH].
Qed.
Lemma mdel_app m F t : mdel (m ++ F) t = mdel m t ++ mdel F t.
Proof. induction m as [|[k l] m IH]; cbn [app mdel]; [reflexivity|]. destruct (k =? t); [exact IH|cbn [app]; f_equal; exact IH]. Qed.
Lemma keys_mdel m t : forall x, In x (keys (mdel m t)) -> In x (keys m) /\ x <> t.
Proof.
  induction m as [|[k l] m IH]; cbn [mdel keys map fst]; intros x H; [destruct H|].
  destruct (N.eqb_spec k t) as [->|Ne].
  - destruct (IH x H). split; [right; assumption|assumption].
  - cbn [keys map fst] in H. destruct H as [<-|H]; [split; [left; reflexivity|exact Ne]|destruct (IH x H); split; [right; assumption|assumption]].
Qed.
Lemma keys_mset m t l : forall x, In x (keys (mset m t l)) -> x = t \/ In x (keys m).
Proof.
  intros x. unfold mset. destruct l; [intros H; right; apply (keys_mdel m t x H)|].
  cbn [keys map fst]. intros [<-|H]; [left; reflexivity|right; apply (keys_mdel m t x H)].
Qed.
Lemma mget_mdel_same m t : mget (mdel m t) t = [].
Proof. apply mget_notin. intros H. apply keys_mdel in H. destruct H; congruence. Qed.
Lemma mget_mdel_other m t x : x <> t -> mget (mdel m t) x = mget m x.
Proof.
  intros Hx. induction m as [|[k l] m IH]; cbn [mdel mget]; [reflexivity|].
  destruct (N.eqb_spec k t) as [->|Ne].
  - destruct (N.eqb_spec t x); [congruence|exact IH].
  - cbn [mget]. destruct (k =? x); [reflexivity|exact IH].
Qed.
Lemma mget_mset_same m t l : mget (mset m t l) t = l.
Proof. unfold mset. destruct l; [apply mget_mdel_same|]. cbn [mget]. rewrite N.eqb_refl. reflexivity. Qed.
Lemma mget_mset_other m t l x : x <> t -> mget (mset m t l) x = mget m x.
Proof.
  intros Hx. unfold mset. destruct l; [apply mget_mdel_other; exact Hx|]. cbn [mget].
  destruct (N.eqb_spec t x); [congruence|apply mget_mdel_other; exact Hx].
Qed.
Lemma no_empty_mdel m t : no_empty m -> no_empty (mdel m t).
Proof.
  induction m as [|[k l] m IH]; cbn [mdel]; intros H; [constructor|]. inversion H; subst.
  destruct (k =? t); [apply IH; assumption|constructor; [assumption|apply IH; assumption]].
Qed.
Lemma no_empty_mset m t l : no_empty m -> no_empty (mset m t l).
Proof. intros H. unfold mset. destruct l; [apply no_empty_mdel; exact H|constructor; [discriminate|apply no_empty_mdel; exact H]]. Qed.
Lemma mget_empty_notin m t : no_empty m -> mget m t = [] -> ~ In t (keys m).
Proof.
  induction m as [|[k l] m IH]; cbn [mget keys map fst]; intros Hn Hg; [tauto|]. inversion Hn; subst.
  destruct (N.eqb_spec k t) as [->|Ne]; [cbn [snd] in *; congruence|]. intros [E|Hi]; [congruence|exact (IH H2 Hg Hi)].
Qed.

(** ** 4. composition of fills: frame, irrelevance of the seen list *)
Definition touch (its : list itm) : list N := flat_map (fun p => match snd p with [] => [] | _ => [fst p] end) its.
Lemma touch_app a b : touch (a ++ b) = touch a ++ touch b.
Proof. unfold touch. apply flat_map_app. Qed.

Lemma mset_app m F t l : ~ In t (keys F) -> mset (m ++ F) t l = mset m t l ++ F.
Proof. intros H. unfold mset. rewrite mdel_app, (mdel_notin F t H). destruct l; reflexivity. Qed.
Lemma mget_app_notin m F t : ~ In t (keys F) -> mget (m ++ F) t = mget m t.
Proof. intros H. rewrite mget_app, (mget_notin F t H). destruct (mget m t); [destruct (existsb _ _); reflexivity|reflexivity]. Qed.

Lemma fold_frame F : forall its m seen, (forall t, In t (touch its) -> ~ In t (keys F)) ->
  fold_left fstep its (m ++ F, seen) =
  (fst (fold_left fstep its (m, seen)) ++ F, snd (fold_left fstep its (m, seen))).
Proof.
  induction its as [|[t v] its IH]; intros m seen H; [reflexivity|]. cbn [fold_left fstep].
  destruct v as [|x v'].
  - apply IH. intros t' Ht'. apply H. cbn [touch flat_map snd app]. exact Ht'.
  - assert (Ht : ~ In t (keys F)) by (apply H; cbn [touch flat_map snd fst app]; left; reflexivity).
    rewrite (mget_app_notin m F t Ht).
    assert (Hr : forall t', In t' (touch its) -> ~ In t' (keys F)) by (intros t' Ht'; apply H; cbn [touch flat_map snd fst app]; right; exact Ht').
    destruct (mget m t) as [|o old]; [rewrite mset_app by exact Ht; apply IH; exact Hr|].
    destruct (existsb (N.eqb t) seen); rewrite mset_app by exact Ht; apply IH; exact Hr.
Qed.

Definition agree (T s1 s2 : list N) : Prop := forall t, In t T -> existsb (N.eqb t) s1 = existsb (N.eqb t) s2.

Lemma fold_seen_irrel T : forall its m s1 s2, incl (touch its) T -> agree T s1 s2 ->
  fst (fold_left fstep its (m, s1)) = fst (fold_left fstep its (m, s2)).
Proof.
  induction its as [|[t v] its IH]; intros m s1 s2 Hi Ha; [reflexivity|]. cbn [fold_left fstep].
  destruct v as [|x v'].
  - apply IH; [exact Hi|]. destruct (t =? 0); [intros y _; reflexivity|exact Ha].
  - assert (Ht : In t T) by (apply Hi; cbn [touch flat_map snd fst app]; left; reflexivity).
    assert (Hi' : incl (touch its) T) by (intros y Hy; apply Hi; cbn [touch flat_map snd fst app]; right; exact Hy).
    assert (Ha' : agree T (t :: s1) (t :: s2)) by (intros y Hy; cbn [existsb]; rewrite (Ha y Hy); reflexivity).
    rewrite (Ha t Ht). apply IH; assumption.
Qed.

Lemma fold_keys : forall its m s x, In x (keys (fst (fold_left fstep its (m, s)))) -> In x (keys m) \/ In x (touch its).
Proof.
  induction its as [|[t v] its IH]; intros m s x H; [left; exact H|]. cbn [fold_left fstep] in H.
  destruct v as [|b v']; [destruct (IH _ _ _ H); [left; assumption|right; exact H0]|].
  cbn [touch flat_map snd fst app].
  match type of H with In x (keys (fst (fold_left fstep its (?m', _)))) => assert (Hk : forall y, In y (keys m') -> y = t \/ In y (keys m)) end.
  { intros y. destruct (mget m t); [apply keys_mset|destruct (existsb _ _); apply keys_mset]. }
  destruct (IH _ _ _ H) as [H1|H1]; [destruct (Hk x H1); [right; left; congruence|left; assumption]|right; right; exact H1].
Qed.

Lemma fold_seen : forall its m s x, In x (snd (fold_left fstep its (m, s))) -> In x s \/ In x (touch its).
Proof.
  induction its as [|[t v] its IH]; intros m s x H; [left; exact H|]. cbn [fold_left fstep] in H.
  destruct v as [|b v'].
  - destruct (IH _ _ _ H) as [H1|H1]; [|right; exact H1]. destruct (t =? 0); [destruct H1|left; exact H1].
  - cbn [touch flat_map snd fst app]. destruct (IH _ _ _ H) as [[<-|H1]|H1]; [right; left; reflexivity|left; exact H1|right; right; exact H1].
Qed.

Lemma fold_no_empty : forall its m s, no_empty m -> no_empty (fst (fold_left fstep its (m, s))).
Proof.
  induction its as [|[t v] its IH]; intros m s H; [exact H|]. cbn [fold_left fstep].
  destruct v; [apply IH; exact H|]. apply IH. destruct (mget m t); [|destruct (existsb _ _)]; apply no_empty_mset; exact H.
Qed.

Definition disjoint (a b : list N) : Prop := forall x, In x a -> ~ In x b.

(** the map of a concatenation is the concatenation of the maps when the two parts touch disjoint tags *)
Lemma fillmap_app a b : disjoint (touch b) (touch a) -> fillmap (a ++ b) = fillmap b ++ fillmap a.
Proof.
  intros Hd. unfold fillmap. rewrite fold_left_app.
  set (st := fold_left fstep a ([], [])).
  assert (HkF : forall x, In x (keys (fst st)) -> In x (touch a)).
  { intros x Hx. destruct (fold_keys a [] [] x Hx) as [[]|H1]. exact H1. }
  assert (Hsf : forall x, In x (snd st) -> In x (touch a)).
  { intros x Hx. destruct (fold_seen a [] [] x Hx) as [[]|H1]. exact H1. }
  rewrite (surjective_pairing st). change (fst st, snd st) with ([] ++ fst st, snd st).
  rewrite fold_frame; [|intros t Ht Hk; exact (Hd t Ht (HkF t Hk))].
  cbn [fst]. f_equal. apply (fold_seen_irrel (touch b)); [apply incl_refl|].
  intros t Ht. cbn [existsb]. destruct (existsb (N.eqb t) (snd st)) eqn:E; [|reflexivity].
  apply existsb_exists in E. destruct E as (y & Hy & Ey). apply N.eqb_eq in Ey. subst y. exfalso. exact (Hd t Ht (Hsf t Hy)).
Qed.

(** ** 5. what one value (one or more 255-byte fragments) does to the map *)
Lemma append_last_snoc old x c : append_last (old ++ [x]) c = old ++ [x ++ c].
Proof.
  induction old as [|o old IH]; [reflexivity|]. cbn [app append_last].
  destruct (old ++ [x]) eqn:E; [destruct old; discriminate|]. rewrite IH. reflexivity.
Qed.

Definition mem (t : N) (s : list N) : bool := existsb (N.eqb t) s.

Lemma fold_cont t : forall cs m s old acc, Forall (fun c => c <> []) cs ->
  mget m t = old ++ [acc] -> mem t s = true ->
  let st := fold_left fstep (map (pair t) cs) (m, s) in
  (forall x, mget (fst st) x = if x =? t then old ++ [acc ++ concat cs] else mget m x) /\
  mem t (snd st) = true /\ (forall y, y <> t -> mem y (snd st) = mem y s).
Proof.
  induction cs as [|c cs IH]; intros m s old acc Hne Hg Hs; cbv zeta; cbn [map fold_left concat].
  - rewrite app_nil_r. split; [|split; [exact Hs|reflexivity]].
    intros x. destruct (N.eqb_spec x t) as [->|Ne]; [exact Hg|reflexivity].
  - inversion Hne as [|? ? Hc Hr]; subst. cbn [fstep]. destruct c as [|c0 c']; [congruence|].
    rewrite Hg. destruct (old ++ [acc]) as [|o1 o2] eqn:Eo; [destruct old; discriminate|]. rewrite <- Eo.
    unfold mem in Hs. rewrite Hs. rewrite append_last_snoc.
    specialize (IH (mset m t (old ++ [acc ++ c0 :: c'])) (t :: s) old (acc ++ c0 :: c') Hr (mget_mset_same _ _ _)).
    assert (Hs' : mem t (t :: s) = true) by (unfold mem; cbn [existsb]; rewrite N.eqb_refl; reflexivity).
    cbv zeta in IH. destruct (IH Hs') as (A & B & C). split; [|split; [exact B|]].
    + intros x. rewrite A. destruct (N.eqb_spec x t) as [->|Ne]; [rewrite <- app_assoc; reflexivity|apply mget_mset_other; exact Ne].
    + intros y Hy. rewrite (C y Hy). unfold mem. cbn [existsb]. destruct (N.eqb_spec y t); [congruence|reflexivity].
Qed.

Lemma fold_frags t v m s : v <> [] -> (mget m t = [] \/ mem t s = false) ->
  let st := fold_left fstep (frags t v) (m, s) in
  (forall x, mget (fst st) x = if x =? t then mget m t ++ [v] else mget m x) /\
  mem t (snd st) = true /\ (forall y, y <> t -> mem y (snd st) = mem y s).
Proof.
  intros Hv Hnew. cbv zeta. unfold frags. pose proof (chunks_nonempty 255 v ltac:(lia)) as Hne.
  pose proof (chunks_concat 255 v ltac:(lia)) as Hc.
  destruct (chunks 255 v) as [|c cs] eqn:Ec; [cbn in Hc; congruence|].
  assert (Hc1 : c <> []) by (inversion Hne; assumption).
  assert (Hcs : Forall (fun c => c <> []) cs) by (inversion Hne; assumption).
  cbn [concat] in Hc. cbn [map fold_left fstep]. destruct c as [|c0 c']; [congruence|].
  assert (Hs' : mem t (t :: s) = true) by (unfold mem; cbn [existsb]; rewrite N.eqb_refl; reflexivity).
  destruct (mget m t) as [|o old] eqn:Eg; cbv iota.
  - destruct (fold_cont t cs (mset m t [c0 :: c']) (t :: s) [] (c0 :: c') Hcs (mget_mset_same _ _ _) Hs') as (A & B & C).
    split; [|split; [exact B|]].
    + intros x. etransitivity; [apply A|]. rewrite Hc. destruct (N.eqb_spec x t) as [->|Ne]; [reflexivity|apply mget_mset_other; exact Ne].
    + intros y Hy. etransitivity; [apply (C y Hy)|]. unfold mem. cbn [existsb]. destruct (N.eqb_spec y t); [congruence|reflexivity].
  - destruct Hnew as [Hn|Hn]; [discriminate|]. unfold mem in Hn. rewrite Hn.
    destruct (fold_cont t cs (mset m t ((o :: old) ++ [c0 :: c'])) (t :: s) (o :: old) (c0 :: c') Hcs (mget_mset_same _ _ _) Hs') as (A & B & C).
    split; [|split; [exact B|]].
    + intros x. etransitivity; [apply A|]. rewrite Hc. destruct (N.eqb_spec x t) as [->|Ne]; [reflexivity|apply mget_mset_other; exact Ne].
    + intros y Hy. etransitivity; [apply (C y Hy)|]. unfold mem. cbn [existsb]. destruct (N.eqb_spec y t); [congruence|reflexivity].
Qed.

Lemma frags_nil t : frags t [] = [].
Proof. reflexivity. Qed.
Lemma touch_frags t v : v <> [] -> forall x, In x (touch (frags t v)) -> x = t.
Proof.
  intros Hv x. unfold frags, touch. rewrite flat_map_concat_map, map_map. intros H. apply in_concat in H.
  destruct H as (l & Hl & Hx). apply in_map_iff in Hl. destruct Hl as (c & <- & Hc). cbn [snd fst] in Hx.
  destruct c; [destruct Hx|destruct Hx as [<-|[]]; reflexivity].
Qed.
Lemma touch_frags_incl t v : forall x, In x (touch (frags t v)) -> x = t.
Proof. destruct v as [|b v']; [intros x []|apply touch_frags; discriminate]. Qed.

(** ** 6. the reader seen through the tags of one field: columns + the rest *)
Definition mrest (m : rmap) (ts : list N) : rmap := filter (fun p => negb (mem (fst p) ts)) m.

Record cols (m : rmap) (ts : list N) (C : N -> list bytes) (M : rmap) : Prop := mkCols {
  c_get : forall t, In t ts -> mget m t = C t;
  c_rest : mrest m ts = M;
  c_ne : no_empty m }.

Lemma mem_in t ts : mem t ts = true <-> In t ts.
Proof.
  unfold mem. rewrite existsb_exists. split.
  - intros (x & Hx & E). apply N.eqb_eq in E. subst. exact Hx.
  - intros H. exists t. split; [exact H|apply N.eqb_refl].
Qed.

Lemma mrest_mdel m t ts : In t ts -> mrest (mdel m t) ts = mrest m ts.
Proof.
  intros Ht. induction m as [|[k l] m IH]; [reflexivity|]. cbn [mdel].
  destruct (N.eqb_spec k t) as [->|Ne].
  - unfold mrest at 2. cbn [filter fst]. apply mem_in in Ht. rewrite Ht. cbn [negb]. exact IH.
  - unfold mrest. cbn [filter fst]. fold (mrest (mdel m t) ts). fold (mrest m ts). rewrite IH. reflexivity.
Qed.
Lemma mrest_mset m t l ts : In t ts -> mrest (mset m t l) ts = mrest m ts.
Proof.
  intros Ht. unfold mset. destruct l; [apply mrest_mdel; exact Ht|].
  unfold mrest. cbn [filter fst]. pose proof (proj2 (mem_in t ts) Ht) as E. rewrite E. cbn [negb].
  apply mrest_mdel. exact Ht.
Qed.
Lemma mrest_none m ts : (forall t, In t ts -> ~ In t (keys m)) -> mrest m ts = m.
Proof.
  intros H. induction m as [|[k l] m IH]; [reflexivity|]. unfold mrest. cbn [filter fst].
  destruct (mem k ts) eqn:E.
  - apply mem_in in E. exfalso. apply (H k E). left. reflexivity.
  - cbn [negb]. f_equal. apply IH. intros t Ht Hi. apply (H t Ht). right. exact Hi.
Qed.
Lemma mrest_all m ts : (forall x, In x (keys m) -> In x ts) -> mrest m ts = [].
Proof.
  intros H. induction m as [|[k l] m IH]; [reflexivity|]. unfold mrest. cbn [filter fst].
  assert (E : mem k ts = true) by (apply mem_in, H; left; reflexivity). rewrite E. cbn [negb].
  apply IH. intros x Hx. apply H. right. exact Hx.
Qed.
Lemma mrest_app a b ts : mrest (a ++ b) ts = mrest a ts ++ mrest b ts.
Proof. unfold mrest. apply filter_app. Qed.

Lemma pop_cols m ts C M t b r : cols m ts C M -> In t ts -> C t = b :: r ->
  pop m t = Some (b, mset m t r) /\ cols (mset m t r) ts (fun x => if x =? t then r else C x) M.
Proof.
  intros [Hg Hr Hn] Ht Hc. unfold pop. rewrite (Hg t Ht), Hc. split; [reflexivity|]. constructor.
  - intros x Hx. destruct (N.eqb_spec x t) as [->|Ne]; [apply mget_mset_same|rewrite mget_mset_other by exact Ne; apply Hg; exact Hx].
  - rewrite mrest_mset by exact Ht. exact Hr.
  - apply no_empty_mset. exact Hn.
Qed.
Lemma pop_cols_none m ts C M t : cols m ts C M -> In t ts -> C t = [] -> pop m t = None.
Proof. intros [Hg _ _] Ht Hc. unfold pop. rewrite (Hg t Ht), Hc. reflexivity. Qed.
Lemma cols_done m ts C M : cols m ts C M -> (forall t, In t ts -> C t = []) -> m = M.
Proof.
  intros [Hg Hr Hn] Hc. rewrite <- Hr. symmetry. apply mrest_none.
  intros t Ht. apply mget_empty_notin; [exact Hn|]. rewrite (Hg t Ht). apply Hc. exact Ht.
Qed.
Lemma cols_ext m ts C C' M : cols m ts C M -> (forall t, In t ts -> C t = C' t) -> cols m ts C' M.
Proof. intros [Hg Hr Hn] He. constructor; [intros t Ht; rewrite <- He by exact Ht; apply Hg; exact Ht|exact Hr|exact Hn]. Qed.

Lemma no_empty_app a b : no_empty a -> no_empty b -> no_empty (a ++ b).
Proof. intros. apply Forall_app. split; assumption. Qed.

Lemma cols_of_app M F ts : no_empty M -> no_empty F -> (forall x, In x (keys F) -> In x ts) ->
  (forall t, In t ts -> ~ In t (keys M)) -> cols (M ++ F) ts (mget F) M.
Proof.
  intros HM HF HkF HkM. constructor.
  - intros t Ht. rewrite mget_app. rewrite (mget_notin M t (HkM t Ht)).
    destruct (existsb (N.eqb t) (keys M)) eqn:E; [|reflexivity].
    apply existsb_exists in E. destruct E as (y & Hy & Ey). apply N.eqb_eq in Ey. subst y. exfalso. exact (HkM t Ht Hy).
  - rewrite mrest_app, (mrest_none M ts HkM), (mrest_all F ts HkF). apply app_nil_r.
  - apply no_empty_app; assumption.
Qed.

(** ** 7. scalars *)
Local Open Scope Z_scope.
Lemma le_z_length k : forall z, length (le_z k z) = k.
Proof. induction k; intros; cbn [le_z length]; auto. Qed.
Lemma of_le_le_z k : forall z, of_le (le_z k z) = z mod 256 ^ Z.of_nat k.
Proof.
  induction k as [|k IH]; intros z.
  - cbn [le_z of_le]. change (256 ^ Z.of_nat 0) with 1. rewrite Z.mod_1_r. reflexivity.
  - cbn [le_z of_le]. rewrite IH. rewrite Z2N.id by (apply Z.mod_pos_bound; lia).
    rewrite Nat2Z.inj_succ, Z.pow_succ_r by lia.
    rewrite (Z.rem_mul_r z 256 (256 ^ Z.of_nat k)) by (try lia; apply Z.pow_pos_nonneg; lia). reflexivity.
Qed.
Lemma le_prefix_exact k b : length b = k -> le_prefix k b = Some (of_le b).
Proof. intros H. unfold le_prefix. rewrite H, Nat.ltb_irrefl, <- H, firstn_all. reflexivity. Qed.

Definition in_range (t : ty) (z : Z) : bool :=
  match t with
  | TU8 => (0 <=? z) && (z <? 256)
  | TU16 => (0 <=? z) && (z <? 65536)
  | TU32 | TF32 => (0 <=? z) && (z <? 4294967296)
  | TU64 => (0 <=? z) && (z <? 18446744073709551616)
  | TI16 => (-32768 <=? z) && (z <? 32768)
  | TI32 => (-2147483648 <=? z) && (z <? 2147483648)
  | TI64 => (-9223372036854775808 <=? z) && (z <? 9223372036854775808)
  | _ => false
  end.

Definition ok_scalar (t : ty) (v : val) : bool :=
  match t, v with
  | (TU8 | TU16 | TU32 | TU64 | TI16 | TI32 | TI64 | TF32), VNum z => in_range t z
  | TBool, VBool _ => true
  | (TStr | TBytes), VBytes _ => true
  | _, _ => false
  end.

Definition payload (t : ty) (v : val) : bytes :=
  match t, v with
  | TU8, VNum z => [Z.to_N (z mod 256)]
  | (TU16 | TI16), VNum z => le_z 2 z
  | (TU32 | TI32 | TF32), VNum z => le_z 4 z
  | (TU64 | TI64), VNum z => le_z 8 z
  | TBool, VBool b => [if b then 1%N else 0%N]
  | (TStr | TBytes), VBytes b => b
  | _, _ => []
  end.

Definition norm_scalar (t : ty) (v : val) : val :=
  match t, v with TF32, VNum z => VNum (quiet z) | _, _ => v end.

Lemma chunks_one (x : N) : chunks 255 [x] = [[x]].
Proof. reflexivity. Qed.

Lemma enc_scalar tag t v : is_scalar t = true -> ok_scalar t v = true ->
  enc_val K tag t v = flat (frags tag (payload t v)).
Proof.
  intros Hs Hok. rewrite <- write_bytes_flat.
  destruct t; try discriminate; destruct v; try discriminate; cbn [enc_val payload k_i64_width k_f32_written fixed_knobs]; try reflexivity.
Qed.

Lemma payload_nonempty t v : is_scalar t = true -> ok_scalar t v = true ->
  payload t v = [] -> (t = TStr \/ t = TBytes) /\ v = VBytes [].
Proof.
  intros Hs Hok. destruct t; try discriminate; destruct v; try discriminate; cbn [payload le_z]; try discriminate.
  - intros ->. auto.
  - intros ->. auto.
Qed.

Lemma signed_mod bits z : 0 < bits -> - 2 ^ (bits - 1) <= z < 2 ^ (bits - 1) -> signed bits (z mod 2 ^ bits) = z.
Proof.
  intros Hb Hz. unfold signed. assert (E : 2 ^ bits = 2 * 2 ^ (bits - 1)) by (rewrite <- Z.pow_succ_r by lia; f_equal; lia).
  assert (Hp : 0 < 2 ^ (bits - 1)) by (apply Z.pow_pos_nonneg; lia).
  destruct (Z.ltb_spec (z mod 2 ^ bits) (2 ^ (bits - 1))) as [L|G].
  - destruct (Z.lt_ge_cases z 0) as [Neg|Pos].
    + exfalso. rewrite <- (Z.mod_add z 1 (2 ^ bits)) in L by lia. rewrite Z.mod_small in L by lia. lia.
    + rewrite Z.mod_small by lia. reflexivity.
  - destruct (Z.lt_ge_cases z 0) as [Neg|Pos].
    + rewrite <- (Z.mod_add z 1 (2 ^ bits)) by lia. rewrite Z.mod_small by lia. lia.
    + rewrite Z.mod_small in G by lia. lia.
Qed.

Local Close Scope Z_scope.

(** reading back one scalar from a reader whose column for the tag starts with the payload *)
Lemma scalar_decode m ts C M tag t v r : is_scalar t = true -> ok_scalar t v = true ->
  cols m ts C M -> In tag ts -> payload t v <> [] -> C tag = payload t v :: r ->
  scalar_field K t m tag = Ok (Some (norm_scalar t v), mset m tag r) /\
  cols (mset m tag r) ts (fun x => if x =? tag then r else C x) M.
Proof.
  intros Hs Hok Hc Ht Hne HC. destruct (pop_cols m ts C M tag _ r Hc Ht HC) as [Hpop Hc']. split; [|exact Hc'].
  destruct t; try discriminate; destruct v; try discriminate; cbn [payload] in *;
    cbn [scalar_field norm_scalar]; unfold read_u, read_i; rewrite Hpop; cbv zeta;
    rewrite ?le_z_length; cbn [Nat.ltb Nat.leb Nat.min Nat.eqb];
    rewrite ?le_prefix_exact by apply le_z_length; rewrite ?of_le_le_z; cbn [ok_scalar in_range] in Hok.
  - (* u8 *) rewrite Z2N.id by (apply Z.mod_pos_bound; lia). rewrite Z.mod_small by lia. reflexivity.
  - (* u16 *) rewrite Z.mod_small by (change (256 ^ Z.of_nat 2)%Z with 65536%Z; lia). reflexivity.
  - (* u32 *) rewrite Z.mod_small by (change (256 ^ Z.of_nat 4)%Z with 4294967296%Z; lia). reflexivity.
  - (* u64 *) rewrite Z.mod_small by (change (256 ^ Z.of_nat 8)%Z with 18446744073709551616%Z; lia). reflexivity.
  - (* i16 *) change (8 * Z.of_nat 2)%Z with 16%Z. change (256 ^ Z.of_nat 2)%Z with (2 ^ 16)%Z.
    rewrite signed_mod by (change (2 ^ (16 - 1))%Z with 32768%Z; lia). reflexivity.
  - (* i32 *) change (8 * Z.of_nat 4)%Z with 32%Z. change (256 ^ Z.of_nat 4)%Z with (2 ^ 32)%Z.
    rewrite signed_mod by (change (2 ^ (32 - 1))%Z with 2147483648%Z; lia). reflexivity.
  - (* i64 *) change (8 * Z.of_nat 8)%Z with 64%Z. change (256 ^ Z.of_nat 8)%Z with (2 ^ 64)%Z.
    rewrite signed_mod by (change (2 ^ (64 - 1))%Z with 9223372036854775808%Z; lia). reflexivity.
  - (* f32 *) rewrite Z.mod_small by (change (256 ^ Z.of_nat 4)%Z with 4294967296%Z; lia). reflexivity.
  - (* bool *) destruct b; reflexivity.
  - reflexivity.
  - reflexivity.
Qed.

Lemma scalar_decode_absent m ts C M tag t : is_scalar t = true ->
  cols m ts C M -> In tag ts -> C tag = [] ->
  scalar_field K t m tag = Ok (Some (zero_scalar t), m).
Proof.
  intros Hs Hc Ht HC. pose proof (pop_cols_none m ts C M tag Hc Ht HC) as Hpop.
  destruct t; try discriminate; cbn [scalar_field]; unfold read_u, read_i; rewrite Hpop; reflexivity.
Qed.

(** ** 8. items of whole values; typing and regularity; normal form *)
Definition is_nil {A} (l : list A) : bool := match l with [] => true | _ => false end.

Fixpoint it_val (tag : N) (t : ty) (v : val) {struct v} : list itm :=
  match t, v with
  | TStruct fs, VStruct vs => frags tag (enc_vals K fs vs)
  | TList fs, VList l => it_list tag fs l true
  | TInline fs, VList l => it_inline fs l true
  | _, _ => frags tag (payload t v)
  end
with it_vals (fs : fields) (vs : vals) {struct vs} : list itm :=
  match fs, vs with
  | FCons tag t fr, VCons v vr => it_val tag t v ++ it_vals fr vr
  | _, _ => []
  end
with it_list (tag : N) (fs : fields) (l : vlist) (first : bool) {struct l} : list itm :=
  match l with
  | LNil => []
  | LCons e r => (if first then [] else [(0, [])]) ++ frags tag (enc_vals K fs e) ++ it_list tag fs r false
  end
with it_inline (fs : fields) (l : vlist) (first : bool) {struct l} : list itm :=
  match l with
  | LNil => []
  | LCons e r => (if first then [] else [(0, [])]) ++ it_vals fs e ++ it_inline fs r false
  end.

Fixpoint full (fs : fields) (vs : vals) : bool :=
  match fs, vs with
  | FCons _ t fr, VCons v vr => negb (is_nil (payload t v)) && full fr vr
  | _, _ => true
  end.

(** well-typed values inside the round-trip theorem: numbers in range; list elements have a
    non-empty encoding; inline list elements have no empty string / byte string *)
Fixpoint okv (t : ty) (v : val) {struct v} : bool :=
  match t, v with
  | TStruct fs, VStruct vs => okvs fs vs
  | TList fs, VList l => okl fs l
  | TInline fs, VList l => okil fs l
  | TStruct _, _ | TList _, _ | TInline _, _ => false
  | _, _ => ok_scalar t v
  end
with okvs (fs : fields) (vs : vals) {struct vs} : bool :=
  match fs, vs with
  | FNil, VNil => true
  | FCons _ t fr, VCons v vr => okv t v && okvs fr vr
  | _, _ => false
  end
with okl (fs : fields) (l : vlist) {struct l} : bool :=
  match l with
  | LNil => true
  | LCons e r => okvs fs e && negb (is_nil (enc_vals K fs e)) && okl fs r
  end
with okil (fs : fields) (l : vlist) {struct l} : bool :=
  match l with
  | LNil => true
  | LCons e r => okvs fs e && full fs e && negb (is_nil (enc_vals K fs e)) && okil fs r
  end.

Fixpoint norm_val (t : ty) (v : val) {struct v} : val :=
  match t, v with
  | TStruct fs, VStruct vs => VStruct (norm_vals fs vs)
  | TList fs, VList l => VList (norm_list fs l)
  | TInline fs, VList l => VList (norm_list fs l)
  | _, _ => norm_scalar t v
  end
with norm_vals (fs : fields) (vs : vals) {struct vs} : vals :=
  match fs, vs with
  | FCons _ t fr, VCons v vr => VCons (norm_val t v) (norm_vals fr vr)
  | _, _ => vs
  end
with norm_list (fs : fields) (l : vlist) {struct l} : vlist :=
  match l with
  | LNil => LNil
  | LCons e r => LCons (norm_vals fs e) (norm_list fs r)
  end.

Scheme val_mind := Induction for val Sort Prop
  with vals_mind := Induction for vals Sort Prop
  with vlist_mind := Induction for vlist Sort Prop.
Combined Scheme value_mutind from val_mind, vals_mind, vlist_mind.

Lemma short_app a b : Forall short a -> Forall short b -> Forall short (a ++ b).
Proof. intros. apply Forall_app. split; assumption. Qed.
Lemma short_delim : Forall short [(0, [])].
Proof. constructor; [unfold short; cbn; lia|constructor]. Qed.

Lemma enc_vals_cons tag t fr v vr : enc_vals K (FCons tag t fr) (VCons v vr) = enc_val K tag t v ++ enc_vals K fr vr.
Proof. reflexivity. Qed.
Lemma it_vals_cons tag t fr v vr : it_vals (FCons tag t fr) (VCons v vr) = it_val tag t v ++ it_vals fr vr.
Proof. reflexivity. Qed.
Lemma enc_list_cons tag fs e r first : enc_list K tag fs (LCons e r) first =
  (if first then [] else delimiter) ++ write_bytes tag (enc_vals K fs e) ++ enc_list K tag fs r false.
Proof. reflexivity. Qed.
Lemma it_list_cons tag fs e r first : it_list tag fs (LCons e r) first =
  (if first then [] else [(0, [])]) ++ frags tag (enc_vals K fs e) ++ it_list tag fs r false.
Proof. reflexivity. Qed.
Lemma enc_inline_cons fs e r first : enc_inline K fs (LCons e r) first =
  (if first then [] else delimiter) ++ enc_vals K fs e ++ enc_inline K fs r false.
Proof. reflexivity. Qed.
Lemma it_inline_cons fs e r first : it_inline fs (LCons e r) first =
  (if first then [] else [(0, [])]) ++ it_vals fs e ++ it_inline fs r false.
Proof. reflexivity. Qed.

(** the bytes of an encoding are the concatenation of its items *)
Lemma enc_flat :
  (forall v tag t, okv t v = true -> enc_val K tag t v = flat (it_val tag t v) /\ Forall short (it_val tag t v)) /\
  (forall vs fs, okvs fs vs = true -> enc_vals K fs vs = flat (it_vals fs vs) /\ Forall short (it_vals fs vs)) /\
  (forall l fs, (forall tag first, okl fs l = true ->
                  enc_list K tag fs l first = flat (it_list tag fs l first) /\ Forall short (it_list tag fs l first)) /\
                (forall first, okil fs l = true ->
                  enc_inline K fs l first = flat (it_inline fs l first) /\ Forall short (it_inline fs l first))).
Proof.
  apply value_mutind.
  - (* VNum *) intros z tag t Hok. split; [|destruct t; apply frags_short].
    destruct t; try discriminate; apply enc_scalar; auto.
  - intros b tag t Hok. split; [|destruct t; apply frags_short].
    destruct t; try discriminate; apply enc_scalar; auto.
  - intros b tag t Hok. split; [|destruct t; apply frags_short].
    destruct t; try discriminate; apply enc_scalar; auto.
  - (* VStruct *) intros vs IH tag t Hok. destruct t; try discriminate. cbn [enc_val it_val].
    split; [apply write_bytes_flat|apply frags_short].
  - (* VList *) intros l IH tag t Hok. destruct t; try discriminate; cbn [enc_val it_val okv] in *.
    + apply (proj1 (IH fs)). exact Hok.
    + apply (proj2 (IH fs)). exact Hok.
  - (* VNil *) intros fs Hok. destruct fs; [|discriminate]. split; [reflexivity|constructor].
  - (* VCons *) intros v IHv vr IHr fs Hok. destruct fs as [|tag t fr]; [discriminate|]. cbn [okvs] in Hok.
    apply andb_true_iff in Hok. destruct Hok as [H1 H2]. rewrite enc_vals_cons, it_vals_cons.
    destruct (IHv tag t H1) as [E1 S1]. destruct (IHr fr H2) as [E2 S2].
    split; [rewrite flat_app, E1, E2; reflexivity|apply short_app; assumption].
  - (* LNil *) intros fs. split; intros; split; try reflexivity; constructor.
  - (* LCons *) intros e IHe r IHr fs. split.
    + intros tag first Hok. cbn [okl] in Hok. apply andb_true_iff in Hok. destruct Hok as [H12 H3].
      apply andb_true_iff in H12. destruct H12 as [H1 H2].
      rewrite enc_list_cons, it_list_cons. destruct (proj1 (IHr fs) tag false H3) as [E S]. split.
      * rewrite !flat_app, E, write_bytes_flat. destruct first; reflexivity.
      * apply short_app; [destruct first; [constructor|apply short_delim]|apply short_app; [apply frags_short|exact S]].
    + intros first Hok. cbn [okil] in Hok. apply andb_true_iff in Hok. destruct Hok as [H123 H4].
      apply andb_true_iff in H123. destruct H123 as [H12 H3]. apply andb_true_iff in H12. destruct H12 as [H1 H2].
      rewrite enc_inline_cons, it_inline_cons. destruct (proj2 (IHr fs) false H4) as [E S]. destruct (IHe fs H1) as [Ee Se]. split.
      * rewrite !flat_app, E, Ee. destruct first; reflexivity.
      * apply short_app; [destruct first; [constructor|apply short_delim]|apply short_app; assumption].
Qed.

(** ** 9. the map of one field *)
Definition ftags (tag : N) (t : ty) : list N := match t with TInline fs => own_tags fs | _ => [tag] end.

Lemma field_tags_scalars fs : scalars_only fs = true -> field_tags fs = own_tags fs.
Proof.
  induction fs as [|tag t r IH]; [reflexivity|]. cbn [scalars_only]. intros H. apply andb_true_iff in H. destruct H as [H1 H2].
  destruct t; try discriminate; cbn [field_tags own_tags]; rewrite (IH H2); reflexivity.
Qed.

Lemma it_val_scalar tag t v : is_scalar t = true -> it_val tag t v = frags tag (payload t v).
Proof. intros H. destruct t; try discriminate; destruct v; reflexivity. Qed.

Lemma touch_delim : touch [(0, [])] = [].
Proof. reflexivity. Qed.

Lemma touch_values :
  (forall v tag t, wf_ty t = true -> incl (touch (it_val tag t v)) (ftags tag t)) /\
  (forall vs fs, wf_each fs = true -> incl (touch (it_vals fs vs)) (field_tags fs)) /\
  (forall l fs, wf_each fs = true ->
     (forall tag first, incl (touch (it_list tag fs l first)) [tag]) /\
     (forall first, incl (touch (it_inline fs l first)) (field_tags fs))).
Proof.
  apply value_mutind.
  - intros z tag t _ x Hx. destruct t; cbn [it_val ftags] in *; try (left; symmetry; exact (touch_frags_incl _ _ _ Hx)); destruct Hx.
  - intros b tag t _ x Hx. destruct t; cbn [it_val ftags] in *; try (left; symmetry; exact (touch_frags_incl _ _ _ Hx)); destruct Hx.
  - intros b tag t _ x Hx. destruct t; cbn [it_val ftags] in *; try (left; symmetry; exact (touch_frags_incl _ _ _ Hx)); destruct Hx.
  - intros vs _ tag t _ x Hx. destruct t; cbn [it_val ftags] in *; try (left; symmetry; exact (touch_frags_incl _ _ _ Hx)); destruct Hx.
  - intros l IH tag t Hwf x Hx. destruct t; cbn [it_val ftags] in *; try (left; symmetry; exact (touch_frags_incl _ _ _ Hx)).
    + cbn [wf_ty] in Hwf. apply andb_true_iff in Hwf. destruct Hwf as [_ Hw]. exact (proj1 (IH fs Hw) tag true x Hx).
    + cbn [wf_ty] in Hwf. rewrite <- (field_tags_scalars fs Hwf).
      assert (Hw : wf_each fs = true).
      { clear -Hwf. induction fs as [|tg t r IHf]; [reflexivity|]. cbn [scalars_only] in Hwf. apply andb_true_iff in Hwf. destruct Hwf as [A B].
        cbn [wf_each]. rewrite (IHf B). destruct t; try discriminate; reflexivity. }
      exact (proj2 (IH fs Hw) true x Hx).
  - intros fs _ x Hx. destruct fs; destruct Hx.
  - intros v IHv vr IHr fs Hwf x Hx. destruct fs as [|tag t fr]; [destruct Hx|]. rewrite it_vals_cons, touch_app in Hx.
    cbn [wf_each] in Hwf. apply andb_true_iff in Hwf. destruct Hwf as [W1 W2].
    apply in_app_or in Hx. destruct Hx as [Hx|Hx].
    + pose proof (IHv tag t W1 x Hx) as H. destruct t; cbn [field_tags ftags] in *; try (destruct H as [<-|[]]; left; reflexivity).
      apply in_or_app. left. exact H.
    + pose proof (IHr fr W2 x Hx) as H. destruct t; cbn [field_tags]; try (right; exact H). apply in_or_app. right. exact H.
  - intros fs _. split; intros; intros x Hx; destruct Hx.
  - intros e IHe r IHr fs Hwf. split.
    + intros tag first x Hx. rewrite it_list_cons, !touch_app in Hx. apply in_app_or in Hx. destruct Hx as [Hx|Hx]; [destruct first; destruct Hx|].
      apply in_app_or in Hx. destruct Hx as [Hx|Hx]; [left; symmetry; exact (touch_frags_incl _ _ _ Hx)|exact (proj1 (IHr fs Hwf) tag false x Hx)].
    + intros first x Hx. rewrite it_inline_cons, !touch_app in Hx. apply in_app_or in Hx. destruct Hx as [Hx|Hx]; [destruct first; destruct Hx|].
      apply in_app_or in Hx. destruct Hx as [Hx|Hx]; [exact (IHe fs Hwf x Hx)|exact (proj2 (IHr fs Hwf) false x Hx)].
Qed.

Lemma fillmap_keys its : forall x, In x (keys (fillmap its)) -> In x (touch its).
Proof. intros x Hx. destruct (fold_keys its [] [] x Hx) as [[]|H]. exact H. Qed.
Lemma fillmap_no_empty its : no_empty (fillmap its).
Proof. apply fold_no_empty. constructor. Qed.

(** a single value *)
Lemma fillmap_frags tag p : p <> [] -> forall x, mget (fillmap (frags tag p)) x = if x =? tag then [p] else [].
Proof.
  intros Hp x. destruct (fold_frags tag p [] [] Hp (or_introl eq_refl)) as (A & _ & _). unfold fillmap.
  etransitivity; [apply A|]. destruct (x =? tag); reflexivity.
Qed.

(** a tagged list *)
Fixpoint lpay (fs : fields) (l : vlist) : list bytes :=
  match l with LNil => [] | LCons e r => enc_vals K fs e :: lpay fs r end.

Lemma fold_list tag fs : forall l first m s, okl fs l = true ->
  (first = true -> mget m tag = [] \/ mem tag s = false) ->
  forall x, mget (fst (fold_left fstep (it_list tag fs l first) (m, s))) x = if x =? tag then mget m tag ++ lpay fs l else mget m x.
Proof.
  induction l as [|e r IH]; intros first m s Hok Hf x.
  - cbn [it_list lpay fold_left fst]. rewrite app_nil_r. destruct (N.eqb_spec x tag) as [->|]; reflexivity.
  - cbn [lpay]. cbn [okl] in Hok. apply andb_true_iff in Hok. destruct Hok as [H12 H3]. apply andb_true_iff in H12. destruct H12 as [H1 H2].
    assert (Hp : enc_vals K fs e <> []) by (destruct (enc_vals K fs e); [discriminate|discriminate]).
    assert (Hgen : forall s0, (mget m tag = [] \/ mem tag s0 = false) ->
              mget (fst (fold_left fstep (frags tag (enc_vals K fs e) ++ it_list tag fs r false) (m, s0))) x =
              (if x =? tag then mget m tag ++ enc_vals K fs e :: lpay fs r else mget m x)).
    { intros s0 Hnew. rewrite fold_left_app.
      destruct (fold_frags tag (enc_vals K fs e) m s0 Hp Hnew) as (A & B & C). cbv zeta in A, B, C.
      rewrite (surjective_pairing (fold_left fstep (frags tag (enc_vals K fs e)) (m, s0))).
      rewrite (IH false _ _ H3 ltac:(discriminate) x). rewrite !A. rewrite N.eqb_refl.
      destruct (N.eqb_spec x tag) as [->|Ne]; [rewrite <- app_assoc; reflexivity|reflexivity]. }
    rewrite it_list_cons. destruct first.
    + cbn [app]. apply Hgen. apply Hf. reflexivity.
    + cbn [app fold_left fstep]. apply Hgen. right. reflexivity.
Qed.

(** an inline list of scalar-only elements *)
Fixpoint pfield (fs : fields) (e : vals) (x : N) : list bytes :=
  match fs, e with
  | FCons t ty fr, VCons v vr => (if x =? t then [payload ty v] else []) ++ pfield fr vr x
  | _, _ => []
  end.
Fixpoint pcol (fs : fields) (l : vlist) (x : N) : list bytes :=
  match l with LNil => [] | LCons e r => pfield fs e x ++ pcol fs r x end.

Lemma fold_elem : forall fs e m s, scalars_only fs = true -> full fs e = true -> NoDup (own_tags fs) ->
  (forall t, In t (own_tags fs) -> mem t s = false) ->
  (forall x, mget (fst (fold_left fstep (it_vals fs e) (m, s))) x = mget m x ++ pfield fs e x) /\
  (forall y, ~ In y (own_tags fs) -> mem y (snd (fold_left fstep (it_vals fs e) (m, s))) = mem y s).
Proof.
  induction fs as [|t ty fr IH]; intros e m s Hs Hfull Hnd Hseen.
  - destruct e; cbn [it_vals fold_left fst snd pfield]; (split; [intros; rewrite app_nil_r; reflexivity|reflexivity]).
  - destruct e as [|v vr]; [cbn [it_vals fold_left fst snd pfield]; split; [intros; rewrite app_nil_r; reflexivity|reflexivity]|].
    cbn [scalars_only] in Hs. apply andb_true_iff in Hs. destruct Hs as [Hs1 Hs2].
    cbn [full] in Hfull. apply andb_true_iff in Hfull. destruct Hfull as [Hf1 Hf2].
    cbn [own_tags] in Hnd, Hseen. inversion Hnd as [|? ? Hnt Hnd']; subst.
    rewrite it_vals_cons, fold_left_app, (it_val_scalar t ty v Hs1).
    assert (Hp : payload ty v <> []) by (destruct (payload ty v); [discriminate|discriminate]).
    destruct (fold_frags t (payload ty v) m s Hp (or_intror (Hseen t (or_introl eq_refl)))) as (A & B & C). cbv zeta in A, B, C.
    rewrite (surjective_pairing (fold_left fstep (frags t (payload ty v)) (m, s))).
    destruct (IH vr (fst (fold_left fstep (frags t (payload ty v)) (m, s))) (snd (fold_left fstep (frags t (payload ty v)) (m, s))) Hs2 Hf2 Hnd') as (A2 & C2).
    { intros y Hy. rewrite C; [apply Hseen; right; exact Hy|intros ->; exact (Hnt Hy)]. }
    split.
    + intros x. rewrite A2, A. cbn [pfield]. destruct (N.eqb_spec x t) as [->|Ne]; [rewrite <- app_assoc; reflexivity|reflexivity].
    + intros y Hy. rewrite C2 by (intros Hi; apply Hy; right; exact Hi). apply C. intros ->. apply Hy. left. reflexivity.
Qed.

Lemma fold_inline fs : scalars_only fs = true -> NoDup (own_tags fs) -> forall l first m s, okil fs l = true ->
  (first = true -> forall t, In t (own_tags fs) -> mem t s = false) ->
  forall x, mget (fst (fold_left fstep (it_inline fs l first) (m, s))) x = mget m x ++ pcol fs l x.
Proof.
  intros Hs Hnd. induction l as [|e r IH]; intros first m s Hok Hf x.
  - cbn [it_inline fold_left fst pcol]. rewrite app_nil_r. reflexivity.
  - cbn [okil] in Hok. apply andb_true_iff in Hok. destruct Hok as [H123 H4]. apply andb_true_iff in H123. destruct H123 as [H12 H3].
    apply andb_true_iff in H12. destruct H12 as [H1 H2].
    assert (Hgen : forall s0, (forall t, In t (own_tags fs) -> mem t s0 = false) ->
              mget (fst (fold_left fstep (it_vals fs e ++ it_inline fs r false) (m, s0))) x = mget m x ++ pfield fs e x ++ pcol fs r x).
    { intros s0 Hseen. rewrite fold_left_app. destruct (fold_elem fs e m s0 Hs H2 Hnd Hseen) as (A & _).
      rewrite (surjective_pairing (fold_left fstep (it_vals fs e) (m, s0))).
      rewrite (IH false _ _ H4 ltac:(discriminate) x), A. rewrite app_assoc. reflexivity. }
    rewrite it_inline_cons. cbn [pcol]. destruct first.
    + cbn [app]. apply Hgen. apply Hf. reflexivity.
    + cbn [app fold_left fstep]. apply Hgen. reflexivity.
Qed.

(** ** 10. the decoder loops on a reader described by columns *)
Lemma pop_buckets m t b m' : pop m t = Some (b, m') -> (buckets m' < buckets m)%nat.
Proof.
  unfold pop. pose proof (buckets_mdel m t) as Hb. destruct (mget m t) as [|x rest] eqn:E; [discriminate|].
  intros H. injection H as <- <-. pose proof (buckets_mset m t rest). cbn [length] in Hb. lia.
Qed.
Lemma buckets_ge_mget m t : (length (mget m t) <= buckets m)%nat.
Proof. pose proof (buckets_mdel m t). lia. Qed.

Fixpoint vapp (a : vlist) (b : vlist) : vlist :=
  match b with LNil => a | LCons e r => vapp (snoc a e) r end.
Fixpoint all_vl (P : vals -> Prop) (l : vlist) : Prop :=
  match l with LNil => True | LCons e r => P e /\ all_vl P r end.
Fixpoint vlen (l : vlist) : nat := match l with LNil => O | LCons _ r => S (vlen r) end.

Definition elem_ok (fs : fields) (e : vals) : Prop :=
  dec_fields K fs (fillmap (it_vals fs e)) = Ok (norm_vals fs e, [], false).

Lemma read_enc fs e : okvs fs e = true -> read K (enc_vals K fs e) = ROk (fillmap (it_vals fs e)).
Proof. intros H. destruct (proj1 (proj2 enc_flat) e fs H) as [E S]. rewrite E. apply read_flat. exact S. Qed.

Lemma list_loop_spec tag fs : forall l acc m C M fuel,
  cols m [tag] C M -> C tag = lpay fs l -> okl fs l = true -> all_vl (elem_ok fs) l -> (vlen l < fuel)%nat ->
  list_loop K (dec_fields K fs) tag fuel acc m = Ok (vapp acc (norm_list fs l), M, false).
Proof.
  induction l as [|e r IH]; intros acc m C M fuel Hc HC Hok Hall Hf; (destruct fuel as [|f]; [cbn [vlen] in Hf; lia|]); cbn [list_loop].
  - cbn [lpay] in HC. rewrite (pop_cols_none m [tag] C M tag Hc (or_introl eq_refl) HC).
    cbn [norm_list vapp]. f_equal. f_equal. f_equal. apply (cols_done m [tag] C M Hc). intros t [<-|[]]. exact HC.
  - cbn [lpay] in HC. cbn [okl] in Hok. apply andb_true_iff in Hok. destruct Hok as [H12 H3]. apply andb_true_iff in H12. destruct H12 as [H1 H2].
    destruct Hall as [He Hr].
    destruct (pop_cols m [tag] C M tag _ _ Hc (or_introl eq_refl) HC) as [-> Hc1].
    rewrite (read_enc fs e H1). unfold elem_ok in He. rewrite He. cbn [norm_list vapp].
    destruct (meof (mset m tag (lpay fs r))) eqn:Em.
    + (* the reader is empty: this was the last element *)
      destruct (mset m tag (lpay fs r)) as [|p m1] eqn:E1; [|discriminate].
      destruct Hc1 as [Hg Hrest _]. cbn [mrest filter] in Hrest. subst M.
      specialize (Hg tag (or_introl eq_refl)). cbn [mget] in Hg. rewrite N.eqb_refl in Hg.
      destruct r as [|e2 r2]; [reflexivity|cbn [lpay] in Hg; discriminate].
    + apply (IH (snoc acc (norm_vals fs e)) _ (fun x => if x =? tag then lpay fs r else C x) M f Hc1); auto.
      * rewrite N.eqb_refl. reflexivity.
      * cbn [vlen] in Hf. lia.
Qed.

Lemma pfield_notin fs e x : ~ In x (own_tags fs) -> pfield fs e x = [].
Proof.
  revert e. induction fs as [|t ty fr IH]; intros e H; [destruct e; reflexivity|]. destruct e as [|v vr]; [reflexivity|].
  cbn [pfield]. cbn [own_tags] in H. destruct (N.eqb_spec x t) as [->|Ne]; [exfalso; apply H; left; reflexivity|].
  cbn [app]. apply IH. intros Hi. apply H. right. exact Hi.
Qed.

Lemma zero_of_scalar t : is_scalar t = true -> zero_of t = zero_scalar t.
Proof. destruct t; try discriminate; reflexivity. Qed.

Lemma dec_fields_scalar tag t fr m : is_scalar t = true ->
  dec_fields K (FCons tag t fr) m =
  match scalar_field K t m tag with
  | Ok (Some v, m') => cont v (dec_fields K fr m')
  | Ok (None, m') => Ok (VCons (zero_of t) (zeros fr), m', true)
  | Err c => Err c | Panic => Panic | OutOfFuel => OutOfFuel
  end.
Proof. intros H. destruct t; try discriminate; reflexivity. Qed.

Lemma norm_val_scalar t v : is_scalar t = true -> norm_val t v = norm_scalar t v.
Proof. intros H. destruct t; try discriminate; destruct v; reflexivity. Qed.
Lemma okv_scalar t v : is_scalar t = true -> okv t v = ok_scalar t v.
Proof. intros H. destruct t; try discriminate; destruct v; reflexivity. Qed.

(** one element of an inline list: every field pops the head of its column *)
Lemma elem_decode ts M : forall (fs : fields) (e : vals) (m : rmap) (C R : N -> list bytes), scalars_only fs = true -> okvs fs e = true -> full fs e = true ->
  NoDup (own_tags fs) -> incl (own_tags fs) ts -> cols m ts C M ->
  (forall x, In x ts -> C x = pfield fs e x ++ R x) ->
  exists m', dec_fields K fs m = Ok (norm_vals fs e, m', false) /\ cols m' ts R M /\
             (fs <> FNil -> (buckets m' < buckets m)%nat) /\ (buckets m' <= buckets m)%nat.
Proof.
  induction fs as [|t ty fr IH]; intros e m C R Hs Hok Hfull Hnd Hin Hc HC.
  - destruct e; [|discriminate]. exists m. cbn [dec_fields norm_vals]. split; [reflexivity|]. split; [|split; [congruence|lia]].
    apply (cols_ext m ts C R M Hc). intros x Hx. rewrite (HC x Hx). reflexivity.
  - destruct e as [|v vr]; [discriminate|].
    cbn [scalars_only] in Hs. apply andb_true_iff in Hs. destruct Hs as [Hs1 Hs2].
    cbn [okvs] in Hok. apply andb_true_iff in Hok. destruct Hok as [Ho1 Ho2].
    cbn [full] in Hfull. apply andb_true_iff in Hfull. destruct Hfull as [Hf1 Hf2].
    cbn [own_tags] in Hnd, Hin. inversion Hnd as [|? ? Hnt Hnd']; subst.
    assert (Ht : In t ts) by (apply Hin; left; reflexivity).
    assert (Hp : payload ty v <> []) by (destruct (payload ty v); [discriminate|discriminate]).
    assert (HCt : C t = payload ty v :: R t).
    { rewrite (HC t Ht). cbn [pfield]. rewrite N.eqb_refl, (pfield_notin fr vr t Hnt). reflexivity. }
    rewrite okv_scalar in Ho1 by exact Hs1.
    destruct (scalar_decode m ts C M t ty v (R t) Hs1 Ho1 Hc Ht Hp HCt) as [Hsf Hc1].
    destruct (pop_cols m ts C M t _ _ Hc Ht HCt) as [Hpop _]. pose proof (pop_buckets _ _ _ _ Hpop) as Hlt.
    destruct (IH vr (mset m t (R t)) (fun x => if x =? t then R t else C x) R Hs2 Ho2 Hf2 Hnd') as (m' & Hd & Hc' & _ & Hle).
    + intros x Hx. apply Hin. right. exact Hx.
    + exact Hc1.
    + intros x Hx. destruct (N.eqb_spec x t) as [->|Ne]; [rewrite (pfield_notin fr vr t Hnt); reflexivity|].
      rewrite (HC x Hx). cbn [pfield]. destruct (N.eqb_spec x t); [congruence|reflexivity].
    + exists m'. rewrite dec_fields_scalar by exact Hs1. rewrite Hsf, Hd. cbn [cont norm_vals].
      rewrite norm_val_scalar by exact Hs1. split; [reflexivity|]. split; [exact Hc'|split; [intros _; lia|lia]].
Qed.

Lemma elem_absent ts M : forall (fs : fields) (m : rmap) (C : N -> list bytes), scalars_only fs = true -> incl (own_tags fs) ts -> cols m ts C M ->
  (forall x, In x (own_tags fs) -> C x = []) -> dec_fields K fs m = Ok (zeros fs, m, false).
Proof.
  induction fs as [|t ty fr IH]; intros m C Hs Hin Hc HC; [reflexivity|].
  cbn [scalars_only] in Hs. apply andb_true_iff in Hs. destruct Hs as [Hs1 Hs2]. cbn [own_tags] in Hin, HC.
  rewrite dec_fields_scalar by exact Hs1.
  rewrite (scalar_decode_absent m ts C M t ty Hs1 Hc (Hin t (or_introl eq_refl)) (HC t (or_introl eq_refl))).
  rewrite (IH m C Hs2); [cbn [cont zeros]; rewrite zero_of_scalar by exact Hs1; reflexivity| |exact Hc|].
  - intros x Hx. apply Hin. right. exact Hx.
  - intros x Hx. apply HC. right. exact Hx.
Qed.

Lemma pcol_head t ty fr e r : full (FCons t ty fr) e = true -> okvs (FCons t ty fr) e = true ->
  pcol (FCons t ty fr) (LCons e r) t <> [].
Proof.
  intros Hf Hok. destruct e as [|v vr]; [discriminate|]. cbn [pcol pfield]. rewrite N.eqb_refl. discriminate.
Qed.

Lemma inline_loop_spec fs : scalars_only fs = true -> NoDup (own_tags fs) -> forall l acc m C M fuel,
  cols m (own_tags fs) C M -> (forall x, In x (own_tags fs) -> C x = pcol fs l x) -> okil fs l = true -> (vlen l < fuel)%nat ->
  inline_loop K (dec_fields K fs) (empty_vals fs) fuel acc m = Ok (vapp acc (norm_list fs l), M, false).
Proof.
  intros Hs Hnd. induction l as [|e r IH]; intros acc m C M fuel Hc HC Hok Hf; (destruct fuel as [|f]; [cbn [vlen] in Hf; lia|]); cbn [inline_loop].
  - rewrite (elem_absent (own_tags fs) M fs m C Hs (incl_refl _) Hc) by (intros x Hx; rewrite (HC x Hx); reflexivity).
    cbn [k_inline_fixed fixed_knobs]. rewrite Nat.eqb_refl. cbn [norm_list vapp]. f_equal. f_equal. f_equal.
    apply (cols_done m (own_tags fs) C M Hc). intros t Ht. rewrite (HC t Ht). reflexivity.
  - cbn [okil] in Hok. apply andb_true_iff in Hok. destruct Hok as [H123 H4]. apply andb_true_iff in H123. destruct H123 as [H12 H3].
    apply andb_true_iff in H12. destruct H12 as [H1 H2].
    destruct (elem_decode (own_tags fs) M fs e m C (pcol fs r) Hs H1 H2 Hnd (incl_refl _) Hc) as (m1 & Hd & Hc1 & Hlt & _).
    { intros x Hx. rewrite (HC x Hx). reflexivity. }
    rewrite Hd. cbn [k_inline_fixed fixed_knobs].
    assert (Hne : fs <> FNil) by (intros ->; destruct e; discriminate).
    specialize (Hlt Hne). destruct (Nat.eqb_spec (buckets m1) (buckets m)) as [E|_]; [lia|].
    cbn [norm_list vapp]. destruct (meof m1) eqn:Em.
    + destruct m1 as [|p m1']; [|discriminate]. destruct Hc1 as [Hg Hrest _]. cbn [mrest filter] in Hrest. subst M.
      destruct r as [|e2 r2]; [reflexivity|]. exfalso.
      destruct fs as [|t ty fr]; [congruence|].
      cbn [okil] in H4. apply andb_true_iff in H4. destruct H4 as [H4 _]. apply andb_true_iff in H4. destruct H4 as [H4 _].
      apply andb_true_iff in H4. destruct H4 as [Ha Hb].
      apply (pcol_head t ty fr e2 r2 Hb Ha). rewrite <- (Hg t (or_introl eq_refl)). reflexivity.
    + apply (IH (snoc acc (norm_vals fs e)) m1 (pcol fs r) M f Hc1); auto. cbn [vlen] in Hf. lia.
Qed.

(** ** 11. assembly *)
Lemma write_bytes_nil tag p : write_bytes tag p = [] -> p = [].
Proof.
  unfold write_bytes. destruct p as [|b p']; [reflexivity|]. rewrite chunks_step by (try lia; discriminate).
  cbn [map concat item app]. discriminate.
Qed.

Lemma enc_val_list tag fs l : enc_val K tag (TList fs) (VList l) = enc_list K tag fs l true.
Proof. reflexivity. Qed.
Lemma enc_val_inline tag fs l : enc_val K tag (TInline fs) (VList l) = enc_inline K fs l true.
Proof. reflexivity. Qed.
Lemma enc_val_struct tag fs vs : enc_val K tag (TStruct fs) (VStruct vs) = write_bytes tag (enc_vals K fs vs).
Proof. reflexivity. Qed.

Lemma enc_empty_zero :
  (forall v tag t, okv t v = true -> enc_val K tag t v = [] -> norm_val t v = zero_of t) /\
  (forall vs fs, okvs fs vs = true -> enc_vals K fs vs = [] -> norm_vals fs vs = zeros fs) /\
  (forall l : vlist, True).
Proof.
  apply value_mutind; try (intros; exact I).
  - intros z tag t Hok He. destruct t; try discriminate; cbn [enc_val k_i64_width k_f32_written fixed_knobs] in He; try discriminate;
      apply write_bytes_nil in He; discriminate.
  - intros b tag t Hok He. destruct t; try discriminate.
  - intros b tag t Hok He. destruct t; try discriminate; cbn [enc_val] in He; apply write_bytes_nil in He; subst; reflexivity.
  - intros vs IH tag t Hok He. destruct t; try discriminate. rewrite enc_val_struct in He. apply write_bytes_nil in He.
    cbn [norm_val zero_of okv] in *. rewrite (IH fs Hok He). reflexivity.
  - intros l _ tag t Hok He. destruct t; try discriminate; cbn [okv norm_val zero_of] in *.
    + rewrite enc_val_list in He. destruct l as [|e r]; [reflexivity|]. exfalso. rewrite enc_list_cons in He. cbn [app] in He.
      apply app_eq_nil in He. destruct He as [He _]. apply write_bytes_nil in He.
      cbn [okl] in Hok. rewrite He in Hok. cbn in Hok. rewrite andb_false_r in Hok. discriminate.
    + rewrite enc_val_inline in He. destruct l as [|e r]; [reflexivity|]. exfalso. rewrite enc_inline_cons in He. cbn [app] in He.
      apply app_eq_nil in He. destruct He as [He _].
      cbn [okil] in Hok. rewrite He in Hok. cbn in Hok. rewrite andb_false_r in Hok. discriminate.
  - intros fs Hok _. destruct fs; [reflexivity|discriminate].
  - intros v IHv vr IHr fs Hok He. destruct fs as [|tag t fr]; [discriminate|]. cbn [okvs] in Hok. apply andb_true_iff in Hok. destruct Hok as [H1 H2].
    rewrite enc_vals_cons in He. apply app_eq_nil in He. destruct He as [E1 E2]. cbn [norm_vals zeros].
    rewrite (IHv tag t H1 E1), (IHr fr H2 E2). reflexivity.
Qed.

Fixpoint vappend (a b : vlist) : vlist := match a with LNil => b | LCons e r => LCons e (vappend r b) end.
Lemma vappend_snoc a e b : vappend (snoc a e) b = vappend a (LCons e b).
Proof. induction a as [|x a IH]; [reflexivity|]. cbn [snoc vappend]. rewrite IH. reflexivity. Qed.
Lemma vapp_vappend : forall b a, vapp a b = vappend a b.
Proof.
  induction b as [|e r IH]; intros a; cbn [vapp].
  - induction a as [|x a IHa]; [reflexivity|]. cbn [vappend]. rewrite <- IHa. reflexivity.
  - rewrite IH, vappend_snoc. reflexivity.
Qed.
Lemma vapp_nil b : vapp LNil b = b.
Proof. rewrite vapp_vappend. reflexivity. Qed.

Lemma field_tags_cons tag t fr : field_tags (FCons tag t fr) = ftags tag t ++ field_tags fr.
Proof. destruct t; reflexivity. Qed.

Lemma nodupb_NoDup l : nodupb l = true -> NoDup l.
Proof.
  induction l as [|x r IH]; intros H; [constructor|]. cbn [nodupb] in H. apply andb_true_iff in H. destruct H as [H1 H2].
  constructor; [|apply IH; exact H2]. intros Hi. apply negb_true_iff in H1.
  assert (E : existsb (N.eqb x) r = true) by (apply existsb_exists; exists x; split; [exact Hi|apply N.eqb_refl]). congruence.
Qed.
Lemma NoDup_app_l {A} (a b : list A) : NoDup (a ++ b) -> NoDup a /\ NoDup b /\ (forall x, In x a -> ~ In x b).
Proof.
  induction a as [|x a IH]; cbn [app]; intros H; [repeat split; [constructor|exact H|intros ? []]|].
  inversion H as [|? ? Hn Hr]; subst. destruct (IH Hr) as (A1 & B1 & D1). split; [|split; [exact B1|]].
  - constructor; [intros Hi; apply Hn; apply in_or_app; left; exact Hi|exact A1].
  - intros y [<-|Hy] Hb; [apply Hn; apply in_or_app; right; exact Hb|exact (D1 y Hy Hb)].
Qed.

Lemma wf_fields_cons tag t fr : wf_fields (FCons tag t fr) = true ->
  wf_ty t = true /\ wf_fields fr = true /\ NoDup (ftags tag t) /\ (forall x, In x (ftags tag t) -> ~ In x (field_tags fr)).
Proof.
  unfold wf_fields, tags_ok. intros H. apply andb_true_iff in H. destruct H as [H12 H3]. apply andb_true_iff in H12. destruct H12 as [H1 H2].
  cbn [wf_each] in H3. apply andb_true_iff in H3. destruct H3 as [W1 W2].
  rewrite field_tags_cons in H1, H2. apply nodupb_NoDup in H1. destruct (NoDup_app_l _ _ H1) as (A & B & D).
  rewrite forallb_app in H2. apply andb_true_iff in H2. destruct H2 as [_ H2].
  split; [exact W1|]. split; [|split; [exact A|exact D]].
  apply andb_true_iff. split; [apply andb_true_iff; split; [|exact H2]|exact W2].
  clear -B. induction (field_tags fr) as [|x r IH]; [reflexivity|]. inversion B; subst. cbn [nodupb]. rewrite IH by assumption.
  rewrite andb_true_r. apply negb_true_iff. destruct (existsb (N.eqb x) r) eqn:E; [|reflexivity].
  apply existsb_exists in E. destruct E as (y & Hy & Ey). apply N.eqb_eq in Ey. subst. contradiction.
Qed.

Lemma wf_each_scalars fs : scalars_only fs = true -> wf_each fs = true.
Proof.
  induction fs as [|tg t r IH]; [reflexivity|]. cbn [scalars_only]. intros H. apply andb_true_iff in H. destruct H as [A B].
  cbn [wf_each]. rewrite (IH B). destruct t; try discriminate; reflexivity.
Qed.

Lemma cols_absent M ts : no_empty M -> (forall x, In x ts -> ~ In x (keys M)) -> cols M ts (fun _ => []) M.
Proof.
  intros Hn Hk. constructor; [intros t Ht; apply mget_notin, Hk, Ht|apply mrest_none; exact Hk|exact Hn].
Qed.

Lemma vlen_lpay fs l : length (lpay fs l) = vlen l.
Proof. induction l; cbn [lpay vlen length]; auto. Qed.
Lemma vlen_pcol t ty fr l : ~ In t (own_tags fr) -> okil (FCons t ty fr) l = true -> length (pcol (FCons t ty fr) l t) = vlen l.
Proof.
  intros Hnt. induction l as [|e r IH]; [reflexivity|]. intros H. cbn [okil] in H. apply andb_true_iff in H. destruct H as [H123 H4].
  apply andb_true_iff in H123. destruct H123 as [H12 _]. apply andb_true_iff in H12. destruct H12 as [H1 _].
  destruct e as [|v vr]; [discriminate|]. cbn [pcol pfield vlen]. rewrite N.eqb_refl. cbn [app length]. rewrite app_length.
  rewrite (pfield_notin fr vr t Hnt). cbn [length]. rewrite (IH H4). reflexivity.
Qed.

(** decoding one field from [M ++ F], where F is the map of the field's items, consumes F *)
Definition field_ok (v : val) : Prop := forall tag t fr M,
  wf_ty t = true -> okv t v = true -> NoDup (ftags tag t) -> no_empty M -> (forall x, In x (ftags tag t) -> ~ In x (keys M)) ->
  dec_fields K (FCons tag t fr) (M ++ fillmap (it_val tag t v)) = cont (norm_val t v) (dec_fields K fr M).

Lemma frags_keys tag p : forall x, In x (keys (fillmap (frags tag p))) -> In x [tag].
Proof. intros x Hx. left. symmetry. apply (touch_frags_incl tag p). apply fillmap_keys. exact Hx. Qed.

Lemma scalar_field_ok2 v : forall tag t fr M, is_scalar t = true -> ok_scalar t v = true -> no_empty M -> ~ In tag (keys M) ->
  dec_fields K (FCons tag t fr) (M ++ fillmap (frags tag (payload t v))) = cont (norm_scalar t v) (dec_fields K fr M).
Proof.
  intros tag t fr M Hs Hok HM Hk. rewrite dec_fields_scalar by exact Hs.
  destruct (payload t v) as [|b p'] eqn:Ep.
  - destruct (payload_nonempty t v Hs Hok Ep) as [Ht ->]. cbn [frags]. unfold fillmap. cbn [chunks chunks_fuel length map fold_left fst]. rewrite app_nil_r.
    rewrite (scalar_decode_absent M [tag] (fun _ => []) M tag t Hs (cols_absent M [tag] HM ltac:(intros x [<-|[]]; exact Hk)) (or_introl eq_refl) eq_refl).
    destruct Ht as [-> | ->]; reflexivity.
  - rewrite <- Ep. assert (Hp : payload t v <> []) by (rewrite Ep; discriminate).
    pose proof (cols_of_app M (fillmap (frags tag (payload t v))) [tag] HM (fillmap_no_empty _) (frags_keys tag _) ltac:(intros x [<-|[]]; exact Hk)) as Hc.
    assert (HC : mget (fillmap (frags tag (payload t v))) tag = [payload t v]) by (rewrite fillmap_frags by exact Hp; rewrite N.eqb_refl; reflexivity).
    destruct (scalar_decode _ [tag] _ M tag t v [] Hs Hok Hc (or_introl eq_refl) Hp HC) as [Hsf Hc'].
    rewrite Hsf. f_equal. f_equal. apply (cols_done _ _ _ _ Hc'). intros x [<-|[]]. rewrite N.eqb_refl. reflexivity.
Qed.

Theorem roundtrip_all :
  (forall v, field_ok v) /\
  (forall vs fs, wf_fields fs = true -> okvs fs vs = true -> elem_ok fs vs) /\
  (forall l fs, wf_fields fs = true -> okl fs l = true -> all_vl (elem_ok fs) l).
Proof.
  apply value_mutind.
  - (* VNum *) intros z tag t fr M Hwf Hok Hnd HM Hk. destruct t; try discriminate; cbn [okv it_val norm_val] in *;
      apply scalar_field_ok2; auto; apply Hk; left; reflexivity.
  - intros b tag t fr M Hwf Hok Hnd HM Hk. destruct t; try discriminate; cbn [okv it_val norm_val] in *;
      apply scalar_field_ok2; auto; apply Hk; left; reflexivity.
  - intros b tag t fr M Hwf Hok Hnd HM Hk. destruct t; try discriminate; cbn [okv it_val norm_val] in *;
      apply scalar_field_ok2; auto; apply Hk; left; reflexivity.
  - (* VStruct *) intros vs IH tag t fr M Hwf Hok Hnd HM Hk. destruct t; try discriminate. cbn [okv it_val norm_val ftags wf_ty] in *.
    assert (Hkt : ~ In tag (keys M)) by (apply Hk; left; reflexivity).
    destruct (enc_vals K fs vs) as [|b p'] eqn:Ep.
    + cbn [frags]. unfold fillmap. cbn [chunks chunks_fuel length map fold_left fst]. rewrite app_nil_r.
      cbn [dec_fields]. rewrite (pop_cols_none M [tag] (fun _ => []) M tag (cols_absent M [tag] HM ltac:(intros x [<-|[]]; exact Hkt)) (or_introl eq_refl) eq_refl).
      rewrite (proj1 (proj2 enc_empty_zero) vs fs Hok Ep). reflexivity.
    + rewrite <- Ep. assert (Hp : enc_vals K fs vs <> []) by (rewrite Ep; discriminate).
      pose proof (cols_of_app M (fillmap (frags tag (enc_vals K fs vs))) [tag] HM (fillmap_no_empty _) (frags_keys tag _) ltac:(intros x [<-|[]]; exact Hkt)) as Hc.
      assert (HC : mget (fillmap (frags tag (enc_vals K fs vs))) tag = [enc_vals K fs vs]) by (rewrite fillmap_frags by exact Hp; rewrite N.eqb_refl; reflexivity).
      destruct (pop_cols _ [tag] _ M tag _ _ Hc (or_introl eq_refl) HC) as [Hpop Hc'].
      cbn [dec_fields]. rewrite Hpop, (read_enc fs vs Hok).
      assert (Hwf' : wf_fields fs = true) by exact Hwf.
      pose proof (IH fs Hwf' Hok) as He. unfold elem_ok in He. rewrite He.
      f_equal. f_equal. apply (cols_done _ _ _ _ Hc'). intros x [<-|[]]. rewrite N.eqb_refl. reflexivity.
  - (* VList *) intros l IH tag t fr M Hwf Hok Hnd HM Hk. destruct t; try discriminate; cbn [okv it_val norm_val ftags wf_ty] in *.
    + (* tagged list *)
      assert (Hkt : ~ In tag (keys M)) by (apply Hk; left; reflexivity).
      assert (Hwe : wf_each fs = true) by (apply andb_true_iff in Hwf; apply Hwf).
      set (F := fillmap (it_list tag fs l true)).
      assert (HF : forall x, mget F x = if x =? tag then lpay fs l else []).
      { intros x. unfold F, fillmap. etransitivity; [apply (fold_list tag fs l true [] [] Hok ltac:(intros _; left; reflexivity) x)|]. destruct (x =? tag); reflexivity. }
      assert (HkF : forall x, In x (keys F) -> In x [tag]).
      { intros x Hx. apply fillmap_keys in Hx. exact (proj1 (proj2 (proj2 touch_values) l fs Hwe) tag true x Hx). }
      pose proof (cols_of_app M F [tag] HM (fillmap_no_empty _) HkF ltac:(intros x [<-|[]]; exact Hkt)) as Hc.
      assert (Hfuel : (vlen l < S (buckets (M ++ F)))%nat).
      { pose proof (buckets_ge_mget (M ++ F) tag) as Hb. rewrite (c_get _ _ _ _ Hc tag (or_introl eq_refl)), HF, N.eqb_refl, vlen_lpay in Hb. lia. }
      cbn [dec_fields].
      rewrite (list_loop_spec tag fs l LNil (M ++ F) (mget F) M _ Hc ltac:(rewrite HF, N.eqb_refl; reflexivity) Hok (IH fs Hwf Hok) Hfuel).
      rewrite vapp_nil. reflexivity.
    + (* inline list *)
      assert (Hwe : wf_each fs = true) by (apply wf_each_scalars; exact Hwf).
      set (F := fillmap (it_inline fs l true)).
      assert (HF : forall x, mget F x = pcol fs l x).
      { intros x. unfold F, fillmap. etransitivity; [apply (fold_inline fs Hwf Hnd l true [] [] Hok ltac:(intros _ ? _; reflexivity) x)|]. reflexivity. }
      assert (HkF : forall x, In x (keys F) -> In x (own_tags fs)).
      { intros x Hx. apply fillmap_keys in Hx. rewrite <- (field_tags_scalars fs Hwf). exact (proj2 (proj2 (proj2 touch_values) l fs Hwe) true x Hx). }
      pose proof (cols_of_app M F (own_tags fs) HM (fillmap_no_empty _) HkF Hk) as Hc.
      assert (Hfuel : (vlen l < S (buckets (M ++ F)))%nat).
      { destruct fs as [|t0 ty0 fr0].
        - destruct l as [|e r]; [cbn [vlen]; lia|]. cbn [okil] in Hok. destruct e; cbn in Hok; discriminate.
        - cbn [own_tags] in Hnd. inversion Hnd as [|? ? Hnt _]; subst.
          pose proof (buckets_ge_mget (M ++ F) t0) as Hb. rewrite (c_get _ _ _ _ Hc t0 (or_introl eq_refl)), HF, (vlen_pcol t0 ty0 fr0 l Hnt Hok) in Hb. lia. }
      cbn [dec_fields].
      rewrite (inline_loop_spec fs Hwf Hnd l LNil (M ++ F) (mget F) M _ Hc ltac:(intros x _; apply HF) Hok Hfuel).
      rewrite vapp_nil. reflexivity.
  - (* VNil *) intros fs Hwf Hok. destruct fs; [reflexivity|discriminate].
  - (* VCons *) intros v IHv vr IHr fs Hwf Hok. destruct fs as [|tag t fr]; [discriminate|].
    cbn [okvs] in Hok. apply andb_true_iff in Hok. destruct Hok as [H1 H2].
    destruct (wf_fields_cons tag t fr Hwf) as (W1 & W2 & Hnd & Hdis).
    assert (Hwe : wf_each fr = true) by (apply andb_true_iff in W2; apply W2).
    unfold elem_ok. rewrite it_vals_cons.
    assert (Htv : incl (touch (it_val tag t v)) (ftags tag t)) by (apply (proj1 touch_values); exact W1).
    assert (Htr : incl (touch (it_vals fr vr)) (field_tags fr)) by (apply (proj1 (proj2 touch_values)); exact Hwe).
    rewrite fillmap_app by (intros x Hx Hx2; exact (Hdis x (Htv x Hx2) (Htr x Hx))).
    rewrite (IHv tag t fr (fillmap (it_vals fr vr)) W1 H1 Hnd (fillmap_no_empty _)).
    + pose proof (IHr fr W2 H2) as He. unfold elem_ok in He. rewrite He. reflexivity.
    + intros x Hx Hk. apply fillmap_keys in Hk. exact (Hdis x Hx (Htr x Hk)).
  - (* LNil *) intros fs _ _. exact I.
  - (* LCons *) intros e IHe r IHr fs Hwf Hok. cbn [okl] in Hok. apply andb_true_iff in Hok. destruct Hok as [H12 H3].
    apply andb_true_iff in H12. destruct H12 as [H1 _]. split; [apply IHe; assumption|apply IHr; assumption].
Qed.

(** C17 (round trip): for EVERY well-formed struct type and EVERY well-typed value inside the
    stated value class, Unmarshal (Marshal v) = v (a signalling NaN comes back quiet) *)
Theorem roundtrip fs vs : wf_fields fs = true -> okvs fs vs = true ->
  unmarshal K fs (marshal K fs vs) = Ok (norm_vals fs vs).
Proof.
  intros Hwf Hok. unfold unmarshal, marshal. rewrite (read_enc fs vs Hok).
  pose proof (proj1 (proj2 roundtrip_all) vs fs Hwf Hok) as He. unfold elem_ok in He. rewrite He. reflexivity.
Qed.

(** ** 12. wire format and corollaries *)
Theorem wire_items fs vs : okvs fs vs = true ->
  marshal K fs vs = flat (it_vals fs vs) /\ items (marshal K fs vs) = ROk (it_vals fs vs) /\ Forall short (it_vals fs vs).
Proof.
  intros Hok. destruct (proj1 (proj2 enc_flat) vs fs Hok) as [E S]. unfold marshal. rewrite E.
  split; [reflexivity|split; [apply items_of_flat; exact S|exact S]].
Qed.

(** fragments of one value: all but the last carry 255 bytes, none is empty, together they are the value *)
Theorem frags_spec tag v :
  map fst (frags tag v) = repeat tag (length (frags tag v)) /\ concat (map snd (frags tag v)) = v /\
  Forall (fun p => snd p <> [] /\ (length (snd p) <= 255)%nat) (frags tag v).
Proof.
  unfold frags. split; [|split].
  - rewrite map_map, map_length. cbn [fst]. induction (chunks 255 v); cbn; [reflexivity|f_equal; assumption].
  - rewrite map_map. cbn [snd]. rewrite map_id. apply chunks_concat. lia.
  - apply Forall_map. pose proof (chunks_nonempty 255 v ltac:(lia)) as H1. pose proof (chunks_len 255 v) as H2.
    rewrite Forall_forall in *. intros c Hc. split; [apply H1; exact Hc|apply H2; exact Hc].
Qed.

Lemma rtp_roundtrip : forall name fs vs, In (name, fs) Gen.RtpGen.rtp_types -> okvs fs vs = true ->
  unmarshal K fs (marshal K fs vs) = Ok (norm_vals fs vs).
Proof.
  intros name fs vs Hin Hok. apply roundtrip; [|exact Hok].
  pose proof rtp_types_wf as H. rewrite forallb_forall in H. exact (H (name, fs) Hin).
Qed.

(** the pinned snapshot: int64 beyond 32 bits, any non-zero float32, inline elements with two fields *)
Lemma pinned_roundtrip_refuted :
  unmarshal pinned_knobs (FCons 1 TI64 FNil) (marshal pinned_knobs (FCons 1 TI64 FNil) (VCons (VNum 4294967296) VNil)) = Ok (VCons (VNum 0) VNil) /\
  unmarshal pinned_knobs (FCons 1 TF32 FNil) (marshal pinned_knobs (FCons 1 TF32 FNil) (VCons (VNum 1065353216) VNil)) = Ok (VCons (VNum 0) VNil) /\
  (let fs := FCons 0 (TInline (FCons 3 TU8 (FCons 4 TU8 FNil))) FNil in
   let vs := VCons (VList (LCons (VCons (VNum 3) (VCons (VNum 4) VNil)) (LCons (VCons (VNum 5) (VCons (VNum 6) VNil)) LNil))) VNil in
   wf_fields fs = true /\ okvs fs vs = true /\
   unmarshal pinned_knobs fs (marshal pinned_knobs fs vs) =
     Ok (VCons (VList (LCons (VCons (VNum 3) (VCons (VNum 4) VNil)) (LCons (VCons (VNum 5) (VCons (VNum 0) VNil)) LNil))) VNil)).
Proof. vm_compute. repeat split; reflexivity. Qed.

(** outside the value class the statement is false of the repaired tree too (the recorded findings) *)
Lemma roundtrip_outside_class_refuted :
  (let fs := FCons 0 (TInline (FCons 11 TU16 (FCons 5 TStr FNil))) FNil in
   let vs := VCons (VList (LCons (VCons (VNum 0) (VCons (VBytes []) VNil)) (LCons (VCons (VNum 0) (VCons (VBytes [113]) VNil)) LNil))) VNil in
   wf_fields fs = true /\ okvs fs vs = false /\ unmarshal K fs (marshal K fs vs) <> Ok (norm_vals fs vs)) /\
  (let fs := FCons 7 (TList (FCons 1 TStr FNil)) FNil in
   let vs := VCons (VList (LCons (VCons (VBytes []) VNil) (LCons (VCons (VBytes [97]) VNil) LNil))) VNil in
   wf_fields fs = true /\ okvs fs vs = false /\ unmarshal K fs (marshal K fs vs) <> Ok (norm_vals fs vs)).
Proof. split; vm_compute; (split; [reflexivity|split; [reflexivity|discriminate]]). Qed.

Lemma roundtrip_nonvacuous :
  let fs := FCons 1 TU8 (FCons 2 TI64 (FCons 3 TF32 (FCons 4 TStr (FCons 5 (TStruct (FCons 1 TU16 (FCons 2 TBytes FNil)))
            (FCons 6 (TList (FCons 1 TI32 FNil)) (FCons 0 (TInline (FCons 8 TU8 (FCons 9 TBool FNil))) (FCons 10 TBool FNil))))))) in
  let vs := VCons (VNum 255) (VCons (VNum (-9223372036854775808)) (VCons (VNum 2139095041) (VCons (VBytes [104; 105])
            (VCons (VStruct (VCons (VNum 65535) (VCons (VBytes []) VNil)))
            (VCons (VList (LCons (VCons (VNum (-1)) VNil) (LCons (VCons (VNum 2147483647) VNil) LNil)))
            (VCons (VList (LCons (VCons (VNum 0) (VCons (VBool false) VNil)) (LCons (VCons (VNum 7) (VCons (VBool true) VNil)) LNil)))
            (VCons (VBool true) VNil))))))) in
  wf_fields fs = true /\ okvs fs vs = true /\ unmarshal K fs (marshal K fs vs) = Ok (norm_vals fs vs) /\ norm_vals fs vs <> vs.
Proof. vm_compute. repeat split; try reflexivity. discriminate. Qed.
