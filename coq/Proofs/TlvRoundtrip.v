(** Round trip of the struct TLV8 codec: Unmarshal (Marshal v) = v (repaired tree). *)
From HC Require Import Base.HBytes Base.HBytesProofs Model.TlvStruct Proofs.TlvStructProofs.
From Coq Require Import ZifyBool ZifyNat ZifyN.
Open Scope N_scope.

Notation K := fixed_knobs.

(** ** 1. the raw items of an encoding *)
Definition itm := (N * bytes)%type.
Definition flat (l : list itm) : bytes := concat (map (fun p => item (fst p) (snd p)) l).
Definition short (p : itm) : Prop := (length (snd p) <= 255)%nat.

Lemma items_fuel_enough : forall f1 f2 b, (length b < f1)%nat -> (length b < f2)%nat -> items_fuel f1 b = items_fuel f2 b.
Proof.
  induction f1 as [|f1 IH]; intros f2 b H1 H2; [lia|]. destruct f2 as [|f2]; [lia|]. cbn [items_fuel].
  destruct b as [|t [|n rest]]; try reflexivity.
  destruct (length rest <? N.to_nat n)%nat eqn:E; [reflexivity|].
  rewrite (IH f2); [reflexivity| |]; rewrite skipn_length; cbn [length] in *; lia.
Qed.

Lemma items_fuel_step f t n rest : items_fuel (S f) (t :: n :: rest) =
  if (length rest <? N.to_nat n)%nat then RErr (match rest with [] => EEof | _ => EOther end)
  else match items_fuel f (skipn (N.to_nat n) rest) with
       | ROk l => ROk ((t, firstn (N.to_nat n) rest) :: l)
       | RErr e => RErr e
       end.
Proof. reflexivity. Qed.

Lemma items_cons t v rest : (length v <= 255)%nat ->
  items (item t v ++ rest) = match items rest with ROk l => ROk ((t, v) :: l) | RErr e => RErr e end.
Proof.
  intros Hv. unfold items, item. change ((t :: N.of_nat (length v) :: v) ++ rest) with (t :: N.of_nat (length v) :: (v ++ rest)).
  rewrite items_fuel_step.
  assert (En : N.to_nat (N.of_nat (length v)) = length v) by lia. rewrite En.
  assert (Hlt : (length (v ++ rest) <? length v)%nat = false) by (rewrite app_length; apply Nat.ltb_ge; lia).
  rewrite Hlt. rewrite skipn_app, skipn_all, Nat.sub_diag. cbn [skipn app].
  rewrite firstn_app, Nat.sub_diag, firstn_all. cbn [firstn]. rewrite app_nil_r.
  rewrite (items_fuel_enough _ (S (length rest)) rest); [reflexivity| |]; cbn [length]; rewrite ?app_length; lia.
Qed.

Lemma items_flat l rest : Forall short l ->
  items (flat l ++ rest) = match items rest with ROk r => ROk (l ++ r) | RErr e => RErr e end.
Proof.
  induction l as [|[t v] l IH]; intros H; cbn [flat map concat app].
  - destruct (items rest); reflexivity.
  - inversion H as [|? ? Hs Hr]; subst. fold (flat l). rewrite <- app_assoc, items_cons by exact Hs.
    rewrite (IH Hr). destruct (items rest); reflexivity.
Qed.

Lemma items_nil : items [] = ROk [].
Proof. reflexivity. Qed.

Lemma items_of_flat l : Forall short l -> items (flat l) = ROk l.
Proof. intros H. rewrite <- (app_nil_r (flat l)), items_flat by exact H. rewrite items_nil, app_nil_r. reflexivity. Qed.

Lemma flat_app a b : flat (a ++ b) = flat a ++ flat b.
Proof. unfold flat. rewrite map_app, concat_app. reflexivity. Qed.

(** write_bytes as items *)
Definition frags (tag : N) (v : bytes) : list itm := map (pair tag) (chunks 255 v).
Lemma write_bytes_flat tag v : write_bytes tag v = flat (frags tag v).
Proof. unfold write_bytes, flat, frags. rewrite map_map. reflexivity. Qed.
Lemma frags_short tag v : Forall short (frags tag v).
Proof.
  unfold frags. apply Forall_map. pose proof (chunks_len 255 v) as H.
  eapply Forall_impl; [|exact H]. intros c Hc. exact Hc.
Qed.

(** ** 2. read() of the repaired tree as a left fold *)
Definition fstep (st : rmap * list N) (p : itm) : rmap * list N :=
  let '(m, seen) := st in
  let '(t, v) := p in
  match v with
  | [] => (m, if t =? 0 then [] else seen)
  | _ =>
    (match mget m t with
     | [] => mset m t [v]
     | old => if existsb (N.eqb t) seen then mset m t (append_last old v) else mset m t (old ++ [v])
     end, t :: seen)
  end.

Lemma fill_fold : forall its m ld seen, fill K its m ld seen = fst (fold_left fstep its (m, seen)).
Proof.
  induction its as [|[t v] its IH]; intros m ld seen; [reflexivity|]. cbn [fill fold_left fstep].
  destruct v as [|x v'].
  - rewrite IH. rewrite andb_true_r. reflexivity.
  - rewrite IH. cbn [k_read_fixed fixed_knobs]. rewrite andb_false_r.
    destruct (mget m t); reflexivity.
Qed.

Definition fillmap (its : list itm) : rmap := fst (fold_left fstep its ([], [])).

Lemma read_flat l : Forall short l -> read K (flat l) = ROk (fillmap l).
Proof. intros H. unfold read. rewrite items_of_flat by exact H. rewrite fill_fold. reflexivity. Qed.

(** ** 3. association lists *)
Definition keys (m : rmap) : list N := map fst m.
Definition no_empty (m : rmap) : Prop := Forall (fun p => snd p <> []) m.

Lemma mget_notin m t : ~ In t (keys m) -> mget m t = [].
Proof.
  induction m as [|[k l] m IH]; cbn [keys map fst mget]; intros H; [reflexivity|].
  destruct (N.eqb_spec k t) as [->|Ne]; [exfalso; apply H; left; reflexivity|apply IH; intros Hi; apply H; right; exact Hi].
Qed.
Lemma mdel_notin m t : ~ In t (keys m) -> mdel m t = m.
Proof.
  induction m as [|[k l] m IH]; cbn [keys map fst mdel]; intros H; [reflexivity|].
  destruct (N.eqb_spec k t) as [->|Ne]; [exfalso; apply H; left; reflexivity|f_equal; apply IH; intros Hi; apply H; right; exact Hi].
Qed.
Lemma mget_app m F t : mget (m ++ F) t = match mget m t with [] => if existsb (N.eqb t) (keys m) then [] else mget F t | l => l end.
Proof.
  induction m as [|[k l] m IH]; cbn [app mget keys map fst existsb]; [destruct (mget F t); reflexivity|].
  rewrite (N.eqb_sym t k). destruct (k =? t); cbn [orb]; [destruct l; reflexivity|exact IH].
Qed.
Lemma mdel_app m F t : mdel (m ++ F) t = mdel m t ++ mdel F t.
Proof. induction m as [|[k l] m IH]; cbn [app mdel]; [reflexivity|]. destruct (k =? t); [exact IH|cbn [app]; f_equal; exact IH]. Qed.
Lemma keys_mdel m t : forall x, In x (keys (mdel m t)) -> In x (keys m) /\ x <> t.
Proof.
  induction m as [|[k l] m IH]; cbn [mdel keys map fst]; intros x H; [destruct H|].
  destruct (N.eqb_spec k t) as [->|Ne].
  - destruct (IH x H). split; [right; assumption|assumption].
  - cbn [keys map fst] in H. destruct H as [<-|H]; [split; [left; reflexivity|exact Ne]|destruct (IH x H); split; [right; assumption|assumption]].
Qed.
Lemma keys_mset m t l : forall x, In x (keys (mset m t l)) -> x = t \/ In x (keys m).
Proof.
  intros x. unfold mset. destruct l; [intros H; right; apply (keys_mdel m t x H)|].
  cbn [keys map fst]. intros [<-|H]; [left; reflexivity|right; apply (keys_mdel m t x H)].
Qed.
Lemma mget_mdel_same m t : mget (mdel m t) t = [].
Proof. apply mget_notin. intros H. apply keys_mdel in H. destruct H; congruence. Qed.
Lemma mget_mdel_other m t x : x <> t -> mget (mdel m t) x = mget m x.
Proof.
  intros Hx. induction m as [|[k l] m IH]; cbn [mdel mget]; [reflexivity|].
  destruct (N.eqb_spec k t) as [->|Ne].
  - destruct (N.eqb_spec t x); [congruence|exact IH].
  - cbn [mget]. destruct (k =? x); [reflexivity|exact IH].
Qed.
Lemma mget_mset_same m t l : mget (mset m t l) t = l.
Proof. unfold mset. destruct l; [apply mget_mdel_same|]. cbn [mget]. rewrite N.eqb_refl. reflexivity. Qed.
Lemma mget_mset_other m t l x : x <> t -> mget (mset m t l) x = mget m x.
Proof.
  intros Hx. unfold mset. destruct l; [apply mget_mdel_other; exact Hx|]. cbn [mget].
  destruct (N.eqb_spec t x); [congruence|apply mget_mdel_other; exact Hx].
Qed.
Lemma no_empty_mdel m t : no_empty m -> no_empty (mdel m t).
Proof.
  induction m as [|[k l] m IH]; cbn [mdel]; intros H; [constructor|]. inversion H; subst.
  destruct (k =? t); [apply IH; assumption|constructor; [assumption|apply IH; assumption]].
Qed.
Lemma no_empty_mset m t l : no_empty m -> no_empty (mset m t l).
Proof. intros H. unfold mset. destruct l; [apply no_empty_mdel; exact H|constructor; [discriminate|apply no_empty_mdel; exact H]]. Qed.
Lemma mget_empty_notin m t : no_empty m -> mget m t = [] -> ~ In t (keys m).
Proof.
  induction m as [|[k l] m IH]; cbn [mget keys map fst]; intros Hn Hg; [tauto|]. inversion Hn; subst.
  destruct (N.eqb_spec k t) as [->|Ne]; [cbn [snd] in *; congruence|]. intros [E|Hi]; [congruence|exact (IH H2 Hg Hi)].
Qed.

(** ** 4. composition of fills: frame, irrelevance of the seen list *)
Definition touch (its : list itm) : list N := flat_map (fun p => match snd p with [] => [] | _ => [fst p] end) its.
Lemma touch_app a b : touch (a ++ b) = touch a ++ touch b.
Proof. unfold touch. apply flat_map_app. Qed.

Lemma mset_app m F t l : ~ In t (keys F) -> mset (m ++ F) t l = mset m t l ++ F.
Proof. intros H. unfold mset. rewrite mdel_app, (mdel_notin F t H). destruct l; reflexivity. Qed.
Lemma mget_app_notin m F t : ~ In t (keys F) -> mget (m ++ F) t = mget m t.
Proof. intros H. rewrite mget_app, (mget_notin F t H). destruct (mget m t); [destruct (existsb _ _); reflexivity|reflexivity]. Qed.

Lemma fold_frame F : forall its m seen, (forall t, In t (touch its) -> ~ In t (keys F)) ->
  fold_left fstep its (m ++ F, seen) =
  (fst (fold_left fstep its (m, seen)) ++ F, snd (fold_left fstep its (m, seen))).
Proof.
  induction its as [|[t v] its IH]; intros m seen H; [reflexivity|]. cbn [fold_left fstep].
  destruct v as [|x v'].
  - apply IH. intros t' Ht'. apply H. cbn [touch flat_map snd app]. exact Ht'.
  - assert (Ht : ~ In t (keys F)) by (apply H; cbn [touch flat_map snd fst app]; left; reflexivity).
    rewrite (mget_app_notin m F t Ht).
    assert (Hr : forall t', In t' (touch its) -> ~ In t' (keys F)) by (intros t' Ht'; apply H; cbn [touch flat_map snd fst app]; right; exact Ht').
    destruct (mget m t) as [|o old]; [rewrite mset_app by exact Ht; apply IH; exact Hr|].
    destruct (existsb (N.eqb t) seen); rewrite mset_app by exact Ht; apply IH; exact Hr.
Qed.

Definition agree (T s1 s2 : list N) : Prop := forall t, In t T -> existsb (N.eqb t) s1 = existsb (N.eqb t) s2.

Lemma fold_seen_irrel T : forall its m s1 s2, incl (touch its) T -> agree T s1 s2 ->
  fst (fold_left fstep its (m, s1)) = fst (fold_left fstep its (m, s2)).
Proof.
  induction its as [|[t v] its IH]; intros m s1 s2 Hi Ha; [reflexivity|]. cbn [fold_left fstep].
  destruct v as [|x v'].
  - apply IH; [exact Hi|]. destruct (t =? 0); [intros y _; reflexivity|exact Ha].
  - assert (Ht : In t T) by (apply Hi; cbn [touch flat_map snd fst app]; left; reflexivity).
    assert (Hi' : incl (touch its) T) by (intros y Hy; apply Hi; cbn [touch flat_map snd fst app]; right; exact Hy).
    assert (Ha' : agree T (t :: s1) (t :: s2)) by (intros y Hy; cbn [existsb]; rewrite (Ha y Hy); reflexivity).
    rewrite (Ha t Ht). apply IH; assumption.
Qed.

Lemma fold_keys : forall its m s x, In x (keys (fst (fold_left fstep its (m, s)))) -> In x (keys m) \/ In x (touch its).
Proof.
  induction its as [|[t v] its IH]; intros m s x H; [left; exact H|]. cbn [fold_left fstep] in H.
  destruct v as [|b v']; [destruct (IH _ _ _ H); [left; assumption|right; exact H0]|].
  cbn [touch flat_map snd fst app].
  match type of H with In x (keys (fst (fold_left fstep its (?m', _)))) => assert (Hk : forall y, In y (keys m') -> y = t \/ In y (keys m)) end.
  { intros y. destruct (mget m t); [apply keys_mset|destruct (existsb _ _); apply keys_mset]. }
  destruct (IH _ _ _ H) as [H1|H1]; [destruct (Hk x H1); [right; left; congruence|left; assumption]|right; right; exact H1].
Qed.

Lemma fold_seen : forall its m s x, In x (snd (fold_left fstep its (m, s))) -> In x s \/ In x (touch its).
Proof.
  induction its as [|[t v] its IH]; intros m s x H; [left; exact H|]. cbn [fold_left fstep] in H.
  destruct v as [|b v'].
  - destruct (IH _ _ _ H) as [H1|H1]; [|right; exact H1]. destruct (t =? 0); [destruct H1|left; exact H1].
  - cbn [touch flat_map snd fst app]. destruct (IH _ _ _ H) as [[<-|H1]|H1]; [right; left; reflexivity|left; exact H1|right; right; exact H1].
Qed.

Lemma fold_no_empty : forall its m s, no_empty m -> no_empty (fst (fold_left fstep its (m, s))).
Proof.
  induction its as [|[t v] its IH]; intros m s H; [exact H|]. cbn [fold_left fstep].
  destruct v; [apply IH; exact H|]. apply IH. destruct (mget m t); [|destruct (existsb _ _)]; apply no_empty_mset; exact H.
Qed.

Definition disjoint (a b : list N) : Prop := forall x, In x a -> ~ In x b.

(** the map of a concatenation is the concatenation of the maps when the two parts touch disjoint tags *)
Lemma fillmap_app a b : disjoint (touch b) (touch a) -> fillmap (a ++ b) = fillmap b ++ fillmap a.
Proof.
  intros Hd. unfold fillmap. rewrite fold_left_app.
  set (st := fold_left fstep a ([], [])).
  assert (HkF : forall x, In x (keys (fst st)) -> In x (touch a)).
  { intros x Hx. destruct (fold_keys a [] [] x Hx) as [[]|H1]. exact H1. }
  assert (Hsf : forall x, In x (snd st) -> In x (touch a)).
  { intros x Hx. destruct (fold_seen a [] [] x Hx) as [[]|H1]. exact H1. }
  rewrite (surjective_pairing st). change (fst st, snd st) with ([] ++ fst st, snd st).
  rewrite fold_frame; [|intros t Ht Hk; exact (Hd t Ht (HkF t Hk))].
  cbn [fst]. f_equal. apply (fold_seen_irrel (touch b)); [apply incl_refl|].
  intros t Ht. cbn [existsb]. destruct (existsb (N.eqb t) (snd st)) eqn:E; [|reflexivity].
  apply existsb_exists in E. destruct E as (y & Hy & Ey). apply N.eqb_eq in Ey. subst y. exfalso. exact (Hd t Ht (Hsf t Hy)).
Qed.

(** ** 5. what one value (one or more 255-byte fragments) does to the map *)
Lemma append_last_snoc old x c : append_last (old ++ [x]) c = old ++ [x ++ c].
Proof.
  induction old as [|o old IH]; [reflexivity|]. cbn [app append_last].
  destruct (old ++ [x]) eqn:E; [destruct old; discriminate|]. rewrite IH. reflexivity.
Qed.

Definition mem (t : N) (s : list N) : bool := existsb (N.eqb t) s.

Lemma fold_cont t : forall cs m s old acc, Forall (fun c => c <> []) cs ->
  mget m t = old ++ [acc] -> mem t s = true ->
  let st := fold_left fstep (map (pair t) cs) (m, s) in
  (forall x, mget (fst st) x = if x =? t then old ++ [acc ++ concat cs] else mget m x) /\
  mem t (snd st) = true /\ (forall y, y <> t -> mem y (snd st) = mem y s).
Proof.
  induction cs as [|c cs IH]; intros m s old acc Hne Hg Hs; cbv zeta; cbn [map fold_left concat].
  - rewrite app_nil_r. split; [|split; [exact Hs|reflexivity]].
    intros x. destruct (N.eqb_spec x t) as [->|Ne]; [exact Hg|reflexivity].
  - inversion Hne as [|? ? Hc Hr]; subst. cbn [fstep]. destruct c as [|c0 c']; [congruence|].
    rewrite Hg. destruct (old ++ [acc]) as [|o1 o2] eqn:Eo; [destruct old; discriminate|]. rewrite <- Eo.
    unfold mem in Hs. rewrite Hs. rewrite append_last_snoc.
    specialize (IH (mset m t (old ++ [acc ++ c0 :: c'])) (t :: s) old (acc ++ c0 :: c') Hr (mget_mset_same _ _ _)).
    assert (Hs' : mem t (t :: s) = true) by (unfold mem; cbn [existsb]; rewrite N.eqb_refl; reflexivity).
    cbv zeta in IH. destruct (IH Hs') as (A & B & C). split; [|split; [exact B|]].
    + intros x. rewrite A. destruct (N.eqb_spec x t) as [->|Ne]; [rewrite <- app_assoc; reflexivity|apply mget_mset_other; exact Ne].
    + intros y Hy. rewrite (C y Hy). unfold mem. cbn [existsb]. destruct (N.eqb_spec y t); [congruence|reflexivity].
Qed.

Lemma fold_frags t v m s : v <> [] -> (mget m t = [] \/ mem t s = false) ->
  let st := fold_left fstep (frags t v) (m, s) in
  (forall x, mget (fst st) x = if x =? t then mget m t ++ [v] else mget m x) /\
  mem t (snd st) = true /\ (forall y, y <> t -> mem y (snd st) = mem y s).
Proof.
  intros Hv Hnew. cbv zeta. unfold frags. pose proof (chunks_nonempty 255 v ltac:(lia)) as Hne.
  pose proof (chunks_concat 255 v ltac:(lia)) as Hc.
  destruct (chunks 255 v) as [|c cs] eqn:Ec; [cbn in Hc; congruence|].
  assert (Hc1 : c <> []) by (inversion Hne; assumption).
  assert (Hcs : Forall (fun c => c <> []) cs) by (inversion Hne; assumption).
  cbn [concat] in Hc. cbn [map fold_left fstep]. destruct c as [|c0 c']; [congruence|].
  assert (Hs' : mem t (t :: s) = true) by (unfold mem; cbn [existsb]; rewrite N.eqb_refl; reflexivity).
  destruct (mget m t) as [|o old] eqn:Eg; cbv iota.
  - destruct (fold_cont t cs (mset m t [c0 :: c']) (t :: s) [] (c0 :: c') Hcs (mget_mset_same _ _ _) Hs') as (A & B & C).
    split; [|split; [exact B|]].
    + intros x. etransitivity; [apply A|]. rewrite Hc. destruct (N.eqb_spec x t) as [->|Ne]; [reflexivity|apply mget_mset_other; exact Ne].
    + intros y Hy. etransitivity; [apply (C y Hy)|]. unfold mem. cbn [existsb]. destruct (N.eqb_spec y t); [congruence|reflexivity].
  - destruct Hnew as [Hn|Hn]; [discriminate|]. unfold mem in Hn. rewrite Hn.
    destruct (fold_cont t cs (mset m t ((o :: old) ++ [c0 :: c'])) (t :: s) (o :: old) (c0 :: c') Hcs (mget_mset_same _ _ _) Hs') as (A & B & C).
    split; [|split; [exact B|]].
    + intros x. etransitivity; [apply A|]. rewrite Hc. destruct (N.eqb_spec x t) as [->|Ne]; [reflexivity|apply mget_mset_other; exact Ne].
    + intros y Hy. etransitivity; [apply (C y Hy)|]. unfold mem. cbn [existsb]. destruct (N.eqb_spec y t); [congruence|reflexivity].
Qed.

Lemma frags_nil t : frags t [] = [].
Proof. reflexivity. Qed.
Lemma touch_frags t v : v <> [] -> forall x, In x (touch (frags t v)) -> x = t.
Proof.
  intros Hv x. unfold frags, touch. rewrite flat_map_concat_map, map_map. intros H. apply in_concat in H.
  destruct H as (l & Hl & Hx). apply in_map_iff in Hl. destruct Hl as (c & <- & Hc). cbn [snd fst] in Hx.
  destruct c; [destruct Hx|destruct Hx as [<-|[]]; reflexivity].
Qed.
Lemma touch_frags_incl t v : forall x, In x (touch (frags t v)) -> x = t.
Proof. destruct v as [|b v']; [intros x []|apply touch_frags; discriminate]. Qed.
