From HC Require Import Base.HBytes Model.Charac.
From Coq Require Import ZifyBool ZifyNat ZifyN.
Open Scope Z_scope.

Lemma f_ltb_irrefl a : f_ltb a a = false.
Proof. unfold f_ltb. rewrite Z.ltb_irrefl. destruct (f_is_nan a); reflexivity. Qed.

Definition declared (f : fmt) : Prop := f <> FOther.

(** one updateValue keeps the characteristic well typed, never panics, never changes the
    declaration (format, permissions, bounds) *)
Lemma update_well_typed c v o chk :
  declared (format c) -> bounds_ok c = true -> well_typed c = true ->
  exists c' cbs, update true c v o chk = Ok (c', cbs) /\
    well_typed c' = true /\ format c' = format c /\ minv c' = minv c /\ maxv c' = maxv c /\
    p_read c' = p_read c /\ p_write c' = p_write c /\ p_event c' = p_event c.
Proof.
  intros Hd Hb Hw. unfold update.
  destruct (convert true (format c) v) as [v1|] eqn:Ec; [|exists c, []; repeat split; auto].
  (* v1 has the format's type *)
  assert (Ht1 : has_type (format c) v1 = true).
  { unfold convert in Ec. destruct (format c) eqn:Ef; try congruence.
    - destruct v; try discriminate. injection Ec as <-. reflexivity.
    - injection Ec as <-. reflexivity.
    - cbn [andb] in Ec. destruct (f_finite (to_float64 v)) eqn:E; cbn [negb] in Ec; [|discriminate].
      injection Ec as <-. cbn. exact E.
    - injection Ec as <-. reflexivity.
    - injection Ec as <-. reflexivity.
    - injection Ec as <-. reflexivity.
    - injection Ec as <-. reflexivity.
    - injection Ec as <-. reflexivity.
    - destruct v; try discriminate. injection Ec as <-. reflexivity.
    - destruct v; try discriminate. injection Ec as <-. reflexivity. }
  (* the clamped value has the type and lies within the declared bounds *)
  assert (Ht2 : has_type (format c) (clamp c v1) = true /\ within c (clamp c v1) = true).
  { unfold clamp, bounds_ok, within in *.
    destruct (format c) eqn:Ef; try congruence; destruct v1; cbn [has_type] in Ht1; try discriminate;
      try (split; [exact Ht1|reflexivity]).
    - (* float *)
      destruct (maxv c) as [|mx|mx], (minv c) as [|mn|mn]; cbn [andb] in Hb; try discriminate;
        try (split; [exact Ht1|reflexivity]);
        repeat match goal with |- context [if ?b then _ else _] => destruct b eqn:? end;
        cbn [has_type]; rewrite ?f_ltb_irrefl;
        repeat match goal with H : (_ && _)%bool = true |- _ => apply andb_true_iff in H; destruct H end;
        repeat match goal with H : negb _ = true |- _ => apply negb_true_iff in H end;
        repeat match goal with H : f_ltb _ _ = _ |- _ => rewrite H end;
        split; auto.
    - destruct (maxv c) as [|mx|mx], (minv c) as [|mn|mn]; cbn [andb] in Hb; try discriminate; cbn [has_type];
        repeat match goal with |- context [if ?b then _ else _] => destruct b eqn:? end; split; auto; lia.
    - destruct (maxv c) as [|mx|mx], (minv c) as [|mn|mn]; cbn [andb] in Hb; try discriminate; cbn [has_type];
        repeat match goal with |- context [if ?b then _ else _] => destruct b eqn:? end; split; auto; lia.
    - destruct (maxv c) as [|mx|mx], (minv c) as [|mn|mn]; cbn [andb] in Hb; try discriminate; cbn [has_type];
        repeat match goal with |- context [if ?b then _ else _] => destruct b eqn:? end; split; auto; lia.
    - destruct (maxv c) as [|mx|mx], (minv c) as [|mn|mn]; cbn [andb] in Hb; try discriminate; cbn [has_type];
        repeat match goal with |- context [if ?b then _ else _] => destruct b eqn:? end; split; auto; lia.
    - destruct (maxv c) as [|mx|mx], (minv c) as [|mn|mn]; cbn [andb] in Hb; try discriminate; cbn [has_type];
        repeat match goal with |- context [if ?b then _ else _] => destruct b eqn:? end; split; auto; lia. }
  destruct Ht2 as [Ht2 Hin].
  (* the equality test cannot panic: the new value is never a composite *)
  assert (He : exists b, iface_eq (cvalue c) (clamp c v1) = Some b).
  { unfold iface_eq. destruct (cvalue c) as [x|]; [|eauto].
    destruct (clamp c v1) eqn:Ecl; destruct x; eauto.
    destruct (format c); cbn in Ht2; try discriminate; congruence. }
  destruct He as [b He]. rewrite He. destruct (b && negb (upd_same c))%bool; [exists c, []; repeat split; auto|].
  destruct (chk && negb (p_write c))%bool; [exists c, []; repeat split; auto|].
  eexists; eexists. split; [reflexivity|]. cbn [format minv maxv p_read p_write p_event].
  repeat split; auto. unfold well_typed. cbn [cvalue format].
  destruct (p_read c); [|exact Hw].
  unfold within in *. cbn [minv maxv]. rewrite Ht2. exact Hin.
Qed.

Lemma bounds_ok_decl c c' : format c' = format c -> minv c' = minv c -> maxv c' = maxv c ->
  bounds_ok c' = bounds_ok c.
Proof. intros H1 H2 H3. unfold bounds_ok. rewrite H1, H2, H3. reflexivity. Qed.

Lemma cstep_well_typed c op :
  declared (format c) -> bounds_ok c = true -> well_typed c = true ->
  exists c' cbs, cstep true c op = Ok (c', cbs) /\
    well_typed c' = true /\ format c' = format c /\ minv c' = minv c /\ maxv c' = maxv c /\
    p_read c' = p_read c /\ p_write c' = p_write c /\ p_event c' = p_event c.
Proof. intros. destruct op as [v|k v|[k|] v]; cbn [cstep]; apply update_well_typed; assumption. Qed.

(** C12: for every sequence of local updates, remote writes and getter-function refreshes with
    arbitrary values, no step panics and the stored value always has the declared type and lies
    within the declared bounds *)
Lemma crun_well_typed : forall ops c,
  declared (format c) -> bounds_ok c = true -> well_typed c = true ->
  exists c' cbs, crun true c ops = Ok (c', cbs) /\ well_typed c' = true /\
    format c' = format c /\ minv c' = minv c /\ maxv c' = maxv c.
Proof.
  induction ops as [|op ops IH]; intros c Hd Hb Hw; cbn [crun].
  - exists c, []. auto.
  - destruct (cstep_well_typed c op Hd Hb Hw) as (c1 & cbs1 & E & Hw1 & Hf & Hmn & Hmx & _).
    rewrite E.
    destruct (IH c1) as (c2 & cbs2 & E2 & Hw2 & Hf2 & Hmn2 & Hmx2).
    + unfold declared in *. rewrite Hf. exact Hd.
    + rewrite (bounds_ok_decl c c1) by assumption. exact Hb.
    + exact Hw1.
    + rewrite E2. exists c2, (cbs1 ++ cbs2). repeat split; auto; congruence.
Qed.

(** typed getters: a well-typed readable value has exactly the Go dynamic type the getter asserts *)
Lemma getter_total c v : declared (format c) -> well_typed c = true -> cvalue c = Some v ->
  match format c with
  | FString | FData | FTlv8 => exists s a b d, v = VStr s a b d
  | FBool => exists b, v = VBool b
  | FFloat => exists b u, v = VFloat b u /\ f_finite b = true
  | FOther => True
  | _ => exists z, v = VInt z
  end.
Proof.
  intros Hd Hw Hv. unfold well_typed in Hw. rewrite Hv in Hw. apply andb_true_iff in Hw. destruct Hw as [Ht _].
  destruct (format c); destruct v; cbn in Ht; try discriminate; eauto.
Qed.

(** ---- C11 ---- *)
Lemma remote_write_refused strict c v k : p_write c = false ->
  update strict c v (Remote k) true = Ok (c, []) \/ update strict c v (Remote k) true = Panic.
Proof.
  intros Hp. unfold update. destruct (convert strict (format c) v); [|left; reflexivity].
  destruct (iface_eq (cvalue c) (clamp c g)) as [b|]; [|right; reflexivity].
  destruct (b && negb (upd_same c))%bool; [left; reflexivity|].
  rewrite Hp. left. reflexivity.
Qed.

Lemma remote_write_refused_declared c v k : p_write c = false ->
  declared (format c) -> bounds_ok c = true -> well_typed c = true ->
  update true c v (Remote k) true = Ok (c, []).
Proof.
  intros Hp Hd Hb Hw. destruct (remote_write_refused true c v k Hp) as [H|H]; [exact H|].
  destruct (update_well_typed c v (Remote k) true Hd Hb Hw) as (c' & cbs & E & _). congruence.
Qed.

Lemma unreadable_never_stores strict : forall ops c c' cbs,
  p_read c = false -> cvalue c = None -> crun strict c ops = Ok (c', cbs) -> cvalue c' = None /\ p_read c' = false.
Proof.
  induction ops as [|op ops IH]; intros c c' cbs Hr Hv H; cbn [crun] in H.
  - injection H as <- <-. auto.
  - destruct (cstep strict c op) as [[c1 cbs1]| | |] eqn:E; try discriminate.
    destruct (crun strict c1 ops) as [[c2 cbs2]| | |] eqn:E2; try discriminate.
    injection H as <- <-.
    assert (H1 : cvalue c1 = None /\ p_read c1 = false).
    { assert (Hu : forall v o chk, update strict c v o chk = Ok (c1, cbs1) -> cvalue c1 = None /\ p_read c1 = false).
      { intros v o chk Hu. unfold update in Hu.
        destruct (convert strict (format c) v); [|injection Hu as <- <-; auto].
        destruct (iface_eq (cvalue c) (clamp c g)) as [b|]; try discriminate.
        destruct (b && negb (upd_same c))%bool; [injection Hu as <- <-; auto|].
        destruct (chk && negb (p_write c))%bool; injection Hu as <- <-; auto.
        cbn [cvalue p_read]. rewrite Hr. auto. }
      destruct op as [v|k v|[k|] v]; cbn [cstep] in E; eapply Hu; exact E. }
    destruct H1. eapply IH; eauto.
Qed.

(** ---- pinned behaviour (strict = false), refuted ---- *)
Definition string_char : charac := mkChar FString true true true (Some (VStr [97%N] 0 0 false)) BNone BNone false.
Definition float_char : charac := mkChar FFloat true true true (Some (VFloat 0 0)) (BFloat 0) (BFloat 4636737291354636288%N) false.

Lemma pinned_number_into_string :
  exists c' cbs, cstep false string_char (CRemote 1 (VFloat f_one 1)) = Ok (c', cbs) /\ well_typed c' = false.
Proof. eexists; eexists. split; [vm_compute; reflexivity|reflexivity]. Qed.

Lemma pinned_nan_into_float :
  let nan := 9221120237041090560%N in
  exists c' cbs, cstep false float_char (CRemote 1 (VStr [78;97;78]%N 0 nan false)) = Ok (c', cbs) /\ well_typed c' = false.
Proof. eexists; eexists. split; [vm_compute; reflexivity|reflexivity]. Qed.

Lemma pinned_same_object_twice :
  crun false string_char [CRemote 1 (VComposite 7); CRemote 1 (VComposite 7)] = Panic.
Proof. vm_compute. reflexivity. Qed.

Lemma charac_nonvacuous :
  declared (format float_char) /\ bounds_ok float_char = true /\ well_typed float_char = true /\
  exists c' cbs, crun true float_char [CRemote 1 (VFloat 4641240890982006784%N 200); CLocal (VStr [78;97;78]%N 0 9221120237041090560%N false);
                                       CRemote 2 (VFloat 4641240890982006784%N 200)] = Ok (c', cbs) /\
     cvalue c' = Some (VFloat 4636737291354636288%N 0) /\ length cbs = 1%nat.
Proof.
  split; [discriminate|]. split; [reflexivity|]. split; [reflexivity|].
  eexists; eexists. split; [vm_compute; reflexivity|]. split; reflexivity.
Qed.

(** C09: a value that is valid for the characteristic (a fixpoint of conversion and clamping) is
    stored exactly, and the callback carries exactly it, when it differs from the stored value *)
Lemma update_valid c v o chk :
  convert true (format c) v = Some v -> clamp c v = v -> p_read c = true -> (chk = true -> p_write c = true) ->
  declared (format c) -> bounds_ok c = true -> well_typed c = true ->
  exists c' cbs, update true c v o chk = Ok (c', cbs) /\ cvalue c' = Some v \/
                 (update true c v o chk = Ok (c, []) /\ iface_eq (cvalue c) v = Some true).
Proof.
  intros Hc Hcl Hr Hw Hd Hb Hwt.
  destruct (update_well_typed c v o chk Hd Hb Hwt) as (c' & cbs & E & _).
  unfold update in *. rewrite Hc, Hcl in *.
  destruct (iface_eq (cvalue c) v) as [b|] eqn:Ee; try discriminate.
  assert (Hp : (chk && negb (p_write c))%bool = false).
  { destruct chk; [rewrite (Hw eq_refl); reflexivity|reflexivity]. }
  destruct (b && negb (upd_same c))%bool eqn:Eb.
  - exists c, []. right. split; [reflexivity|]. apply andb_true_iff in Eb. destruct Eb as [-> _]. reflexivity.
  - rewrite Hp in *. eexists; eexists. left. split; [reflexivity|]. cbn [cvalue]. rewrite Hr. reflexivity.
Qed.

(** * ranges declared again in the middle of a history *)
Definition typed (c : charac) : bool :=
  match cvalue c with None => true | Some v => has_type (format c) v end.

Lemma well_typed_typed c : well_typed c = true -> typed c = true.
Proof. unfold well_typed, typed. destruct (cvalue c); [|reflexivity]. intros H. apply andb_true_iff in H. tauto. Qed.

(** whatever range the stored value was checked against: one update never panics, keeps the type,
    and what it stores (and hands to the callbacks) lies within the range in force *)
Lemma update_typed c v o chk :
  declared (format c) -> bounds_ok c = true -> typed c = true ->
  exists c' cbs, update true c v o chk = Ok (c', cbs) /\ typed c' = true /\
    format c' = format c /\ minv c' = minv c /\ maxv c' = maxv c /\
    (cbs = [] /\ c' = c \/
     exists cb, cbs = [cb] /\ has_type (format c) (cb_new cb) = true /\ within c (cb_new cb) = true /\
                (p_read c = true -> cvalue c' = Some (cb_new cb)) /\ (p_read c = false -> cvalue c' = cvalue c)).
Proof.
  intros Hd Hb Hty.
  (* reuse the one-step lemma on the characteristic with its value removed: conversion and clamping
     do not look at the stored value *)
  set (c0 := mkChar (format c) (p_read c) (p_write c) (p_event c) None (minv c) (maxv c) true).
  assert (Hb0 : bounds_ok c0 = true) by exact Hb.
  destruct (update_well_typed c0 v o false Hd Hb0 eq_refl) as (c1 & cbs1 & E1 & Hw1 & _).
  unfold update in *. cbn [format cvalue upd_same c0] in E1.
  change (clamp c0) with (clamp c) in E1.
  destruct (convert true (format c) v) as [v1|] eqn:Ec.
  2:{ exists c, []. repeat split; auto. }
  assert (Hcl : clamp c0 v1 = clamp c v1) by reflexivity.
  cbn [iface_eq negb andb] in E1. injection E1 as <- <-.
  unfold well_typed in Hw1. cbn [cvalue format p_read c0] in Hw1.
  assert (Hnew : has_type (format c) (clamp c v1) = true /\ within c (clamp c v1) = true).
  { destruct (p_read c) eqn:Er.
    - apply andb_true_iff in Hw1. exact Hw1.
    - (* unreadable: redo it on a readable copy *)
      set (c2 := mkChar (format c) true (p_write c) (p_event c) None (minv c) (maxv c) true).
      destruct (update_well_typed c2 v o false Hd Hb eq_refl) as (c3 & cbs3 & E3 & Hw3 & _).
      unfold update in E3. cbn [format cvalue upd_same c2] in E3. rewrite Ec in E3.
      change (clamp c2 v1) with (clamp c v1) in E3. cbn [iface_eq negb andb p_read c2] in E3.
      injection E3 as <- <-. unfold well_typed in Hw3. cbn [cvalue format] in Hw3.
      apply andb_true_iff in Hw3. exact Hw3. }
  destruct Hnew as [Ht2 Hin].
  assert (He : exists b, iface_eq (cvalue c) (clamp c v1) = Some b).
  { unfold iface_eq. destruct (cvalue c) as [x|]; [|eauto].
    destruct (clamp c v1) eqn:Ecl; destruct x; eauto.
    destruct (format c); cbn in Ht2; try discriminate; congruence. }
  destruct He as [b He]. rewrite He.
  destruct (b && negb (upd_same c))%bool; [exists c, []; repeat split; auto|].
  destruct (chk && negb (p_write c))%bool; [exists c, []; repeat split; auto|].
  eexists; eexists. split; [reflexivity|]. cbn [format minv maxv].
  split.
  - unfold typed. cbn [cvalue format]. destruct (p_read c); [exact Ht2|exact Hty].
  - repeat split; auto. right. eexists. split; [reflexivity|]. cbn [cb_new cvalue].
    repeat split; auto; intros ->; reflexivity.
Qed.

Definition step_ok (p : charac * list callback) : Prop :=
  typed (fst p) = true /\
  Forall (fun cb => has_type (format (fst p)) (cb_new cb) = true /\ within (fst p) (cb_new cb) = true) (snd p) /\
  (snd p <> [] -> p_read (fst p) = true -> well_typed (fst p) = true).

Definition redecl_ok (c : charac) (ops : list cop2) : Prop :=
  forall mn mx, In (CRedeclare mn mx) ops -> bounds_ok (redeclare c mn mx) = true.

(** C12 over histories in which the application declares the range again: no step panics, the type
    is kept throughout, every value an update stores or hands to a callback lies within the range
    in force at that moment, and after every storing update the characteristic is well typed *)
Lemma crun2_redeclared : forall ops c,
  declared (format c) -> bounds_ok c = true -> typed c = true -> redecl_ok c ops ->
  exists tr, crun2 true c ops = Ok tr /\ Forall step_ok tr.
Proof.
  induction ops as [|op ops IH]; intros c Hd Hb Hty Hr; cbn [crun2].
  - exists []. split; [reflexivity|constructor].
  - assert (Hstep : exists c1 cbs1, cstep2 true c op = Ok (c1, cbs1) /\ step_ok (c1, cbs1) /\
                      format c1 = format c /\ bounds_ok c1 = true).
    { destruct op as [o|mn mx]; cbn [cstep2].
      - assert (Hu : forall v og chk, exists c1 cbs1, update true c v og chk = Ok (c1, cbs1) /\ step_ok (c1, cbs1) /\
                       format c1 = format c /\ bounds_ok c1 = true).
        { intros v og chk.
          destruct (update_typed c v og chk Hd Hb Hty) as (c1 & cbs1 & E & Ht1 & Hf & Hmn & Hmx & Hcase).
          exists c1, cbs1. split; [exact E|]. split; [|split; [exact Hf|rewrite (bounds_ok_decl c c1) by assumption; exact Hb]].
          unfold step_ok. cbn [fst snd]. split; [exact Ht1|].
          destruct Hcase as [[-> ->]|(cb & -> & Hht & Hwi & Hrd & _)].
          - split; [constructor|]. intros Hn. contradiction Hn. reflexivity.
          - assert (Hwi1 : within c1 (cb_new cb) = true) by (unfold within in *; rewrite Hmn, Hmx; exact Hwi).
            split.
            + constructor; [|constructor]. rewrite Hf. split; assumption.
            + intros _ Hp. unfold well_typed.
              assert (Hpr : p_read c = true).
              { unfold update in E. destruct (convert true (format c) v); [|discriminate].
                destruct (iface_eq (cvalue c) (clamp c g)); [|discriminate].
                destruct (b && negb (upd_same c))%bool; [discriminate|].
                destruct (chk && negb (p_write c))%bool; [discriminate|].
                injection E as <- _. exact Hp. }
              rewrite (Hrd Hpr), Hf, Hht. exact Hwi1. }
        destruct o as [v|k v|[k|] v]; cbn [cstep]; apply Hu.
      - exists (redeclare c mn mx), []. split; [reflexivity|]. split; [|split; [reflexivity|apply Hr; left; reflexivity]].
        unfold step_ok. cbn [fst snd]. split; [exact Hty|]. split; [constructor|]. intros Hn. contradiction Hn. reflexivity. }
    destruct Hstep as (c1 & cbs1 & E & Hok & Hf & Hb1). rewrite E.
    destruct (IH c1) as (tr & Etr & Htr).
    + unfold declared in *. rewrite Hf. exact Hd.
    + exact Hb1.
    + apply Hok.
    + intros mn mx Hin. specialize (Hr mn mx (or_intror Hin)).
      unfold bounds_ok, redeclare in *. cbn [format minv maxv] in *. rewrite Hf. exact Hr.
    + rewrite Etr. exists ((c1, cbs1) :: tr). split; [reflexivity|]. constructor; assumption.
Qed.

(** non-vacuous: a thermostat-like float characteristic, range 10..38 declared again as 15..30 *)
Definition f10 : N := 4621819117588971520%N.
Definition f15 : N := 4624633867356078080%N.
Definition f30 : N := 4629137466983448576%N.
Definition f35 : N := 4630122629401935872%N.
Definition f38 : N := 4630967054332067840%N.
Definition thermo : charac := mkChar FFloat true true true (Some (VFloat f10 0)) (BFloat f10) (BFloat f38) false.
Lemma redeclared_nonvacuous :
  declared (format thermo) /\ bounds_ok thermo = true /\ typed thermo = true /\
  redecl_ok thermo [CUpd (CLocal (VFloat f35 35)); CRedeclare (BFloat f15) (BFloat f30); CUpd (CRemote 1 (VFloat f35 35))] /\
  exists c1 c2 c3 cb1 cb3,
    crun2 true thermo [CUpd (CLocal (VFloat f35 35)); CRedeclare (BFloat f15) (BFloat f30); CUpd (CRemote 1 (VFloat f35 35))]
    = Ok [(c1, [cb1]); (c2, []); (c3, [cb3])] /\
    cvalue c1 = Some (VFloat f35 0) /\ cvalue c2 = Some (VFloat f35 0) /\ well_typed c2 = false /\
    cvalue c3 = Some (VFloat f30 0) /\ well_typed c3 = true.
Proof.
  split; [discriminate|]. split; [reflexivity|]. split; [reflexivity|]. split.
  - intros mn mx [H|[H|[H|[]]]]; try discriminate. injection H as <- <-. reflexivity.
  - do 5 eexists. split; [vm_compute; reflexivity|]. repeat split; reflexivity.
Qed.
