From HC Require Import Base.HBytes Model.Charac.
From Coq Require Import ZifyBool ZifyNat ZifyN.
Open Scope Z_scope.

Lemma f_ltb_irrefl a : f_ltb a a = false.
Proof. unfold f_ltb. rewrite Z.ltb_irrefl. destruct (f_is_nan a); reflexivity. Qed.

Definition declared (f : fmt) : Prop := f <> FOther.

(** one updateValue keeps the characteristic well typed, never panics, never changes the
    declaration (format, permissions, bounds) *)
Lemma update_well_typed c v o chk :
  declared (format c) -> bounds_ok c = true -> well_typed c = true ->
  exists c' cbs, update true c v o chk = Ok (c', cbs) /\
    well_typed c' = true /\ format c' = format c /\ minv c' = minv c /\ maxv c' = maxv c /\
    p_read c' = p_read c /\ p_write c' = p_write c /\ p_event c' = p_event c.
Proof.
  intros Hd Hb Hw. unfold update.
  destruct (convert true (format c) v) as [v1|] eqn:Ec; [|exists c, []; repeat split; auto].
  (* v1 has the format's type *)
  assert (Ht1 : has_type (format c) v1 = true).
  { unfold convert in Ec. destruct (format c) eqn:Ef; try congruence.
    - destruct v; try discriminate. injection Ec as <-. reflexivity.
    - injection Ec as <-. reflexivity.
    - cbn [andb] in Ec. destruct (f_finite (to_float64 v)) eqn:E; cbn [negb] in Ec; [|discriminate].
      injection Ec as <-. cbn. exact E.
    - injection Ec as <-. reflexivity.
    - injection Ec as <-. reflexivity.
    - injection Ec as <-. reflexivity.
    - injection Ec as <-. reflexivity.
    - injection Ec as <-. reflexivity.
    - destruct v; try discriminate. injection Ec as <-. reflexivity.
    - destruct v; try discriminate. injection Ec as <-. reflexivity. }
  (* the clamped value has the type and lies within the declared bounds *)
  assert (Ht2 : has_type (format c) (clamp c v1) = true /\ within c (clamp c v1) = true).
  { unfold clamp, bounds_ok, within in *.
    destruct (format c) eqn:Ef; try congruence; destruct v1; cbn [has_type] in Ht1; try discriminate;
      try (split; [exact Ht1|reflexivity]).
    - (* float *)
      destruct (maxv c) as [|mx|mx], (minv c) as [|mn|mn]; cbn [andb] in Hb; try discriminate;
        try (split; [exact Ht1|reflexivity]);
        repeat match goal with |- context [if ?b then _ else _] => destruct b eqn:? end;
        cbn [has_type]; rewrite ?f_ltb_irrefl;
        repeat match goal with H : (_ && _)%bool = true |- _ => apply andb_true_iff in H; destruct H end;
        repeat match goal with H : negb _ = true |- _ => apply negb_true_iff in H end;
        repeat match goal with H : f_ltb _ _ = _ |- _ => rewrite H end;
        split; auto.
    - destruct (maxv c) as [|mx|mx], (minv c) as [|mn|mn]; cbn [andb] in Hb; try discriminate; cbn [has_type];
        repeat match goal with |- context [if ?b then _ else _] => destruct b eqn:? end; split; auto; lia.
    - destruct (maxv c) as [|mx|mx], (minv c) as [|mn|mn]; cbn [andb] in Hb; try discriminate; cbn [has_type];
        repeat match goal with |- context [if ?b then _ else _] => destruct b eqn:? end; split; auto; lia.
    - destruct (maxv c) as [|mx|mx], (minv c) as [|mn|mn]; cbn [andb] in Hb; try discriminate; cbn [has_type];
        repeat match goal with |- context [if ?b then _ else _] => destruct b eqn:? end; split; auto; lia.
    - destruct (maxv c) as [|mx|mx], (minv c) as [|mn|mn]; cbn [andb] in Hb; try discriminate; cbn [has_type];
        repeat match goal with |- context [if ?b then _ else _] => destruct b eqn:? end; split; auto; lia.
    - destruct (maxv c) as [|mx|mx], (minv c) as [|mn|mn]; cbn [andb] in Hb; try discriminate; cbn [has_type];
        repeat match goal with |- context [if ?b then _ else _] => destruct b eqn:? end; split; auto; lia. }
  destruct Ht2 as [Ht2 Hin].
  (* the equality test cannot panic: the new value is never a composite *)
  assert (He : exists b, iface_eq (cvalue c) (clamp c v1) = Some b).
  { unfold iface_eq. destruct (cvalue c) as [x|]; [|eauto].
    destruct (clamp c v1) eqn:Ecl; destruct x; eauto.
    destruct (format c); cbn in Ht2; try discriminate; congruence. }
  destruct He as [b He]. rewrite He. destruct (b && negb (upd_same c))%bool; [exists c, []; repeat split; auto|].
  destruct (chk && negb (p_write c))%bool; [exists c, []; repeat split; auto|].
  eexists; eexists. split; [reflexivity|]. cbn [format minv maxv p_read p_write p_event].
  repeat split; auto. unfold well_typed. cbn [cvalue format].
  destruct (p_read c); [|exact Hw].
  unfold within in *. cbn [minv maxv]. rewrite Ht2. exact Hin.
Qed.

Lemma bounds_ok_decl c c' : format c' = format c -> minv c' = minv c -> maxv c' = maxv c ->
  bounds_ok c' = bounds_ok c.
Proof. intros H1 H2 H3. unfold bounds_ok. rewrite H1, H2, H3. reflexivity. Qed.

Lemma cstep_well_typed c op :
  declared (format c) -> bounds_ok c = true -> well_typed c = true ->
  exists c' cbs, cstep true c op = Ok (c', cbs) /\
    well_typed c' = true /\ format c' = format c /\ minv c' = minv c /\ maxv c' = maxv c /\
    p_read c' = p_read c /\ p_write c' = p_write c /\ p_event c' = p_event c.
Proof. intros. destruct op as [v|k v|[k|] v]; cbn [cstep]; apply update_well_typed; assumption. Qed.

(** C12: for every sequence of local updates, remote writes and getter-function refreshes with
    arbitrary values, no step panics and the stored value always has the declared type and lies
    within the declared bounds *)
Lemma crun_well_typed : forall ops c,
  declared (format c) -> bounds_ok c = true -> well_typed c = true ->
  exists c' cbs, crun true c ops = Ok (c', cbs) /\ well_typed c' = true /\
    format c' = format c /\ minv c' = minv c /\ maxv c' = maxv c.
Proof.
  induction ops as [|op ops IH]; intros c Hd Hb Hw; cbn [crun].
  - exists c, []. auto.
  - destruct (cstep_well_typed c op Hd Hb Hw) as (c1 & cbs1 & E & Hw1 & Hf & Hmn & Hmx & _).
    rewrite E.
    destruct (IH c1) as (c2 & cbs2 & E2 & Hw2 & Hf2 & Hmn2 & Hmx2).
    + unfold declared in *. rewrite Hf. exact Hd.
    + rewrite (bounds_ok_decl c c1) by assumption. exact Hb.
    + exact Hw1.
    + rewrite E2. exists c2, (cbs1 ++ cbs2). repeat split; auto; congruence.
Qed.

(** typed getters: a well-typed readable value has exactly the Go dynamic type the getter asserts *)
Lemma getter_total c v : declared (format c) -> well_typed c = true -> cvalue c = Some v ->
  match format c with
  | FString | FData | FTlv8 => exists s a b d, v = VStr s a b d
  | FBool => exists b, v = VBool b
  | FFloat => exists b u, v = VFloat b u /\ f_finite b = true
  | FOther => True
  | _ => exists z, v = VInt z
  end.
Proof.
  intros Hd Hw Hv. unfold well_typed in Hw. rewrite Hv in Hw. apply andb_true_iff in Hw. destruct Hw as [Ht _].
  destruct (format c); destruct v; cbn in Ht; try discriminate; eauto.
Qed.

(** ---- C11 ---- *)
Lemma remote_write_refused strict c v k : p_write c = false ->
  update strict c v (Remote k) true = Ok (c, []) \/ update strict c v (Remote k) true = Panic.
Proof.
  intros Hp. unfold update. destruct (convert strict (format c) v); [|left; reflexivity].
  destruct (iface_eq (cvalue c) (clamp c g)) as [b|]; [|right; reflexivity].
  destruct (b && negb (upd_same c))%bool; [left; reflexivity|].
  rewrite Hp. left. reflexivity.
Qed.

Lemma remote_write_refused_declared c v k : p_write c = false ->
  declared (format c) -> bounds_ok c = true -> well_typed c = true ->
  update true c v (Remote k) true = Ok (c, []).
Proof.
  intros Hp Hd Hb Hw. destruct (remote_write_refused true c v k Hp) as [H|H]; [exact H|].
  destruct (update_well_typed c v (Remote k) true Hd Hb Hw) as (c' & cbs & E & _). congruence.
Qed.

Lemma unreadable_never_stores strict : forall ops c c' cbs,
  p_read c = false -> cvalue c = None -> crun strict c ops = Ok (c', cbs) -> cvalue c' = None /\ p_read c' = false.
Proof.
  induction ops as [|op ops IH]; intros c c' cbs Hr Hv H; cbn [crun] in H.
  - injection H as <- <-. auto.
  - destruct (cstep strict c op) as [[c1 cbs1]| | |] eqn:E; try discriminate.
    destruct (crun strict c1 ops) as [[c2 cbs2]| | |] eqn:E2; try discriminate.
    injection H as <- <-.
    assert (H1 : cvalue c1 = None /\ p_read c1 = false).
    { assert (Hu : forall v o chk, update strict c v o chk = Ok (c1, cbs1) -> cvalue c1 = None /\ p_read c1 = false).
      { intros v o chk Hu. unfold update in Hu.
        destruct (convert strict (format c) v); [|injection Hu as <- <-; auto].
        destruct (iface_eq (cvalue c) (clamp c g)) as [b|]; try discriminate.
        destruct (b && negb (upd_same c))%bool; [injection Hu as <- <-; auto|].
        destruct (chk && negb (p_write c))%bool; injection Hu as <- <-; auto.
        cbn [cvalue p_read]. rewrite Hr. auto. }
      destruct op as [v|k v|[k|] v]; cbn [cstep] in E; eapply Hu; exact E. }
    destruct H1. eapply IH; eauto.
Qed.

(** ---- pinned behaviour (strict = false), refuted ---- *)
Definition string_char : charac := mkChar FString true true true (Some (VStr [97%N] 0 0 false)) BNone BNone false.
Definition float_char : charac := mkChar FFloat true true true (Some (VFloat 0 0)) (BFloat 0) (BFloat 4636737291354636288%N) false.

Lemma pinned_number_into_string :
  exists c' cbs, cstep false string_char (CRemote 1 (VFloat f_one 1)) = Ok (c', cbs) /\ well_typed c' = false.
Proof. eexists; eexists. split; [vm_compute; reflexivity|reflexivity]. Qed.

Lemma pinned_nan_into_float :
  let nan := 9221120237041090560%N in
  exists c' cbs, cstep false float_char (CRemote 1 (VStr [78;97;78]%N 0 nan false)) = Ok (c', cbs) /\ well_typed c' = false.
Proof. eexists; eexists. split; [vm_compute; reflexivity|reflexivity]. Qed.

Lemma pinned_same_object_twice :
  crun false string_char [CRemote 1 (VComposite 7); CRemote 1 (VComposite 7)] = Panic.
Proof. vm_compute. reflexivity. Qed.

Lemma charac_nonvacuous :
  declared (format float_char) /\ bounds_ok float_char = true /\ well_typed float_char = true /\
  exists c' cbs, crun true float_char [CRemote 1 (VFloat 4641240890982006784%N 200); CLocal (VStr [78;97;78]%N 0 9221120237041090560%N false);
                                       CRemote 2 (VFloat 4641240890982006784%N 200)] = Ok (c', cbs) /\
     cvalue c' = Some (VFloat 4636737291354636288%N 0) /\ length cbs = 1%nat.
Proof.
  split; [discriminate|]. split; [reflexivity|]. split; [reflexivity|].
  eexists; eexists. split; [vm_compute; reflexivity|]. split; reflexivity.
Qed.

(** C09: a value that is valid for the characteristic (a fixpoint of conversion and clamping) is
    stored exactly, and the callback carries exactly it, when it differs from the stored value *)
Lemma update_valid c v o chk :
  convert true (format c) v = Some v -> clamp c v = v -> p_read c = true -> (chk = true -> p_write c = true) ->
  declared (format c) -> bounds_ok c = true -> well_typed c = true ->
  exists c' cbs, update true c v o chk = Ok (c', cbs) /\ cvalue c' = Some v \/
                 (update true c v o chk = Ok (c, []) /\ iface_eq (cvalue c) v = Some true).
Proof.
  intros Hc Hcl Hr Hw Hd Hb Hwt.
  destruct (update_well_typed c v o chk Hd Hb Hwt) as (c' & cbs & E & _).
  unfold update in *. rewrite Hc, Hcl in *.
  destruct (iface_eq (cvalue c) v) as [b|] eqn:Ee; try discriminate.
  assert (Hp : (chk && negb (p_write c))%bool = false).
  { destruct chk; [rewrite (Hw eq_refl); reflexivity|reflexivity]. }
  destruct (b && negb (upd_same c))%bool eqn:Eb.
  - exists c, []. right. split; [reflexivity|]. apply andb_true_iff in Eb. destruct Eb as [-> _]. reflexivity.
  - rewrite Hp in *. eexists; eexists. left. split; [reflexivity|]. cbn [cvalue]. rewrite Hr. reflexivity.
Qed.
