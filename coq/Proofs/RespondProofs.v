From HC Require Import Base.HBytes.
From HC Require Import Model.Respond.
From Coq Require Import Lia.
Local Open Scope nat_scope.

Lemma advs_app st l1 l2 : advs st (l1 ++ l2) = match advs st l1 with Some st' => advs st' l2 | None => None end.
Proof. revert st; induction l1 as [|it l1 IH]; intros st; cbn [app advs]; [reflexivity|]. destruct (adv st it); [apply IH|reflexivity]. Qed.

Lemma advs_notes st ns : advs st (map Note ns) = Some (fst st, match ns with [] => snd st | _ => true end).
Proof.
  revert st; induction ns as [|n ns IH]; intros [hi nd]; cbn [map advs adv fst snd]; [reflexivity|].
  rewrite IH. cbn [fst snd]. destruct ns; reflexivity.
Qed.

(** the invariant: what was written scans without a response being continued after a notification;
    response numbers on the wire never exceed the current one; and while a request is being handled
    no notification follows the parts of its response *)
Definition rinv (s : rstate) : Prop :=
  exists hi nd, advs (None, false) (rout s) = Some (hi, nd) /\
    (match hi with Some h => h <= cur s | None => True end) /\
    (responding s = true -> hi = Some (cur s) -> nd = false).

Lemma rinv_init : rinv rinit.
Proof. exists None, false. cbn. auto. Qed.

Lemma rstep_inv s o : rinv s -> (match o with RPart _ => responding s = true | _ => True end) -> rinv (rstep true s o).
Proof.
  intros (hi & nd & Ha & Hle & Hn) Hwf. destruct o as [|p| |n]; cbn [rstep].
  - exists hi, nd. cbn [rout cur responding]. split; [exact Ha|]. split.
    + destruct hi; [lia|exact I].
    + intros _ E. subst hi. lia.
  - exists (Some (cur s)), false. cbn [rout cur responding]. split; [|split; [lia|auto]].
    rewrite advs_app, Ha. cbn [advs adv fst snd].
    destruct hi as [h|]; cbn [andb]; [|reflexivity].
    destruct (Nat.eqb_spec h (cur s)) as [->|Hne]; cbn [andb]; [|reflexivity].
    rewrite (Hn Hwf eq_refl). reflexivity.
  - eexists hi, _. cbn [rout cur responding]. split; [|split; [exact Hle|discriminate]].
    rewrite advs_app, Ha, advs_notes. reflexivity.
  - cbn [andb]. destruct (responding s) eqn:Er.
    + exists hi, nd. cbn [rout cur responding]. split; [exact Ha|]. split; [exact Hle|]. intros _. apply Hn. reflexivity.
    + exists hi, true. cbn [rout cur responding]. split; [|split; [exact Hle|discriminate]].
      rewrite advs_app, Ha. reflexivity.
Qed.

Lemma responding_after s o : responding (rstep true s o) = match o with RBegin => true | RFinish => false | _ => responding s end.
Proof. destruct o; cbn [rstep responding]; try reflexivity. destruct (true && responding s)%bool; reflexivity. Qed.

Lemma rrun_inv_from : forall ops s, rinv s -> wf_from (responding s) ops = true -> rinv (fold_left (rstep true) ops s).
Proof.
  induction ops as [|o ops IH]; intros s Hi Hw; cbn [fold_left]; [exact Hi|].
  apply IH.
  - apply rstep_inv; [exact Hi|]. destruct o; auto. cbn [wf_from] in Hw. apply andb_true_iff in Hw. tauto.
  - rewrite responding_after. destruct o; cbn [wf_from] in Hw; auto. apply andb_true_iff in Hw. tauto.
Qed.

(** C09 / C08: for every history the server can produce, no response is continued after a notification *)
Theorem responses_never_interleaved : forall ops, wf_ops ops = true -> responses_intact (rout (rrun true ops)) = true.
Proof.
  intros ops Hw. destruct (rrun_inv_from ops rinit rinv_init Hw) as (hi & nd & Ha & _).
  unfold responses_intact, rrun. rewrite Ha. reflexivity.
Qed.

(** ... every notification is written exactly once and in the order it was made (those of a request
    still being handled are pending), and the parts of the responses are untouched *)
Lemma notes_app l1 l2 : notes_of_items (l1 ++ l2) = notes_of_items l1 ++ notes_of_items l2.
Proof. unfold notes_of_items. apply flat_map_app. Qed.
Lemma notes_map_note ns : notes_of_items (map Note ns) = ns.
Proof. induction ns as [|n ns IH]; cbn; [reflexivity|]. f_equal. exact IH. Qed.
Lemma parts_app l1 l2 : parts_of_items (l1 ++ l2) = parts_of_items l1 ++ parts_of_items l2.
Proof. unfold parts_of_items. apply flat_map_app. Qed.
Lemma parts_map_note ns : parts_of_items (map Note ns) = [].
Proof. induction ns as [|n ns IH]; cbn; [reflexivity|exact IH]. Qed.

(** nothing is pending outside a request *)
Lemma idle_nothing_pending : forall ops s, (responding s = false -> pending s = []) ->
  let s' := fold_left (rstep true) ops s in responding s' = false -> pending s' = [].
Proof.
  induction ops as [|o ops IH]; intros s H; cbn [fold_left]; [exact H|].
  apply IH. destruct o as [|p| |n]; cbn [rstep responding pending]; try discriminate; auto.
  cbn [andb]. destruct (responding s) eqn:Er; cbn [responding pending]; [discriminate|exact H].
Qed.

Lemma rstep_conserves s o : (responding s = false -> pending s = []) ->
  notes_of_items (rout (rstep true s o)) ++ pending (rstep true s o)
  = (notes_of_items (rout s) ++ pending s) ++ (match o with RNotify n => [n] | _ => [] end) /\
  parts_of_items (rout (rstep true s o)) = parts_of_items (rout s) ++ (match o with RPart p => [p] | _ => [] end) /\
  (responding (rstep true s o) = false -> pending (rstep true s o) = []).
Proof.
  intros Hp. destruct o as [|p| |n]; cbn [rstep rout pending responding].
  - rewrite !app_nil_r. repeat split; auto. discriminate.
  - rewrite notes_app, parts_app. cbn. rewrite !app_nil_r. auto.
  - rewrite notes_app, parts_app, notes_map_note, parts_map_note, !app_nil_r. auto.
  - cbn [andb]. destruct (responding s) eqn:Er; cbn [rout pending responding].
    + rewrite app_assoc, app_nil_r. repeat split; auto. discriminate.
    + rewrite (Hp eq_refl), notes_app, parts_app. cbn. rewrite !app_nil_r. repeat split; auto.
Qed.

Lemma rrun_conserves_from : forall ops s, (responding s = false -> pending s = []) ->
  let s' := fold_left (rstep true) ops s in
  notes_of_items (rout s') ++ pending s' = (notes_of_items (rout s) ++ pending s) ++ notes_of_ops ops /\
  parts_of_items (rout s') = parts_of_items (rout s) ++ parts_of_ops ops.
Proof.
  induction ops as [|o ops IH]; intros s Hp; cbn [fold_left notes_of_ops parts_of_ops flat_map].
  - rewrite !app_nil_r. auto.
  - destruct (rstep_conserves s o Hp) as (E1 & E2 & Hp').
    destruct (IH (rstep true s o) Hp') as [F1 F2]. cbn zeta in *. rewrite F1, F2, E1, E2.
    unfold notes_of_ops, parts_of_ops. rewrite <- !app_assoc. auto.
Qed.

(** every notification is written exactly once and in the order it was made (those of a request that is
    still being handled are pending, in order), the parts of the responses are what the server wrote, in
    order; once no request is being handled nothing is pending *)
Theorem notifications_and_parts_conserved : forall ops,
  let s := rrun true ops in
  notes_of_items (rout s) ++ pending s = notes_of_ops ops /\
  parts_of_items (rout s) = parts_of_ops ops /\
  (responding s = false -> pending s = []).
Proof.
  intros ops. destruct (rrun_conserves_from ops rinit (fun _ => eq_refl)) as [E1 E2]. cbn zeta in *.
  split; [exact E1|]. split; [exact E2|]. apply (idle_nothing_pending ops rinit). reflexivity.
Qed.

(** the code before the fix is refuted: a notification lands between two parts of a response *)
Lemma unqueued_refuted :
  wf_ops [RBegin; RPart [1%N]; RNotify [9%N]; RPart [2%N]; RFinish] = true /\
  responses_intact (rout (rrun false [RBegin; RPart [1%N]; RNotify [9%N]; RPart [2%N]; RFinish])) = false.
Proof. split; reflexivity. Qed.

Lemma respond_nonvacuous :
  wf_ops [RNotify [8%N]; RBegin; RPart [1%N]; RNotify [9%N]; RPart [2%N]; RNotify [7%N]; RFinish; RNotify [6%N]] = true /\
  rout (rrun true [RNotify [8%N]; RBegin; RPart [1%N]; RNotify [9%N]; RPart [2%N]; RNotify [7%N]; RFinish; RNotify [6%N]])
  = [Note [8%N]; Part 1 [1%N]; Part 1 [2%N]; Note [9%N]; Note [7%N]; Note [6%N]].
Proof. split; reflexivity. Qed.
Print Assumptions responses_never_interleaved.
Print Assumptions notifications_and_parts_conserved.
