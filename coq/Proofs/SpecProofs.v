From Coq Require Import String.
From HC Require Import Base.HBytes Gen.Extracted Model.Spec Model.Hap.
Open Scope N_scope.

Lemma pairing_constants_are_spec :
  Extracted.srp_group = spec_srp_group /\ Extracted.srp_username = spec_srp_username /\
  Extracted.srp_hash = s2b "sha512.New"%string /\
  Extracted.ps_enc_salt = spec_ps_enc_salt /\ Extracted.ps_enc_info = spec_ps_enc_info /\
  Extracted.ps_m5_nonce = spec_ps_m5_nonce /\ Extracted.ps_m6_nonce = spec_ps_m6_nonce /\
  Extracted.ps_ctrl_sign = spec_ps_ctrl_sign /\ Extracted.ps_acc_sign = spec_ps_acc_sign /\
  Extracted.pv_enc_salt = spec_pv_enc_salt /\ Extracted.pv_enc_info = spec_pv_enc_info /\
  Extracted.pv_m2_nonce = spec_pv_m2_nonce /\ Extracted.pv_m3_nonce = spec_pv_m3_nonce /\
  [Extracted.tag_TagPairingMethod; Extracted.tag_TagUsername; Extracted.tag_TagSalt; Extracted.tag_TagPublicKey;
   Extracted.tag_TagProof; Extracted.tag_TagEncryptedData; Extracted.tag_TagSequence; Extracted.tag_TagErrCode;
   Extracted.tag_TagSignature; Extracted.tag_TagPermission] = spec_tags.
Proof. repeat split; reflexivity. Qed.

Lemma signature_material_is_spec :
  map (role_of false) Extracted.ps_ctrl_material = spec_setup_info /\
  map (role_of true) Extracted.ps_acc_material = spec_setup_info /\
  map (role_of true) Extracted.pv_acc_material = spec_verify_info /\
  map (role_of false) Extracted.pv_ctrl_material = spec_verify_info.
Proof. repeat split; vm_compute; reflexivity. Qed.

(** the endpoint protection the model assumes is what the Go source registers *)
Lemma endpoint_table_is_model :
  Extracted.mux_protected = spec_protected_paths /\ Extracted.mux_open = spec_open_paths /\
  Extracted.auth_checks_cryptographer = k_auth_requires_crypt fixed /\
  Extracted.auth_returns_after_refusal = k_auth_requires_crypt fixed /\
  Extracted.json_chunk_size = 2048%nat.
Proof. repeat split; reflexivity. Qed.
