(** Proofs about Model/PlainFrame.v: the end of a plain text header does not depend on how the bytes were
    cut into reads, and it is the end of the first empty line. *)
From HC Require Import Base.HBytes Model.PlainFrame.
From Coq Require Import List Bool Arith NArith Lia.
Import ListNotations.
Open Scope N_scope.

Definition eqv (s1 s2 : hstate) : Prop := fst s1 = fst s2 /\ (fst s1 = true -> snd s1 = snd s2).

Lemma hstep_eqv s1 s2 c : eqv s1 s2 -> hstep s1 c = hstep s2 c.
Proof.
  destruct s1 as [l1 c1], s2 as [l2 c2]; unfold eqv; cbn [fst snd]; intros [Hl Hc]; subst l2.
  unfold hstep. destruct l1.
  - rewrite (Hc eq_refl). reflexivity.
  - rewrite !andb_false_r. reflexivity.
Qed.

Lemma scan_eqv b : forall s1 s2, eqv s1 s2 -> scan s1 b = scan s2 b.
Proof.
  destruct b as [|c r]; intros s1 s2 H; [reflexivity|].
  cbn [scan]. rewrite (hstep_eqv _ _ c H). reflexivity.
Qed.

Lemma scan_final a : forall st, (scan st a = None <-> exists st', final st a = Some st').
Proof.
  induction a as [|c r IH]; intros st; cbn [scan final].
  - split; [intros _; eauto | reflexivity].
  - destruct (hstep st c) as [st'|].
    + rewrite <- IH. destruct (scan st' r); cbn; split; congruence.
    + split; [discriminate | intros [x Hx]; discriminate].
Qed.

Lemma scan_le a : forall st n, scan st a = Some n -> (1 <= n <= length a)%nat.
Proof.
  induction a as [|c r IH]; intros st n; cbn [scan length]; [discriminate|].
  destruct (hstep st c) as [st'|].
  - destruct (scan st' r) as [m|] eqn:E; cbn; [|discriminate]. intros H; inversion H; subst.
    apply IH in E. lia.
  - intros H; inversion H; subst. lia.
Qed.

Lemma scan_app a : forall st b,
  scan st (a ++ b) = match scan st a with
                     | Some n => Some n
                     | None => match final st a with
                               | Some st' => option_map (Nat.add (length a)) (scan st' b)
                               | None => None
                               end
                     end.
Proof.
  induction a as [|c r IH]; intros st b; cbn [app scan final length].
  - destruct (scan st b); reflexivity.
  - destruct (hstep st c) as [st'|]; [|reflexivity].
    rewrite IH. destruct (scan st' r); cbn; [reflexivity|].
    destruct (final st' r); [|reflexivity]. destruct (scan h b); reflexivity.
Qed.

Lemma final_app a : forall st b,
  final st (a ++ b) = match final st a with Some s => final s b | None => None end.
Proof.
  induction a as [|c r IH]; intros st b; cbn [app final]; [reflexivity|].
  destruct (hstep st c); [apply IH | reflexivity].
Qed.

Lemma derive_snoc h c :
  derive (h ++ [c]) = ((c =? 10) || ((c =? 13) && match rev h with y :: _ => y =? 10 | [] => false end), c =? 13).
Proof. unfold derive. rewrite rev_app_distr. reflexivity. Qed.

(** the state the code derives from the last two bytes is the state a scanner would be in *)
Lemma derive_final h : forall st, final hinit h = Some st -> eqv (derive h) st.
Proof.
  induction h as [|c h IH] using rev_ind; intros st.
  - cbn. intros H; inversion H; subst. split; [reflexivity | discriminate].
  - rewrite final_app. destruct (final hinit h) as [s|] eqn:E; [|discriminate].
    specialize (IH s eq_refl). cbn [final]. destruct (hstep s c) as [s'|] eqn:Hs; [|discriminate].
    intros H; inversion H; subst s'. rewrite derive_snoc.
    destruct s as [ls cr]. unfold eqv in IH. unfold derive in IH.
    unfold hstep in Hs. unfold eqv. cbn [fst snd] in *.
    destruct (N.eqb_spec c 10) as [->|Hn10].
    + destruct ls; [discriminate|]. inversion Hs; subst. cbn. split; reflexivity.
    + cbn [orb] in *. destruct (N.eqb_spec c 13) as [->|Hn13].
      * cbn [andb] in *. destruct (rev h) as [|x t]; cbn [fst snd] in IH.
        -- destruct IH as [I1 I2]. subst ls. cbn in Hs. inversion Hs; subst. split; [reflexivity | discriminate].
        -- destruct IH as [I1 I2].
           destruct (N.eqb_spec x 10) as [->|Hx10].
           ++ cbn in I1. subst ls. specialize (I2 eq_refl). cbn in I2. subst cr.
              cbn in Hs. inversion Hs; subst. split; reflexivity.
           ++ cbn [orb] in I1. destruct ls.
              ** specialize (I2 I1). apply andb_true_iff in I1. destruct I1 as [I1 _]. rewrite I1 in I2. subst cr.
                 cbn in Hs. inversion Hs; subst. split; [reflexivity | discriminate].
              ** cbn in Hs. inversion Hs; subst. split; [reflexivity | discriminate].
      * cbn [andb] in *. inversion Hs; subst. cbn. split; [reflexivity | discriminate].
Qed.

(** The end of the header the code finds in [b], after it handed over [h], is the end a single scan of
    [h ++ b] finds: it does not depend on where the reads cut the stream. *)
Theorem header_end_segmentation h b :
  scan hinit h = None ->
  scan hinit (h ++ b) = option_map (Nat.add (length h)) (header_end h b).
Proof.
  intros Hn. rewrite scan_app, Hn.
  apply scan_final in Hn. destruct Hn as [st Hst]. rewrite Hst.
  unfold header_end. rewrite (scan_eqv b _ _ (derive_final h st Hst)). reflexivity.
Qed.

Lemma scan_some_split s : forall st n, scan st s = Some n ->
  exists a c r st', s = a ++ c :: r /\ n = S (length a) /\ final st a = Some st' /\ hstep st' c = None.
Proof.
  induction s as [|c r IH]; intros st n; cbn [scan]; [discriminate|].
  destruct (hstep st c) as [st'|] eqn:Hs.
  - destruct (scan st' r) as [m|] eqn:E; cbn; [|discriminate]. intros H; inversion H; subst n.
    destruct (IH _ _ E) as (a & c' & r' & st2 & -> & -> & Hf & Hh).
    exists (c :: a), c', r', st2. cbn [app length final]. rewrite Hs. auto.
  - intros H; inversion H; subst n. exists [], c, r, st. cbn. auto.
Qed.

Lemma firstn_app_exact {A} (a b : list A) : firstn (length a) (a ++ b) = a.
Proof. rewrite firstn_app, Nat.sub_diag, firstn_all. cbn. apply app_nil_r. Qed.

(** ... and where it ends there is an empty line: the bytes up to the end are [p ++ "\n\n"] or [p ++ "\n\r\n"] *)
Theorem header_end_is_an_empty_line s n :
  scan hinit s = Some n ->
  (n <= length s)%nat /\ exists p, firstn n s = p ++ [10; 10] \/ firstn n s = p ++ [10; 13; 10].
Proof.
  intros H. split; [apply scan_le in H; lia|].
  destruct (scan_some_split _ _ _ H) as (a & c & r & st & -> & -> & Hf & Hh).
  pose proof (derive_final a st Hf) as [E1 E2].
  destruct st as [ls cr]. unfold hstep in Hh. cbn [fst snd] in *.
  destruct (N.eqb_spec c 10) as [->|Hc].
  2:{ destruct ((c =? 13) && ls && negb cr); discriminate. }
  destruct ls; [|discriminate].
  replace (firstn (S (length a)) (a ++ 10 :: r)) with (a ++ [10]).
  2:{ change (10 :: r) with ([10] ++ r). rewrite app_assoc.
      replace (S (length a)) with (length (a ++ [10])) by (rewrite app_length; cbn; lia).
      symmetry; apply firstn_app_exact. }
  unfold derive in E1. rewrite <- (rev_involutive a). destruct (rev a) as [|x t]; cbn [fst] in E1; [discriminate|].
  cbn [rev]. destruct (N.eqb_spec x 10) as [->|Hx].
  - exists (rev t). left. rewrite <- app_assoc. reflexivity.
  - cbn [orb] in E1. apply andb_true_iff in E1. destruct E1 as [Ex Ey].
    apply N.eqb_eq in Ex. subst x. destruct t as [|y t']; [discriminate|]. apply N.eqb_eq in Ey. subst y.
    exists (rev t'). right. cbn [rev]. rewrite <- !app_assoc. reflexivity.
Qed.

(** ... the FIRST one: an empty line anywhere in the stream is not passed *)
Theorem header_end_is_the_first_empty_line p q :
  (exists n, scan hinit (p ++ [10; 10] ++ q) = Some n /\ (n <= length p + 2)%nat) /\
  (exists n, scan hinit (p ++ [10; 13; 10] ++ q) = Some n /\ (n <= length p + 3)%nat).
Proof.
  split; rewrite scan_app; destruct (scan hinit p) as [n|] eqn:E.
  - exists n. split; [reflexivity | apply scan_le in E; lia].
  - apply scan_final in E. destruct E as [[ls cr] Hst]. rewrite Hst. cbn [app scan].
    unfold hstep at 1. cbn [N.eqb Pos.eqb]. destruct ls; cbn.
    + exists (length p + 1)%nat. split; [reflexivity | lia].
    + exists (length p + 2)%nat. split; [reflexivity | lia].
  - exists n. split; [reflexivity | apply scan_le in E; lia].
  - apply scan_final in E. destruct E as [[ls cr] Hst]. rewrite Hst. cbn [app scan].
    unfold hstep at 1. cbn [N.eqb Pos.eqb]. destruct ls; cbn.
    + exists (length p + 1)%nat. split; [reflexivity | lia].
    + exists (length p + 3)%nat. split; [reflexivity | lia].
Qed.

(** non-vacuity and the finding of 9586e4d: a header whose lines end with a bare "\n", cut in the middle of
    the empty line *)
Example header_end_lf_example :
  let h := [71; 69; 84; 32; 47; 10; 72; 58; 49; 10] in      (* "GET /\nH:1\n" *)
  scan hinit h = None /\ header_end h [10; 80] = Some 1%nat /\ scan hinit (h ++ [10; 80]) = Some 11%nat.
Proof. vm_compute. auto. Qed.

(** * Reads of the plain text phase stay inside one message

    The stream is a sequence of messages, header ++ body, every header ending with its first empty line and
    ReadRequest answering each header with the length of its body.  [Inv s rest orc left]: [rest] is what has
    not been handed over yet, [left] the bytes of it that belong to the part (header or body) of the message
    being handed over. *)
From Coq Require Import ZifyBool ZifyNat ZifyN.

Definition wf_msg (m : bytes * bytes) : Prop := scan hinit (fst m) = Some (length (fst m)).
Definition stream_of (msgs : list (bytes * bytes)) : bytes := concat (map (fun m => fst m ++ snd m) msgs).
Definition orc_of (msgs : list (bytes * bytes)) : list clen := map (fun m => CL (N.of_nat (length (snd m)))) msgs.

Inductive Inv : pst -> bytes -> list clen -> nat -> Prop :=
| InvBody s bodyrest msgs :
    ps_header s = [] -> ps_body s = N.of_nat (length bodyrest) -> (0 < length bodyrest)%nat -> Forall wf_msg msgs ->
    Inv s (bodyrest ++ stream_of msgs) (orc_of msgs) (length bodyrest)
| InvHeader s hrest body msgs :
    ps_body s = 0 -> scan hinit (ps_header s) = None ->
    scan hinit (ps_header s ++ hrest) = Some (length (ps_header s ++ hrest)) -> Forall wf_msg msgs ->
    Inv s (hrest ++ body ++ stream_of msgs) (CL (N.of_nat (length body)) :: orc_of msgs) (length hrest)
| InvEnd s : ps_body s = 0 -> ps_header s = [] -> Inv s [] [] 0%nat.

Lemma inv_boundary s msgs : ps_header s = [] -> ps_body s = 0 -> Forall wf_msg msgs ->
  exists left, Inv s (stream_of msgs) (orc_of msgs) left.
Proof.
  intros Hh Hb Hw. destruct msgs as [|[h b] ms].
  - exists 0%nat. apply InvEnd; assumption.
  - exists (length h). inversion Hw as [|x l Hm Hms]; subst. unfold wf_msg in Hm. cbn [fst] in Hm.
    unfold stream_of, orc_of. cbn [map concat fst snd]. rewrite <- app_assoc.
    apply InvHeader; rewrite ?Hh; cbn [app]; auto.
Qed.

Lemma inv_after_part s rest msgs : ps_header s = [] -> ps_body s = N.of_nat (length rest) -> Forall wf_msg msgs ->
  exists left, Inv s (rest ++ stream_of msgs) (orc_of msgs) left.
Proof.
  intros Hh Hb Hw. destruct rest as [|x r].
  - cbn [app]. apply inv_boundary; auto.
  - exists (length (x :: r)). apply InvBody; auto. cbn; lia.
Qed.

Lemma scan_prefix_none p q n : scan hinit (p ++ q) = Some n -> (length p < n)%nat -> scan hinit p = None.
Proof.
  intros H Hl. rewrite scan_app in H. destruct (scan hinit p) as [m|] eqn:E; [|reflexivity].
  inversion H; subst. apply scan_le in E. lia.
Qed.

Lemma firstn_firstn_min {A} (n k : nat) (l : list A) : firstn (Nat.min (length (firstn k l)) n) (firstn k l) = firstn (Nat.min (length (firstn k l)) n) l.
Proof. rewrite firstn_firstn. f_equal. rewrite firstn_length. lia. Qed.

(** one read: at least one byte, never beyond the end of the part being handed over, and the invariant again *)
Theorem pm_bytes_stays_inside s rest orc left k max :
  Inv s rest orc left -> (0 < k)%nat -> (0 < max)%nat -> rest <> [] ->
  let '(n, s', orc') := pm_bytes s (firstn k rest) max orc in
  (1 <= n <= left)%nat /\ exists left', Inv s' (skipn n rest) orc' left'.
Proof.
  intros HI Hk Hm Hne. unfold pm_bytes. rewrite firstn_firstn_min.
  set (n := Nat.min (length (firstn k rest)) max).
  assert (Hn : (1 <= n <= length rest)%nat).
  { subst n. rewrite firstn_length. destruct rest; [congruence|]. cbn [length]. lia. }
  destruct HI as [s bodyrest msgs Hh Hb Hpos Hw | s hrest body msgs Hb Hnone Hsome Hw | s Hb Hh].
  - (* body *)
    replace (0 <? ps_body s) with true by lia.
    set (n' := if ps_body s <? N.of_nat n then N.to_nat (ps_body s) else n).
    assert (Hn' : (1 <= n' <= length bodyrest)%nat /\ (n' <= n)%nat).
    { subst n'. destruct (ps_body s <? N.of_nat n) eqn:E; lia. }
    split; [lia|].
    rewrite skipn_app. replace (n' - length bodyrest)%nat with 0%nat by lia. cbn [skipn].
    apply inv_after_part; cbn [ps_header ps_body]; auto.
    rewrite skipn_length. lia.
  - (* header *)
    replace (0 <? ps_body s) with false by lia.
    destruct (Nat.lt_ge_cases n (length hrest)) as [Hlt|Hge].
    + (* the header does not end in these bytes *)
      assert (Hf : firstn n (hrest ++ body ++ stream_of msgs) = firstn n hrest).
      { rewrite firstn_app. replace (n - length hrest)%nat with 0%nat by lia. cbn. apply app_nil_r. }
      rewrite Hf.
      assert (Hnone' : scan hinit (ps_header s ++ firstn n hrest) = None).
      { pose proof Hsome as Hs2. rewrite <- (firstn_skipn n hrest) in Hs2 at 1. rewrite app_assoc in Hs2.
        eapply scan_prefix_none; [exact Hs2|]. rewrite !app_length, firstn_length. lia. }
      pose proof (header_end_segmentation (ps_header s) (firstn n hrest) Hnone) as Hseg.
      rewrite Hnone' in Hseg. destruct (header_end (ps_header s) (firstn n hrest)); [discriminate|].
      split; [lia|].
      rewrite skipn_app. replace (n - length hrest)%nat with 0%nat by lia. cbn [skipn].
      exists (length (skipn n hrest)). apply InvHeader; cbn [ps_header ps_body]; auto.
      rewrite <- app_assoc, firstn_skipn. exact Hsome.
    + (* it ends in them: exactly at the end of the header *)
      assert (Hf : exists x, firstn n (hrest ++ body ++ stream_of msgs) = hrest ++ x).
      { rewrite firstn_app. rewrite (firstn_all2 hrest) by lia. eauto. }
      destruct Hf as [x Hf]. rewrite Hf.
      pose proof (header_end_segmentation (ps_header s) (hrest ++ x) Hnone) as Hseg.
      rewrite app_assoc, scan_app, Hsome in Hseg.
      destruct (header_end (ps_header s) (hrest ++ x)) as [i|]; [|discriminate].
      cbn in Hseg. inversion Hseg as [Hi]. rewrite app_length in Hi.
      assert (i = length hrest) by lia. subst i.
      assert (Hh0 : hrest <> []).
      { intros ->. rewrite app_nil_r in Hsome. congruence. }
      assert (0 < length hrest)%nat by (destruct hrest; [congruence | cbn; lia]).
      split; [lia|].
      rewrite skipn_app, skipn_all, Nat.sub_diag. cbn [skipn app].
      apply inv_after_part; cbn [ps_header ps_body]; auto.
  - congruence.
Qed.

(** non-vacuity: two requests, the first with a body, the second with bare "\n" line ends *)
Example inv_holds_somewhere :
  let m1 := ([80; 32; 47; 13; 10; 13; 10], [1; 2; 3]) in let m2 := ([71; 10; 10], []) in
  Forall wf_msg [m1; m2] /\ exists left, Inv pst0 (stream_of [m1; m2]) (orc_of [m1; m2]) left.
Proof.
  cbv zeta. assert (H : Forall wf_msg [([80; 32; 47; 13; 10; 13; 10], [1; 2; 3]); ([71; 10; 10], [])]).
  { repeat constructor. }
  split; [exact H|]. apply inv_boundary; auto.
Qed.

(** every sequence of reads: [(k, max)] — [k] bytes of what is left have arrived, the caller's buffer holds [max] *)
Inductive all_inside : pst -> bytes -> list clen -> list (nat * nat) -> Prop :=
| ai_nil s rest orc : all_inside s rest orc []
| ai_end s orc reads : all_inside s [] orc reads
| ai_read s rest orc k max reads left n s' orc' :
    rest <> [] -> Inv s rest orc left -> pm_bytes s (firstn k rest) max orc = (n, s', orc') ->
    (1 <= n <= left)%nat -> all_inside s' (skipn n rest) orc' reads ->
    all_inside s rest orc ((k, max) :: reads).

Theorem reads_stay_inside reads : forall s rest orc left,
  Inv s rest orc left -> Forall (fun km => (0 < fst km)%nat /\ (0 < snd km)%nat) reads ->
  all_inside s rest orc reads.
Proof.
  induction reads as [|[k max] reads IH]; intros s rest orc left HI Hpos; [constructor|].
  destruct rest as [|x rest0]; [constructor|].
  inversion Hpos as [|km l [Hk Hm] Hrest]; subst. cbn [fst snd] in Hk, Hm.
  assert (Hne : x :: rest0 <> []) by discriminate.
  pose proof (pm_bytes_stays_inside s (x :: rest0) orc left k max HI Hk Hm Hne) as Hstep.
  destruct (pm_bytes s (firstn k (x :: rest0)) max orc) as [[n s'] orc'] eqn:E.
  destruct Hstep as [Hn [left' HI']].
  eapply ai_read; eauto.
Qed.

Lemma inv_at_the_start msgs : Forall wf_msg msgs -> exists left, Inv pst0 (stream_of msgs) (orc_of msgs) left.
Proof. intros H. apply inv_boundary; auto. Qed.

Theorem reads_stay_inside_from_the_start msgs reads :
  Forall wf_msg msgs -> Forall (fun km => (0 < fst km)%nat /\ (0 < snd km)%nat) reads ->
  all_inside pst0 (stream_of msgs) (orc_of msgs) reads.
Proof.
  intros Hw Hp. destruct (inv_at_the_start msgs Hw) as [left HI].
  exact (reads_stay_inside reads _ _ _ _ HI Hp).
Qed.
