(** Proofs about Model/PlainFrame.v: the end of a plain text header does not depend on how the bytes were
    cut into reads, and it is the end of the first empty line. *)
From HC Require Import Base.HBytes Model.PlainFrame.
From Coq Require Import List Bool Arith NArith Lia.
Import ListNotations.
Open Scope N_scope.

Definition eqv (s1 s2 : hstate) : Prop := fst s1 = fst s2 /\ (fst s1 = true -> snd s1 = snd s2).

Lemma hstep_eqv s1 s2 c : eqv s1 s2 -> hstep s1 c = hstep s2 c.
Proof.
  destruct s1 as [l1 c1], s2 as [l2 c2]; unfold eqv; cbn [fst snd]; intros [Hl Hc]; subst l2.
  unfold hstep. destruct l1.
  - rewrite (Hc eq_refl). reflexivity.
  - rewrite !andb_false_r. reflexivity.
Qed.

Lemma scan_eqv b : forall s1 s2, eqv s1 s2 -> scan s1 b = scan s2 b.
Proof.
  destruct b as [|c r]; intros s1 s2 H; [reflexivity|].
  cbn [scan]. rewrite (hstep_eqv _ _ c H). reflexivity.
Qed.

Lemma scan_final a : forall st, (scan st a = None <-> exists st', final st a = Some st').
Proof.
  induction a as [|c r IH]; intros st; cbn [scan final].
  - split; [intros _; eauto | reflexivity].
  - destruct (hstep st c) as [st'|].
    + rewrite <- IH. destruct (scan st' r); cbn; split; congruence.
    + split; [discriminate | intros [x Hx]; discriminate].
Qed.

Lemma scan_le a : forall st n, scan st a = Some n -> (1 <= n <= length a)%nat.
Proof.
  induction a as [|c r IH]; intros st n; cbn [scan length]; [discriminate|].
  destruct (hstep st c) as [st'|].
  - destruct (scan st' r) as [m|] eqn:E; cbn; [|discriminate]. intros H; inversion H; subst.
    apply IH in E. lia.
  - intros H; inversion H; subst. lia.
Qed.

Lemma scan_app a : forall st b,
  scan st (a ++ b) = match scan st a with
                     | Some n => Some n
                     | None => match final st a with
                               | Some st' => option_map (Nat.add (length a)) (scan st' b)
                               | None => None
                               end
                     end.
Proof.
  induction a as [|c r IH]; intros st b; cbn [app scan final length].
  - destruct (scan st b); reflexivity.
  - destruct (hstep st c) as [st'|]; [|reflexivity].
    rewrite IH. destruct (scan st' r); cbn; [reflexivity|].
    destruct (final st' r); [|reflexivity]. destruct (scan h b); reflexivity.
Qed.

Lemma final_app a : forall st b,
  final st (a ++ b) = match final st a with Some s => final s b | None => None end.
Proof.
  induction a as [|c r IH]; intros st b; cbn [app final]; [reflexivity|].
  destruct (hstep st c); [apply IH | reflexivity].
Qed.

Lemma derive_snoc h c :
  derive (h ++ [c]) = ((c =? 10) || ((c =? 13) && match rev h with y :: _ => y =? 10 | [] => false end), c =? 13).
Proof. unfold derive. rewrite rev_app_distr. reflexivity. Qed.

(** the state the code derives from the last two bytes is the state a scanner would be in *)
Lemma derive_final h : forall st, final hinit h = Some st -> eqv (derive h) st.
Proof.
  induction h as [|c h IH] using rev_ind; intros st.
  - cbn. intros H; inversion H; subst. split; [reflexivity | discriminate].
  - rewrite final_app. destruct (final hinit h) as [s|] eqn:E; [|discriminate].
    specialize (IH s eq_refl). cbn [final]. destruct (hstep s c) as [s'|] eqn:Hs; [|discriminate].
    intros H; inversion H; subst s'. rewrite derive_snoc.
    destruct s as [ls cr]. unfold eqv in IH. unfold derive in IH.
    unfold hstep in Hs. unfold eqv. cbn [fst snd] in *.
    destruct (N.eqb_spec c 10) as [->|Hn10].
    + destruct ls; [discriminate|]. inversion Hs; subst. cbn. split; reflexivity.
    + cbn [orb] in *. destruct (N.eqb_spec c 13) as [->|Hn13].
      * cbn [andb] in *. destruct (rev h) as [|x t]; cbn [fst snd] in IH.
        -- destruct IH as [I1 I2]. subst ls. cbn in Hs. inversion Hs; subst. split; [reflexivity | discriminate].
        -- destruct IH as [I1 I2].
           destruct (N.eqb_spec x 10) as [->|Hx10].
           ++ cbn in I1. subst ls. specialize (I2 eq_refl). cbn in I2. subst cr.
              cbn in Hs. inversion Hs; subst. split; reflexivity.
           ++ cbn [orb] in I1. destruct ls.
              ** specialize (I2 I1). apply andb_true_iff in I1. destruct I1 as [I1 _]. rewrite I1 in I2. subst cr.
                 cbn in Hs. inversion Hs; subst. split; [reflexivity | discriminate].
              ** cbn in Hs. inversion Hs; subst. split; [reflexivity | discriminate].
      * cbn [andb] in *. inversion Hs; subst. cbn. split; [reflexivity | discriminate].
Qed.

(** The end of the header the code finds in [b], after it handed over [h], is the end a single scan of
    [h ++ b] finds: it does not depend on where the reads cut the stream. *)
Theorem header_end_segmentation h b :
  scan hinit h = None ->
  scan hinit (h ++ b) = option_map (Nat.add (length h)) (header_end h b).
Proof.
  intros Hn. rewrite scan_app, Hn.
  apply scan_final in Hn. destruct Hn as [st Hst]. rewrite Hst.
  unfold header_end. rewrite (scan_eqv b _ _ (derive_final h st Hst)). reflexivity.
Qed.

Lemma scan_some_split s : forall st n, scan st s = Some n ->
  exists a c r st', s = a ++ c :: r /\ n = S (length a) /\ final st a = Some st' /\ hstep st' c = None.
Proof.
  induction s as [|c r IH]; intros st n; cbn [scan]; [discriminate|].
  destruct (hstep st c) as [st'|] eqn:Hs.
  - destruct (scan st' r) as [m|] eqn:E; cbn; [|discriminate]. intros H; inversion H; subst n.
    destruct (IH _ _ E) as (a & c' & r' & st2 & -> & -> & Hf & Hh).
    exists (c :: a), c', r', st2. cbn [app length final]. rewrite Hs. auto.
  - intros H; inversion H; subst n. exists [], c, r, st. cbn. auto.
Qed.

Lemma firstn_app_exact {A} (a b : list A) : firstn (length a) (a ++ b) = a.
Proof. rewrite firstn_app, Nat.sub_diag, firstn_all. cbn. apply app_nil_r. Qed.

(** ... and where it ends there is an empty line: the bytes up to the end are [p ++ "\n\n"] or [p ++ "\n\r\n"] *)
Theorem header_end_is_an_empty_line s n :
  scan hinit s = Some n ->
  (n <= length s)%nat /\ exists p, firstn n s = p ++ [10; 10] \/ firstn n s = p ++ [10; 13; 10].
Proof.
  intros H. split; [apply scan_le in H; lia|].
  destruct (scan_some_split _ _ _ H) as (a & c & r & st & -> & -> & Hf & Hh).
  pose proof (derive_final a st Hf) as [E1 E2].
  destruct st as [ls cr]. unfold hstep in Hh. cbn [fst snd] in *.
  destruct (N.eqb_spec c 10) as [->|Hc].
  2:{ destruct ((c =? 13) && ls && negb cr); discriminate. }
  destruct ls; [|discriminate].
  replace (firstn (S (length a)) (a ++ 10 :: r)) with (a ++ [10]).
  2:{ change (10 :: r) with ([10] ++ r). rewrite app_assoc.
      replace (S (length a)) with (length (a ++ [10])) by (rewrite app_length; cbn; lia).
      symmetry; apply firstn_app_exact. }
  unfold derive in E1. rewrite <- (rev_involutive a). destruct (rev a) as [|x t]; cbn [fst] in E1; [discriminate|].
  cbn [rev]. destruct (N.eqb_spec x 10) as [->|Hx].
  - exists (rev t). left. rewrite <- app_assoc. reflexivity.
  - cbn [orb] in E1. apply andb_true_iff in E1. destruct E1 as [Ex Ey].
    apply N.eqb_eq in Ex. subst x. destruct t as [|y t']; [discriminate|]. apply N.eqb_eq in Ey. subst y.
    exists (rev t'). right. cbn [rev]. rewrite <- !app_assoc. reflexivity.
Qed.

(** ... the FIRST one: an empty line anywhere in the stream is not passed *)
Theorem header_end_is_the_first_empty_line p q :
  (exists n, scan hinit (p ++ [10; 10] ++ q) = Some n /\ (n <= length p + 2)%nat) /\
  (exists n, scan hinit (p ++ [10; 13; 10] ++ q) = Some n /\ (n <= length p + 3)%nat).
Proof.
  split; rewrite scan_app; destruct (scan hinit p) as [n|] eqn:E.
  - exists n. split; [reflexivity | apply scan_le in E; lia].
  - apply scan_final in E. destruct E as [[ls cr] Hst]. rewrite Hst. cbn [app scan].
    unfold hstep at 1. cbn [N.eqb Pos.eqb]. destruct ls; cbn.
    + exists (length p + 1)%nat. split; [reflexivity | lia].
    + exists (length p + 2)%nat. split; [reflexivity | lia].
  - exists n. split; [reflexivity | apply scan_le in E; lia].
  - apply scan_final in E. destruct E as [[ls cr] Hst]. rewrite Hst. cbn [app scan].
    unfold hstep at 1. cbn [N.eqb Pos.eqb]. destruct ls; cbn.
    + exists (length p + 1)%nat. split; [reflexivity | lia].
    + exists (length p + 3)%nat. split; [reflexivity | lia].
Qed.

(** non-vacuity and the finding of 9586e4d: a header whose lines end with a bare "\n", cut in the middle of
    the empty line *)
Example header_end_lf_example :
  let h := [71; 69; 84; 32; 47; 10; 72; 58; 49; 10] in      (* "GET /\nH:1\n" *)
  scan hinit h = None /\ header_end h [10; 80] = Some 1%nat /\ scan hinit (h ++ [10; 80]) = Some 11%nat.
Proof. vm_compute. auto. Qed.
