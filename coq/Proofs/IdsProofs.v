From HC Require Import Base.HBytes Model.Ids.
From Coq Require Import ZifyBool ZifyNat ZifyN FinFun.
Open Scope N_scope.

Lemma seq_map_shift from k : map (fun i => from + N.of_nat i) (seq 0 k) = map N.of_nat (seq (N.to_nat from) k).
Proof.
  rewrite <- (Nat.add_0_r (N.to_nat from)) at 1. generalize 0%nat as a. induction k as [|k IH]; intros a; [reflexivity|].
  cbn [seq map]. f_equal; [lia|]. rewrite (IH (S a)). replace (N.to_nat from + S a)%nat with (S (N.to_nat from + a)) by lia. reflexivity.
Qed.

(** UpdateIDs numbers services and characteristics consecutively in construction order *)
Lemma assign_flat : forall s from,
  flat (fst (assign from s)) = map N.of_nat (seq (N.to_nat from) (length s + fold_right Nat.add 0%nat s)) /\
  snd (assign from s) = from + N.of_nat (length s + fold_right Nat.add 0%nat s).
Proof.
  induction s as [|k r IH]; intros from; cbn [assign].
  - cbn [assign fst snd flat flat_map length fold_right seq map]. split; [reflexivity|]. simpl. lia.
  - specialize (IH (from + 1 + N.of_nat k)). destruct (assign (from + 1 + N.of_nat k) r) as [rest final].
    cbn [fst snd] in *. destruct IH as [IH1 IH2]. split.
    + cbn [flat flat_map fst snd length fold_right]. fold (flat rest). rewrite IH1.
      replace (S (length r) + (k + fold_right Nat.add 0 r))%nat with (S (k + (length r + fold_right Nat.add 0 r)))%nat by lia.
      cbn [seq map app]. f_equal; [lia|].
      rewrite (seq_app k (length r + fold_right Nat.add 0%nat r) (S (N.to_nat from))), map_app. f_equal.
      * rewrite (seq_map_shift (from + 1) k). f_equal. f_equal. lia.
      * f_equal. f_equal. lia.
    + rewrite IH2. cbn [length fold_right]. lia.
Qed.

Lemma instance_ids_seq s : instance_ids s = map N.of_nat (seq 1 (length s + fold_right Nat.add 0%nat s)).
Proof. unfold instance_ids. rewrite (proj1 (assign_flat s 1)). reflexivity. Qed.

Lemma instance_ids_unique_nonzero s : NoDup (instance_ids s) /\ Forall (fun i => i <> 0) (instance_ids s).
Proof.
  rewrite instance_ids_seq. split.
  - apply Injective_map_NoDup; [intros a b H; lia|apply seq_NoDup].
  - apply Forall_map. apply Forall_forall. intros x Hx. apply in_seq in Hx. lia.
Qed.

(** container invariant: ids of the members are unique, non-zero and reserved *)
Definition cont_inv (m : container) : Prop :=
  NoDup (map fst (c_accs m)) /\ Forall (fun a => fst a <> 0) (c_accs m) /\ 1 <= c_count m /\
  (forall x, In x (map fst (c_accs m)) -> In x (c_reserved m)).

Lemma existsb_reserved l aid : existsb (N.eqb aid) l = false -> ~ In aid l.
Proof.
  induction l as [|a l IH]; cbn; intros H; [tauto|].
  apply orb_false_iff in H. destruct H as [H1 H2]. apply N.eqb_neq in H1. intros [E|E]; [congruence|apply IH; assumption].
Qed.

Lemma nodup_snoc {A} (l : list A) x : NoDup l -> ~ In x l -> NoDup (l ++ [x]).
Proof.
  induction l as [|a l IH]; cbn; intros Hn Hx; [repeat constructor; auto|].
  inversion Hn; subst. constructor.
  - intros Hin. apply in_app_or in Hin. destruct Hin as [Hin|[E|[]]]; [auto|subst; apply Hx; left; reflexivity].
  - apply IH; [assumption|intros H; apply Hx; right; exact H].
Qed.

Lemma add_inv m eid s : cont_inv m -> cont_inv (fst (add_accessory m eid s)).
Proof.
  intros (Hn & Hz & Hc & Hr). unfold add_accessory, cont_inv.
  destruct (eid =? 0) eqn:E.
  - destruct (existsb (N.eqb (c_count m)) (c_reserved m)) eqn:Ex; cbn [fst c_accs c_count c_reserved].
    + split; [exact Hn|]. split; [exact Hz|]. split; [lia|exact Hr].
    + split; [|split; [|split]].
      * rewrite map_app. cbn [map fst]. apply nodup_snoc; [exact Hn|]. intros Hi. exact (existsb_reserved _ _ Ex (Hr _ Hi)).
      * apply Forall_app. split; [exact Hz|]. constructor; [cbn [fst]; lia|constructor].
      * lia.
      * intros x Hx. rewrite map_app in Hx. apply in_app_or in Hx. destruct Hx as [Hx|[<-|[]]]; [right; apply Hr; exact Hx|left; reflexivity].
  - apply N.eqb_neq in E. destruct (existsb (N.eqb eid) (c_reserved m)) eqn:Ex; cbn [fst c_accs c_count c_reserved].
    + split; [exact Hn|]. split; [exact Hz|]. split; [exact Hc|exact Hr].
    + split; [|split; [|split]].
      * rewrite map_app. cbn [map fst]. apply nodup_snoc; [exact Hn|]. intros Hi. exact (existsb_reserved _ _ Ex (Hr _ Hi)).
      * apply Forall_app. split; [exact Hz|]. constructor; [cbn [fst]; exact E|constructor].
      * exact Hc.
      * intros x Hx. rewrite map_app in Hx. apply in_app_or in Hx. destruct Hx as [Hx|[<-|[]]]; [right; apply Hr; exact Hx|left; reflexivity].
Qed.

Lemma remove_nth_in {A} (l : list A) : forall i x, In x (remove_nth i l) -> In x l.
Proof. induction l as [|a l IH]; intros [|i] x H; cbn in *; auto. destruct H; [left; assumption|right; eapply IH; eassumption]. Qed.
Lemma remove_nth_map {A B} (f : A -> B) (l : list A) : forall i, map f (remove_nth i l) = remove_nth i (map f l).
Proof. induction l as [|a l IH]; intros [|i]; cbn; auto. f_equal. apply IH. Qed.
Lemma remove_nth_nodup {A} (l : list A) : forall i, NoDup l -> NoDup (remove_nth i l).
Proof.
  induction l as [|a l IH]; intros [|i] H; cbn; auto; inversion H; subst; auto.
  constructor; [intros Hi; apply remove_nth_in in Hi; contradiction|apply IH; assumption].
Qed.

Lemma remove_inv m mem : cont_inv m -> cont_inv (remove_accessory m mem).
Proof.
  intros (Hn & Hz & Hc & Hr). destruct mem as [i|]; [|repeat split; assumption]. unfold remove_accessory, cont_inv. cbn [c_accs c_count c_reserved].
  split; [rewrite remove_nth_map; apply remove_nth_nodup; exact Hn|]. split; [|split; [exact Hc|]].
  - rewrite Forall_forall in *. intros x Hx. apply Hz. eapply remove_nth_in. exact Hx.
  - intros x Hx. apply Hr. rewrite remove_nth_map in Hx. eapply remove_nth_in. exact Hx.
Qed.

(** histories of additions and removals *)
Inductive cop := CAdd (eid : N) (s : shape) | CRemove (member : option nat).
Definition capply (m : container) (o : cop) : container :=
  match o with CAdd eid s => fst (add_accessory m eid s) | CRemove mem => remove_accessory m mem end.

Lemma history_inv : forall ops m, cont_inv m -> cont_inv (fold_left capply ops m).
Proof. induction ops as [|o ops IH]; intros m H; cbn [fold_left]; [exact H|]. apply IH. destruct o; [apply add_inv|apply remove_inv]; exact H. Qed.

Lemma add_all_inv_from : forall l m, cont_inv m ->
  cont_inv (fold_left (fun m a => fst (add_accessory m (fst a) (snd a))) l m).
Proof. induction l as [|a l IH]; intros m H; cbn [fold_left]; [exact H|]. apply IH. apply add_inv. exact H. Qed.

Lemma empty_inv : cont_inv empty_container.
Proof. unfold cont_inv, empty_container. cbn. repeat split; [constructor|constructor|lia|intros x []]. Qed.

(** C14: for every composition, accessory ids in the container are unique and non-zero (a duplicate is rejected) *)
Lemma container_ids l :
  NoDup (map fst (c_accs (add_all l))) /\ Forall (fun a => fst a <> 0) (c_accs (add_all l)).
Proof. destruct (add_all_inv_from l empty_container empty_inv) as (H1 & H2 & _). split; assumption. Qed.

(** ... and for every history of additions and removals (of members and of non-members) *)
Lemma container_ids_history ops :
  let m := fold_left capply ops empty_container in
  NoDup (map fst (c_accs m)) /\ Forall (fun a => fst a <> 0) (c_accs m).
Proof. destruct (history_inv ops empty_container empty_inv) as (H1 & H2 & _). split; assumption. Qed.

(** accepted accessories keep the id they were given (explicit) and the shapes they were built with *)
Lemma add_accepted m eid s : snd (add_accessory m eid s) = true ->
  c_accs (fst (add_accessory m eid s)) = c_accs m ++ [((if eid =? 0 then c_count m else eid), s)].
Proof.
  unfold add_accessory. destruct (eid =? 0); destruct (existsb _ (c_reserved m)); cbn; intros H; congruence.
Qed.

Lemma ids_nonvacuous :
  instance_ids [6; 1; 3]%nat = [1; 2; 3; 4; 5; 6; 7; 8; 9; 10; 11; 12; 13] /\
  map fst (c_accs (add_all [(0, [6; 1]%nat); (5, [6]%nat); (0, [6]%nat); (2, [6]%nat); (0, [6]%nat)])) = [1; 5; 2; 3].
Proof. split; vm_compute; reflexivity. Qed.

(** removing an accessory that AddAccessory refused does not free the id of the member that has it *)
Lemma refused_then_removed_stays_refused :
  map fst (c_accs (fold_left capply [CAdd 7 [6]%nat; CAdd 7 [6]%nat; CRemove None; CAdd 7 [6]%nat; CRemove (Some 0%nat); CAdd 7 [6]%nat] empty_container)) = [].
Proof. vm_compute. reflexivity. Qed.

(** JSON shape of the attribute database: the mandatory members are always emitted (no omitempty) *)
From Coq Require Import String.
From HC Require Import Gen.Extracted Gen.CatalogGen Model.Spec Model.Catalog.
Definition mandatory (tags : list bytes) (l : list bytes) : bool := forallb (fun t => existsb (eqb_bytes t) l) tags.
Definition valid_perm (p : bytes) : bool :=
  existsb (eqb_bytes p) [s2b "pr"; s2b "pw"; s2b "ev"; s2b "hd"; s2b "wr"; s2b "aa"; s2b "tw"].
Lemma json_members_mandatory :
  mandatory [s2b "ID=iid"; s2b "Type=type"; s2b "Perms=perms"; s2b "Format=format"] Extracted.json_characteristic = true /\
  mandatory [s2b "ID=iid"; s2b "Type=type"; s2b "Characteristics=characteristics"] Extracted.json_service = true /\
  mandatory [s2b "ID=aid"; s2b "Services=services"] Extracted.json_accessory = true /\
  mandatory [s2b "Accessories=accessories"] Extracted.json_container = true.
Proof. vm_compute. repeat split; reflexivity. Qed.

(** every constructor of the catalog sets a format and a non-empty list of valid permissions *)
Lemma catalog_format_perms :
  forallb (fun k => negb (eqb_bytes (cc_format k) []) && negb (match cc_perms k with [] => true | _ => false end) &&
                    forallb valid_perm (cc_perms k)) char_ctors = true.
Proof. vm_compute. reflexivity. Qed.
