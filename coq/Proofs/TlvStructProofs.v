From HC Require Import Base.HBytes Base.HBytesProofs Model.TlvStruct.
From Coq Require Import ZifyBool ZifyNat ZifyN.
Open Scope N_scope.

(** * Part 1: Unmarshal is total on every byte string — no panic, no divergence *)

Definition ne_list (l : list bytes) : Prop := Forall (fun b => b <> []) l.
Definition ne_map (m : rmap) : Prop := Forall (fun p => ne_list (snd p)) m.

Lemma ne_mget m tag : ne_map m -> ne_list (mget m tag).
Proof.
  induction m as [|[t l] m IH]; intros H; cbn [mget]; [constructor|].
  inversion H; subst. destruct (t =? tag); [assumption|apply IH; assumption].
Qed.

Lemma ne_mdel m tag : ne_map m -> ne_map (mdel m tag).
Proof.
  induction m as [|[t l] m IH]; intros H; cbn [mdel]; [constructor|].
  inversion H; subst. destruct (t =? tag); [apply IH; assumption|constructor; [assumption|apply IH; assumption]].
Qed.

Lemma ne_mset m tag l : ne_map m -> ne_list l -> ne_map (mset m tag l).
Proof.
  intros Hm Hl. unfold mset. destruct l as [|x r]; [apply ne_mdel; exact Hm|].
  constructor; [exact Hl|apply ne_mdel; exact Hm].
Qed.

Lemma buckets_mdel m tag : (buckets (mdel m tag) + length (mget m tag) <= buckets m)%nat.
Proof.
  induction m as [|[t l] m IH]; cbn [mdel mget buckets]; [cbn; lia|].
  destruct (t =? tag); cbn [buckets]; lia.
Qed.

Lemma buckets_mset m tag l : (buckets (mset m tag l) <= buckets (mdel m tag) + length l)%nat.
Proof. unfold mset. destruct l; cbn [buckets length]; lia. Qed.

Lemma pop_spec m tag b m' : ne_map m -> pop m tag = Some (b, m') ->
  b <> [] /\ ne_map m' /\ (buckets m' < buckets m)%nat.
Proof.
  intros Hm. unfold pop. pose proof (ne_mget m tag Hm) as Hg. pose proof (buckets_mdel m tag) as Hb.
  destruct (mget m tag) as [|x rest] eqn:E; [discriminate|]. intros H. injection H as <- <-.
  inversion Hg; subst. split; [assumption|]. split; [apply ne_mset; assumption|].
  pose proof (buckets_mset m tag rest). cbn [length] in Hb. lia.
Qed.

Lemma pop_none_same m tag : pop m tag = None -> True.
Proof. trivial. Qed.

Lemma ne_append_last l v : ne_list l -> v <> [] -> ne_list (append_last l v).
Proof.
  intros Hl Hv. induction l as [|x r IH]; cbn [append_last]; [repeat constructor; assumption|].
  inversion Hl; subst. destruct r as [|y r'].
  - constructor; [|constructor]. destruct x; [congruence|discriminate].
  - constructor; [assumption|apply IH; assumption].
Qed.

Lemma ne_app l v : ne_list l -> v <> [] -> ne_list (l ++ [v]).
Proof. intros Hl Hv. apply Forall_app. split; [exact Hl|repeat constructor; exact Hv]. Qed.

Lemma fill_ne K : forall its m ld seen, ne_map m -> ne_map (fill K its m ld seen).
Proof.
  induction its as [|[t v] its IH]; intros m ld seen Hm; cbn [fill]; [exact Hm|].
  destruct v as [|x v']; [apply IH; exact Hm|]. apply IH.
  assert (Hv : x :: v' <> []) by discriminate.
  pose proof (ne_mget m t Hm) as Hg.
  destruct (mget m t) as [|y old] eqn:E.
  - apply ne_mset; [exact Hm|repeat constructor; exact Hv].
  - destruct (k_read_fixed K).
    + destruct (existsb (N.eqb t) seen); apply ne_mset; try exact Hm.
      * apply ne_append_last; assumption.
      * apply ne_app; assumption.
    + destruct ld; apply ne_mset; try exact Hm.
      * apply ne_app; assumption.
      * repeat constructor. inversion Hg; subst. destruct y; [congruence|discriminate].
Qed.

Lemma read_ne K b m : read K b = ROk m -> ne_map m.
Proof.
  unfold read. destruct (items b) as [its|e]; [|discriminate]. intros H. injection H as <-.
  apply fill_ne. constructor.
Qed.

(** the scalar readers never index out of range on a map whose buckets are non-empty *)
Lemma width_ok (n width : nat) : (1 <= n)%nat -> (width = 2 \/ width = 4 \/ width = 8)%nat ->
  ((if (n <? 2)%nat then 1 else if (n <? 4)%nat then Nat.min width 2 else if (n <? 8)%nat then Nat.min width 4 else width) <= n)%nat.
Proof. intros H1 Hw. destruct (n <? 2)%nat eqn:A; [lia|]. destruct (n <? 4)%nat eqn:B; [lia|]. destruct (n <? 8)%nat eqn:C; lia. Qed.

Lemma le_prefix_some k b : (k <= length b)%nat -> exists z, le_prefix k b = Some z.
Proof. intros H. unfold le_prefix. destruct (length b <? k)%nat eqn:E; [lia|eexists; reflexivity]. Qed.

Lemma read_u_ok w m tag : ne_map m -> (w = 2 \/ w = 4 \/ w = 8)%nat ->
  read_u w m tag = None \/ exists z m', read_u w m tag = Some (Ok z, m') /\ ne_map m' /\ (buckets m' < buckets m)%nat.
Proof.
  intros Hm Hw. unfold read_u. destruct (pop m tag) as [[b m']|] eqn:E; [|left; reflexivity]. right.
  destruct (pop_spec _ _ _ _ Hm E) as (Hb & Hm' & Hlt).
  assert (H1 : (1 <= length b)%nat) by (destruct b; [congruence|cbn; lia]).
  destruct (le_prefix_some _ b (width_ok (length b) w H1 Hw)) as [z Hz]. rewrite Hz. eauto.
Qed.

Lemma read_i_ok w m tag : ne_map m -> (w = 2 \/ w = 4 \/ w = 8)%nat ->
  read_i w m tag = None \/ exists z m', read_i w m tag = Some (Ok z, m') /\ ne_map m' /\ (buckets m' < buckets m)%nat.
Proof.
  intros Hm Hw. unfold read_i. destruct (pop m tag) as [[b m']|] eqn:E; [|left; reflexivity]. right.
  destruct (pop_spec _ _ _ _ Hm E) as (Hb & Hm' & Hlt).
  assert (H1 : (1 <= length b)%nat) by (destruct b; [congruence|cbn; lia]).
  destruct (le_prefix_some _ b (width_ok (length b) w H1 Hw)) as [z Hz]. rewrite Hz. eauto.
Qed.

Definition good_step (m : rmap) (m' : rmap) : Prop := ne_map m' /\ (buckets m' <= buckets m)%nat.

Lemma scalar_field_ok t m tag : is_scalar t = true -> ne_map m ->
  exists o m', scalar_field fixed_knobs t m tag = Ok (o, m') /\ good_step m m'.
Proof.
  intros Hs Hm. unfold good_step.
  destruct t; try discriminate; cbn [scalar_field].
  - (* u8 *) destruct (pop m tag) as [[b m']|] eqn:E; [|eexists _, m; split; [reflexivity|split; [assumption|lia]]].
    destruct (pop_spec _ _ _ _ Hm E) as (Hb & Hm' & Hlt). destruct b; [congruence|].
    eexists _, m'; split; [reflexivity|split; [assumption|lia]].
  - destruct (read_u_ok 2 m tag Hm ltac:(auto)) as [->|(z & m' & -> & Hm' & Hlt)]; eexists _, _; (split; [reflexivity|split; [eassumption|lia]]).
  - destruct (read_u_ok 4 m tag Hm ltac:(auto)) as [->|(z & m' & -> & Hm' & Hlt)]; eexists _, _; (split; [reflexivity|split; [eassumption|lia]]).
  - destruct (read_u_ok 8 m tag Hm ltac:(auto)) as [->|(z & m' & -> & Hm' & Hlt)]; eexists _, _; (split; [reflexivity|split; [eassumption|lia]]).
  - destruct (read_i_ok 2 m tag Hm ltac:(auto)) as [->|(z & m' & -> & Hm' & Hlt)]; eexists _, _; (split; [reflexivity|split; [eassumption|lia]]).
  - destruct (read_i_ok 4 m tag Hm ltac:(auto)) as [->|(z & m' & -> & Hm' & Hlt)]; eexists _, _; (split; [reflexivity|split; [eassumption|lia]]).
  - destruct (read_i_ok 8 m tag Hm ltac:(auto)) as [->|(z & m' & -> & Hm' & Hlt)]; eexists _, _; (split; [reflexivity|split; [eassumption|lia]]).
  - (* f32 *) destruct (pop m tag) as [[b m']|] eqn:E; [|eexists _, m; split; [reflexivity|split; [assumption|lia]]].
    destruct (pop_spec _ _ _ _ Hm E) as (Hb & Hm' & Hlt).
    destruct (le_prefix 4 b); cbn [k_f32_guard fixed_knobs]; eexists _, m'; (split; [reflexivity|split; [assumption|lia]]).
  - (* bool *) destruct (pop m tag) as [[b m']|] eqn:E; [|eexists _, m; split; [reflexivity|split; [assumption|lia]]].
    destruct (pop_spec _ _ _ _ Hm E) as (Hb & Hm' & Hlt). destruct b; [congruence|].
    eexists _, m'; split; [reflexivity|split; [assumption|lia]].
  - destruct (pop m tag) as [[b m']|] eqn:E; [|eexists _, m; split; [reflexivity|split; [assumption|lia]]].
    destruct (pop_spec _ _ _ _ Hm E) as (Hb & Hm' & Hlt). eexists _, m'; split; [reflexivity|split; [assumption|lia]].
  - destruct (pop m tag) as [[b m']|] eqn:E; [|eexists _, m; split; [reflexivity|split; [assumption|lia]]].
    destruct (pop_spec _ _ _ _ Hm E) as (Hb & Hm' & Hlt). eexists _, m'; split; [reflexivity|split; [assumption|lia]].
Qed.

(** a decoder of elements that is total and never grows the reader *)
Definition total_dec (dec : rmap -> dres) : Prop :=
  forall m, ne_map m -> exists vs m' e, dec m = Ok (vs, m', e) /\ good_step m m'.

Lemma list_loop_ok dec tag : total_dec dec -> forall fuel acc m, ne_map m -> (buckets m < fuel)%nat ->
  exists l m' e, list_loop fixed_knobs dec tag fuel acc m = Ok (l, m', e) /\ good_step m m'.
Proof.
  intros Hd. induction fuel as [|f IH]; intros acc m Hm Hf; [lia|]. cbn [list_loop].
  destruct (pop m tag) as [[b m1]|] eqn:E.
  - destruct (pop_spec _ _ _ _ Hm E) as (Hb & Hm1 & Hlt).
    destruct (read fixed_knobs b) as [mb|e] eqn:Er.
    + destruct (Hd mb (read_ne _ _ _ Er)) as (vs & mb' & errd & -> & _).
      destruct (meof m1); [eexists _, m1, _; split; [reflexivity|split; [assumption|lia]]|].
      destruct errd; [eexists _, m1, _; split; [reflexivity|split; [assumption|lia]]|].
      destruct (IH (snoc acc vs) m1 Hm1 ltac:(lia)) as (l & m' & e & -> & Hm' & Hle).
      eexists _, _, _; split; [reflexivity|split; [assumption|lia]].
    + eexists _, m1, _; split; [reflexivity|split; [assumption|lia]].
  - eexists _, m, _; split; [reflexivity|split; [assumption|lia]].
Qed.

Lemma inline_loop_ok dec ise : total_dec dec -> forall fuel acc m, ne_map m -> (buckets m < fuel)%nat ->
  exists l m' e, inline_loop fixed_knobs dec ise fuel acc m = Ok (l, m', e) /\ good_step m m'.
Proof.
  intros Hd. induction fuel as [|f IH]; intros acc m Hm Hf; [lia|]. cbn [inline_loop].
  destruct (Hd m Hm) as (vs & m1 & errd & -> & Hm1 & Hle). cbn [k_inline_fixed fixed_knobs].
  destruct (Nat.eqb_spec (buckets m1) (buckets m)) as [Eq|Ne]; [eexists _, m1, _; split; [reflexivity|split; [assumption|lia]]|].
  destruct (meof m1); [eexists _, m1, _; split; [reflexivity|split; [assumption|lia]]|].
  destruct errd; [eexists _, m1, _; split; [reflexivity|split; [assumption|lia]]|].
  destruct (IH (snoc acc vs) m1 Hm1 ltac:(lia)) as (l & m' & e & -> & Hm' & Hle').
  eexists _, _, _; split; [reflexivity|split; [assumption|lia]].
Qed.

Scheme ty_mind := Induction for ty Sort Prop
  with fields_mind := Induction for fields Sort Prop.

Definition sub_total (t : ty) : Prop :=
  match t with
  | TStruct fs | TList fs | TInline fs => total_dec (dec_fields fixed_knobs fs)
  | _ => True
  end.

Lemma cont_ok v (r : dres) m0 m : (exists vs m' e, r = Ok (vs, m', e) /\ good_step m m') -> (buckets m <= buckets m0)%nat ->
  exists vs m' e, cont v r = Ok (vs, m', e) /\ good_step m0 m'.
Proof.
  intros (vs & m' & e & -> & Hm' & Hle) Hb. cbn [cont]. eexists _, _, _; split; [reflexivity|split; [assumption|lia]].
Qed.

Lemma dec_fields_total : forall fs, total_dec (dec_fields fixed_knobs fs).
Proof.
  apply (fields_mind sub_total (fun fs => total_dec (dec_fields fixed_knobs fs))); try (exact I); try (intros fs H; exact H).
  - (* FNil *) intros m Hm. cbn [dec_fields]. eexists _, m, _; split; [reflexivity|split; [assumption|lia]].
  - (* FCons *) intros tag t Ht fr IHr m Hm.
    assert (Hfail : forall m', ne_map m' -> (buckets m' <= buckets m)%nat ->
              exists vs m'' e, Ok (VCons (zero_of t) (zeros fr), m', true) = Ok (vs, m'', e) /\ good_step m m'')
      by (intros m' A B; eexists _, m', _; split; [reflexivity|split; assumption]).
    destruct t; cbn [dec_fields];
      try (match goal with |- context [scalar_field _ ?t0 _ _] =>
             destruct (scalar_field_ok t0 m tag eq_refl Hm) as (o & m' & -> & Hm' & Hle) end;
           destruct o as [v|]; [apply (cont_ok _ _ m m'); [apply IHr; assumption|exact Hle]|apply Hfail; assumption]).
    + (* struct *) cbn [sub_total] in Ht.
      destruct (pop m tag) as [[data m']|] eqn:E; [|apply (cont_ok _ _ m m); [apply IHr; assumption|lia]].
      destruct (pop_spec _ _ _ _ Hm E) as (_ & Hm' & Hlt).
      destruct (read fixed_knobs data) as [md|[|]] eqn:Er.
      * destruct (Ht md (read_ne _ _ _ Er)) as (vs & md' & e & -> & _).
        destruct e; [apply Hfail; [assumption|lia]|apply (cont_ok _ _ m m'); [apply IHr; assumption|lia]].
      * apply (cont_ok _ _ m m'); [apply IHr; assumption|lia].
      * apply Hfail; [assumption|lia].
    + (* tagged list *) cbn [sub_total] in Ht.
      destruct (list_loop_ok _ tag Ht (S (buckets m)) LNil m Hm ltac:(lia)) as (l & m' & e & -> & Hm' & Hle).
      destruct e; [apply Hfail; assumption|apply (cont_ok _ _ m m'); [apply IHr; assumption|exact Hle]].
    + (* inline list *) cbn [sub_total] in Ht.
      destruct (inline_loop_ok _ (empty_vals fs) Ht (S (buckets m)) LNil m Hm ltac:(lia)) as (l & m' & e & -> & Hm' & Hle).
      destruct e; [apply Hfail; assumption|apply (cont_ok _ _ m m'); [apply IHr; assumption|exact Hle]].
Qed.

(** C17 (decoder): for EVERY struct type and EVERY byte string, Unmarshal returns a value or an
    error: it neither panics nor fails to terminate *)
Theorem unmarshal_total fs b : (exists vs, unmarshal fixed_knobs fs b = Ok vs) \/ unmarshal fixed_knobs fs b = Err 1.
Proof.
  unfold unmarshal. destruct (read fixed_knobs b) as [m|e] eqn:Er; [|right; reflexivity].
  destruct (dec_fields_total fs m (read_ne _ _ _ Er)) as (vs & m' & e & -> & _).
  destruct e; [right; reflexivity|left; eexists; reflexivity].
Qed.

Corollary unmarshal_never_panics fs b : unmarshal fixed_knobs fs b <> Panic /\ unmarshal fixed_knobs fs b <> OutOfFuel.
Proof. destruct (unmarshal_total fs b) as [[vs ->]| ->]; split; discriminate. Qed.

(** the pinned snapshot panicked on a short float32 item and looped on inline elements with a nested struct *)
Lemma pinned_unmarshal_panics : unmarshal pinned_knobs (FCons 1 TF32 FNil) [1; 1; 1] = Panic.
Proof. vm_compute. reflexivity. Qed.
Lemma pinned_inline_nested_runs_out_of_fuel :
  unmarshal pinned_knobs (FCons 0 (TInline (FCons 2 (TStruct (FCons 1 TU8 FNil)) FNil)) (FCons 3 TU8 FNil)) [2; 3; 1; 1; 5; 3; 1; 7] = OutOfFuel.
Proof. vm_compute. reflexivity. Qed.
Lemma fixed_inline_nested_terminates :
  unmarshal fixed_knobs (FCons 0 (TInline (FCons 2 (TStruct (FCons 1 TU8 FNil)) FNil)) (FCons 3 TU8 FNil)) [2; 3; 1; 1; 5; 3; 1; 7]
  = Ok (VCons (VList (LCons (VCons (VStruct (VCons (VNum 5) VNil)) VNil) LNil)) (VCons (VNum 7) VNil)).
Proof. vm_compute. reflexivity. Qed.

(** * Part 2: the RTP message types of the library (regenerated from rtp/*.go) are well formed *)
From HC Require Import Gen.RtpGen.
Lemma rtp_types_wf : forallb (fun p => wf_fields (snd p)) rtp_types = true.
Proof. vm_compute. reflexivity. Qed.
Lemma rtp_types_nonempty : (length rtp_types >= 20)%nat.
Proof. vm_compute. lia. Qed.
