From Coq Require Import List ZArith Bool Arith Lia.
Import ListNotations.
From HC Require Import Model.Update.
Open Scope Z_scope.

Definition uinv (old v : Z) (s : ustate) : Prop :=
  (u_val s = old /\ u_events s = 0%nat /\ someone_done s = false /\ Forall (fun p => p = WStart) (u_pcs s)) \/
  (u_val s = v /\ u_events s = 1%nat /\ Forall (fun p => p = WStart \/ p = WDone) (u_pcs s)).

Lemma set_nth_forall {A} (P : A -> Prop) l i x : Forall P l -> P x -> Forall P (set_nth l i x).
Proof.
  revert i; induction l as [|y r IH]; intros i Hl Hx; destruct i; cbn [set_nth]; auto;
    inversion Hl; subst; constructor; auto.
Qed.

Lemma nth_error_forall {A} (P : A -> Prop) l i x : Forall P l -> nth_error l i = Some x -> P x.
Proof. intros H E. apply nth_error_In in E. rewrite Forall_forall in H. apply H, E. Qed.

Lemma atomic_step old v s w : old <> v -> uinv old v s -> uinv old v (ustep true v s w).
Proof.
  intros Hne I. unfold ustep. destruct (nth_error (u_pcs s) w) as [[|seen|]|] eqn:E; try exact I.
  - destruct I as [(Hv & He & Hd & Hall)|(Hv & He & Hall)].
    + rewrite Hv. destruct (old =? v) eqn:Q; [apply Z.eqb_eq in Q; congruence|].
      right. cbn [u_val u_events u_pcs]. repeat split; [lia|].
      apply set_nth_forall; [|right; reflexivity].
      eapply Forall_impl; [|exact Hall]. intros p Hp. left. exact Hp.
    + rewrite Hv, Z.eqb_refl. right. cbn [u_val u_events u_pcs]. repeat split; auto.
      apply set_nth_forall; [exact Hall|right; reflexivity].
  - exfalso. destruct I as [(_ & _ & _ & Hall)|(_ & _ & Hall)].
    + pose proof (nth_error_forall _ _ _ _ Hall E) as X. discriminate X.
    + pose proof (nth_error_forall _ _ _ _ Hall E) as X. destruct X as [X|X]; discriminate X.
Qed.

Lemma atomic_fold old v sched : old <> v -> forall s, uinv old v s -> uinv old v (fold_left (ustep true v) sched s).
Proof. intros Hne. induction sched as [|w r IH]; intros s I; cbn [fold_left]; [exact I|]. apply IH, atomic_step; assumption. Qed.

Lemma uinit_inv old v n : uinv old v (uinit old n).
Proof.
  left. unfold uinit. cbn [u_val u_events u_pcs]. repeat split.
  - unfold someone_done. cbn [u_pcs]. induction n; cbn; auto.
  - apply Forall_forall. intros p Hp. apply repeat_spec in Hp. exact Hp.
Qed.

(** any number of writers of the same new value, any schedule: as soon as one of them is through,
    the value is the new one and exactly ONE change was notified — and never more than one *)
Theorem same_value_one_event old v n sched : old <> v ->
  let s := urun true v old n sched in
  (u_events s <= 1)%nat /\ (someone_done s = true -> u_val s = v /\ u_events s = 1%nat).
Proof.
  intros Hne. cbn zeta. unfold urun.
  destruct (atomic_fold old v sched Hne _ (uinit_inv old v n)) as [(Hv & He & Hd & _)|(Hv & He & _)].
  - split; [lia|]. rewrite Hd. discriminate.
  - split; [lia|]. auto.
Qed.

(** comparing and storing in two steps: both writers read the old value, both store and notify *)
Lemma two_steps_refuted : u_events (urun false 1 0 2 [0; 1; 0; 1]%nat) = 2%nat.
Proof. vm_compute. reflexivity. Qed.
