From Coq Require Import List Bool Arith Lia.
Import ListNotations.
From HC Require Import Model.Sessions.

(** the table represents the per-connection states when the key tells connections apart *)
Definition represents (key : nat -> nat) (t : table) (m : cstate) : Prop :=
  forall c, t (key c) = match m c with Some v => Some (mkSess c v) | None => None end.

Lemma step_refines key own (Hinj : forall a b, key a = key b -> a = b) t m o :
  represents key t m ->
  represents key (fst (sstep key own t o)) (fst (spec_step m o)) /\ snd (sstep key own t o) = snd (spec_step m o).
Proof.
  intros R. destruct o as [c|c|c|c]; cbn [sstep spec_step].
  - split; [|reflexivity]. cbn [fst]. intros c'. unfold tput.
    destruct (Nat.eqb c' c) eqn:E.
    + apply Nat.eqb_eq in E. subst c'. rewrite Nat.eqb_refl. reflexivity.
    + destruct (Nat.eqb (key c') (key c)) eqn:E2; [|apply R].
      apply Nat.eqb_eq, Hinj in E2. subst c'. rewrite Nat.eqb_refl in E. discriminate.
  - rewrite (R c). destruct (m c) as [v|]; cbn [fst snd s_owner]; [|split; [exact R|reflexivity]].
    split; [|reflexivity]. intros c'. unfold tput.
    destruct (Nat.eqb c' c) eqn:E.
    + apply Nat.eqb_eq in E. subst c'. rewrite Nat.eqb_refl. reflexivity.
    + destruct (Nat.eqb (key c') (key c)) eqn:E2; [|apply R].
      apply Nat.eqb_eq, Hinj in E2. subst c'. rewrite Nat.eqb_refl in E. discriminate.
  - rewrite (R c). destruct (m c) as [v|]; cbn [fst snd s_verified]; (split; [exact R|reflexivity]).
  - rewrite (R c). destruct (m c) as [v|] eqn:Em; cbn [s_owner].
    + rewrite Nat.eqb_refl, orb_true_r. cbn [fst snd]. split; [|reflexivity]. intros c'. unfold tdel.
      destruct (Nat.eqb c' c) eqn:E.
      * apply Nat.eqb_eq in E. subst c'. rewrite Nat.eqb_refl. reflexivity.
      * destruct (Nat.eqb (key c') (key c)) eqn:E2; [|apply R].
        apply Nat.eqb_eq, Hinj in E2. subst c'. rewrite Nat.eqb_refl in E. discriminate.
    + cbn [fst snd]. split; [|reflexivity]. intros c'.
      destruct (Nat.eqb c' c) eqn:E; [|apply R].
      apply Nat.eqb_eq in E. subst c'. rewrite (R c), Em. reflexivity.
Qed.

Lemma run_refines key own (Hinj : forall a b, key a = key b -> a = b) ops : forall t m,
  represents key t m -> srun key own t ops = spec_run m ops.
Proof.
  induction ops as [|o ops IH]; intros t m R; cbn [srun spec_run]; [reflexivity|].
  destruct (step_refines key own Hinj t m o R) as [R' E].
  destruct (sstep key own t o) as [t' out]. destruct (spec_step m o) as [m' out']. cbn [fst snd] in *.
  subst out'. f_equal. apply IH, R'.
Qed.

(** every history, from the empty table: each request is answered as the connection's OWN state says *)
Theorem sessions_per_connection key own ops :
  (forall a b, key a = key b -> a = b) -> srun key own empty_table ops = spec_run nobody ops.
Proof. intros Hinj. apply run_refines; [exact Hinj|]. intros c. reflexivity. Qed.

(** keyed by something two live connections share (the pinned code: the remote address), the
    verification of one carries over to the other *)
Lemma shared_key_refuted :
  srun (fun _ => 0) true empty_table [SConnect 1; SConnect 2; SVerify 2; SRequest 1] = [ONone; ONone; ONone; OServed] /\
  spec_run nobody [SConnect 1; SConnect 2; SVerify 2; SRequest 1] = [ONone; ONone; ONone; ORefused].
Proof. split; vm_compute; reflexivity. Qed.

(** a connection that is closed late (its successor under the same key was accepted already): removing
    whatever is stored under the key leaves the successor without a session; removing only one's own does not *)
Lemma late_close :
  srun (fun _ => 0) false empty_table [SConnect 1; SConnect 2; SClose 1; SRequest 2] = [ONone; ONone; ONone; ONoSession] /\
  srun (fun _ => 0) true empty_table [SConnect 1; SConnect 2; SClose 1; SVerify 2; SRequest 2] = [ONone; ONone; ONone; ONone; OServed].
Proof. split; vm_compute; reflexivity. Qed.
