From HC Require Import Base.HBytes Model.ConnWrite.
From Coq Require Import ZifyBool ZifyNat ZifyN.

Lemma in_order_app a : forall from b, in_order from (a ++ b) <-> in_order from a /\ in_order (from + N.of_nat (length a)) b.
Proof.
  induction a as [|[[c w] x] a IH]; intros from b; cbn [app in_order length].
  - rewrite N.add_0_r. tauto.
  - rewrite IH. rewrite Nat2N.inj_succ. replace (from + 1 + N.of_nat (length a)) with (from + N.succ (N.of_nat (length a))) by lia. tauto.
Qed.

(** The invariant of the locked write path, for every reachable state; [n] bounds the number of
    frames sealed so far (at most one per event) *)
Definition WInv (n : nat) (s : wstate) : Prop :=
  in_order 0 (sock s) /\
  match active s with
  | [] => wctr s = N.of_nat (length (sock s)) /\ (length (sock s) <= n)%nat
  | [w] => in_order (N.of_nat (length (sock s))) (wbuf w) /\
           wctr s = N.of_nat (length (sock s) + length (wbuf w)) /\
           Forall (fun f => snd (fst f) = wid w) (wbuf w) /\
           (length (sock s) + length (wbuf w) <= n)%nat
  | _ => False
  end.

Lemma WInv_mono n m s : (n <= m)%nat -> WInv n s -> WInv m s.
Proof.
  intros H (Ho & Ha). split; [exact Ho|]. destruct (active s) as [|w [|w2 ws]]; [| |exact Ha].
  - destruct Ha; split; [assumption|lia].
  - destruct Ha as (A & B & C & D). repeat split; auto. lia.
Qed.

Lemma wstep_inv s e n : N.of_nat (S n) < m64 -> WInv n s -> WInv (S n) (wstep true s e).
Proof.
  intros Hbig Hinv. pose proof (WInv_mono n (S n) s ltac:(lia) Hinv) as Hinv'.
  destruct Hinv as (Hord & Hact). destruct e as [t chunks|t]; cbn [wstep].
  - destruct (find (active s) t); [exact Hinv'|].
    destruct (active s) as [|w ws] eqn:Ea; cbn [andb negb]; [|exact Hinv'].
    unfold WInv. cbn [sock active wctr app]. destruct Hact as [Hc Hn].
    split; [exact Hord|]. cbn [wbuf length in_order]. rewrite Nat.add_0_r. repeat split; auto; try lia; constructor.
  - destruct (active s) as [|w ws] eqn:Ea; cbn [find]; [exact Hinv'|].
    destruct ws as [|w2 ws]; [|destruct Hact].
    destruct (Nat.eqb (wid w) t) eqn:Et; [|exact Hinv'].
    destruct Hact as (Hb & Hc & Hw & Hn).
    destruct (todo w) as [|c rest] eqn:Etodo.
    + (* send *)
      unfold WInv. cbn [sock active wctr upd]. rewrite Et.
      split; [apply in_order_app; split; [exact Hord|rewrite N.add_0_l; exact Hb]|].
      rewrite app_length. split; [exact Hc|lia].
    + (* seal *)
      unfold WInv. cbn [sock active wctr upd]. rewrite Et. cbn [wbuf wid].
      split; [exact Hord|]. split; [|split; [|split]].
      * apply in_order_app. split; [exact Hb|]. cbn [in_order]. split; [|exact I]. rewrite Hc. lia.
      * rewrite app_length. cbn [length]. rewrite Hc. unfold m64 in *. rewrite N.mod_small by lia. lia.
      * apply Forall_app. split; [exact Hw|]. constructor; [reflexivity|constructor].
      * rewrite app_length. cbn [length]. lia.
Qed.

Lemma wrun_inv_from : forall evs s n, N.of_nat (n + length evs) < m64 -> WInv n s ->
  WInv (n + length evs) (fold_left (wstep true) evs s).
Proof.
  induction evs as [|e evs IH]; intros s n Hb Hi; cbn [fold_left length].
  - rewrite Nat.add_0_r. exact Hi.
  - replace (n + S (length evs))%nat with (S n + length evs)%nat by lia.
    apply IH; [cbn [length] in Hb; lia|]. apply wstep_inv; [cbn [length] in Hb; lia|exact Hi].
Qed.

(** C08: under the lock, for EVERY schedule: the i-th frame on the wire carries nonce i (the peer,
    which decrypts frame i with counter i, can decrypt every frame in the order it arrives; no
    counter is reused or out of order), and at most one writer is ever inside. *)
Theorem locked_writes_in_order evs : N.of_nat (length evs) < m64 ->
  let s := wrun true evs in
  in_order 0 (sock s) /\ (length (active s) <= 1)%nat.
Proof.
  intros Hb. cbn zeta. unfold wrun.
  pose proof (wrun_inv_from evs (mkS 0 [] [] []) 0 Hb) as H.
  assert (H0 : WInv 0 (mkS 0 [] [] [])) by (unfold WInv; cbn; auto).
  destruct (H H0) as (Ho & Ha). split; [exact Ho|].
  destruct (active (fold_left (wstep true) evs (mkS 0 [] [] []))) as [|w [|w2 ws]]; cbn [length]; try lia; try (destruct Ha).
Qed.

(** each completed write's frames are contiguous, complete and carry exactly its payload: the
    socket is the concatenation, in completion order, of the completed writes' chunk lists,
    each numbered consecutively *)
Fixpoint number (from : N) (t : nat) (chunks : list bytes) : list fr :=
  match chunks with [] => [] | c :: r => (from, t, c) :: number (from + 1) t r end.

Lemma number_app from t a b : number from t (a ++ b) = number from t a ++ number (from + N.of_nat (length a)) t b.
Proof.
  revert from; induction a as [|x a IH]; intros from; cbn [app number length].
  - rewrite N.add_0_r. reflexivity.
  - rewrite IH. f_equal. f_equal. f_equal. lia.
Qed.
Lemma number_length from t l : length (number from t l) = length l.
Proof. revert from; induction l; intros; simpl; auto. Qed.

Fixpoint segs_of (from : N) (log : list (nat * list bytes)) : list fr :=
  match log with
  | [] => []
  | (t, chunks) :: r => number from t chunks ++ segs_of (from + N.of_nat (length chunks)) r
  end.
Lemma segs_of_app from a b :
  segs_of from (a ++ b) = segs_of from a ++ segs_of (from + N.of_nat (length (segs_of from a))) b.
Proof.
  revert from; induction a as [|[t c] a IH]; intros from; cbn [app segs_of length].
  - rewrite N.add_0_r. reflexivity.
  - rewrite IH, <- app_assoc. f_equal. f_equal. rewrite app_length, number_length. f_equal. lia.
Qed.

Definition LInv (s : wstate) : Prop :=
  sock s = segs_of 0 (rev (done s)) /\
  match active s with
  | [] => True
  | [w] => exists sealed, sealed ++ todo w = orig w /\
                          wbuf w = number (wctr s - N.of_nat (length sealed)) (wid w) sealed /\
                          N.of_nat (length sealed) <= wctr s
  | _ => False
  end.

Lemma lstep_inv s e n : N.of_nat (S n) < m64 -> WInv n s -> LInv s -> LInv (wstep true s e).
Proof.
  intros Hbig (Hord & Hact) Hinv'. pose proof Hinv' as (Hs & Hl). destruct e as [t chunks|t]; cbn [wstep].
  - destruct (find (active s) t); [exact Hinv'|].
    destruct (active s) as [|w ws] eqn:Ea; cbn [andb negb]; [|exact Hinv'].
    split; [exact Hs|]. cbn [active app]. exists []. cbn. repeat split; auto. lia.
  - destruct (active s) as [|w ws] eqn:Ea; cbn [find]; [exact Hinv'|].
    destruct ws as [|w2 ws]; [|destruct Hl].
    destruct (Nat.eqb (wid w) t) eqn:Et; [|exact Hinv'].
    destruct Hl as (sealed & Hso & Hbuf & Hle). destruct Hact as (Hb & Hc & Hw & Hn).
    destruct (todo w) as [|c rest] eqn:Etodo.
    + split; [|cbn [active upd]; rewrite Et; exact I].
      cbn [sock done rev]. rewrite segs_of_app, <- Hs. f_equal. cbn [segs_of]. rewrite app_nil_r.
      rewrite app_nil_r in Hso. subst sealed. rewrite Hbuf. apply Nat.eqb_eq in Et. rewrite Et. f_equal.
      rewrite Hc. rewrite Hbuf, number_length. lia.
    + split; [exact Hs|]. cbn [active upd]. rewrite Et. exists (sealed ++ [c]). cbn [todo orig wbuf wid wctr].
      rewrite <- app_assoc. cbn [app]. split; [exact Hso|].
      assert (Hwc : (wctr s + 1) mod m64 = wctr s + 1).
      { assert (Hlt : wctr s + 1 < m64) by (rewrite Hc; unfold m64 in *; lia). rewrite N.mod_small by exact Hlt. reflexivity. }
      rewrite Hwc. rewrite app_length. cbn [length]. split; [|lia].
      rewrite number_app. rewrite Hbuf. cbn [number].
      replace (wctr s + 1 - N.of_nat (length sealed + 1)) with (wctr s - N.of_nat (length sealed)) by lia.
      replace (wctr s - N.of_nat (length sealed) + N.of_nat (length sealed)) with (wctr s) by lia.
      reflexivity.
Qed.

Lemma wrun_linv_from : forall evs s n, N.of_nat (n + length evs) < m64 -> WInv n s -> LInv s ->
  LInv (fold_left (wstep true) evs s).
Proof.
  induction evs as [|e evs IH]; intros s n Hb Hi Hl; cbn [fold_left length]; [exact Hl|].
  apply (IH _ (S n)); [cbn [length] in Hb; lia| |].
  - apply wstep_inv; [cbn [length] in Hb; lia|exact Hi].
  - eapply lstep_inv; [|exact Hi|exact Hl]. cbn [length] in Hb; lia.
Qed.

Theorem locked_writes_intact evs : N.of_nat (length evs) < m64 ->
  let s := wrun true evs in
  sock s = segs_of 0 (rev (done s)).
Proof.
  intros Hb. cbn zeta. unfold wrun.
  assert (H0 : WInv 0 (mkS 0 [] [] [])) by (unfold WInv; cbn; auto).
  assert (L0 : LInv (mkS 0 [] [] [])) by (unfold LInv; cbn; auto).
  exact (proj1 (wrun_linv_from evs _ 0 Hb H0 L0)).
Qed.

(** without the lock the property fails: two writers, one frame each *)
Lemma unlocked_out_of_order :
  let s := wrun false [Enter 0 [[1]]; Enter 1 [[2]]; Step 0; Step 1; Step 1; Step 0] in
  sock s = [(1, 1%nat, [2]); (0, 0%nat, [1])] /\ ~ in_order 0 (sock s).
Proof. cbn zeta. split; [vm_compute; reflexivity|]. vm_compute. intros [H _]. discriminate. Qed.
