From Coq Require Import List Bool Arith Lia.
Import ListNotations.
From HC Require Import Model.Pipeline.

Lemma forallb_app_true {A} (f : A -> bool) a b : forallb f (a ++ b) = true <-> forallb f a = true /\ forallb f b = true.
Proof. rewrite forallb_app, andb_true_iff. tauto. Qed.

Lemma all_sealed_repeat k : all_sealed (repeat Sealed k) = true.
Proof. induction k; simpl; auto. Qed.

Lemma all_sealed_split n l : all_sealed l = true -> all_sealed (firstn n l) = true /\ all_sealed (skipn n l) = true.
Proof. intros H. rewrite <- (firstn_skipn n l) in H. apply forallb_app_true in H. exact H. Qed.

Definition served_ok (s : pstate) : Prop := Forall (fun r => all_sealed r = true) (p_served s).

(** by origin: whatever arrives and however it is cut into requests, only sealed bytes are served *)
Lemma by_origin_step s e : served_ok s -> served_ok (pstep true s e).
Proof.
  intros H. destruct e as [k|n prot fin]; cbn [pstep].
  - destruct (p_pending s || p_encrypted s)%bool; exact H.
  - destruct (length (p_buf s) <? n); [exact H|].
    destruct prot.
    + destruct (all_sealed (firstn n (p_buf s))) eqn:E; cbn [p_served]; [|exact H].
      apply Forall_app. split; [exact H|]. constructor; [exact E|constructor].
    + destruct fin; exact H.
Qed.

Lemma by_origin_fold evs : forall s, served_ok s -> served_ok (fold_left (pstep true) evs s).
Proof. induction evs as [|e evs IH]; intros s H; cbn [fold_left]; [exact H|]. apply IH, by_origin_step, H. Qed.

Theorem by_origin_only_sealed evs : served_ok (prun true evs).
Proof. apply by_origin_fold. constructor. Qed.

(** by state: right as long as no finish is handled while a plaintext byte waits behind it *)
Definition pinv (s : pstate) : Prop :=
  p_leftover s = false ->
  served_ok s /\ ((p_pending s || p_encrypted s)%bool = true -> all_sealed (p_buf s) = true).

Lemma by_state_step s e : pinv s -> pinv (pstep false s e).
Proof.
  intros I. destruct e as [k|n prot fin]; cbn [pstep].
  - destruct (p_pending s || p_encrypted s)%bool eqn:F; intros L; cbn [p_leftover] in L; destruct (I L) as [S B];
      split; cbn [p_served p_buf p_pending p_encrypted]; auto.
    + intros _. apply forallb_app_true. split; [apply B; exact F|apply all_sealed_repeat].
    + intros X; discriminate X.
  - destruct (length (p_buf s) <? n); [exact I|].
    destruct prot.
    + destruct (p_encrypted s) eqn:E; intros L; cbn [p_leftover] in L; destruct (I L) as [S B].
      * assert (A : all_sealed (p_buf s) = true) by (apply B; rewrite E; apply orb_true_r).
        split; cbn [p_served p_buf p_pending p_encrypted].
        -- apply Forall_app. split; [exact S|]. constructor; [|constructor]. apply all_sealed_split, A.
        -- intros _. apply all_sealed_split, A.
      * split; cbn [p_served p_buf p_pending p_encrypted].
        -- exact S.
        -- intros F. apply all_sealed_split. apply B. rewrite E. exact F.
    + destruct fin; intros L; cbn [p_leftover] in L.
      * apply orb_false_iff in L. destruct L as [L1 L2]. destruct (I L1) as [S B].
        split; cbn [p_served p_buf]; auto. intros _. apply negb_false_iff in L2. exact L2.
      * destruct (I L) as [S B]. split; cbn [p_served p_buf p_pending p_encrypted]; auto.
        intros F. apply all_sealed_split. apply B. exact F.
Qed.

Lemma by_state_fold evs : forall s, pinv s -> pinv (fold_left (pstep false) evs s).
Proof. induction evs as [|e evs IH]; intros s H; cbn [fold_left]; [exact H|]. apply IH, by_state_step, H. Qed.

Theorem by_state_without_leftover evs :
  p_leftover (prun false evs) = false -> served_ok (prun false evs).
Proof.
  intros L. apply (by_state_fold evs pinit); [|exact L].
  intros _. split; [constructor|]. intros X; discriminate X.
Qed.

(** ... and wrong otherwise: a request no byte of which was sealed is served *)
Theorem by_state_refuted :
  p_served (prun false injected) = [[Plain]] /\ p_served (prun true injected) = [].
Proof. split; vm_compute; reflexivity. Qed.

(** the honest history: the finish alone, then the peer's sealed request, is served either way *)
Example honest_served :
  let evs := [Recv 1; Parse 1 false true; Recv 3; Parse 3 true false] in
  p_served (prun false evs) = [[Sealed; Sealed; Sealed]] /\ p_served (prun true evs) = [[Sealed; Sealed; Sealed]] /\
  p_leftover (prun false evs) = false.
Proof. repeat split; vm_compute; reflexivity. Qed.

(** with reads that stop at the end of a message no finish is ever handled with plaintext behind it *)
Lemma framed_fold by_origin evs : forall s,
  framed (length (p_buf s)) evs = true -> p_leftover s = false ->
  p_leftover (fold_left (pstep by_origin) evs s) = false.
Proof.
  induction evs as [|e evs IH]; intros s F L; cbn [fold_left]; [exact L|].
  destruct e as [k|n prot fin]; cbn [framed] in F.
  - apply IH.
    + cbn [pstep]. destruct (p_pending s || p_encrypted s)%bool; cbn [p_buf]; rewrite app_length, repeat_length; exact F.
    + cbn [pstep]. destruct (p_pending s || p_encrypted s)%bool; exact L.
  - cbn [pstep]. destruct (length (p_buf s) <? n) eqn:E; [apply IH; assumption|].
    apply andb_true_iff in F. destruct F as [Fe F]. apply Nat.eqb_eq in Fe.
    assert (R : skipn n (p_buf s) = []) by (apply skipn_all2; lia).
    destruct prot.
    + destruct (if by_origin then all_sealed (firstn n (p_buf s)) else p_encrypted s);
        (apply IH; [cbn [p_buf]; rewrite R; exact F|exact L]).
    + destruct fin; (apply IH; [cbn [p_buf]; rewrite R; exact F|]); cbn [p_leftover]; [|exact L].
      rewrite R, L. reflexivity.
Qed.

Theorem framed_reads_serve_only_sealed evs :
  framed 0 evs = true -> served_ok (prun false evs).
Proof.
  intros F. apply by_state_without_leftover. apply (framed_fold false evs pinit); [exact F|reflexivity].
Qed.

(** the history of the finding is not one the repaired connection can produce *)
Example injected_is_not_framed : framed 0 injected = false.
Proof. reflexivity. Qed.
