From HC Require Import Base.HBytes Model.Storage.
From Coq Require Import ZifyBool ZifyNat ZifyN.

Lemma eqb_list_spec a b : eqb_list a b = true <-> a = b.
Proof.
  revert b; induction a as [|x a IH]; intros [|y b]; simpl; split; intros H; try congruence; try discriminate.
  - apply andb_true_iff in H. destruct H as [H1 H2]. apply N.eqb_eq in H1. apply IH in H2. congruence.
  - injection H as -> ->. rewrite N.eqb_refl. simpl. apply IH. reflexivity.
Qed.
Lemma eqb_list_refl a : eqb_list a a = true.
Proof. apply eqb_list_spec. reflexivity. Qed.
Lemma eqb_list_neq a b : a <> b -> eqb_list a b = false.
Proof. intros H. destruct (eqb_list a b) eqn:E; [apply eqb_list_spec in E; contradiction|reflexivity]. Qed.
Lemma eqb_list_false a b : eqb_list a b = false -> a <> b.
Proof. intros H ->. rewrite eqb_list_refl in H. discriminate. Qed.

Lemma fs_get_del_same d n : fs_get (fs_del d n) n = None.
Proof.
  induction d as [|[m v] d IH]; [reflexivity|]. simpl.
  destruct (eqb_list m n) eqn:E; [exact IH|]. simpl. rewrite E. exact IH.
Qed.
Lemma fs_get_del_other d n m : n <> m -> fs_get (fs_del d n) m = fs_get d m.
Proof.
  intros Hn. induction d as [|[k v] d IH]; [reflexivity|]. simpl.
  destruct (eqb_list k n) eqn:E.
  - apply eqb_list_spec in E. subst k. rewrite (eqb_list_neq n m Hn). exact IH.
  - simpl. destruct (eqb_list k m); [reflexivity|exact IH].
Qed.
Lemma fs_get_put_same d n v : fs_get (fs_put d n v) n = Some v.
Proof. unfold fs_put. simpl. rewrite eqb_list_refl. reflexivity. Qed.
Lemma fs_get_put_other d n v m : n <> m -> fs_get (fs_put d n v) m = fs_get d m.
Proof. intros H. unfold fs_put. simpl. rewrite (eqb_list_neq n m H). apply fs_get_del_other. exact H. Qed.

Lemma overwrite_nil v : overwrite [] v = v.
Proof. unfold overwrite. rewrite skipn_nil. apply app_nil_r. Qed.

Lemma tmp_of_neq n : n <> tmp_of n.
Proof.
  unfold tmp_of, tmp_suffix. intros H. apply (f_equal (@length N)) in H.
  rewrite app_length in H. simpl in H. lia.
Qed.

(** effect of a complete atomic Set on every file name *)
Lemma set_atomic_get d n v m :
  fs_get (apply_ops d (set_ops true n v)) m =
  if eqb_list n m then Some v else if eqb_list (tmp_of n) m then None else fs_get d m.
Proof.
  unfold set_ops, apply_ops. cbn [fold_left apply_op].
  rewrite fs_get_put_same. rewrite ?overwrite_nil.
  rewrite fs_get_put_same.
  pose proof (tmp_of_neq n) as Hne.
  destruct (eqb_list n m) eqn:E1.
  - apply eqb_list_spec in E1. subst m. apply fs_get_put_same.
  - apply eqb_list_false in E1. rewrite fs_get_put_other by exact E1.
    destruct (eqb_list (tmp_of n) m) eqn:E2.
    + apply eqb_list_spec in E2. subst m. apply fs_get_del_same.
    + apply eqb_list_false in E2. rewrite fs_get_del_other by exact E2.
      rewrite fs_get_put_other by exact E2. rewrite fs_get_put_other by exact E2. reflexivity.
Qed.

(** every crash point of one atomic Set *)
Lemma set_atomic_crash d n v i m :
  let d' := apply_ops d (firstn i (set_ops true n v)) in
  (eqb_list n m = true -> fs_get d' m = fs_get d m \/ fs_get d' m = Some v) /\
  (eqb_list n m = false -> eqb_list (tmp_of n) m = false -> fs_get d' m = fs_get d m).
Proof.
  cbn zeta. pose proof (tmp_of_neq n) as Hne.
  assert (Hne' : tmp_of n <> n) by congruence.
  split.
  - intros E. apply eqb_list_spec in E. subst m.
    destruct i as [|[|[|[|[|i]]]]]; unfold set_ops, apply_ops; cbn [firstn fold_left apply_op].
    + left; reflexivity.
    + left. apply fs_get_put_other. exact Hne'.
    + left. rewrite fs_get_put_same. rewrite fs_get_put_other by exact Hne'. apply fs_get_put_other. exact Hne'.
    + left. rewrite fs_get_put_same. rewrite fs_get_put_other by exact Hne'. apply fs_get_put_other. exact Hne'.
    + left. rewrite fs_get_put_same. rewrite fs_get_put_other by exact Hne'. apply fs_get_put_other. exact Hne'.
    + right. rewrite firstn_nil. cbn [fold_left].
      rewrite fs_get_put_same. rewrite ?overwrite_nil. rewrite fs_get_put_same. apply fs_get_put_same.
  - intros E1 E2. apply eqb_list_false in E1. apply eqb_list_false in E2.
    destruct i as [|[|[|[|[|i]]]]]; unfold set_ops, apply_ops; cbn [firstn fold_left apply_op];
      rewrite ?firstn_nil; cbn [fold_left];
      rewrite ?fs_get_put_same; rewrite ?overwrite_nil; rewrite ?fs_get_put_same;
      repeat first [rewrite fs_get_put_other by assumption | rewrite fs_get_del_other by assumption]; reflexivity.
Qed.

(** a left-over temp file is overwritten by the next Set of that key *)
Lemma set_atomic_after_leftover d n v m :
  eqb_list n m = true -> fs_get (apply_ops d (set_ops true n v)) m = Some v.
Proof. intros E. rewrite set_atomic_get. rewrite E. reflexivity. Qed.

(** ------------ refinement to the abstract map ------------ *)
Definition key_of (o : sop) : option bytes :=
  match o with SSet k _ => Some k | SDelete k => Some k | SReopen => None end.
Definition key_ok (o : sop) : Prop :=
  match key_of o with Some k => is_tmp (sanitize k) = false | None => True end.

Definition no_tmp_files (d : dir) : Prop := forall n, is_tmp n = true -> fs_get d n = None.

Lemma is_tmp_tmp_of n : is_tmp (tmp_of n) = true.
Proof.
  unfold is_tmp, has_suffix, tmp_of. rewrite rev_app_distr. 
  unfold tmp_suffix. cbn [rev app]. cbn [has_suffix_rev]. rewrite !N.eqb_refl. reflexivity.
Qed.

Lemma st_step_get d o m : key_ok o -> no_tmp_files d ->
  fs_get (st_step true d o) m =
  match o with
  | SSet k v => if eqb_list (sanitize k) m then Some v else fs_get d m
  | SDelete k => if eqb_list (sanitize k) m then None else fs_get d m
  | SReopen => fs_get d m
  end.
Proof.
  intros Hk Hd. destruct o as [k v|k|]; cbn [st_step].
  - unfold st_set. rewrite set_atomic_get.
    destruct (eqb_list (sanitize k) m); [reflexivity|].
    destruct (eqb_list (tmp_of (sanitize k)) m) eqn:E; [|reflexivity].
    apply eqb_list_spec in E. subst m. symmetry. apply Hd. apply is_tmp_tmp_of.
  - unfold st_delete. cbn [apply_op].
    destruct (eqb_list (sanitize k) m) eqn:E.
    + apply eqb_list_spec in E. subst m. apply fs_get_del_same.
    + apply eqb_list_false in E. apply fs_get_del_other. exact E.
  - reflexivity.
Qed.

Lemma st_step_no_tmp d o : key_ok o -> no_tmp_files d -> no_tmp_files (st_step true d o).
Proof.
  intros Hk Hd n Hn. rewrite st_step_get by assumption.
  destruct o as [k v|k|]; cbn [key_ok key_of] in Hk.
  - destruct (eqb_list (sanitize k) n) eqn:E; [|apply Hd; exact Hn].
    apply eqb_list_spec in E. subst n. congruence.
  - destruct (eqb_list (sanitize k) n); [reflexivity|apply Hd; exact Hn].
  - apply Hd; exact Hn.
Qed.

Lemma st_run_snoc atomic h o : st_run atomic (h ++ [o]) = st_step atomic (st_run atomic h) o.
Proof. unfold st_run. rewrite fold_left_app. reflexivity. Qed.

Lemma st_run_no_tmp h : Forall key_ok h -> no_tmp_files (st_run true h).
Proof.
  induction h as [|o h IH] using rev_ind; intros Hh.
  - intros n _. reflexivity.
  - apply Forall_app in Hh. destruct Hh as [Hh Ho]. inversion Ho; subst.
    rewrite st_run_snoc. apply st_step_no_tmp; auto.
Qed.

Lemma storage_refines_map h : Forall key_ok h ->
  forall n, fs_get (st_run true h) n = spec_lookup h n.
Proof.
  induction h as [|o h IH] using rev_ind; intros Hh n.
  - reflexivity.
  - apply Forall_app in Hh. destruct Hh as [Hh Ho]. inversion Ho as [|? ? Hko _]; subst.
    rewrite st_run_snoc. rewrite st_step_get by (auto using st_run_no_tmp).
    unfold spec_lookup. rewrite rev_app_distr. cbn [rev app spec_lookup_rev].
    fold (spec_lookup h n). rewrite <- (IH Hh n).
    destruct o; reflexivity.
Qed.

(** listing = exactly the live entries with the suffix, each once *)
Definition names_unique (d : dir) : Prop := NoDup (map fst d).

Lemma fs_del_names d n m : In m (map fst (fs_del d n)) -> In m (map fst d) /\ m <> n.
Proof.
  induction d as [|[k v] d IH]; [intros []|]. simpl.
  destruct (eqb_list k n) eqn:E.
  - intros H. apply IH in H. tauto.
  - simpl. intros [->|H]; [split; [auto|apply eqb_list_false; exact E]|apply IH in H; tauto].
Qed.
Lemma fs_del_unique d n : names_unique d -> names_unique (fs_del d n).
Proof.
  unfold names_unique. induction d as [|[k v] d IH]; [auto|]. simpl. intros H. inversion H; subst.
  destruct (eqb_list k n); [auto|]. simpl. constructor; [|auto].
  intros Hin. apply fs_del_names in Hin. tauto.
Qed.
Lemma fs_put_unique d n v : names_unique d -> names_unique (fs_put d n v).
Proof.
  intros H. unfold fs_put, names_unique. simpl. constructor; [|apply fs_del_unique; exact H].
  intros Hin. apply fs_del_names in Hin. tauto.
Qed.
Lemma apply_op_unique d o : names_unique d -> names_unique (apply_op d o).
Proof.
  intros H. destruct o; cbn [apply_op]; auto using fs_put_unique, fs_del_unique.
  - destruct (fs_get d n); auto using fs_put_unique.
  - destruct (fs_get d n); auto using fs_put_unique.
  - destruct (fs_get d a); auto using fs_put_unique, fs_del_unique.
Qed.
Lemma apply_ops_unique os : forall d, names_unique d -> names_unique (apply_ops d os).
Proof. induction os as [|o os IH]; intros d H; [exact H|]. apply IH. apply apply_op_unique. exact H. Qed.
Lemma st_run_unique atomic h : names_unique (st_run atomic h).
Proof.
  induction h as [|o h IH] using rev_ind; [constructor|].
  rewrite st_run_snoc. destruct o; cbn [st_step]; auto.
  - apply apply_ops_unique. exact IH.
  - apply apply_op_unique. exact IH.
Qed.

Lemma fs_get_in d n v : names_unique d -> (fs_get d n = Some v <-> In (n, v) d).
Proof.
  unfold names_unique. induction d as [|[k w] d IH]; simpl; intros Hu.
  - split; [discriminate|tauto].
  - inversion Hu as [|? ? Hnotin Hu']; subst. destruct (eqb_list k n) eqn:E.
    + apply eqb_list_spec in E. subst k. split.
      * intros H. injection H as ->. left. reflexivity.
      * intros [H|H]; [congruence|]. exfalso. apply Hnotin. apply (in_map fst) in H. exact H.
    + apply eqb_list_false in E. rewrite IH by exact Hu'. split; [tauto|].
      intros [H|H]; [congruence|exact H].
Qed.

Lemma st_keys_spec d sfx n : names_unique d ->
  (In n (st_keys d sfx) <-> (exists v, fs_get d n = Some v) /\ has_suffix sfx n = true).
Proof.
  intros Hu. unfold st_keys. rewrite in_map_iff. split.
  - intros [[k v] [Hk Hin]]. simpl in Hk. subst k. apply filter_In in Hin. destruct Hin as [Hin Hs].
    split; [exists v; apply fs_get_in; auto|exact Hs].
  - intros [[v Hv] Hs]. exists (n, v). split; [reflexivity|]. apply filter_In. split; [apply fs_get_in; auto|exact Hs].
Qed.

Lemma st_keys_nodup d sfx : names_unique d -> NoDup (st_keys d sfx).
Proof.
  unfold st_keys, names_unique. induction d as [|[k v] d IH]; simpl; intros H; [constructor|].
  inversion H; subst. destruct (has_suffix sfx k); simpl; [|auto].
  constructor; [|auto]. intros Hin. apply in_map_iff in Hin. destruct Hin as [[k' v'] [E Hin]].
  simpl in E. subst k'. apply filter_In in Hin. destruct Hin as [Hin _]. apply (in_map fst) in Hin. auto.
Qed.

Lemma listing_refines_map h sfx : Forall key_ok h ->
  NoDup (st_keys (st_run true h) sfx) /\
  forall n, In n (st_keys (st_run true h) sfx) <->
            (exists v, spec_lookup h n = Some v) /\ has_suffix sfx n = true.
Proof.
  intros Hh. split; [apply st_keys_nodup, st_run_unique|].
  intros n. rewrite st_keys_spec by apply st_run_unique.
  rewrite storage_refines_map by exact Hh. reflexivity.
Qed.

(** ------------ pinned (pre-repair) behaviour: refuted ------------ *)
Lemma pinned_overwrite_mixture :
  st_get (st_run false [SSet [107] [108;111;110;103;118;97;108;117;101]; SSet [107] [97;98]]) [107]
  = Some [97;98;110;103;118;97;108;117;101].
Proof. vm_compute. reflexivity. Qed.

Lemma pinned_crash_empty :
  fs_get (apply_ops [] (firstn 1 (set_ops false [107] [97;98]))) [107] = Some [].
Proof. vm_compute. reflexivity. Qed.

(** ------------ database key derivation ------------ *)
Lemma hexdigit_not_colon x : x < 16 -> hexdigit x <> 58.
Proof. unfold hexdigit. intros H. destruct (x <? 10) eqn:E; lia. Qed.

Lemma filter_id_forall {A} (f : A -> bool) l : Forall (fun x => f x = true) l -> filter f l = l.
Proof. induction 1; simpl; [reflexivity|]. rewrite H. congruence. Qed.

Lemma hex_of_no_colon name : wf_bytes name -> Forall (fun b => negb (b =? 58) = true) (hex_of name).
Proof.
  induction 1 as [|b name Hb _ IH]; [constructor|]. cbn [hex_of flat_map app].
  unfold wf_byte in Hb.
  constructor; [|constructor; [|exact IH]].
  - apply negb_true_iff, N.eqb_neq, hexdigit_not_colon. apply N.div_lt_upper_bound; lia.
  - apply negb_true_iff, N.eqb_neq, hexdigit_not_colon. apply N.mod_lt. lia.
Qed.

Lemma entity_key_sanitize name : wf_bytes name -> sanitize (entity_key name) = entity_key name.
Proof.
  intros H. unfold sanitize, entity_key. apply filter_id_forall. apply Forall_app. split.
  - apply hex_of_no_colon. exact H.
  - unfold entity_suffix. repeat constructor.
Qed.

Lemma entity_key_suffix name : has_suffix entity_suffix (entity_key name) = true.
Proof.
  unfold has_suffix, entity_key. rewrite rev_app_distr. unfold entity_suffix. cbn [rev app has_suffix_rev].
  rewrite !N.eqb_refl. reflexivity.
Qed.

Lemma entity_key_not_tmp name : is_tmp (entity_key name) = false.
Proof.
  unfold is_tmp, has_suffix, entity_key. rewrite rev_app_distr. unfold entity_suffix, tmp_suffix.
  cbn [rev app has_suffix_rev]. reflexivity.
Qed.

Lemma hexdigit_inj x y : x < 16 -> y < 16 -> hexdigit x = hexdigit y -> x = y.
Proof. unfold hexdigit. intros Hx Hy. destruct (x <? 10) eqn:E1, (y <? 10) eqn:E2; lia. Qed.

Lemma hex_of_inj a : wf_bytes a -> forall b, wf_bytes b -> hex_of a = hex_of b -> a = b.
Proof.
  induction 1 as [|x a Hx _ IH]; intros b Hb E.
  - destruct b; [reflexivity|discriminate].
  - destruct Hb as [|y b Hy Hb]; [discriminate|]. cbn [hex_of flat_map app] in E.
    injection E as E1 E2 E3. unfold wf_byte in *.
    apply hexdigit_inj in E1; [|apply N.div_lt_upper_bound; lia|apply N.div_lt_upper_bound; lia].
    apply hexdigit_inj in E2; [|apply N.mod_lt; lia|apply N.mod_lt; lia].
    f_equal; [|apply IH; auto].
    pose proof (N.div_mod x 16). pose proof (N.div_mod y 16). lia.
Qed.

Lemma entity_key_inj a b : wf_bytes a -> wf_bytes b -> entity_key a = entity_key b -> a = b.
Proof.
  intros Ha Hb E. unfold entity_key in E. apply app_inv_tail in E. apply hex_of_inj; auto.
Qed.

(** several Sets in a row (config save = three, one after the other): crash anywhere *)

Lemma apply_ops_app d a b : apply_ops d (a ++ b) = apply_ops (apply_ops d a) b.
Proof. unfold apply_ops. apply fold_left_app. Qed.

Lemma set_ops_length n v : length (set_ops true n v) = 5%nat.
Proof. reflexivity. Qed.

Lemma multi_crash sets : forall d i m,
  is_tmp m = false ->
  let d' := apply_ops d (firstn i (multi_ops sets)) in
  fs_get d' m = fs_get d m \/
  exists k v, In (k, v) sets /\ sanitize k = m /\ fs_get d' m = Some v.
Proof.
  induction sets as [|[k v] sets IH]; intros d i m Hm; cbn zeta.
  - simpl. rewrite firstn_nil. left. reflexivity.
  - cbn [multi_ops flat_map fst snd]. fold (multi_ops sets).
    rewrite firstn_app, apply_ops_app. rewrite set_ops_length.
    destruct (Nat.le_gt_cases 5 i) as [Hi|Hi].
    + (* first set complete *)
      rewrite firstn_all2 by (rewrite set_ops_length; exact Hi).
      specialize (IH (apply_ops d (set_ops true (sanitize k) v)) (i - 5)%nat m Hm). cbn zeta in IH.
      destruct IH as [IH|(k' & v' & Hin & Hs & Hg)].
      * destruct (eqb_list (sanitize k) m) eqn:E.
        -- right. exists k, v. split; [left; reflexivity|]. split; [apply eqb_list_spec; exact E|].
           rewrite IH, set_atomic_get, E. reflexivity.
        -- destruct (eqb_list (tmp_of (sanitize k)) m) eqn:E2.
           ++ apply eqb_list_spec in E2. subst m. rewrite is_tmp_tmp_of in Hm. discriminate.
           ++ left. rewrite IH, set_atomic_get, E, E2. reflexivity.
      * right. exists k', v'. split; [right; exact Hin|]. split; [exact Hs|exact Hg].
    + replace (i - 5)%nat with 0%nat by lia. cbn [firstn]. unfold apply_ops at 1. cbn [fold_left].
      destruct (set_atomic_crash d (sanitize k) v i m) as [H1 H2].
      destruct (eqb_list (sanitize k) m) eqn:E.
      * destruct (H1 eq_refl) as [H|H]; [left; exact H|].
        right. exists k, v. apply eqb_list_spec in E. split; [left; reflexivity|]. split; [exact E|exact H].
      * destruct (eqb_list (tmp_of (sanitize k)) m) eqn:E2.
        -- apply eqb_list_spec in E2. subst m. rewrite is_tmp_tmp_of in Hm. discriminate.
        -- left. apply H2; reflexivity.
Qed.

(** ------------ the pairing database as a map over entity names ------------ *)
Lemma dop_key_ok o : dop_wf o -> key_ok (dop_to_sop o).
Proof.
  destruct o as [n c|n|]; cbn; intros H; auto;
  rewrite entity_key_sanitize by exact H; apply entity_key_not_tmp.
Qed.

Lemma db_spec_storage rh name : Forall dop_wf rh -> wf_bytes name ->
  spec_lookup_rev (map dop_to_sop rh) (entity_key name) = db_spec_rev rh name.
Proof.
  intros Hh Hn. induction Hh as [|o rh Ho _ IH]; [reflexivity|].
  destruct o as [n c|n|]; cbn [map dop_to_sop spec_lookup_rev db_spec_rev dop_wf] in *; try exact IH.
  - rewrite entity_key_sanitize by exact Ho.
    destruct (eqb_list n name) eqn:E.
    + apply eqb_list_spec in E. subst n. rewrite eqb_list_refl. reflexivity.
    + rewrite eqb_list_neq; [exact IH|]. intros E'. apply entity_key_inj in E'; auto.
      subst n. rewrite eqb_list_refl in E. discriminate.
  - rewrite entity_key_sanitize by exact Ho.
    destruct (eqb_list n name) eqn:E.
    + apply eqb_list_spec in E. subst n. rewrite eqb_list_refl. reflexivity.
    + rewrite eqb_list_neq; [exact IH|]. intros E'. apply entity_key_inj in E'; auto.
      subst n. rewrite eqb_list_refl in E. discriminate.
Qed.

Lemma database_refines_map h name : Forall dop_wf h -> wf_bytes name ->
  db_load (db_run true h) name = db_spec h name.
Proof.
  intros Hh Hn. unfold db_load, db_run, st_get. rewrite entity_key_sanitize by exact Hn.
  rewrite storage_refines_map.
  - unfold spec_lookup, db_spec. rewrite <- map_rev. apply db_spec_storage; [|exact Hn].
    apply Forall_rev. exact Hh.
  - apply Forall_map. eapply Forall_impl; [|exact Hh]. intros o. apply dop_key_ok.
Qed.

Lemma database_listing h : Forall dop_wf h ->
  NoDup (db_list (db_run true h)) /\
  forall name, wf_bytes name ->
    (In (entity_key name) (db_list (db_run true h)) <-> exists c, db_spec h name = Some c).
Proof.
  intros Hh.
  assert (Hk : Forall key_ok (map dop_to_sop h)).
  { apply Forall_map. eapply Forall_impl; [|exact Hh]. intros o. apply dop_key_ok. }
  destruct (listing_refines_map (map dop_to_sop h) entity_suffix Hk) as [Hnd Hiff].
  split; [exact Hnd|]. intros name Hn. unfold db_list, db_run. rewrite Hiff.
  rewrite entity_key_suffix.
  unfold spec_lookup, db_spec. rewrite <- map_rev. rewrite db_spec_storage by (auto using Forall_rev).
  tauto.
Qed.

Lemma storage_nonvacuous :
  let h := [SSet [107;58] [1;2;3;4;5]; SSet [97] [9]; SSet [107] [7]; SDelete [97]; SReopen; SSet [98;58;58] []] in
  Forall key_ok h /\ st_get (st_run true h) [107] = Some [7] /\ st_get (st_run true h) [97] = None /\
  st_keys (st_run true h) [] = [[98]; [107]].
Proof. cbn zeta. split; [repeat constructor|]. vm_compute. auto. Qed.

Lemma storage_key_view h k : Forall key_ok h -> st_get (st_run true h) k = spec_lookup h (sanitize k).
Proof. intros H. apply storage_refines_map. exact H. Qed.

Lemma leftover_harmless : forall d n v m name,
  (eqb_list n m = true -> fs_get (apply_ops d (set_ops true n v)) m = Some v) /\
  is_tmp (entity_key name) = false /\ is_tmp (tmp_of n) = true.
Proof.
  intros. split; [apply set_atomic_after_leftover|]. split; [apply entity_key_not_tmp|apply is_tmp_tmp_of].
Qed.

(** ------------ sets (also of names at the file system's limit) and deletes, crash anywhere ------------ *)
Definition effect (o : wop) (m : fname) (r : option bytes) : Prop :=
  match o with
  | WSet k v => sanitize k = m /\ r = Some v
  | WDelete k => sanitize k = m /\ r = None
  end.

Lemma wop_crash d o i m : is_tmp m = false ->
  let d' := apply_ops d (firstn i (wop_ops o)) in
  fs_get d' m = fs_get d m \/ effect o m (fs_get d' m).
Proof.
  intros Hm. destruct o as [k v|k]; cbn [wop_ops effect]; cbn zeta.
  - unfold set_ops_os. destruct (fits (sanitize k)).
    + destruct (set_atomic_crash d (sanitize k) v i m) as [H1 H2].
      destruct (eqb_list (sanitize k) m) eqn:E.
      * destruct (H1 eq_refl) as [H|H]; [left; exact H|right]. apply eqb_list_spec in E. split; assumption.
      * destruct (eqb_list (tmp_of (sanitize k)) m) eqn:E2.
        -- apply eqb_list_spec in E2. subst m. rewrite is_tmp_tmp_of in Hm. discriminate.
        -- left. apply H2; reflexivity.
    + rewrite firstn_nil. left. reflexivity.
  - destruct i as [|i]; cbn [firstn]; rewrite ?firstn_nil; unfold apply_ops; cbn [fold_left apply_op].
    + left. reflexivity.
    + destruct (eqb_list (sanitize k) m) eqn:E.
      * apply eqb_list_spec in E. subst m. right. split; [reflexivity|apply fs_get_del_same].
      * left. apply fs_get_del_other. intros X. subst m. rewrite eqb_list_refl in E. discriminate.
Qed.

Lemma wop_complete d o m : is_tmp m = false ->
  let d' := apply_ops d (wop_ops o) in
  fs_get d' m = fs_get d m \/ effect o m (fs_get d' m).
Proof.
  intros Hm. pose proof (wop_crash d o (length (wop_ops o)) m Hm) as H. rewrite firstn_all in H. exact H.
Qed.

Lemma writes_crash ws : forall d i m,
  is_tmp m = false ->
  let d' := apply_ops d (firstn i (writes_ops ws)) in
  fs_get d' m = fs_get d m \/ exists o, In o ws /\ effect o m (fs_get d' m).
Proof.
  induction ws as [|o ws IH]; intros d i m Hm; cbn zeta.
  - simpl. rewrite firstn_nil. left. reflexivity.
  - cbn [writes_ops flat_map]. fold (writes_ops ws).
    rewrite firstn_app, apply_ops_app.
    destruct (Nat.le_gt_cases (length (wop_ops o)) i) as [Hi|Hi].
    + rewrite firstn_all2 by exact Hi.
      specialize (IH (apply_ops d (wop_ops o)) (i - length (wop_ops o))%nat m Hm). cbn zeta in IH.
      destruct IH as [IH|(o' & Hin & He)].
      * rewrite IH. destruct (wop_complete d o m Hm) as [H|H]; [left; exact H|].
        right. exists o. split; [left; reflexivity|exact H].
      * right. exists o'. split; [right; exact Hin|exact He].
    + replace (i - length (wop_ops o))%nat with 0%nat by lia. cbn [firstn]. unfold apply_ops at 1. cbn [fold_left].
      destruct (wop_crash d o i m Hm) as [H|H]; [left; exact H|].
      right. exists o. split; [left; reflexivity|exact H].
Qed.

(** a name at the limit: nothing at all is written *)
Lemma too_long_writes_nothing n v d i : fits n = false -> apply_ops d (firstn i (set_ops_os n v)) = d.
Proof. intros H. unfold set_ops_os. rewrite H, firstn_nil. reflexivity. Qed.

(** ------------ two Sets of one key ------------ *)
(** one after the other (the writes are serialised by a mutex, repair ea831b1): the key holds the
    second value in full *)
Lemma sets_one_after_the_other d n v1 v2 :
  fs_get (apply_ops d (set_ops true n v1 ++ set_ops true n v2)) n = Some v2.
Proof. rewrite apply_ops_app. apply set_atomic_after_leftover. apply eqb_list_refl. Qed.

(** overlapping (both go through the one temp file): there is an interleaving after which the key
    holds neither value — the short one followed by the tail of the long one *)
Lemma overlapping_sets_refuted :
  let k := [107] in let long := [1; 2; 3; 4; 5; 6] in let short := [9] in
  exists l, merge l (set_ops true k long) (set_ops true k short) /\
            fs_get (apply_ops [] l) k = Some [9; 2; 3; 4; 5; 6].
Proof.
  cbn zeta.
  exists [OpenCreateTrunc (tmp_of [107]); OpenCreateTrunc (tmp_of [107]); WriteAt0 (tmp_of [107]) [1; 2; 3; 4; 5; 6];
          WriteAt0 (tmp_of [107]) [9]; Sync (tmp_of [107]); Close (tmp_of [107]); Rename (tmp_of [107]) [107];
          Sync (tmp_of [107]); Close (tmp_of [107]); Rename (tmp_of [107]) [107]].
  split; [|vm_compute; reflexivity].
  unfold set_ops.
  apply merge_l, merge_r, merge_l, merge_r, merge_l, merge_l, merge_l, merge_r, merge_r, merge_r, merge_nil.
Qed.
