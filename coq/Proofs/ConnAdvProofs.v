(** C05 at the level of the connection: whatever bytes arrive on the socket, in whatever
    segmentation, and however long the caller keeps reading, hap.Connection.Read delivers a
    frame-prefix of what the receive loop [recv] accepts from that byte stream — and [recv] accepts
    only what the peer sealed, or a forgery (FramingProofs.recv_sound). *)
From HC Require Import Base.HBytes Base.HBytesProofs Base.ChaChaPoly Base.ChaChaPolyProofs Model.Framing Model.ConnRead
  Proofs.FramingProofs Proofs.ConnReadProofs.
From Coq Require Import ZifyBool ZifyNat ZifyN.

Local Arguments N.mul : simpl never.
Local Arguments N.add : simpl never.
Local Arguments N.to_nat : simpl never.

Section Adv.
  Variable open : bytes -> bytes -> bytes -> bytes -> bytes -> option bytes.
  Variable key : bytes.

  (** a complete frame, taken apart *)
  Lemma frame_parts fr : frame_need fr = Some (length fr) ->
    exists l0 l1 body, fr = l0 :: l1 :: body /\ length body = (N.to_nat (l0 + 256 * l1) + 16)%nat.
  Proof.
    destruct fr as [|l0 [|l1 body]]; try discriminate. unfold frame_need. intros H. injection H as H.
    exists l0, l1, body. split; [reflexivity|]. cbn [length] in H. lia.
  Qed.

  Lemma decrypt_single fr l0 l1 body ctr : fr = l0 :: l1 :: body ->
    length body = (N.to_nat (l0 + 256 * l1) + 16)%nat ->
    decrypt open key ctr fr =
    match open key (nonce_of ctr) [l0; l1] (firstn (N.to_nat (l0 + 256 * l1)) body) (skipn (N.to_nat (l0 + 256 * l1)) body) with
    | None => DErr 2 ((ctr + 1) mod m64n)
    | Some pt => DOk pt ((ctr + 1) mod m64n) []
    end.
  Proof.
    intros -> Hb. unfold decrypt. set (len := N.to_nat (l0 + 256 * l1)) in *.
    change (decrypt_fuel open (S (length (l0 :: l1 :: body))) key ctr (l0 :: l1 :: body) []) with
      (if (length body <? len + 16)%nat then DErr 1 ctr
       else match open key (nonce_of ctr) [l0; l1] (firstn len body) (firstn 16 (skipn len body)) with
            | None => DErr 2 ((ctr + 1) mod m64n)
            | Some pt => if (len <? frame_max)%nat then DOk ([] ++ pt) ((ctr + 1) mod m64n) (skipn (len + 16) body)
                         else decrypt_fuel open (length (l0 :: l1 :: body)) key ((ctr + 1) mod m64n) (skipn (len + 16) body) ([] ++ pt)
            end).
    assert (E1 : (length body <? len + 16)%nat = false) by (apply Nat.ltb_ge; lia). rewrite E1.
    assert (E2 : firstn 16 (skipn len body) = skipn len body) by (apply firstn_all2; rewrite skipn_length; lia). rewrite E2.
    assert (E3 : skipn (len + 16) body = []) by (apply skipn_all2; lia). rewrite E3.
    destruct (open key (nonce_of ctr) [l0; l1] (firstn len body) (skipn len body)) as [pt|]; [|reflexivity].
    cbn [app]. destruct (len <? frame_max)%nat; reflexivity.
  Qed.

  Lemma recv_front fr l0 l1 body ctr rest : fr = l0 :: l1 :: body ->
    length body = (N.to_nat (l0 + 256 * l1) + 16)%nat ->
    recv open key ctr (fr ++ rest) =
    match open key (nonce_of ctr) [l0; l1] (firstn (N.to_nat (l0 + 256 * l1)) body) (skipn (N.to_nat (l0 + 256 * l1)) body) with
    | None => ([], RError 2)
    | Some pt => let '(more, s) := recv open key ((ctr + 1) mod m64n) rest in
                 (mkAcc ctr [l0; l1] (firstn (N.to_nat (l0 + 256 * l1)) body) (skipn (N.to_nat (l0 + 256 * l1)) body) pt :: more, s)
    end.
  Proof.
    intros -> Hb. unfold recv. set (len := N.to_nat (l0 + 256 * l1)) in *.
    change ((l0 :: l1 :: body) ++ rest) with (l0 :: l1 :: (body ++ rest)).
    change (recv_fuel open (S (length (l0 :: l1 :: body ++ rest))) key ctr (l0 :: l1 :: body ++ rest)) with
      (if (length (body ++ rest) <? len + 16)%nat then ([], RError 1)
       else match open key (nonce_of ctr) [l0; l1] (firstn len (body ++ rest)) (firstn 16 (skipn len (body ++ rest))) with
            | None => ([], RError 2)
            | Some pt => let '(more, st) := recv_fuel open (length (l0 :: l1 :: body ++ rest)) key ((ctr + 1) mod m64n) (skipn (len + 16) (body ++ rest)) in
                         (mkAcc ctr [l0; l1] (firstn len (body ++ rest)) (firstn 16 (skipn len (body ++ rest))) pt :: more, st)
            end).
    assert (E1 : (length (body ++ rest) <? len + 16)%nat = false) by (apply Nat.ltb_ge; rewrite app_length; lia). rewrite E1.
    assert (E2 : firstn len (body ++ rest) = firstn len body) by (rewrite firstn_app; replace (len - length body)%nat with 0%nat by lia; rewrite firstn_O, app_nil_r; reflexivity).
    assert (E3 : firstn 16 (skipn len (body ++ rest)) = skipn len body).
    { rewrite skipn_app. replace (len - length body)%nat with 0%nat by lia. rewrite skipn_O.
      rewrite firstn_app. rewrite skipn_length. replace (16 - (length body - len))%nat with 0%nat by lia.
      rewrite firstn_O, app_nil_r. apply firstn_all2. rewrite skipn_length. lia. }
    assert (E4 : skipn (len + 16) (body ++ rest) = rest).
    { rewrite skipn_app. rewrite skipn_all2 by lia. replace (len + 16 - length body)%nat with 0%nat by lia. reflexivity. }
    rewrite E2, E3, E4.
    destruct (open key (nonce_of ctr) [l0; l1] (firstn len body) (skipn len body)) as [pt|]; [|reflexivity].
    rewrite (recv_fuel_more open key _ (S (length rest)) ((ctr + 1) mod m64n) rest); [reflexivity| |lia].
    cbn [length]. rewrite app_length. lia.
  Qed.

  Definition stream (st : cstate) (evs : list sockev) : bytes := received st ++ datas evs.
  Definition ameasure (st : cstate) (evs : list sockev) : nat :=
    (length (stream st evs) + match plain st with Some _ => 1 | None => 0 end + 1)%nat.

  (** a connection on which nothing will be delivered any more *)
  Definition dead (st : cstate) : Prop := closed st = true /\ plain st = None /\ complete (received st) = false.

  Lemma dead_read st bsize evs f : dead st -> conn_read true open key (S f) st bsize evs = (RErr 3, st, evs).
  Proof.
    intros (Hc & Hp & Hcomp). cbn [conn_read]. rewrite Hp, Hc. cbv iota zeta.
    cbn [read_frame]. fold (complete (received st)). rewrite Hcomp. reflexivity.
  Qed.

  Lemma read_frame_incomplete : forall fuel rcv evs r rcv' evs',
    read_frame fuel rcv evs = (r, rcv', evs') -> (r = FTimeout \/ r = FEOF) -> complete rcv' = false.
  Proof.
    induction fuel as [|f IH]; intros rcv evs r rcv' evs' H Hr; cbn [read_frame] in H.
    - injection H as <- _ _. destruct Hr; discriminate.
    - fold (complete rcv) in H. destruct (complete rcv) eqn:Ec.
      + unfold complete in Ec. destruct (frame_need rcv); [|discriminate]. injection H as <- _ _. destruct Hr; discriminate.
      + destruct evs as [|[bs| |] evs0].
        * injection H as <- _ _. destruct Hr; discriminate.
        * destruct (length bs <=? sock_buf)%nat; eapply IH; eauto.
        * injection H as _ <- _. exact Ec.
        * injection H as _ <- _. exact Ec.
  Qed.

  (** one Read on a live connection: what it returns, plus what stays decrypted in the buffer, is
      what was buffered plus the plaintexts of the next j frames [recv] accepts from the stream;
      afterwards the connection is either live on the rest of the stream or dead *)
  Lemma conn_read_adv : forall fuel st bsize evs accs s,
    closed st = false -> (0 < bsize)%nat ->
    recv open key (rctr st) (stream st evs) = (accs, s) ->
    (ameasure st evs < fuel)%nat ->
    let '(r, st', evs') := conn_read true open key fuel st bsize evs in
    exists j, (j <= length accs)%nat /\
      out_of r ++ plain_of st' = plain_of st ++ concat (map a_pt (firstn j accs)) /\
      (closed st' = false -> recv open key (rctr st') (stream st' evs') = (skipn j accs, s)) /\
      (closed st' = true -> dead st').
  Proof.
    induction fuel as [|f IH]; intros st bsize evs accs s Hcl Hb Hrecv Hm; [lia|].
    cbn [conn_read]. destruct (plain st) as [p|] eqn:Ep.
    - (* serve from the decrypted buffer *)
      destruct bsize as [|b]; [lia|]. destruct p as [|x p'].
      + cbn [firstn length Nat.ltb Nat.leb Nat.eqb orb andb negb skipn].
        set (st1 := mkC (received st) None (rctr st) (closed st)).
        assert (Hm1 : (ameasure st1 evs < f)%nat) by (unfold ameasure, stream in *; rewrite Ep in Hm; cbn [plain st1 received]; lia).
        specialize (IH st1 (S b) evs accs s Hcl Hb Hrecv Hm1).
        destruct (conn_read true open key f st1 (S b) evs) as [[r st'] evs'].
        unfold plain_of in *. rewrite Ep. cbn [plain st1] in IH. exact IH.
      + cbn [firstn]. cbv iota. exists 0%nat. cbn [firstn map concat skipn out_of closed].
        split; [lia|]. split; [|split; [intros _; exact Hrecv|intros H; congruence]].
        rewrite app_nil_r. unfold plain_of. rewrite Ep. cbn [plain].
        set (dropb := ((length (x :: firstn b p') <? S b)%nat || ((length (x :: p') =? 0)%nat && negb (S b =? 0)%nat))%bool).
        destruct dropb eqn:Ed; cbn [app]; f_equal.
        * unfold dropb in Ed. cbn [length Nat.eqb andb] in Ed. rewrite orb_false_r in Ed.
          apply Nat.ltb_lt in Ed. cbn [length] in Ed. rewrite firstn_length in Ed.
          rewrite firstn_all2 by lia. rewrite app_nil_r. reflexivity.
        * rewrite firstn_skipn. reflexivity.
    - (* fetch the next frame *)
      rewrite Hcl. cbv iota zeta.
      pose proof (read_frame_conserves (S (evs_size evs)) (received st) evs) as Hc.
      destruct (read_frame (S (evs_size evs)) (received st) evs) as [[r rcv2] evs2] eqn:Erf.
      destruct r as [fr rcv1| | |].
      + destruct Hc as (-> & Hc & Hneed).
        destruct (frame_parts fr Hneed) as (l0 & l1 & body & Efr & Hbody).
        unfold stream in Hrecv. rewrite <- Hc in Hrecv. rewrite (recv_front fr l0 l1 body (rctr st) _ Efr Hbody) in Hrecv.
        rewrite (decrypt_single fr l0 l1 body (rctr st) Efr Hbody).
        destruct (open key (nonce_of (rctr st)) [l0; l1] _ _) as [pt|] eqn:Eo.
        * destruct (recv open key ((rctr st + 1) mod m64n) (rcv1 ++ datas evs2)) as [more s2] eqn:Er. injection Hrecv as <- <-.
          set (st1 := mkC rcv1 (Some pt) ((rctr st + 1) mod m64n) false).
          assert (Hlen : (length (stream st1 evs2) + 18 <= length (stream st evs))%nat).
          { unfold stream. cbn [received st1]. rewrite <- Hc, !app_length. subst fr. cbn [length]. lia. }
          assert (Hm1 : (ameasure st1 evs2 < f)%nat) by (unfold ameasure in *; rewrite Ep in Hm; cbn [plain st1]; lia).
          specialize (IH st1 bsize evs2 more s2 eq_refl Hb Er Hm1).
          destruct (conn_read true open key f st1 bsize evs2) as [[r st'] evs'].
          destruct IH as (j & Hj & Hd & Hlive & Hdead).
          exists (S j). cbn [length firstn map concat skipn a_pt]. split; [lia|].
          split; [|split; assumption]. unfold plain_of in *. rewrite Ep. cbn [plain st1 app] in *. rewrite Hd. reflexivity.
        * injection Hrecv as <- <-. exists 0%nat. cbn [length firstn map concat skipn out_of closed plain received].
          split; [lia|]. split; [unfold plain_of; rewrite Ep; reflexivity|]. split; [discriminate|].
          intros _. split; [reflexivity|split; reflexivity].
      + (* read timeout *)
        exists 0%nat. cbn [firstn map concat skipn out_of closed plain received rctr]. split; [lia|].
        split; [unfold plain_of; rewrite Ep; reflexivity|]. split; [|try rewrite Hcl; discriminate].
        intros _. unfold stream in *. cbn [received]. rewrite Hc. exact Hrecv.
      + (* the peer closed *)
        exists 0%nat. cbn [firstn map concat skipn out_of closed plain received rctr]. split; [lia|].
        split; [unfold plain_of; rewrite Ep; reflexivity|]. split; [discriminate|].
        intros _. split; [reflexivity|split; [reflexivity|]]. cbn [received].
        eapply read_frame_incomplete; [exact Erf|right; reflexivity].
      + (* would block *)
        exists 0%nat. cbn [firstn map concat skipn out_of closed plain received rctr]. split; [lia|].
        split; [unfold plain_of; rewrite Ep; reflexivity|]. split; [|try rewrite Hcl; discriminate].
        intros _. unfold stream in *. cbn [received]. rewrite Hc. exact Hrecv.
  Qed.

  Lemma run_reads_dead : forall bsizes st evs, dead st ->
    let '(rs, st', evs') := run_reads true open key st bsizes evs in
    concat (map out_of rs) = [] /\ st' = st.
  Proof.
    induction bsizes as [|b bs IH]; intros st evs Hd; cbn [run_reads]; [split; reflexivity|].
    replace (4 + length (received st) + evs_size evs)%nat with (S (3 + length (received st) + evs_size evs)) by lia.
    rewrite (dead_read st b evs _ Hd). specialize (IH st evs Hd).
    destruct (run_reads true open key st bs evs) as [[rs st2] evs2]. destruct IH as [E1 E2].
    cbn [map concat out_of app]. split; assumption.
  Qed.

  (** any number of reads *)
  Theorem reads_prefix_of_accepted : forall bsizes st evs accs s,
    closed st = false -> Forall (fun b => (0 < b)%nat) bsizes ->
    recv open key (rctr st) (stream st evs) = (accs, s) ->
    let '(rs, st', evs') := run_reads true open key st bsizes evs in
    exists j, (j <= length accs)%nat /\
      concat (map out_of rs) ++ plain_of st' = plain_of st ++ concat (map a_pt (firstn j accs)).
  Proof.
    induction bsizes as [|b bs IH]; intros st evs accs s Hcl Hb Hrecv; cbn [run_reads].
    - exists 0%nat. cbn. rewrite app_nil_r. split; [lia|reflexivity].
    - inversion Hb as [|? ? Hb0 Hbs]; subst.
      assert (Hfuel : (ameasure st evs < 4 + length (received st) + evs_size evs)%nat).
      { unfold ameasure, stream. rewrite app_length. pose proof (evs_size_datas evs). destruct (plain st); lia. }
      pose proof (conn_read_adv _ st b evs accs s Hcl Hb0 Hrecv Hfuel) as H.
      destruct (conn_read true open key (4 + length (received st) + evs_size evs) st b evs) as [[r st1] evs1].
      destruct H as (j & Hj & Hd & Hlive & Hdead).
      assert (Hstop : exists j0, (j0 <= length accs)%nat /\
                concat (map out_of [r]) ++ plain_of st1 = plain_of st ++ concat (map a_pt (firstn j0 accs))).
      { exists j. split; [exact Hj|]. cbn [map concat]. rewrite app_nil_r. exact Hd. }
      assert (Hcont : let '(rs, st'', evs'') := run_reads true open key st1 bs evs1 in
                exists j0, (j0 <= length accs)%nat /\
                concat (map out_of (r :: rs)) ++ plain_of st'' = plain_of st ++ concat (map a_pt (firstn j0 accs))).
      { destruct (closed st1) eqn:Ec1.
        - pose proof (run_reads_dead bs st1 evs1 (Hdead eq_refl)) as Hr.
          destruct (run_reads true open key st1 bs evs1) as [[rs st2] evs2]. destruct Hr as [E1 ->].
          exists j. split; [exact Hj|]. cbn [map concat]. rewrite E1, app_nil_r. exact Hd.
        - specialize (IH st1 evs1 (skipn j accs) s Ec1 Hbs (Hlive eq_refl)).
          destruct (run_reads true open key st1 bs evs1) as [[rs st2] evs2].
          destruct IH as (j2 & Hj2 & Hd2). rewrite skipn_length in Hj2.
          exists (j + j2)%nat. split; [lia|]. cbn [map concat]. rewrite <- app_assoc, Hd2.
          assert (Ef : firstn (j + j2) accs = firstn j accs ++ firstn j2 (skipn j accs)).
          { rewrite <- (firstn_skipn j accs) at 1. rewrite firstn_app, firstn_length, Nat.min_l by exact Hj.
            replace (j + j2 - j)%nat with j2 by lia. rewrite firstn_firstn, Nat.min_r by lia. reflexivity. }
          rewrite Ef, map_app, concat_app.
          rewrite (app_assoc (plain_of st)). rewrite <- Hd. rewrite <- !app_assoc. reflexivity. }
      assert (Hgo : forall r0, r0 = r ->
                let '(rs, st', _) := (let '(rs, st'', evs'') := run_reads true open key st1 bs evs1 in (r0 :: rs, st'', evs'')) in
                exists j0, (j0 <= length accs)%nat /\
                  concat (map out_of rs) ++ plain_of st' = plain_of st ++ concat (map a_pt (firstn j0 accs))).
      { intros r0 ->. destruct (run_reads true open key st1 bs evs1) as [[rs st2] evs2]. exact Hcont. }
      destruct r as [|o| |c|]; cbv iota beta.
      + exact (Hgo _ eq_refl).
      + exact (Hgo _ eq_refl).
      + exact (Hgo _ eq_refl).
      + destruct c as [|[p|p|]]; cbv iota beta; [exact (Hgo _ eq_refl)|exact (Hgo _ eq_refl)|exact (Hgo _ eq_refl)|exact Hstop].
      + exact Hstop.
  Qed.
End Adv.

(** C05 at the connection: for EVERY list of chunks the peer sealed, EVERY schedule of socket
    events (any bytes at all: the peer's frames altered, dropped, duplicated, reordered, replayed,
    foreign or random; any segmentation; timeouts; end of stream) and EVERY sequence of caller
    reads, however long the caller goes on reading after an error: what hap.Connection.Read has
    delivered, together with what it holds decrypted, is the concatenation of the first j chunks the
    peer sent, for some j — unless [open] accepted a frame the peer never sealed (forgery). *)
Section AdvTheorem.
  Variable seal : bytes -> bytes -> bytes -> bytes -> bytes * bytes.
  Variable open : bytes -> bytes -> bytes -> bytes -> bytes -> option bytes.
  Hypothesis open_seal : forall k n a p, open k n a (fst (seal k n a p)) (snd (seal k n a p)) = Some p.

  Theorem conn_prefix_or_forgery key ctr ps bsizes evs :
    Forall (fun b => (0 < b)%nat) bsizes ->
    let sent := sealed_frames seal key ctr ps in
    let '(rs, st', _) := run_reads true open key (init_conn ctr) bsizes evs in
    forgery (fst (recv open key ctr (datas evs))) sent \/
    exists j, (j <= length ps)%nat /\ concat (map out_of rs) ++ plain_of st' = concat (firstn j ps).
  Proof.
    intros Hb. cbn zeta.
    destruct (recv open key ctr (datas evs)) as [accs rst] eqn:Er.
    pose proof (reads_prefix_of_accepted open key bsizes (init_conn ctr) evs accs rst eq_refl Hb Er) as H.
    destruct (run_reads true open key (init_conn ctr) bsizes evs) as [[rs st'] evs'].
    destruct H as (j & Hj & Hd). cbn [fst].
    unfold recv in Er.
    destruct (recv_sound seal open open_seal key _ ctr ps (datas evs) accs rst (Nat.lt_succ_diag_r _) Er)
      as [Hforge|(j' & rest & Hj' & Hmap & _)].
    - left. exact Hforge.
    - right. exists (Nat.min j j'). split; [lia|]. rewrite Hd. cbn [plain_of init_conn plain app].
      rewrite <- firstn_map, Hmap, firstn_firstn. reflexivity.
  Qed.
End AdvTheorem.

Definition cc_conn_prefix_or_forgery := conn_prefix_or_forgery cc_seal cc_open ChaChaPolyProofs.aead_open_seal.

(** the read path before commit 1e7d383 delivered the frame that follows an undecryptable one *)
Lemma pinned_conn_delivers_after_failure :
  let key := repeat 3 32 in
  let w := wire cc_seal key 0 [[1; 2; 3]; [4; 5]; [6; 7; 8; 9]] in
  let fr0 := firstn 21 w in let fr1 := firstn 20 (skipn 21 w) in let fr2 := skipn 41 w in
  let bad := fr0 ++ (2 :: 0 :: map (fun x => N.lxor x 1) (skipn 2 fr1)) ++ fr2 in
  fst (fst (run_reads false cc_open key (init_conn 0) [16; 16; 16; 16]%nat [SockData bad])) =
    [RData [1; 2; 3]; RZero; RData [6; 7; 8; 9]; RZero] /\
  fst (fst (run_reads true cc_open key (init_conn 0) [16; 16; 16; 16]%nat [SockData bad])) =
    [RData [1; 2; 3]; RErr 2; RErr 3; RErr 3].
Proof. cbn zeta. split; vm_compute; reflexivity. Qed.
