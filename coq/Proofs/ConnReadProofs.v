From HC Require Import Base.HBytes Base.HBytesProofs Base.ChaChaPoly Base.ChaChaPolyProofs Model.Framing Model.ConnRead Proofs.FramingProofs.
From Coq Require Import ZifyBool ZifyNat ZifyN.

Local Arguments N.mul : simpl never.
Local Arguments N.add : simpl never.
Local Arguments N.to_nat : simpl never.

Lemma frame_need_firstn rcv n : frame_need rcv = Some n -> (n <= length rcv)%nat ->
  frame_need (firstn n rcv) = Some (length (firstn n rcv)).
Proof.
  intros En Hle. rewrite firstn_length, Nat.min_l by exact Hle.
  destruct rcv as [|l0 [|l1 r]]; try discriminate.
  unfold frame_need in En. injection En as <-.
  change (2 + N.to_nat (l0 + 256 * l1) + 16)%nat with (S (S (N.to_nat (l0 + 256 * l1) + 16))).
  reflexivity.
Qed.

Definition datas (evs : list sockev) : bytes :=
  flat_map (fun e => match e with SockData bs => bs | _ => [] end) evs.
Definition no_eof (evs : list sockev) : Prop := Forall (fun e => e <> SockEOF) evs.
Definition data_nonempty (evs : list sockev) : Prop :=
  Forall (fun e => match e with SockData bs => bs <> [] | _ => True end) evs.

Definition complete (rcv : bytes) : bool :=
  match frame_need rcv with Some n => (n <=? length rcv)%nat | None => false end.

(** readFrame never loses, duplicates or reorders a byte, whatever the schedule: what it returns
    plus what it keeps plus what is still to arrive is what was kept plus what was to arrive. *)
Lemma datas_cons_data bs evs : datas (SockData bs :: evs) = bs ++ datas evs.
Proof. reflexivity. Qed.

Lemma read_frame_conserves : forall fuel rcv evs,
  match read_frame fuel rcv evs with
  | (FFrame f rcv1, rcv2, evs') =>
      rcv2 = rcv1 /\ f ++ rcv1 ++ datas evs' = rcv ++ datas evs /\
      frame_need f = Some (length f)
  | (_, rcv2, evs') => rcv2 ++ datas evs' = rcv ++ datas evs
  end.
Proof.
  induction fuel as [|f IH]; intros rcv evs; cbn [read_frame]; [reflexivity|].
  assert (Hev : match evs with
      | [] => (FBlocked, rcv, [])
      | SockTimeout :: evs' => (FTimeout, rcv, evs')
      | SockEOF :: evs' => (FEOF, rcv, evs')
      | SockData bs :: evs' =>
        if (length bs <=? sock_buf)%nat then read_frame f (rcv ++ bs) evs'
        else read_frame f (rcv ++ firstn sock_buf bs) (SockData (skipn sock_buf bs) :: evs')
      end = match evs with
      | [] => (FBlocked, rcv, [])
      | SockTimeout :: evs' => (FTimeout, rcv, evs')
      | SockEOF :: evs' => (FEOF, rcv, evs')
      | SockData bs :: evs' =>
        if (length bs <=? sock_buf)%nat then read_frame f (rcv ++ bs) evs'
        else read_frame f (rcv ++ firstn sock_buf bs) (SockData (skipn sock_buf bs) :: evs')
      end) by reflexivity.
  assert (Hstep : match (match evs with
      | [] => (FBlocked, rcv, [])
      | SockTimeout :: evs' => (FTimeout, rcv, evs')
      | SockEOF :: evs' => (FEOF, rcv, evs')
      | SockData bs :: evs' =>
        if (length bs <=? sock_buf)%nat then read_frame f (rcv ++ bs) evs'
        else read_frame f (rcv ++ firstn sock_buf bs) (SockData (skipn sock_buf bs) :: evs')
      end) with
    | (FFrame fr rcv1, rcv2, evs') =>
        rcv2 = rcv1 /\ fr ++ rcv1 ++ datas evs' = rcv ++ datas evs /\ frame_need fr = Some (length fr)
    | (_, rcv2, evs') => rcv2 ++ datas evs' = rcv ++ datas evs
    end).
  { clear Hev. destruct evs as [|[bs| |] evs']; try reflexivity.
    destruct (Nat.leb_spec (length bs) sock_buf) as [Hs|Hl].
    - specialize (IH (rcv ++ bs) evs').
      assert (Hd : (rcv ++ bs) ++ datas evs' = rcv ++ datas (SockData bs :: evs'))
        by (rewrite datas_cons_data, app_assoc; reflexivity).
      rewrite Hd in IH. exact IH.
    - specialize (IH (rcv ++ firstn sock_buf bs) (SockData (skipn sock_buf bs) :: evs')).
      assert (Hd : (rcv ++ firstn sock_buf bs) ++ datas (SockData (skipn sock_buf bs) :: evs') = rcv ++ datas (SockData bs :: evs')).
      { rewrite !datas_cons_data. rewrite <- !app_assoc. f_equal. rewrite app_assoc, firstn_skipn. reflexivity. }
      rewrite Hd in IH. exact IH. }
  destruct (frame_need rcv) as [n|] eqn:En; [|exact Hstep].
  destruct (Nat.leb_spec n (length rcv)) as [Hle|Hgt]; [|exact Hstep].
  split; [reflexivity|]. split; [rewrite app_assoc, firstn_skipn; reflexivity|].
  apply frame_need_firstn; assumption.
Qed.

(** ---------- one DecryptedRead on an honest stream ---------- *)
Section Honest.
  Variable seal : bytes -> bytes -> bytes -> bytes -> bytes * bytes.
  Variable open : bytes -> bytes -> bytes -> bytes -> bytes -> option bytes.
  Hypothesis open_seal : forall k n a p, open k n a (fst (seal k n a p)) (snd (seal k n a p)) = Some p.
  Hypothesis seal_len : forall k n a p,
    length (fst (seal k n a p)) = length p /\ length (snd (seal k n a p)) = 16%nat.
  Variable key : bytes.

  Definition wire (ctr : N) (chunks : list bytes) : bytes := fst (encrypt_packets seal key ctr chunks).
  Definition small (chunks : list bytes) : Prop := Forall (fun c => (length c <= frame_max)%nat) chunks.

  Lemma wire_cons ctr c cs : wire ctr (c :: cs) = frame seal key ctr c ++ wire ((ctr + 1) mod m64n) cs.
  Proof.
    unfold wire. cbn [encrypt_packets]. destruct (encrypt_packets seal key ((ctr + 1) mod m64n) cs). reflexivity.
  Qed.

  Lemma frame_shape ctr c : (length c <= frame_max)%nat ->
    exists l0 l1 body, frame seal key ctr c = l0 :: l1 :: body /\
      N.to_nat (l0 + 256 * l1) = length c /\ length body = (length c + 16)%nat.
  Proof.
    intros Hc. unfold frame.
    destruct (seal key (nonce_of ctr) (aad_of c) c) as [ct tag] eqn:Es.
    pose proof (seal_len key (nonce_of ctr) (aad_of c) c) as [H1 H2]. rewrite Es in H1, H2. cbn [fst snd] in H1, H2.
    destruct (aad_of_shape seal open open_seal seal_len c Hc) as (l0 & l1 & Ha & Hl). rewrite Ha.
    exists l0, l1, (ct ++ tag). split; [reflexivity|]. split; [exact Hl|]. rewrite app_length. lia.
  Qed.

  Lemma frame_length ctr c : (length c <= frame_max)%nat -> length (frame seal key ctr c) = (18 + length c)%nat.
  Proof. intros Hc. destruct (frame_shape ctr c Hc) as (l0 & l1 & b & -> & _ & Hb). cbn [length]. lia. Qed.

  (** a complete frame at the front of an honest stream is the first sent frame *)
  Lemma front_frame ctr chunks fr rest : small chunks ->
    frame_need fr = Some (length fr) -> fr ++ rest = wire ctr chunks ->
    exists c cs, chunks = c :: cs /\ fr = frame seal key ctr c /\ rest = wire ((ctr + 1) mod m64n) cs.
  Proof.
    intros Hs Hn E. destruct chunks as [|c cs].
    - unfold wire in E. cbn in E. destruct fr as [|a [|b r]]; cbn in Hn; try discriminate.
    - inversion Hs as [|? ? Hc Hcs]; subst. exists c, cs. split; [reflexivity|].
      rewrite wire_cons in E.
      destruct (frame_shape ctr c Hc) as (l0 & l1 & body & Hf & Hl & Hb).
      destruct fr as [|a [|b r]]; cbn [frame_need] in Hn; try discriminate.
      rewrite Hf in E. cbn [app] in E. injection E as -> -> E.
      injection Hn as Hn. cbn [length] in Hn. rewrite Hl in Hn.
      assert (Hlen : length r = length body) by lia.
      assert (Hr : r = body /\ rest = wire ((ctr + 1) mod m64n) cs).
      { remember (wire ((ctr + 1) mod m64n) cs) as w eqn:Ew. clear Ew Hf Hb Hl Hn. revert w E.
        revert body Hlen. induction r as [|x r IH]; intros [|y body] Hlen w E; simpl in Hlen; try lia.
        - split; [reflexivity|exact E].
        - cbn [app] in E. injection E as -> E. destruct (IH body ltac:(lia) w E) as [-> ->]. auto. }
      destruct Hr as [-> ->]. rewrite Hf. auto.
  Qed.

  Lemma decrypt_one_frame ctr c : (length c <= frame_max)%nat ->
    decrypt open key ctr (frame seal key ctr c) = DOk c ((ctr + 1) mod m64n) [].
  Proof.
    intros Hc. unfold decrypt.
    pose proof (decrypt_step seal open open_seal seal_len (length (frame seal key ctr c)) key ctr c [] [] Hc) as H.
    rewrite app_nil_r in H. cbn [app] in H. rewrite H.
    destruct (Nat.ltb_spec (length c) frame_max); [reflexivity|].
    rewrite frame_length by exact Hc. cbn [plus decrypt_fuel]. reflexivity.
  Qed.
End Honest.

Lemma read_frame_no_eof : forall fuel rcv evs, no_eof evs ->
  let '(r, _, evs') := read_frame fuel rcv evs in r <> FEOF /\ no_eof evs'.
Proof.
  induction fuel as [|f IH]; intros rcv evs Hn; cbn [read_frame]; [split; [discriminate|exact Hn]|].
  destruct (match frame_need rcv with Some n => (n <=? length rcv)%nat | None => false end).
  - destruct (frame_need rcv); split; try discriminate; exact Hn.
  - destruct evs as [|[bs| |] evs']; try (split; [discriminate|]).
    + constructor.
    + inversion Hn; subst. destruct (length bs <=? sock_buf)%nat.
      * apply IH. assumption.
      * apply IH. constructor; [discriminate|assumption].
    + inversion Hn; assumption.
    + inversion Hn as [|? ? H]; subst. congruence.
Qed.

Definition plain_of (st : cstate) : bytes := match plain st with Some p => p | None => [] end.
Definition out_of (r : rres) : bytes := match r with RData o => o | _ => [] end.

Section Honest2.
  Variable seal : bytes -> bytes -> bytes -> bytes -> bytes * bytes.
  Variable open : bytes -> bytes -> bytes -> bytes -> bytes -> option bytes.
  Hypothesis open_seal : forall k n a p, open k n a (fst (seal k n a p)) (snd (seal k n a p)) = Some p.
  Hypothesis seal_len : forall k n a p,
    length (fst (seal k n a p)) = length p /\ length (snd (seal k n a p)) = 16%nat.
  Variable key : bytes.
  Notation wire := (wire seal key).

  Definition measure (st : cstate) (chunks : list bytes) : nat :=
    (2 * length chunks + match plain st with Some _ => 1 | None => 0 end + 1)%nat.

  Lemma conn_read_honest : forall fuel st bsize evs chunks,
    small chunks -> no_eof evs -> (0 < bsize)%nat -> closed st = false ->
    received st ++ datas evs = wire (rctr st) chunks ->
    (measure st chunks < fuel)%nat ->
    let '(r, st', evs') := conn_read true open key fuel st bsize evs in
    (match r with
     | RData out => out <> [] /\ (length out <= bsize)%nat
     | RTimeout | RBlocked => True
     | RErr _ | RZero => False end) /\
    exists k, (k <= length chunks)%nat /\
      out_of r ++ plain_of st' ++ concat (skipn k chunks) = plain_of st ++ concat chunks /\
      received st' ++ datas evs' = wire (rctr st') (skipn k chunks) /\
      small (skipn k chunks) /\ no_eof evs' /\ closed st' = closed st.
  Proof.
    induction fuel as [|f IH]; intros st bsize evs chunks Hs Hn Hb Hcl0 Hw Hm; [lia|].
    cbn [conn_read]. destruct (plain st) as [p|] eqn:Ep.
    - (* serve from the decrypted buffer *)
      destruct bsize as [|b]; [lia|].
      destruct p as [|x p'].
      + (* buffer empty: drop it and go on *)
        cbn [firstn length Nat.ltb Nat.leb Nat.eqb orb andb negb skipn].
        set (st1 := mkC (received st) None (rctr st) (closed st)).
        specialize (IH st1 (S b) evs chunks Hs Hn Hb Hcl0 Hw).
        assert (Hm1 : (measure st1 chunks < f)%nat) by (unfold measure in *; rewrite Ep in Hm; cbn [plain st1]; lia).
        specialize (IH Hm1).
        destruct (conn_read true open key f st1 (S b) evs) as [[r st'] evs'].
        destruct IH as (Hr & k & Hk & Hc & Hw' & Hs' & Hn' & Hcl). split; [exact Hr|].
        exists k. unfold plain_of in *. rewrite Ep. cbn [plain st1] in Hc. repeat split; auto.
      + cbn [firstn]. cbv iota.
        split; [split; [discriminate|cbn [length]; rewrite firstn_length; lia]|].
        exists 0%nat. cbn [skipn out_of received rctr closed].
        split; [lia|]. split; [|repeat split; auto].
        unfold plain_of. rewrite Ep. cbn [plain].
        set (dropb := ((length (x :: firstn b p') <? S b)%nat || ((length (x :: p') =? 0)%nat && negb (S b =? 0)%nat))%bool).
        destruct dropb eqn:Ed; cbn [app]; f_equal.
        * unfold dropb in Ed. cbn [length Nat.eqb andb] in Ed. rewrite orb_false_r in Ed.
          apply Nat.ltb_lt in Ed. cbn [length] in Ed. rewrite firstn_length in Ed.
          rewrite firstn_all2 by lia. reflexivity.
        * rewrite app_assoc, firstn_skipn. reflexivity.
    - (* fetch and decrypt the next frame *)
      rewrite Hcl0. cbv iota zeta.
      pose proof (read_frame_conserves (S (evs_size evs)) (received st) evs) as Hc.
      pose proof (read_frame_no_eof (S (evs_size evs)) (received st) evs Hn) as He.
      destruct (read_frame (S (evs_size evs)) (received st) evs) as [[r rcv2] evs2].
      destruct He as [He Hn2].
      destruct r as [fr rcv1| | |].
      + destruct Hc as (-> & Hc & Hneed). rewrite Hw in Hc.
        destruct (front_frame seal open open_seal seal_len key (rctr st) chunks fr (rcv1 ++ datas evs2) Hs Hneed Hc)
          as (c & cs & -> & -> & Hrest).
        inversion Hs as [|? ? Hcl Hcs]; subst.
        rewrite (decrypt_one_frame seal open open_seal seal_len key (rctr st) c Hcl).
        set (st1 := mkC rcv1 (Some c) ((rctr st + 1) mod m64n) false).
        specialize (IH st1 bsize evs2 cs Hcs Hn2 Hb eq_refl Hrest).
        assert (Hm1 : (measure st1 cs < f)%nat) by (unfold measure in *; rewrite Ep in Hm; cbn [plain st1 length] in *; lia).
        specialize (IH Hm1).
        destruct (conn_read true open key f st1 bsize evs2) as [[r st'] evs'].
        destruct IH as (Hr & k & Hk & Hcc & Hw' & Hs' & Hn' & Hcl'). split; [exact Hr|].
        exists (S k). cbn [length skipn]. split; [lia|]. unfold plain_of in *. rewrite Ep. cbn [plain st1 concat app] in *.
        repeat split; auto.
      + split; [exact I|]. exists 0%nat. cbn [skipn out_of received rctr closed plain_of plain app].
        unfold plain_of. rewrite Ep. repeat split; auto; try lia. rewrite Hc. exact Hw.
      + congruence.
      + split; [exact I|]. exists 0%nat. cbn [skipn out_of received rctr closed plain_of plain app].
        unfold plain_of. rewrite Ep. repeat split; auto; try lia. rewrite Hc. exact Hw.
  Qed.
End Honest2.

Lemma evs_size_cons e evs : evs_size (e :: evs) = (ev_size e + evs_size evs)%nat.
Proof. reflexivity. Qed.
Lemma datas_cons e evs : datas (e :: evs) = match e with SockData bs => bs | _ => [] end ++ datas evs.
Proof. reflexivity. Qed.

Lemma evs_size_datas evs : (length (datas evs) <= evs_size evs)%nat.
Proof.
  induction evs as [|e evs IH]; [simpl; lia|].
  rewrite evs_size_cons, datas_cons, app_length. destruct e; cbn [ev_size length]; lia.
Qed.

Lemma read_frame_blocked : forall fuel rcv evs, (evs_size evs < fuel)%nat ->
  forall rcv' evs', read_frame fuel rcv evs = (FBlocked, rcv', evs') -> evs' = [] /\ complete rcv' = false.
Proof.
  induction fuel as [|f IH]; intros rcv evs Hf rcv' evs' H; [lia|].
  cbn [read_frame] in H. fold (complete rcv) in H. unfold complete in H.
  destruct (frame_need rcv) as [n|] eqn:En.
  - destruct (n <=? length rcv)%nat eqn:El; [discriminate|].
    destruct evs as [|[bs| |] evs0]; try discriminate.
    + injection H as <- <-. split; [reflexivity|]. unfold complete. rewrite En. exact El.
    + rewrite evs_size_cons in Hf. cbn [ev_size] in Hf.
      destruct (Nat.leb_spec (length bs) sock_buf).
      * eapply IH; [|exact H]. lia.
      * eapply IH; [|exact H]. rewrite evs_size_cons. cbn [ev_size].
        rewrite skipn_length. unfold sock_buf in *. lia.
  - destruct evs as [|[bs| |] evs0]; try discriminate.
    + injection H as <- <-. split; [reflexivity|]. unfold complete. rewrite En. reflexivity.
    + rewrite evs_size_cons in Hf. cbn [ev_size] in Hf.
      destruct (Nat.leb_spec (length bs) sock_buf).
      * eapply IH; [|exact H]. lia.
      * eapply IH; [|exact H]. rewrite evs_size_cons. cbn [ev_size].
        rewrite skipn_length. unfold sock_buf in *. lia.
Qed.

Section Honest3.
  Variable seal : bytes -> bytes -> bytes -> bytes -> bytes * bytes.
  Variable open : bytes -> bytes -> bytes -> bytes -> bytes -> option bytes.
  Hypothesis open_seal : forall k n a p, open k n a (fst (seal k n a p)) (snd (seal k n a p)) = Some p.
  Hypothesis seal_len : forall k n a p,
    length (fst (seal k n a p)) = length p /\ length (snd (seal k n a p)) = 16%nat.
  Variable key : bytes.
  Notation wire := (wire seal key).

  Lemma wire_length : forall chunks, small chunks -> forall c, (18 * length chunks <= length (wire c chunks))%nat.
  Proof.
    induction chunks as [|x cs IH]; intros Hs c; [simpl; lia|].
    inversion Hs; subst. rewrite wire_cons, app_length. rewrite (frame_length seal open open_seal seal_len) by assumption.
    specialize (IH H2 ((c + 1) mod m64n)). cbn [length]. lia.
  Qed.

  Definition good_result (r : rres) : Prop :=
    match r with RData o => o <> [] | RTimeout | RBlocked => True | RErr _ | RZero => False end.

  (** Refinement to a byte FIFO: for EVERY list of sent chunks, EVERY schedule of socket reads
      delivering their ciphertext (any segmentation, timeouts anywhere) and EVERY sequence of
      positive caller buffer sizes: no result is an error or end-of-stream, and what was
      delivered, followed by what is still buffered in plaintext, followed by the chunks not
      yet decrypted, is exactly what was sent — nothing lost, duplicated or reordered. *)
  Theorem reads_refine_fifo : forall bsizes st evs chunks,
    small chunks -> no_eof evs -> Forall (fun b => (0 < b)%nat) bsizes -> closed st = false ->
    received st ++ datas evs = wire (rctr st) chunks ->
    let '(rs, st', evs') := run_reads true open key st bsizes evs in
    Forall good_result rs /\
    exists k, (k <= length chunks)%nat /\
      concat (map out_of rs) ++ plain_of st' ++ concat (skipn k chunks) = plain_of st ++ concat chunks /\
      received st' ++ datas evs' = wire (rctr st') (skipn k chunks).
  Proof.
    induction bsizes as [|b bs IH]; intros st evs chunks Hs Hn Hb Hcl0 Hw; cbn [run_reads].
    - split; [constructor|]. exists 0%nat. cbn. split; [lia|]. split; [reflexivity|exact Hw].
    - inversion Hb as [|? ? Hb0 Hbs]; subst.
      assert (Hfuel : (measure st chunks < 4 + length (received st) + evs_size evs)%nat).
      { unfold measure. pose proof (wire_length chunks Hs (rctr st)) as Hl. rewrite <- Hw, app_length in Hl.
        pose proof (evs_size_datas evs). destruct (plain st); lia. }
      pose proof (conn_read_honest seal open open_seal seal_len key _ st b evs chunks Hs Hn Hb0 Hcl0 Hw Hfuel) as H.
      destruct (conn_read true open key (4 + length (received st) + evs_size evs) st b evs) as [[r st1] evs1].
      destruct H as (Hr & k & Hk & Hc & Hw1 & Hs1 & Hn1 & Hcl1). rewrite Hcl0 in Hcl1.
      destruct r as [|o| |c|].
      + destruct Hr.
      + specialize (IH st1 evs1 (skipn k chunks) Hs1 Hn1 Hbs Hcl1 Hw1).
        destruct (run_reads true open key st1 bs evs1) as [[rs st2] evs2].
        destruct IH as (Hg & k2 & Hk2 & Hc2 & Hw2). split; [constructor; [exact (proj1 Hr)|exact Hg]|].
        exists (k + k2)%nat. rewrite skipn_length in Hk2. split; [lia|].
        rewrite skipn_skipn_add in Hc2, Hw2. split; [|exact Hw2].
        cbn [map concat out_of]. rewrite <- app_assoc. rewrite Hc2. exact Hc.
      + specialize (IH st1 evs1 (skipn k chunks) Hs1 Hn1 Hbs Hcl1 Hw1).
        destruct (run_reads true open key st1 bs evs1) as [[rs st2] evs2].
        destruct IH as (Hg & k2 & Hk2 & Hc2 & Hw2). split; [constructor; [exact I|exact Hg]|].
        exists (k + k2)%nat. rewrite skipn_length in Hk2. split; [lia|].
        rewrite skipn_skipn_add in Hc2, Hw2. split; [|exact Hw2].
        cbn [map concat out_of app]. rewrite Hc2. exact Hc.
      + destruct Hr.
      + split; [constructor; [exact I|constructor]|]. exists k. split; [exact Hk|].
        cbn [map concat out_of app]. split; [exact Hc|exact Hw1].
  Qed.
End Honest3.

Section Progress.
  Variable seal : bytes -> bytes -> bytes -> bytes -> bytes * bytes.
  Variable open : bytes -> bytes -> bytes -> bytes -> bytes -> option bytes.
  Hypothesis open_seal : forall k n a p, open k n a (fst (seal k n a p)) (snd (seal k n a p)) = Some p.
  Hypothesis seal_len : forall k n a p,
    length (fst (seal k n a p)) = length p /\ length (snd (seal k n a p)) = 16%nat.
  Variable key : bytes.
  Notation wire := (wire seal key).

  (** as soon as a complete frame has arrived, a read returns its data without waiting for the
      network: no socket event is consumed *)
  Theorem read_progress : forall f st b evs c cs,
    small (c :: cs) -> c <> [] -> plain st = None -> closed st = false -> complete (received st) = true ->
    received st ++ datas evs = wire (rctr st) (c :: cs) ->
    exists st', conn_read true open key (S (S f)) st (S b) evs = (RData (firstn (S b) c), st', evs).
  Proof.
    intros f st b evs c cs Hs Hc Hp Hcl0 Hcomp Hw.
    cbn [conn_read]. rewrite Hp, Hcl0. cbv iota zeta.
    pose proof (read_frame_conserves (S (evs_size evs)) (received st) evs) as Hcons.
    cbn [read_frame] in *. fold (complete (received st)) in *. rewrite Hcomp in *.
    unfold complete in Hcomp. destruct (frame_need (received st)) as [n|] eqn:En; [|discriminate].
    destruct Hcons as (_ & Hcons & Hneed). rewrite Hw in Hcons.
    destruct (front_frame seal open open_seal seal_len key (rctr st) (c :: cs) _ _ Hs Hneed Hcons)
      as (c' & cs' & E & Hfr & Hrest).
    injection E as <- <-. rewrite Hfr.
    inversion Hs; subst.
    rewrite (decrypt_one_frame seal open open_seal seal_len key (rctr st) c) by assumption.
    cbn [conn_read plain]. destruct c as [|x c']; [congruence|].
    cbn [firstn]. cbv iota. eexists. reflexivity.
  Qed.
End Progress.

Definition cc_reads_refine_fifo := reads_refine_fifo cc_seal cc_open aead_open_seal aead_seal_len.
Definition cc_read_progress := read_progress cc_seal cc_open aead_open_seal aead_seal_len.

Lemma connread_nonvacuous :
  let key := repeat 3 32 in
  let chunks := [[1;2;3;4;5]; [6;7]] in
  let w := wire cc_seal key 0 chunks in
  let evs := [SockTimeout; SockData (firstn 30 w); SockData (skipn 30 w)] in
  small chunks /\ no_eof evs /\ received (init_conn 0) ++ datas evs = wire cc_seal key (rctr (init_conn 0)) chunks /\
  fst (fst (run_reads true cc_open key (init_conn 0) [3; 3; 3; 3; 3]%nat evs)) =
    [RTimeout; RData [1;2;3]; RData [4;5]; RData [6;7]; RBlocked].
Proof.
  cbn zeta. split; [repeat constructor; simpl; lia|]. split; [repeat constructor; discriminate|].
  split.
  - vm_compute. reflexivity.
  - vm_compute. reflexivity.
Qed.
