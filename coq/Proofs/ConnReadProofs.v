From HC Require Import Base.HBytes Base.HBytesProofs Base.ChaChaPoly Base.ChaChaPolyProofs Model.Framing Model.ConnRead Proofs.FramingProofs.
From Coq Require Import ZifyBool ZifyNat ZifyN.
