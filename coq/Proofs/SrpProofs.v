From Coq Require Import ZArith Zpow_facts List Lia Bool.
From Coq Require Import ZifyN ZifyNat ZifyBool.
From HC Require Import Base.HBytes Base.Sha512.
From HC Require Import Model.Srp.
Import ListNotations.
Open Scope Z_scope.

(** * byte <-> integer conversions *)
Lemma nle_step n : N.land n 255 = (n mod 256)%N /\ N.shiftr n 8 = (n / 256)%N.
Proof.
  split.
  - change 255%N with (N.ones 8). rewrite N.land_ones. reflexivity.
  - rewrite N.shiftr_div_pow2. reflexivity.
Qed.

Lemma le_value_nle : forall f n, (n < 256 ^ N.of_nat f)%N -> le_value (nle f n) = n.
Proof.
  induction f as [|f IH]; intros n Hn.
  - simpl in *. lia.
  - cbn [nle]. destruct (N.eqb_spec n 0) as [->|Hz]; [reflexivity|].
    destruct (nle_step n) as [E1 E2]. rewrite E1, E2.
    cbn [le_value]. rewrite IH.
    + pose proof (N.div_mod n 256). lia.
    + rewrite Nnat.Nat2N.inj_succ, N.pow_succ_r' in Hn.
      apply N.div_lt_upper_bound; lia.
Qed.

Lemma zof_zbe z : 0 <= z -> zof (zbe z) = z.
Proof.
  intros Hz. unfold zof, zbe. rewrite rev_involutive, le_value_nle.
  - lia.
  - rewrite Nnat.N2Nat.id.
    eapply N.lt_le_trans; [apply N.size_gt|].
    apply N.pow_le_mono_l. lia.
Qed.

Lemma eqb_bytes_refl (a : bytes) : eqb_bytes a a = true.
Proof.
  unfold eqb_bytes. rewrite Nat.eqb_refl. cbn [andb].
  induction a as [|x a IH]; [reflexivity|]. cbn [combine forallb fst snd]. rewrite N.eqb_refl. exact IH.
Qed.

(** * the arithmetic *)
Lemma pow_mod_l n p q : 0 < n -> (p mod n) ^ q mod n = p ^ q mod n.
Proof. intros Hn. symmetry. apply Zpower_mod. exact Hn. Qed.

Lemma unblind n k gx gb : ((k * gx + gb mod n) mod n - k * gx) mod n = gb mod n.
Proof.
  rewrite Zminus_mod_idemp_l.
  replace (k * gx + gb mod n - k * gx) with (gb mod n) by ring. apply Zmod_mod.
Qed.

Theorem srp_agreement : forall G x a b u, 0 < gN G -> 0 <= x -> 0 <= a -> 0 <= b -> 0 <= u ->
  let v := verifier mexp_spec G x in
  client_S mexp_spec G (srp_k G) x a u (server_B mexp_spec G v b)
  = mexp_spec (server_base mexp_spec G v u (mexp_spec (gg G) a (gN G))) b (gN G).
Proof.
  intros G x a b u HN Hx Ha Hb Hu. cbv zeta.
  unfold client_S, server_B, server_base, verifier, mexp_spec.
  set (n := gN G). set (g := gg G).
  rewrite unblind. rewrite (pow_mod_l n (g ^ b)) by exact HN.
  rewrite <- Z.pow_mul_r by lia.
  rewrite (pow_mod_l n (g ^ x) u) by exact HN.
  rewrite <- Zmult_mod. rewrite pow_mod_l by exact HN.
  rewrite <- Z.pow_mul_r by lia. rewrite <- Z.pow_add_r by lia.
  rewrite <- Z.pow_mul_r by lia. f_equal. f_equal. ring.
Qed.

Lemma mexp_spec_nonneg b e n : 0 < n -> 0 <= mexp_spec b e n.
Proof. intros Hn. unfold mexp_spec. apply Z.mod_pos_bound. exact Hn. Qed.

Lemma zof_nonneg b : 0 <= zof b.
Proof. unfold zof. lia. Qed.

(** * completeness: whatever the secrets, the code, the salt — unless one of the accessory's
      degenerate-value guards fires, the accessory accepts the controller's proof, derives the
      same key and answers with the proof the controller expects *)
Theorem srp_completes : forall G user pin salt a b,
  0 < gN G -> 0 <= a -> 0 <= b ->
  let v := verifier mexp_spec G (srp_x user pin salt) in
  let c := client mexp_spec G user pin a salt (zbe (server_B mexp_spec G v b)) in
  match server mexp_spec G user salt v b (cA c) (cM1 c) with
  | SrvOk K M2 => K = cK c /\ M2 = cM2 c
  | SrvBadProof => False
  | _ => True   (* A = 0 mod N, u = 0, A v^u <= 1: refused before any key is derived *)
  end.
Proof.
  intros G user pin salt a b HN Ha Hb. cbv zeta.
  set (x := srp_x user pin salt). set (v := verifier mexp_spec G x).
  set (B := server_B mexp_spec G v b).
  assert (HB : 0 <= B) by (apply Z.mod_pos_bound; exact HN).
  unfold client. cbn [cA cM1 cK cM2]. rewrite (zof_zbe B HB).
  set (A := mexp_spec (gg G) a (gN G)).
  assert (HA : 0 <= A) by (apply mexp_spec_nonneg; exact HN).
  unfold server. rewrite (zof_zbe A HA). fold B.
  destruct (A mod gN G =? 0); [exact I|].
  set (u := srp_u G A B).
  destruct (u =? 0); [exact I|].
  destruct (server_base mexp_spec G v u A <=? 1); [exact I|].
  assert (E : mexp_spec (server_base mexp_spec G v u A) b (gN G)
              = client_S mexp_spec G (srp_k G) x a u B).
  { symmetry. apply (srp_agreement G x a b u HN); try assumption.
    - apply zof_nonneg.
    - apply zof_nonneg. }
  rewrite E. rewrite eqb_bytes_refl. split; reflexivity.
Qed.

Print Assumptions srp_completes.
