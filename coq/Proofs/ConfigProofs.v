From HC Require Import Base.HBytes Base.ChaChaPolyProofs Model.Pin Model.Config.
From Coq Require Import ZifyBool ZifyNat ZifyN.
Open Scope N_scope.

(** ---------------- setup codes ---------------- *)
Definition fmt_pin (s : bytes) : bytes := firstn 3 s ++ [45] ++ firstn 2 (skipn 3 s) ++ [45] ++ skipn 5 s.

Lemma validate_pin_spec trivial s f :
  validate_pin trivial s = Some f <->
  (length s = 8%nat /\ forallb is_digit s = true /\ existsb (eqb_bytes s) trivial = false) /\ f = fmt_pin s.
Proof.
  unfold validate_pin, fmt_pin. destruct (existsb (eqb_bytes s) trivial) eqn:Et.
  - split; [discriminate|]. intros [(_ & _ & H) _]. discriminate.
  - destruct (Nat.eqb_spec (length s) 8) as [El|El]; cbn [negb].
    + destruct (forallb is_digit s) eqn:Ed; cbn [negb].
      * split; [intros H; injection H as <-; auto|intros [_ ->]; reflexivity].
      * split; [discriminate|]. intros [(_ & H & _) _]. discriminate.
    + split; [discriminate|]. intros [(H & _) _]. contradiction.
Qed.

(** ---------------- X-HM setup payload ---------------- *)
Lemma b36_val_digit d : d < 36 -> b36_val (b36_digit d) = d.
Proof. unfold b36_val, b36_digit. intros H. destruct (d <? 10) eqn:E; [destruct (48 + d <? 58) eqn:E2|destruct (55 + d <? 58) eqn:E2]; lia. Qed.

Lemma b36_decode_app a b : b36_decode (a ++ b) = fold_left (fun acc c => acc * 36 + b36_val c) b (b36_decode a).
Proof. unfold b36_decode. apply fold_left_app. Qed.

Lemma b36_roundtrip : forall k x, b36_decode (rev (b36_rev k x)) = x mod 36 ^ N.of_nat k.
Proof.
  induction k as [|k IH]; intros x.
  - cbn. rewrite N.mod_1_r. reflexivity.
  - cbn [b36_rev rev]. rewrite b36_decode_app, IH. cbn [fold_left].
    rewrite b36_val_digit by (apply N.mod_lt; lia).
    rewrite Nat2N.inj_succ, N.pow_succ_r'.
    rewrite (N.mod_mul_r x 36 (36 ^ N.of_nat k)) by (try lia; apply N.pow_nonzero; lia). lia.
Qed.

Lemma b36_rev_length k : forall x, length (b36_rev k x) = k.
Proof. induction k; intros; simpl; auto. Qed.

Lemma xhm_payload_bound code cat flags : xhm_payload code cat flags < 36 ^ 9.
Proof.
  unfold xhm_payload.
  assert (cat mod 256 < 256) by (apply N.mod_lt; lia).
  assert (flags mod 16 < 16) by (apply N.mod_lt; lia).
  assert (code mod 134217728 < 134217728) by (apply N.mod_lt; lia).
  change (36 ^ 9) with 101559956668416. nia.
Qed.

Lemma skip_prefix l : skipn 7 (xhm_prefix ++ l) = l.
Proof. reflexivity. Qed.

Lemma xhm_roundtrip code cat flags id : code < 100000000 -> cat < 256 -> flags < 16 ->
  xhm_decode (xhm_uri code cat flags id) = (code, cat, flags, id).
Proof.
  intros Hc Hk Hf. unfold xhm_decode, xhm_uri. rewrite skip_prefix.
  assert (Hl : length (b36 (xhm_payload code cat flags)) = 9%nat) by (unfold b36; rewrite rev_length, b36_rev_length; reflexivity).
  assert (Hf9 : firstn 9 (b36 (xhm_payload code cat flags) ++ id) = b36 (xhm_payload code cat flags)).
  { rewrite <- Hl. rewrite firstn_app, Nat.sub_diag, firstn_all, firstn_O. apply app_nil_r. }
  assert (Hs9 : skipn 9 (b36 (xhm_payload code cat flags) ++ id) = id).
  { rewrite <- Hl. rewrite skipn_app, Nat.sub_diag, skipn_all, skipn_O. reflexivity. }
  rewrite Hf9, Hs9.
  unfold b36. rewrite (b36_roundtrip 9). change (36 ^ N.of_nat 9) with (36 ^ 9).
  rewrite (N.mod_small _ _ (xhm_payload_bound code cat flags)).
  unfold xhm_payload. rewrite (N.mod_small code), (N.mod_small cat), (N.mod_small flags) by lia.
  set (hi := ((0 * 16 + 0) * 256 + cat) * 16 + flags).
  assert (E1 : (hi * 134217728 + code) mod 134217728 = code).
  { rewrite N.add_comm, N.mod_add by lia. apply N.mod_small. lia. }
  assert (E2 : (hi * 134217728 + code) / 134217728 = hi).
  { rewrite N.add_comm, N.div_add by lia. rewrite (N.div_small code) by lia. lia. }
  rewrite E1, E2.
  assert (E3 : hi / 16 mod 256 = cat).
  { unfold hi. rewrite N.add_comm, N.div_add by lia. rewrite (N.div_small flags) by lia. cbn. apply N.mod_small. lia. }
  assert (E4 : hi mod 16 = flags).
  { unfold hi. rewrite N.add_comm, N.mod_add by lia. apply N.mod_small. lia. }
  rewrite E3, E4. reflexivity.
Qed.

(** ---------------- identity, configuration number, discoverability ---------------- *)
Lemma start_keeps_identity d rid rkey h u k p : d_uuid d = Some u -> u <> [] ->
  find_entity (d_entities d) u = Some (k, p) ->
  let '(d', cfg) := start d rid rkey h in
  c_id cfg = u /\ c_key cfg = k /\ d_uuid d' = Some u /\ d_entities d' = d_entities d.
Proof.
  intros Hu Hne Hf. unfold start. rewrite Hu. destruct u as [|x u']; [congruence|]. cbn [nonempty].
  rewrite Hf. cbn. auto.
Qed.

Lemma find_entity_app_new l n k : find_entity l n = None -> find_entity (l ++ [(n, k, true)]) n = Some (k, true).
Proof.
  induction l as [|[[m km] pm] l IH]; cbn [app find_entity]; intros H.
  - rewrite eqb_bytes_refl. reflexivity.
  - destruct (eqb_bytes m n); [discriminate|]. apply IH. exact H.
Qed.

Lemma first_start_creates d rid rkey h : rid <> [] ->
  let '(d', cfg) := start d rid rkey h in
  exists u k p, d_uuid d' = Some u /\ u <> [] /\ find_entity (d_entities d') u = Some (k, p) /\ c_id cfg = u /\ c_key cfg = k.
Proof.
  intros Hr. unfold start.
  set (id := match nonempty (d_uuid d) with Some u => u | None => rid end).
  assert (Hid : id <> []).
  { unfold id. destruct (d_uuid d) as [[|x u]|]; cbn; auto; discriminate. }
  destruct (find_entity (d_entities d) id) as [[k p]|] eqn:Ef; cbn [fst snd].
  - exists id, k, p. cbn. auto.
  - exists id, rkey, true. cbn [d_uuid d_entities c_id c_key]. repeat split; auto. apply find_entity_app_new. exact Ef.
Qed.

Lemma find_del_other l n m : eqb_bytes n m = false -> find_entity (del_entity l n) m = find_entity l m.
Proof.
  intros H. induction l as [|[[k key] p] l IH]; [reflexivity|]. cbn [del_entity filter fst].
  destruct (eqb_bytes k n) eqn:E; cbn [negb].
  - apply eqb_bytes_eq in E. subst k. cbn [find_entity]. rewrite H. exact IH.
  - cbn [find_entity]. destruct (eqb_bytes k m); [reflexivity|exact IH].
Qed.

Lemma find_app_other l n m k p : eqb_bytes n m = false -> find_entity (l ++ [(n, k, p)]) m = find_entity l m.
Proof.
  intros H. induction l as [|[[k' key] p'] l IH]; cbn [app find_entity].
  - rewrite H. reflexivity.
  - destruct (eqb_bytes k' m); [reflexivity|exact IH].
Qed.

(** histories: restarts (with any structure hash and any random proposals), pairings, unpairings *)
Inductive cop := CStart (rid : bytes) (rkey : N) (h : bytes) | CPair (n : bytes) (k : N) | CUnpair (n : bytes).
Definition cstep (d : disk) (o : cop) : disk :=
  match o with
  | CStart rid rkey h => fst (start d rid rkey h)
  | CPair n k => pair d n k
  | CUnpair n => unpair d n
  end.
Definition touches (u : bytes) (o : cop) : bool :=
  match o with CStart _ _ _ => false | CPair n _ => eqb_bytes n u | CUnpair n => eqb_bytes n u end.

Definition identity (d : disk) (u : bytes) (k : N) : Prop :=
  d_uuid d = Some u /\ u <> [] /\ exists p, find_entity (d_entities d) u = Some (k, p).

Lemma cstep_identity d o u k : identity d u k -> touches u o = false -> identity (cstep d o) u k.
Proof.
  intros (Hu & Hne & p & Hf) Ht. destruct o as [rid rkey h|n kk|n]; cbn [cstep].
  - pose proof (start_keeps_identity d rid rkey h u k p Hu Hne Hf) as H.
    destruct (start d rid rkey h) as [d' cfg]. destruct H as (_ & _ & H1 & H2). cbn [fst].
    split; [exact H1|]. split; [exact Hne|]. exists p. rewrite H2. exact Hf.
  - cbn in Ht. unfold pair, identity. cbn [d_uuid d_entities]. split; [exact Hu|]. split; [exact Hne|].
    exists p. rewrite find_app_other by exact Ht. rewrite find_del_other by exact Ht. exact Hf.
  - cbn in Ht. unfold unpair, identity. cbn [d_uuid d_entities]. split; [exact Hu|]. split; [exact Hne|].
    exists p. rewrite find_del_other by exact Ht. exact Hf.
Qed.

(** C20: across ANY sequence of restarts / pairings / unpairings (not touching the accessory's own
    entity), every restart reports the same device id and key pair *)
Lemma identity_stable : forall ops d u k, identity d u k -> forallb (fun o => negb (touches u o)) ops = true ->
  identity (fold_left cstep ops d) u k /\
  forall pre rid rkey h post, ops = pre ++ CStart rid rkey h :: post ->
    let cfg := snd (start (fold_left cstep pre d) rid rkey h) in c_id cfg = u /\ c_key cfg = k.
Proof.
  induction ops as [|o ops IH]; intros d u k Hi Hall.
  - split; [exact Hi|]. intros pre rid rkey h post E. destruct pre; discriminate.
  - cbn [forallb] in Hall. apply andb_true_iff in Hall. destruct Hall as [Ho Hall]. apply negb_true_iff in Ho.
    pose proof (cstep_identity d o u k Hi Ho) as Hi1.
    destruct (IH (cstep d o) u k Hi1 Hall) as [Hfin Hst]. split; [exact Hfin|].
    intros pre rid rkey h post E. destruct pre as [|o' pre].
    + cbn [app] in E. injection E as -> ->. cbn [fold_left].
      destruct Hi as (Hu & Hne & p & Hf).
      pose proof (start_keeps_identity d rid rkey h u k p Hu Hne Hf) as H.
      destruct (start d rid rkey h) as [d' cfg]. cbn. tauto.
    + cbn [app] in E. injection E as -> ->. cbn [fold_left]. apply (Hst pre rid rkey h post eq_refl).
Qed.

(** the configuration number increases exactly when the structure hash differs from the previous run's *)
Lemma version_rule d rid rkey h :
  let '(d', cfg) := start d rid rkey h in
  d_version d' = Some (c_version cfg) /\ d_hash d' = Some h /\
  c_version cfg = (match d_version d with Some v => v | None => 1 end) +
                  (match nonempty (d_hash d) with Some oh => if eqb_bytes oh h then 0 else 1 | None => 0 end).
Proof.
  unfold start.
  destruct (find_entity (d_entities d) _) as [[k p]|]; cbn [d_version d_hash c_version];
    destruct (nonempty (d_hash d)) as [oh|]; try destruct (eqb_bytes oh h); repeat split; lia.
Qed.

Lemma consecutive_starts d r1 k1 h1 r2 k2 h2 : h1 <> [] ->
  let '(d1, c1) := start d r1 k1 h1 in
  let '(d2, c2) := start d1 r2 k2 h2 in
  c_version c2 = c_version c1 + (if eqb_bytes h1 h2 then 0 else 1).
Proof.
  intros Hh. pose proof (version_rule d r1 k1 h1) as H1.
  destruct (start d r1 k1 h1) as [d1 c1]. destruct H1 as (Hv & Hhash & _).
  pose proof (version_rule d1 r2 k2 h2) as H2. destruct (start d1 r2 k2 h2) as [d2 c2].
  destruct H2 as (_ & _ & H2). rewrite Hv, Hhash in H2. destruct h1; [congruence|]. exact H2.
Qed.

(** discoverable exactly when no controller entity is stored (the accessory's own entity is there) *)
Lemma discoverable_rule d rid rkey h :
  let '(d', cfg) := start d rid rkey h in
  c_discoverable cfg = negb (1 <? N.of_nat (length (d_entities d'))).
Proof. unfold start. destruct (find_entity (d_entities d) _) as [[k p]|]; reflexivity. Qed.

(** the hash input does not depend on characteristic values *)
Scheme ss_mind := Minimality for same_structure Sort Prop
  with sl_mind := Minimality for same_list Sort Prop
  with sm_mind := Minimality for same_members Sort Prop.
Combined Scheme same_mutind from ss_mind, sl_mind, sm_mind.

Lemma strip_ignores_values :
  (forall j j', same_structure j j' -> strip j = strip j') /\
  (forall l l', same_list l l' -> strip_list l = strip_list l') /\
  (forall m m', same_members m m' -> strip_members m = strip_members m').
Proof.
  apply same_mutind; intros; cbn [strip strip_list strip_members]; try congruence.
  - destruct (eqb_bytes k key_value); congruence.
  - rewrite eqb_bytes_refl. assumption.
  - rewrite eqb_bytes_refl. assumption.
Qed.

Lemma config_nonvacuous :
  let d1 := fst (start empty_disk [65] 7 [1]) in
  let d2 := pair d1 [99] 9 in
  let '(d3, c3) := start d2 [66] 8 [2] in
  c_id c3 = [65] /\ c_key c3 = 7 /\ c_version c3 = 2 /\ c_discoverable c3 = false /\
  c_discoverable (snd (start (unpair d3 [99]) [67] 5 [2])) = true /\ c_version (snd (start (unpair d3 [99]) [67] 5 [2])) = 2.
Proof. vm_compute. repeat split; reflexivity. Qed.

(** ---------------- setup code -> setup URI ---------------- *)
Lemma parse_dec_digits : forall s acc, forallb is_digit s = true ->
  exists v, parse_dec s acc = Some v /\ v < (acc + 1) * 10 ^ N.of_nat (length s).
Proof.
  induction s as [|b r IH]; intros acc H.
  - exists acc. split; [reflexivity|]. cbn. lia.
  - cbn [forallb] in H. apply andb_true_iff in H. destruct H as [Hb Hr]. cbn [parse_dec]. rewrite Hb.
    destruct (IH (acc * 10 + (b - 48)) Hr) as (v & Hv & Hlt). exists v. split; [exact Hv|].
    cbn [length]. rewrite Nat2N.inj_succ, N.pow_succ_r'. unfold is_digit in Hb.
    assert (b - 48 <= 9) by lia.
    eapply N.lt_le_trans; [exact Hlt|]. set (P := 10 ^ N.of_nat (length r)).
    replace ((acc + 1) * (10 * P)) with (((acc + 1) * 10) * P) by lia. apply N.mul_le_mono_r. lia.
Qed.

Lemma strip_dashes_digits s : forallb is_digit s = true -> strip_dashes s = s.
Proof.
  unfold strip_dashes. induction s as [|b r IH]; cbn [forallb filter]; intros H; [reflexivity|].
  apply andb_true_iff in H. destruct H as [Hb Hr]. unfold is_digit in Hb.
  destruct (b =? 45) eqn:E; cbn [negb]; [lia|]. rewrite IH by exact Hr. reflexivity.
Qed.

Lemma lor_lt16 a b : a < 16 -> b < 16 -> N.lor a b < 16.
Proof.
  intros Ha Hb. destruct (N.eq_dec a 0) as [->|Na]; [rewrite N.lor_0_l; exact Hb|].
  destruct (N.eq_dec b 0) as [->|Nb]; [rewrite N.lor_0_r; exact Ha|].
  change 16 with (2 ^ 4) in *. apply N.log2_lt_pow2; [|rewrite N.log2_lor].
  - assert (N.lor a b <> 0) by (intros E; apply N.lor_eq_0_iff in E; tauto). lia.
  - apply N.log2_lt_pow2 in Ha; [|lia]. apply N.log2_lt_pow2 in Hb; [|lia]. lia.
Qed.

Lemma merge_flags_lt16 flags : Forall (fun f => f < 16) flags -> merge_flags flags < 16.
Proof.
  unfold merge_flags. assert (H0 : 0 < 16) by lia. revert H0. generalize 0 as acc.
  induction flags as [|f r IH]; intros acc Hacc Hall; cbn [fold_left]; [exact Hacc|].
  inversion Hall; subst. apply IH; [apply lor_lt16; assumption|assumption].
Qed.

(** C20: every accepted setup code yields a setup URI from which an independent decoder recovers
    the code's numeric value, the category, the flags and the setup id *)
Lemma accepted_pin_uri_roundtrip trivial pin f sid cat flags :
  validate_pin trivial pin = Some f -> cat < 256 -> Forall (fun x => x < 16) flags ->
  exists uri code, xhm_of_pin pin sid cat flags = Some uri /\ parse_dec pin 0 = Some code /\ code < 100000000 /\
                   xhm_decode uri = (code, cat, merge_flags flags, sid).
Proof.
  intros Hv Hc Hf. apply validate_pin_spec in Hv. destruct Hv as [(Hl & Hd & _) _].
  destruct (parse_dec_digits pin 0 Hd) as (code & Hp & Hlt). rewrite Hl in Hlt.
  change ((0 + 1) * 10 ^ N.of_nat 8) with 100000000 in Hlt.
  exists (xhm_uri code cat (merge_flags flags) sid), code. unfold xhm_of_pin.
  rewrite strip_dashes_digits by exact Hd. destruct pin as [|b r]; [discriminate|]. rewrite Hp.
  repeat split; auto. apply xhm_roundtrip; [exact Hlt|exact Hc|apply merge_flags_lt16; exact Hf].
Qed.

(** the trivial codes of the HAP specification (R2 §4.2.1.1 / R13 5.6.1): all-equal digits, 12345678, 87654321 *)
Definition hap_trivial_codes : list bytes :=
  map (fun d => repeat (48 + N.of_nat d) 8) (seq 0 10) ++ [[49; 50; 51; 52; 53; 54; 55; 56]; [56; 55; 54; 53; 52; 51; 50; 49]].

Lemma existsb_eqb_bytes_in s l : existsb (eqb_bytes s) l = true <-> In s l.
Proof.
  rewrite existsb_exists. split.
  - intros (x & Hin & He). apply eqb_bytes_eq in He. subst. exact Hin.
  - intros H. exists s. split; [exact H|apply eqb_bytes_refl].
Qed.

Definition subset_b (a b : list bytes) : bool := forallb (fun x => existsb (eqb_bytes x) b) a.
Lemma subset_b_in a b : subset_b a b = true -> forall x, In x a -> In x b.
Proof. unfold subset_b. rewrite forallb_forall. intros H x Hx. apply existsb_eqb_bytes_in. apply H. exact Hx. Qed.

From Coq Require Import String.
From HC Require Import Gen.Extracted Model.Spec.
Open Scope N_scope.
Lemma source_trivial_codes_are_haps :
  subset_b Extracted.invalid_pins hap_trivial_codes = true /\ subset_b hap_trivial_codes Extracted.invalid_pins = true.
Proof. vm_compute. split; reflexivity. Qed.

Lemma pin_accepted_iff s :
  (exists f, validate_pin Extracted.invalid_pins s = Some f) <->
  (List.length s = 8%nat /\ forallb is_digit s = true /\ ~ In s hap_trivial_codes).
Proof.
  destruct source_trivial_codes_are_haps as [S1 S2]. split.
  - intros (f & H). apply validate_pin_spec in H. destruct H as [(Hl & Hd & Ht) _]. repeat split; auto.
    intros Hin. apply (subset_b_in _ _ S2) in Hin. apply existsb_eqb_bytes_in in Hin. congruence.
  - intros (Hl & Hd & Ht). exists (fmt_pin s). apply validate_pin_spec. repeat split; auto.
    destruct (existsb (eqb_bytes s) Extracted.invalid_pins) eqn:E; [|reflexivity].
    apply existsb_eqb_bytes_in in E. apply (subset_b_in _ _ S1) in E. contradiction.
Qed.

(** the constants of the Go source on this run are the ones the model was written with *)
Lemma config_constants_pinned :
  Extracted.pin_length = 8%nat /\ Extracted.pin_digit_test = true /\
  Extracted.xhm_shifts = [4; 8; 4; 27] /\
  Extracted.xhm_fields = [s2b "version&7"; s2b "reserved&15"; s2b "uint64(categoryId)"; s2b "mergedFlags&15"; s2b "code&134217727"]%string /\
  Extracted.xhm_digits = 9%nat /\ Extracted.xhm_base = 36 /\ Extracted.xhm_prefix_src = xhm_prefix /\
  Extracted.xhm_alphabet = map (fun d => b36_digit (N.of_nat d)) (seq 0 36) /\
  Extracted.cfg_load_keys = [s2b "uuid"; s2b "version"; s2b "configHash"]%string /\
  Extracted.cfg_save_keys = Extracted.cfg_load_keys /\
  Extracted.cfg_first_version = 1 /\ Extracted.paired_threshold = 1.
Proof. vm_compute. repeat split; reflexivity. Qed.

(** ---------------- configuration number over whole histories ---------------- *)
Definition ver (d : disk) : N := match d_version d with Some v => v | None => 1 end.
Fixpoint count_changes (prev : option bytes) (ops : list cop) : N :=
  match ops with
  | [] => 0
  | CStart _ _ h :: r => (match prev with Some p => if eqb_bytes p h then 0 else 1 | None => 0 end) + count_changes (Some h) r
  | _ :: r => count_changes prev r
  end.
Definition hashes_nonempty (ops : list cop) : Prop :=
  Forall (fun o => match o with CStart _ _ h => h <> [] | _ => True end) ops.

Lemma version_history : forall ops d, hashes_nonempty ops ->
  ver (fold_left cstep ops d) = ver d + count_changes (nonempty (d_hash d)) ops.
Proof.
  induction ops as [|o ops IH]; intros d Hne; cbn [fold_left count_changes]; [lia|].
  inversion Hne as [|? ? Ho Hr]; subst. rewrite (IH _ Hr). destruct o as [rid rkey h|n k|n]; cbn [cstep].
  - pose proof (version_rule d rid rkey h) as H. destruct (start d rid rkey h) as [d' cfg]. cbn [fst].
    destruct H as (Hv & Hh & Hc). unfold ver at 1. rewrite Hv, Hh, Hc. unfold ver.
    destruct h as [|x h']; [congruence|]. cbn [nonempty]. lia.
  - reflexivity.
  - reflexivity.
Qed.

(** every start reports the configuration number that is on disk afterwards *)
Lemma start_reports_version d rid rkey h : c_version (snd (start d rid rkey h)) = ver (fst (start d rid rkey h)).
Proof. pose proof (version_rule d rid rkey h) as H. destruct (start d rid rkey h) as [d' cfg]. destruct H as (Hv & _). unfold ver. cbn [fst snd]. rewrite Hv. reflexivity. Qed.

(** ---------------- discoverable <-> no controller entity ---------------- *)
Definition names (l : list (bytes * N * bool)) : list bytes := map (fun e => fst (fst e)) l.
Definition good (d : disk) (u : bytes) (k : N) : Prop := identity d u k /\ NoDup (names (d_entities d)).

Lemma find_entity_in l n k p : find_entity l n = Some (k, p) -> In n (names l).
Proof.
  induction l as [|[[m km] pm] l IH]; cbn [find_entity names map fst]; [discriminate|].
  destruct (eqb_bytes m n) eqn:E; [apply eqb_bytes_eq in E; intros _; left; exact E|intros H; right; apply IH; exact H].
Qed.
Lemma find_entity_none l n : find_entity l n = None -> ~ In n (names l).
Proof.
  induction l as [|[[m km] pm] l IH]; cbn [find_entity names map fst]; [tauto|].
  destruct (eqb_bytes m n) eqn:E; [discriminate|]. intros H [Hin|Hin]; [subst; rewrite eqb_bytes_refl in E; discriminate|exact (IH H Hin)].
Qed.

Lemma names_del l n : ~ In n (names (del_entity l n)) /\ (NoDup (names l) -> NoDup (names (del_entity l n))) /\
  (forall m, In m (names (del_entity l n)) -> In m (names l)).
Proof.
  induction l as [|[[m km] pm] l (IH1 & IH2 & IH3)]; cbn [del_entity filter names map fst].
  - repeat split; auto.
  - destruct (eqb_bytes m n) eqn:E; cbn [negb names map fst].
    + split; [exact IH1|]. split; [intros H; inversion H; auto|intros x Hx; right; apply IH3; exact Hx].
    + split; [|split].
      * intros [H|H]; [subst; rewrite eqb_bytes_refl in E; discriminate|exact (IH1 H)].
      * intros H. inversion H; subst. constructor; [intros Hin; apply IH3 in Hin; contradiction|apply IH2; assumption].
      * intros x [Hx|Hx]; [left; exact Hx|right; apply IH3; exact Hx].
Qed.

Lemma names_app l e : names (l ++ [e]) = names l ++ [fst (fst e)].
Proof. unfold names. rewrite map_app. reflexivity. Qed.

Lemma nodup_snoc {A} (l : list A) x : NoDup l -> ~ In x l -> NoDup (l ++ [x]).
Proof.
  induction l as [|a l IH]; cbn; intros Hn Hx; [repeat constructor; auto|].
  inversion Hn; subst. constructor.
  - intros Hin. apply in_app_or in Hin. destruct Hin as [Hin|[E|[]]]; [auto|subst; apply Hx; left; reflexivity].
  - apply IH; [assumption|intros H; apply Hx; right; exact H].
Qed.

Lemma cstep_good d o u k : good d u k -> touches u o = false -> good (cstep d o) u k.
Proof.
  intros [Hi Hn] Ht. split; [apply cstep_identity; assumption|].
  destruct o as [rid rkey h|n kk|n]; cbn [cstep].
  - destruct Hi as (Hu & Hne & p & Hf). pose proof (start_keeps_identity d rid rkey h u k p Hu Hne Hf) as H.
    destruct (start d rid rkey h) as [d' cfg]. destruct H as (_ & _ & _ & H2). cbn [fst]. rewrite H2. exact Hn.
  - unfold pair. cbn [d_entities]. rewrite names_app. cbn [fst]. destruct (names_del (d_entities d) n) as (A & B & _).
    apply nodup_snoc; auto.
  - unfold unpair. cbn [d_entities]. apply (names_del (d_entities d) n). exact Hn.
Qed.

Lemma good_history : forall ops d u k, good d u k -> forallb (fun o => negb (touches u o)) ops = true ->
  good (fold_left cstep ops d) u k.
Proof.
  induction ops as [|o ops IH]; intros d u k Hg Hall; cbn [fold_left]; [exact Hg|].
  cbn [forallb] in Hall. apply andb_true_iff in Hall. destruct Hall as [Ho Hall]. apply negb_true_iff in Ho.
  apply IH; [apply cstep_good; assumption|exact Hall].
Qed.

Lemma nodup_all_equal {A} (l : list A) u : NoDup l -> (forall x, In x l -> x = u) -> (List.length l <= 1)%nat.
Proof.
  intros Hn Hall. destruct l as [|a [|b r]]; cbn; try lia.
  assert (a = u) by (apply Hall; cbn; auto). assert (b = u) by (apply Hall; cbn; auto). subst.
  inversion Hn as [|? ? Hni _]. exfalso. apply Hni. left. reflexivity.
Qed.

(** in every state with the accessory's own entity, the advertised flag says "discoverable" exactly
    when no other (controller) entity is stored *)
Lemma discoverable_iff_unpaired d u k : good d u k ->
  (discoverable_now d = true <-> forall n, In n (names (d_entities d)) -> n = u).
Proof.
  intros [(Hu & Hne & p & Hf) Hn]. unfold discoverable_now. pose proof (find_entity_in _ _ _ _ Hf) as Hin.
  assert (Hlen : List.length (names (d_entities d)) = List.length (d_entities d)) by apply map_length.
  split.
  - intros H. apply negb_true_iff in H. assert (Hl : (List.length (names (d_entities d)) <= 1)%nat) by lia.
    destruct (names (d_entities d)) as [|a [|b r]]; [destruct Hin| |cbn in Hl; lia].
    intros n [E|[]]. destruct Hin as [E2|[]]. congruence.
  - intros Hall. pose proof (nodup_all_equal _ u Hn Hall). apply negb_true_iff. lia.
Qed.

Lemma start_discoverable_is_now d rid rkey h :
  c_discoverable (snd (start d rid rkey h)) = discoverable_now (fst (start d rid rkey h)).
Proof. pose proof (discoverable_rule d rid rkey h) as H. destruct (start d rid rkey h) as [d' cfg]. exact H. Qed.

(** first start on empty storage establishes [good] *)
Lemma first_start_good rid rkey h : rid <> [] ->
  good (fst (start empty_disk rid rkey h)) rid rkey.
Proof.
  intros Hr. unfold start, empty_disk, good, identity. cbn. rewrite eqb_bytes_refl.
  repeat split; auto; [exists true; reflexivity|repeat constructor; auto].
Qed.

(** without the premise of [identity_stable]: a controller that pairs under the accessory's own
    device id replaces the accessory's entity; the key pair is gone at the next start and the
    flag says "discoverable" although a pairing is stored *)
Lemma identity_lost_when_own_name_is_paired :
  let d1 := fst (start empty_disk [65] 7 [1]) in
  let d2 := pair d1 [65] 9 in
  let '(d3, c3) := start d2 [66] 8 [1] in
  identity d1 [65] 7 /\ touches [65] (CPair [65] 9) = true /\
  c_id c3 = [65] /\ c_key c3 = 9 /\ c_discoverable c3 = true /\ d_entities d3 = [([65], 9, false)].
Proof.
  cbv zeta. split.
  - unfold identity. vm_compute. split; [reflexivity|split; [discriminate|exists true; reflexivity]].
  - vm_compute. repeat split; reflexivity.
Qed.

(** ---------------- a start killed while rewriting its files ---------------- *)
Definition ver_after_restart (order : list cfgkey) (n : nat) (d : disk) (h : bytes) : N :=
  c_version (snd (start (start_interrupted order n d [66] 8 h) [67] 9 h)).

(** with the order in which the Go source writes the files (read from config.go on this run), a
    start with a changed structure that is killed after ANY number of completed file writes, and
    then repeated, yields a configuration number greater than the one before the change *)
Lemma interrupted_start_still_increases : forall n d oh h v,
  order_of Extracted.cfg_save_keys = [KUuid; KVersion; KHash] ->
  d_hash d = Some oh -> oh <> [] -> h <> [] -> eqb_bytes oh h = false -> d_version d = Some v ->
  v < ver_after_restart (order_of Extracted.cfg_save_keys) n d h.
Proof.
  intros n d oh h v -> Hh Hoh Hne Hdiff Hv. unfold ver_after_restart, start_interrupted.
  pose proof (version_rule d [66] 8 h) as Hr. destruct (start d [66] 8 h) as [d' cfg]. destruct Hr as (_ & _ & Hc).
  rewrite Hv, Hh in Hc. destruct oh as [|o0 oh']; [congruence|]. cbn [nonempty] in Hc. rewrite Hdiff in Hc.
  destruct h as [|h0 h']; [congruence|].
  destruct n as [|[|[|n]]]; cbn [firstn]; rewrite ?firstn_nil; cbn [fold_left save_one].
  - match goal with |- _ < c_version (snd (start ?dd _ _ _)) => pose proof (version_rule dd [67] 9 (h0 :: h')) as H2; destruct (start dd [67] 9 (h0 :: h')) as [d2 c2] end.
    destruct H2 as (_ & _ & H2). cbn [d_version d_hash snd] in *. rewrite Hv, Hh in H2. cbn [nonempty] in H2. rewrite Hdiff in H2. lia.
  - match goal with |- _ < c_version (snd (start ?dd _ _ _)) => pose proof (version_rule dd [67] 9 (h0 :: h')) as H2; destruct (start dd [67] 9 (h0 :: h')) as [d2 c2] end.
    destruct H2 as (_ & _ & H2). cbn [d_version d_hash snd] in *. rewrite Hv, Hh in H2. cbn [nonempty] in H2. rewrite Hdiff in H2. lia.
  - match goal with |- _ < c_version (snd (start ?dd _ _ _)) => pose proof (version_rule dd [67] 9 (h0 :: h')) as H2; destruct (start dd [67] 9 (h0 :: h')) as [d2 c2] end.
    destruct H2 as (_ & _ & H2). cbn [d_version d_hash snd] in *. rewrite Hh in H2. cbn [nonempty] in H2. rewrite Hdiff in H2. lia.
  - match goal with |- _ < c_version (snd (start ?dd _ _ _)) => pose proof (version_rule dd [67] 9 (h0 :: h')) as H2; destruct (start dd [67] 9 (h0 :: h')) as [d2 c2] end.
    destruct H2 as (_ & _ & H2). cbn [d_version d_hash snd] in *. cbn [nonempty] in H2. rewrite eqb_bytes_refl in H2. lia.
Qed.

Lemma source_save_order : order_of Extracted.cfg_save_keys = [KUuid; KVersion; KHash].
Proof. vm_compute. reflexivity. Qed.

(** writing the hash first loses the increase when the kill comes right after it *)
Lemma hash_first_loses_the_increase :
  let d := fst (start empty_disk [65] 7 [1]) in
  d_version d = Some 1 /\ ver_after_restart [KHash; KUuid; KVersion] 1 d [2] = 1 /\
  ver_after_restart [KUuid; KVersion; KHash] 1 d [2] = 2.
Proof. vm_compute. repeat split; reflexivity. Qed.

(** ---------------- a first start that ends early ---------------- *)
Lemma source_first_start_order :
  fsteps_of (order_of Extracted.cfg_save_keys) Extracted.transport_start_steps = [FUuid; FDevice; FUuid; FVersion; FHash].
Proof. vm_compute. reflexivity. Qed.

(** wherever the first start ended: the next (complete) start finds or creates ONE entity, the
    accessory's own, and announces the accessory as discoverable *)
Lemma first_start_cut_recovers : forall order n rid rkey h rid2 rkey2 h2,
  order = [FUuid; FDevice; FUuid; FVersion; FHash] -> rid <> [] -> rid2 <> [] ->
  let r := start (first_start_cut order n rid rkey h) rid2 rkey2 h2 in
  List.length (d_entities (fst r)) = 1%nat /\ c_discoverable (snd r) = true /\
  (0 < n -> c_id (snd r) = rid)%nat.
Proof.
  intros order n rid rkey h rid2 rkey2 h2 -> Hr Hr2.
  destruct rid as [|a0 rid']; [congruence|]. destruct rid2 as [|b0 rid2']; [congruence|].
  unfold first_start_cut.
  destruct n as [|[|[|[|[|n]]]]]; cbn [firstn fold_left fstep_apply empty_disk find_entity d_entities d_uuid d_version d_hash app];
    rewrite ?firstn_nil; cbn [fold_left];
    unfold start; cbn [nonempty d_uuid d_entities d_version d_hash find_entity app fst snd c_discoverable c_id];
    rewrite ?eqb_bytes_refl; cbn [find_entity app List.length fst snd c_discoverable c_id d_entities];
    rewrite ?eqb_bytes_refl; cbn [List.length d_entities fst snd c_discoverable c_id];
    repeat split; try reflexivity; try (intros; lia).
Qed.

(** with the id written last (as the pinned code did) a start that ended after the entity was saved
    leaves a second entity behind: the accessory is announced as NOT discoverable although no
    controller was ever paired *)
Lemma id_last_refuted :
  let r := start (first_start_cut [FDevice; FUuid; FVersion; FHash] 1 [65] 7 [1]) [66] 8 [1] in
  List.length (d_entities (fst r)) = 2%nat /\ c_discoverable (snd r) = false.
Proof. vm_compute. split; reflexivity. Qed.
