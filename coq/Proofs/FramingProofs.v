From HC Require Import Base.HBytes Base.HBytesProofs Base.ChaChaPoly Base.ChaChaPolyProofs Gen.Extracted Model.Framing.
From Coq Require Import ZifyBool ZifyNat ZifyN.

(** ---------- readers and the packetiser ---------- *)
Lemma rd_read_spec r n : rd_wf r -> (0 < n)%nat ->
  let '(got, r') := rd_read r n in
  got = firstn (length got) (concat r) /\ concat r' = skipn (length got) (concat r) /\
  (length got <= n)%nat /\ rd_wf r' /\ (r <> [] -> got <> []) /\ (length r' <= length r)%nat /\
  (length (concat r') + length got = length (concat r))%nat.
Proof.
  intros Hwf Hn. destruct r as [|p r']; cbn [rd_read].
  - repeat split; simpl; auto; try lia; try constructor.
  - inversion Hwf as [|? ? Hp Hr]; subst.
    destruct (Nat.leb_spec (length p) n) as [Hle|Hgt]; cbn [concat].
    + split; [|split; [|split; [|split; [|split; [|split]]]]].
      * rewrite firstn_app, Nat.sub_diag, firstn_all. simpl. rewrite app_nil_r. reflexivity.
      * rewrite skipn_app, skipn_all, Nat.sub_diag. reflexivity.
      * exact Hle.
      * exact Hr.
      * intros _. exact Hp.
      * simpl. lia.
      * rewrite app_length. lia.
    + assert (Hl : length (firstn n p) = n) by (rewrite firstn_length; lia).
      rewrite Hl.
      split; [|split; [|split; [|split; [|split; [|split]]]]].
      * rewrite firstn_app. replace (n - length p)%nat with 0%nat by lia. simpl. rewrite app_nil_r. reflexivity.
      * rewrite skipn_app. replace (n - length p)%nat with 0%nat by lia. reflexivity.
      * lia.
      * constructor; [|exact Hr]. intros E. apply (f_equal (@length N)) in E. rewrite skipn_length in E. simpl in E. lia.
      * intros _ E. rewrite E in Hl. simpl in Hl. lia.
      * simpl. lia.
      * rewrite !app_length, skipn_length. lia.
Qed.

Lemma read_full_spec : forall fuel r n, rd_wf r -> (length r < fuel)%nat ->
  let '(got, r') := read_full fuel r n in
  got = firstn n (concat r) /\ concat r' = skipn n (concat r) /\ rd_wf r'.
Proof.
  induction fuel as [|f IH]; intros r n Hwf Hf; [lia|].
  cbn [read_full]. destruct n as [|n'].
  - cbn. auto.
  - destruct r as [|p rr].
    + cbn. repeat split; constructor.
    + remember (S n') as n eqn:En. assert (Hn : (0 < n)%nat) by lia.
      pose proof (rd_read_spec (p :: rr) n Hwf Hn) as Hs.
      destruct (rd_read (p :: rr) n) as [got r1] eqn:E1.
      destruct Hs as (Hg & Hc & Hl & Hw1 & Hne & Hlen & Hsum).
      assert (Hgot : got <> []) by (apply Hne; discriminate).
      destruct (Nat.eq_dec (length got) n) as [Heq|Hneq].
      * (* buffer filled in one go *)
        rewrite Heq, Nat.sub_diag.
        destruct f as [|f']; cbn [read_full].
        -- rewrite app_nil_r. rewrite <- Heq at 1. repeat split; auto. rewrite <- Heq. exact Hc.
        -- destruct r1; rewrite app_nil_r; rewrite <- Heq at 1; repeat split; auto; rewrite <- Heq; exact Hc.
      * (* short piece: the whole head piece was consumed, so r1 = rr *)
        assert (Hr1 : (length r1 < f)%nat).
        { cbn [rd_read] in E1. destruct (Nat.leb_spec (length p) n).
          - injection E1 as <- <-. simpl in Hf. lia.
          - injection E1 as <- <-. rewrite firstn_length in Hneq. lia. }
        specialize (IH r1 (n - length got)%nat Hw1 Hr1).
        destruct (read_full f r1 (n - length got)) as [more r2].
        destruct IH as (Hm & Hc2 & Hw2).
        repeat split; auto.
        -- rewrite Hm, Hc.
           assert (Hlg : (length got <= length (concat (p :: rr)))%nat) by lia.
           assert (Hgn : (length got <= n)%nat) by lia.
           rewrite Hg at 1.
           rewrite <- (firstn_skipn (length got) (concat (p :: rr))) at 3.
           rewrite firstn_app, firstn_firstn, firstn_length.
           rewrite (Nat.min_l (length got) (length (concat (p :: rr)))) by exact Hlg.
           rewrite (Nat.min_r n (length got)) by exact Hgn. reflexivity.
        -- rewrite Hc2, Hc. rewrite skipn_skipn_add. f_equal. lia.
Qed.

Lemma packets_fuel_spec : forall fuel r, rd_wf r -> (length (concat r) < fuel)%nat ->
  packets_fuel fuel r = chunks frame_max (concat r).
Proof.
  induction fuel as [|f IH]; intros r Hwf Hf; [lia|].
  cbn [packets_fuel].
  pose proof (read_full_spec (S (length r)) r frame_max Hwf (Nat.lt_succ_diag_r _)) as Hs.
  destruct (read_full (S (length r)) r frame_max) as [p r'].
  destruct Hs as (Hp & Hc & Hw).
  assert (Hfm : (0 < frame_max)%nat) by (unfold frame_max; lia).
  destruct (concat r) as [|x l] eqn:Ec.
  - rewrite firstn_nil in Hp. subst p. reflexivity.
  - rewrite <- Ec in *. assert (Hne : concat r <> []) by (rewrite Ec; discriminate).
    rewrite chunks_step by assumption. rewrite <- Hp.
    destruct p as [|y p'] eqn:Ep.
    { exfalso. rewrite Ec in Hp. unfold frame_max in Hp. simpl in Hp. discriminate. }
    rewrite <- Ep in *.
    destruct (Nat.ltb_spec (length p) frame_max) as [Hlt|Hge].
    + assert (Hall : (length (concat r) < frame_max)%nat).
      { rewrite Hp in Hlt. rewrite firstn_length in Hlt. lia. }
      rewrite skipn_all2 by lia. rewrite chunks_nil. reflexivity.
    + f_equal. rewrite <- Hc. apply IH; [exact Hw|].
      rewrite Hc, skipn_length. rewrite Hp, firstn_length in Hge. lia.
Qed.

Lemma packets_spec r : rd_wf r -> packets r = chunks frame_max (concat r).
Proof. intros H. apply packets_fuel_spec; [exact H|lia]. Qed.

(** the pinned packetiser loses data with a reader that returns one byte per call *)
Lemma packets_pinned_onebyte :
  packets_pinned [[104]; [101]; [108]; [108]; [111]] = [[104]] /\
  packets [[104]; [101]; [108]; [108]; [111]] = [[104; 101; 108; 108; 111]].
Proof. split; vm_compute; reflexivity. Qed.

(** ---------- Encrypt / Decrypt over any AEAD satisfying open∘seal = id ---------- *)
Section AEADProofs.
  Variable seal : bytes -> bytes -> bytes -> bytes -> bytes * bytes.
  Variable open : bytes -> bytes -> bytes -> bytes -> bytes -> option bytes.
  Hypothesis open_seal : forall k n a p, open k n a (fst (seal k n a p)) (snd (seal k n a p)) = Some p.
  Hypothesis seal_len : forall k n a p,
    length (fst (seal k n a p)) = length p /\ length (snd (seal k n a p)) = 16%nat.

  Lemma aad_of_shape p : (length p <= 1024)%nat ->
    exists l0 l1, aad_of p = [l0; l1] /\ N.to_nat (l0 + 256 * l1) = length p.
  Proof.
    intros H. unfold aad_of. cbn [le_bytes].
    exists (N.of_nat (length p) mod 256), (N.of_nat (length p) / 256 mod 256).
    split; [reflexivity|].
    set (x := N.of_nat (length p)). assert (Hx : x < 65536) by (unfold x; lia).
    assert (x / 256 < 256) by (apply N.div_lt_upper_bound; lia).
    rewrite (N.mod_small (x / 256) 256) by assumption.
    pose proof (N.div_mod x 256). unfold x in *. lia.
  Qed.

  Lemma decrypt_step f key ctr p tl acc : (length p <= frame_max)%nat ->
    decrypt_fuel open (S f) key ctr (frame seal key ctr p ++ tl) acc =
    if (length p <? frame_max)%nat then DOk (acc ++ p) ((ctr + 1) mod m64n) tl
    else decrypt_fuel open f key ((ctr + 1) mod m64n) tl (acc ++ p).
  Proof.
    intros Hp. unfold frame.
    destruct (seal key (nonce_of ctr) (aad_of p) p) as [ct tag] eqn:Es.
    pose proof (open_seal key (nonce_of ctr) (aad_of p) p) as Hos. rewrite Es in Hos. cbn [fst snd] in Hos.
    pose proof (seal_len key (nonce_of ctr) (aad_of p) p) as [Hl1 Hl2]. rewrite Es in Hl1, Hl2. cbn [fst snd] in Hl1, Hl2.
    destruct (aad_of_shape p) as (l0 & l1 & Ha & Hlen); [unfold frame_max in Hp; exact Hp|].
    rewrite Ha in *. cbn [app decrypt_fuel]. rewrite Hlen.
    rewrite <- !app_assoc.
    assert (Hlt : (length (ct ++ tag ++ tl) <? length p + 16)%nat = false).
    { apply Nat.ltb_ge. rewrite !app_length. lia. }
    rewrite Hlt.
    rewrite <- Hl1 at 1 2 3.
    rewrite firstn_app, firstn_all, Nat.sub_diag, firstn_O, app_nil_r.
    rewrite skipn_app, skipn_all, Nat.sub_diag. cbn [skipn app].
    rewrite <- Hl2 at 1.
    rewrite firstn_app, firstn_all, Nat.sub_diag, firstn_O, app_nil_r.
    replace (length p + 16)%nat with (length ct + length tag)%nat by lia.
    rewrite app_assoc. rewrite skipn_app. rewrite <- app_length. rewrite skipn_all, Nat.sub_diag. cbn [skipn app].
    rewrite Hos. rewrite Hl1. reflexivity.
  Qed.

  (** encrypt of the chunk list, as wire bytes and final counter *)
  Lemma encrypt_packets_app key : forall ps ctr qs,
    encrypt_packets seal key ctr (ps ++ qs) =
    let '(w1, c1) := encrypt_packets seal key ctr ps in
    let '(w2, c2) := encrypt_packets seal key c1 qs in (w1 ++ w2, c2).
  Proof.
    induction ps as [|p ps IH]; intros ctr qs; cbn [app encrypt_packets].
    - destruct (encrypt_packets seal key ctr qs); reflexivity.
    - rewrite IH. destruct (encrypt_packets seal key ((ctr + 1) mod m64n) ps) as [w1 c1].
      destruct (encrypt_packets seal key c1 qs) as [w2 c2]. rewrite app_assoc. reflexivity.
  Qed.

  (** a message = full chunks followed by at most one short chunk; Decrypt of its wire bytes
      followed by anything [tl] (when the last chunk is short) or by nothing releases it *)
  Lemma decrypt_message key : forall full ctr acc fuel lastp tl,
    Forall (fun p => length p = frame_max) full ->
    (length full < fuel)%nat ->
    (match lastp with
     | Some l => (length l < frame_max)%nat
     | None => tl = [] end) ->
    let ps := full ++ match lastp with Some l => [l] | None => [] end in
    let '(w, c) := encrypt_packets seal key ctr ps in
    decrypt_fuel open fuel key ctr (w ++ tl) acc = DOk (acc ++ concat ps) c tl.
  Proof.
    induction full as [|p full IH]; intros ctr acc fuel lastp tl Hfull Hfuel Hlast; cbn zeta.
    - cbn [app]. destruct lastp as [l|].
      + cbn [encrypt_packets]. destruct fuel as [|f]; [lia|].
        rewrite <- app_assoc. cbn [app]. rewrite decrypt_step by lia.
        apply Nat.ltb_lt in Hlast. rewrite Hlast. cbn [concat]. rewrite app_nil_r. reflexivity.
      + subst tl. cbn [encrypt_packets app concat]. destruct fuel; [lia|]. cbn [decrypt_fuel].
        rewrite app_nil_r. reflexivity.
    - inversion Hfull as [|? ? Hp Hf']; subst. cbn [app encrypt_packets].
      specialize (IH ((ctr + 1) mod m64n) (acc ++ p) (pred fuel) lastp tl Hf').
      cbn zeta in IH.
      destruct (encrypt_packets seal key ((ctr + 1) mod m64n)
                  (full ++ match lastp with Some l => [l] | None => [] end)) as [w c] eqn:Ew.
      destruct fuel as [|f]; [simpl in Hfuel; lia|]. cbn [pred] in IH.
      rewrite <- app_assoc. rewrite decrypt_step by lia.
      rewrite Hp, Nat.ltb_irrefl. rewrite IH; [|simpl in Hfuel; lia|exact Hlast].
      cbn [concat]. rewrite app_assoc. reflexivity.
  Qed.
End AEADProofs.

Lemma chunks_shape {A} n (l : list A) : (0 < n)%nat ->
  exists full lastp, chunks n l = full ++ match lastp with Some x => [x] | None => [] end /\
    Forall (fun p => length p = n) full /\
    match lastp with Some x => (length x < n)%nat | None => True end.
Proof.
  intros Hn. destruct (rev_ind (fun x => x = [] \/ exists cs c0, x = cs ++ [c0]) (or_introl eq_refl)
     (fun c0 cs _ => or_intror (ex_intro _ cs (ex_intro _ c0 eq_refl))) (chunks n l)) as [E|(cs & c0 & E)].
  - rewrite E. exists [], None. repeat split; constructor.
  - rewrite E. destruct (chunks_full_but_last n Hn (length l) l (le_n _) _ _ E) as [Hf Hc].
    pose proof (chunks_len n l) as Hlen. rewrite E in Hlen. apply Forall_app in Hlen.
    destruct Hlen as [_ Hl]. inversion Hl as [|? ? Hle _]; subst.
    destruct (Nat.eq_dec (length c0) n) as [Heq|Hneq].
    + exists (cs ++ [c0]), None. rewrite app_nil_r. repeat split; auto.
      apply Forall_app. split; [exact Hf|constructor; [exact Heq|constructor]].
    + exists cs, (Some c0). repeat split; auto. lia.
Qed.

Section AEADProofs2.
  Variable seal : bytes -> bytes -> bytes -> bytes -> bytes * bytes.
  Variable open : bytes -> bytes -> bytes -> bytes -> bytes -> option bytes.
  Hypothesis open_seal : forall k n a p, open k n a (fst (seal k n a p)) (snd (seal k n a p)) = Some p.
  Hypothesis seal_len : forall k n a p,
    length (fst (seal k n a p)) = length p /\ length (snd (seal k n a p)) = 16%nat.

  Lemma encrypt_packets_length key : forall ps ctr,
    (length ps <= length (fst (encrypt_packets seal key ctr ps)))%nat.
  Proof.
    induction ps as [|p ps IH]; intros ctr; cbn [encrypt_packets]; [simpl; lia|].
    specialize (IH ((ctr + 1) mod m64n)).
    destruct (encrypt_packets seal key ((ctr + 1) mod m64n) ps) as [w c]. cbn [fst] in *.
    rewrite app_length. unfold frame. destruct (seal key (nonce_of ctr) (aad_of p) p).
    rewrite app_length. unfold aad_of. rewrite le_bytes_length. simpl. lia.
  Qed.

  (** C06 round trip, any payload length, any counter *)
  Lemma roundtrip_payload key ctr payload :
    let '(w, c) := encrypt_packets seal key ctr (chunks frame_max payload) in
    decrypt open key ctr w = DOk payload c [].
  Proof.
    assert (Hfm : (0 < frame_max)%nat) by (unfold frame_max; lia).
    destruct (chunks_shape frame_max payload Hfm) as (full & lastp & Hch & Hfull & Hlast).
    pose proof (chunks_concat frame_max payload Hfm) as Hcat.
    pose proof (encrypt_packets_length key (chunks frame_max payload) ctr) as Hlen.
    rewrite Hch in *.
    pose proof (decrypt_message seal open open_seal seal_len key full ctr [] 
                  (S (length (fst (encrypt_packets seal key ctr
                     (full ++ match lastp with Some x => [x] | None => [] end))))) lastp [] Hfull) as H.
    cbn zeta in H.
    destruct (encrypt_packets seal key ctr (full ++ match lastp with Some x => [x] | None => [] end)) as [w c] eqn:Ew.
    cbn [fst] in *. unfold decrypt. rewrite app_nil_r in H. cbn [app] in H.
    rewrite Hcat in H. apply H.
    - rewrite app_length in Hlen. lia.
    - destruct lastp; [exact Hlast|reflexivity].
  Qed.

  (** ---------- C05: whatever the input stream, accepted frames are the sent ones ---------- *)
  Definition matches (a : accepted) (s : sealed) : Prop :=
    a_ctr a = s_ctr s /\ a_aad a = s_aad s /\ a_ct a = s_ct s /\ a_tag a = s_tag s.

  (** a forgery event: the receiver's [open] accepted, at stream position i, a frame that is not
      the i-th frame the peer sealed (or the peer sealed fewer than i+1 frames) *)
  Definition forgery (acc : list accepted) (sent : list sealed) : Prop :=
    exists i a, nth_error acc i = Some a /\
      match nth_error sent i with Some s => ~ matches a s | None => True end.

  Lemma matches_dec a s : {matches a s} + {~ matches a s}.
  Proof.
    unfold matches.
    destruct (N.eq_dec (a_ctr a) (s_ctr s)); [|right; tauto].
    destruct (list_eq_dec N.eq_dec (a_aad a) (s_aad s)); [|right; tauto].
    destruct (list_eq_dec N.eq_dec (a_ct a) (s_ct s)); [|right; tauto].
    destruct (list_eq_dec N.eq_dec (a_tag a) (s_tag s)); [|right; tauto].
    left; tauto.
  Qed.

  Lemma sealed_frames_ctr key : forall ps ctr s i,
    nth_error (sealed_frames seal key ctr ps) i = Some s ->
    open key (nonce_of (s_ctr s)) (s_aad s) (s_ct s) (s_tag s) = Some (s_pt s).
  Proof.
    induction ps as [|p ps IH]; intros ctr s i H; [destruct i; discriminate|].
    cbn [sealed_frames] in H.
    destruct (seal key (nonce_of ctr) (aad_of p) p) as [ct tag] eqn:Es.
    destruct i as [|i]; cbn [nth_error] in H.
    - injection H as <-. cbn. pose proof (open_seal key (nonce_of ctr) (aad_of p) p) as Ho.
      rewrite Es in Ho. exact Ho.
    - eapply IH. exact H.
  Qed.

  Lemma recv_sound key : forall fuel ctr ps r acc st,
    (length r < fuel)%nat ->
    recv_fuel open fuel key ctr r = (acc, st) ->
    forgery acc (sealed_frames seal key ctr ps) \/
    exists j rest,
      (j <= length ps)%nat /\
      map a_pt acc = firstn j ps /\
      r = wire_of (firstn j (sealed_frames seal key ctr ps)) ++ rest /\
      (st = RClean -> rest = []) /\
      (rest <> [] -> exists c, st = RError c).
  Proof.
    clear seal_len.
    induction fuel as [|f IH]; intros ctr ps r acc st Hf H; [lia|].
    cbn [recv_fuel] in H.
    destruct r as [|l0 [|l1 rest]].
    - injection H as <- <-. right. exists 0%nat, []. cbn. repeat split; auto; try lia. intros []; reflexivity.
    - injection H as <- <-. right. exists 0%nat, [l0]. cbn. repeat split; auto; try lia; try discriminate. eauto.
    - set (len := N.to_nat (l0 + 256 * l1)) in *.
      destruct (Nat.ltb_spec (length rest) (len + 16)) as [Hshort|Hlong].
      { injection H as <- <-. right. exists 0%nat, (l0 :: l1 :: rest). cbn. repeat split; auto; try lia; try discriminate. eauto. }
      destruct (open key (nonce_of ctr) [l0; l1] (firstn len rest) (firstn 16 (skipn len rest))) as [pt|] eqn:Eo.
      2:{ injection H as <- <-. right. exists 0%nat, (l0 :: l1 :: rest). cbn. repeat split; auto; try lia; try discriminate. eauto. }
      destruct (recv_fuel open f key ((ctr + 1) mod m64n) (skipn (len + 16) rest)) as [more st'] eqn:Er.
      injection H as <- <-.
      set (a := mkAcc ctr [l0; l1] (firstn len rest) (firstn 16 (skipn len rest)) pt).
      (* split the input at the parsed frame *)
      assert (Hsplit : rest = firstn len rest ++ firstn 16 (skipn len rest) ++ skipn (len + 16) rest).
      { rewrite <- (firstn_skipn len rest) at 1. f_equal.
        rewrite <- (firstn_skipn 16 (skipn len rest)) at 1. f_equal.
        rewrite skipn_skipn_add. reflexivity. }
      destruct ps as [|p ps'].
      + left. exists 0%nat, a. cbn. auto.
      + cbn [sealed_frames].
        destruct (seal key (nonce_of ctr) (aad_of p) p) as [ct tag] eqn:Es.
        set (s := mkSealed ctr (aad_of p) ct tag p).
        destruct (matches_dec a s) as [Hm|Hnm].
        * (* the genuine next frame: continue by induction *)
          destruct Hm as (_ & Ha & Hc & Ht). unfold a, s in Ha, Hc, Ht. cbn [a_aad a_ct a_tag s_aad s_ct s_tag] in Ha, Hc, Ht.
          assert (Hpt : pt = p).
          { pose proof (open_seal key (nonce_of ctr) (aad_of p) p) as Ho. rewrite Es in Ho. cbn [fst snd] in Ho.
            rewrite Ha, Hc, Ht in Eo. rewrite Eo in Ho. congruence. }
          assert (Hf' : (length (skipn (len + 16) rest) < f)%nat).
          { rewrite skipn_length. simpl in Hf. lia. }
          destruct (IH ((ctr + 1) mod m64n) ps' _ _ _ Hf' Er) as [Hforge|(j & rest' & Hj & Hmap & Hr & Hcl & Herr)].
          -- left. destruct Hforge as (i & a' & Hn & Hbad). exists (S i), a'. cbn [nth_error]. auto.
          -- right. exists (S j), rest'. unfold wire_of in *. cbn [firstn map length flat_map].
             split; [lia|]. split; [rewrite Hpt, Hmap; reflexivity|]. split; [|split; assumption].
             unfold s. cbn [s_aad s_ct s_tag]. rewrite <- Ha, <- Hc, <- Ht.
             rewrite <- !app_assoc. cbn [app]. f_equal. f_equal.
             rewrite Hsplit at 1. f_equal. f_equal. exact Hr.
        * left. exists 0%nat, a. cbn. auto.
  Qed.
End AEADProofs2.

(** ---------- the code's receive loop releases a frame-prefix of what [recv] accepts ---------- *)
Section StreamLink.
  Variable open : bytes -> bytes -> bytes -> bytes -> bytes -> option bytes.

  Lemma recv_fuel_more key : forall f1 f2 ctr r, (length r < f1)%nat -> (length r < f2)%nat ->
    recv_fuel open f1 key ctr r = recv_fuel open f2 key ctr r.
  Proof.
    induction f1 as [|f1 IH]; intros f2 ctr r H1 H2; [lia|]. destruct f2 as [|f2]; [lia|].
    cbn [recv_fuel]. destruct r as [|l0 [|l1 rest]]; try reflexivity.
    destruct (Nat.ltb_spec (length rest) (N.to_nat (l0 + 256 * l1) + 16)); [reflexivity|].
    destruct (open key (nonce_of ctr) [l0; l1] _ _); [|reflexivity].
    rewrite (IH f2); [reflexivity| |]; rewrite skipn_length; simpl in *; lia.
  Qed.

  Lemma decrypt_fuel_vs_recv key : forall fuel ctr inp acc,
    (length inp < fuel)%nat ->
    let '(accs, st) := recv_fuel open fuel key ctr inp in
    match decrypt_fuel open fuel key ctr inp acc with
    | DOk pt ctr' rest =>
        exists k, (k <= length accs)%nat /\ pt = acc ++ concat (map a_pt (firstn k accs)) /\
                  recv open key ctr' rest = (skipn k accs, st) /\
                  (length rest <= length inp)%nat /\ (inp <> [] -> (length rest < length inp)%nat)
    | DErr c _ => exists c', st = RError c'
    end.
  Proof.
    induction fuel as [|f IH]; intros ctr inp acc Hf; [lia|].
    cbn [recv_fuel decrypt_fuel].
    destruct inp as [|l0 [|l1 rest]].
    - exists 0%nat. cbn. rewrite app_nil_r. repeat split; auto. intros []; reflexivity.
    - eauto.
    - set (len := N.to_nat (l0 + 256 * l1)).
      destruct (Nat.ltb_spec (length rest) (len + 16)) as [Hs|Hl]; [eauto|].
      destruct (open key (nonce_of ctr) [l0; l1] (firstn len rest) (firstn 16 (skipn len rest))) as [pt|] eqn:Eo; [|eauto].
      assert (Hf' : (length (skipn (len + 16) rest) < f)%nat) by (rewrite skipn_length; simpl in Hf; lia).
      destruct (recv_fuel open f key ((ctr + 1) mod m64n) (skipn (len + 16) rest)) as [more st] eqn:Er.
      destruct (Nat.ltb_spec len frame_max) as [Hshort|Hfull].
      + exists 1%nat. cbn [length firstn map concat skipn a_pt]. rewrite app_nil_r.
        split; [lia|]. split; [reflexivity|]. split.
        * unfold recv. rewrite <- Er. apply recv_fuel_more; [lia|exact Hf'].
        * rewrite skipn_length. simpl. split; [lia|intros _; lia].
      + specialize (IH ((ctr + 1) mod m64n) (skipn (len + 16) rest) (acc ++ pt) Hf').
        rewrite Er in IH.
        destruct (decrypt_fuel open f key ((ctr + 1) mod m64n) (skipn (len + 16) rest) (acc ++ pt)) as [pt' ctr' rest'|c ctr'].
        * destruct IH as (k & Hk & Hpt & Hrec & Hlen & _). exists (S k).
          cbn [length firstn map concat skipn a_pt]. split; [lia|]. split; [rewrite Hpt, <- app_assoc; reflexivity|].
          split.
          -- exact Hrec.
          -- rewrite skipn_length in Hlen. simpl. split; [lia|intros _; lia].
        * exact IH.
  Qed.

  Lemma decrypt_stream_vs_recv key : forall fuel ctr inp,
    (length inp < fuel)%nat ->
    let '(accs, st) := recv open key ctr inp in
    let '(out, st') := decrypt_stream open fuel key ctr inp in
    exists k, (k <= length accs)%nat /\ out = concat (map a_pt (firstn k accs)) /\
              (st' = RClean -> k = length accs /\ st = RClean) /\
              (st = RClean -> st' = RClean).
  Proof.
    induction fuel as [|f IH]; intros ctr inp Hf; [lia|].
    unfold recv. cbn [decrypt_stream].
    destruct inp as [|b inp'] eqn:Einp.
    - cbn. exists 0%nat. repeat split; auto.
    - rewrite <- Einp in *. assert (Hne : inp <> []) by (rewrite Einp; discriminate).
      pose proof (decrypt_fuel_vs_recv key (S (length inp)) ctr inp [] (Nat.lt_succ_diag_r _)) as H.
      destruct (recv_fuel open (S (length inp)) key ctr inp) as [accs st] eqn:Er.
      unfold decrypt. rewrite Einp. rewrite <- Einp.
      destruct (decrypt_fuel open (S (length inp)) key ctr inp []) as [pt ctr' rest|c ctr'].
      + destruct H as (k & Hk & Hpt & Hrec & Hlen & Hlt). specialize (Hlt Hne).
        assert (Hf' : (length rest < f)%nat) by lia.
        specialize (IH ctr' rest Hf'). rewrite Hrec in IH.
        destruct (decrypt_stream open f key ctr' rest) as [more st'].
        destruct IH as (k' & Hk' & Hmore & Hclean & Hclean2).
        exists (k + k')%nat. rewrite skipn_length in Hk'. split; [lia|]. split.
        * rewrite Hpt, Hmore. cbn [app].
          rewrite <- concat_app, <- map_app. f_equal. f_equal.
          rewrite <- (firstn_skipn k (firstn (k + k') accs)).
          rewrite firstn_firstn, Nat.min_l by lia. f_equal.
          clear. revert accs. induction k as [|k IHk]; intros accs; [reflexivity|].
          destruct accs; [rewrite !firstn_nil; reflexivity|]. cbn. apply IHk.
        * split.
          -- intros Hc. destruct (Hclean Hc) as [Hkk Hst]. rewrite skipn_length in Hkk. split; [lia|exact Hst].
          -- exact Hclean2.
      + destruct H as [c' ->]. exists 0%nat. cbn. repeat split; auto; try lia; discriminate.
  Qed.
End StreamLink.

(** ---------- wire format = specification, sessions, sequences ---------- *)
Section SpecWire.
  Variable seal : bytes -> bytes -> bytes -> bytes -> bytes * bytes.

  Lemma ctr_step ctr i : (((ctr + 1) mod m64n) + N.of_nat i) mod m64n = (ctr + N.of_nat (S i)) mod m64n.
  Proof.
    rewrite Nat2N.inj_succ. unfold m64n.
    rewrite N.add_mod_idemp_l by lia. f_equal. lia.
  Qed.

  Lemma encrypt_packets_spec key : forall ps ctr0 ctr i,
    ctr = (ctr0 + N.of_nat i) mod m64n ->
    fst (encrypt_packets seal key ctr ps) = spec_wire_from seal key ctr0 i ps.
  Proof.
    induction ps as [|p ps IH]; intros ctr0 ctr i Hc; [reflexivity|].
    cbn [encrypt_packets spec_wire_from].
    specialize (IH ctr0 ((ctr + 1) mod m64n) (S i)).
    destruct (encrypt_packets seal key ((ctr + 1) mod m64n) ps) as [w c]. cbn [fst] in *.
    rewrite <- IH.
    - f_equal. unfold frame, spec_frame, nonce_of, nonce12, aad_of. cbn [le_bytes].
      rewrite Hc. rewrite N.mod_mod by (unfold m64n; lia).
      destruct (seal key _ _ p); reflexivity.
    - rewrite Hc. unfold m64n. rewrite N.add_mod_idemp_l by lia. rewrite Nat2N.inj_succ. f_equal. lia.
  Qed.

  Lemma encrypt_spec_wire key ctr r : rd_wf r -> ctr < m64n ->
    fst (encrypt seal key ctr r) = spec_wire seal key ctr (concat r).
  Proof.
    intros Hr Hc. unfold encrypt, spec_wire. rewrite packets_spec by exact Hr.
    apply encrypt_packets_spec. rewrite N.add_0_r. rewrite N.mod_small; auto.
  Qed.
End SpecWire.

Lemma extracted_labels_interop :
  Extracted.srv_salt = Extracted.cli_salt /\ Extracted.srv_enc_info = Extracted.cli_dec_info /\
  Extracted.srv_dec_info = Extracted.cli_enc_info /\ Extracted.srv_enc_info <> Extracted.srv_dec_info.
Proof. repeat split; try reflexivity. discriminate. Qed.

Lemma session_roundtrip_one (s c : session) (r : reader) : rd_wf r ->
  enc_key s = dec_key c -> enc_ctr s = dec_ctr c ->
  let '(w, s') := session_encrypt s r in
  let '(d, c') := session_decrypt c w in
  d = DOk (concat r) (enc_ctr s') [] /\ enc_key s' = dec_key c' /\ enc_ctr s' = dec_ctr c' /\
  dec_key s' = dec_key s /\ enc_key c' = enc_key c /\ dec_ctr s' = dec_ctr s /\ enc_ctr c' = enc_ctr c.
Proof.
  intros Hr Hk Hc. unfold session_encrypt, session_decrypt, encrypt.
  rewrite packets_spec by exact Hr.
  pose proof (roundtrip_payload cc_seal cc_open ChaChaPolyProofs.aead_open_seal ChaChaPolyProofs.aead_seal_len
                (enc_key s) (enc_ctr s) (concat r)) as H.
  destruct (encrypt_packets cc_seal (enc_key s) (enc_ctr s) (chunks frame_max (concat r))) as [w c0].
  cbn [enc_key dec_key enc_ctr dec_ctr]. rewrite <- Hk, <- Hc. rewrite H. cbn. repeat split; auto.
Qed.

Lemma sessions_sequence : forall msgs (s c : session),
  Forall rd_wf msgs -> enc_key s = dec_key c -> enc_ctr s = dec_ctr c ->
  fst (recv_all c (fst (send_all s msgs))) = map (fun r => Some (concat r)) msgs.
Proof.
  induction msgs as [|m ms IH]; intros s c Hw Hk Hc; [reflexivity|].
  inversion Hw as [|? ? Hm Hms]; subst. cbn [send_all].
  pose proof (session_roundtrip_one s c m Hm Hk Hc) as H1.
  destruct (session_encrypt s m) as [w s1].
  destruct (send_all s1 ms) as [ws s2] eqn:Es. cbn [fst recv_all].
  destruct (session_decrypt c w) as [d c1].
  destruct H1 as (Hd & Hk1 & Hc1 & _).
  specialize (IH s1 c1 Hms Hk1 Hc1). rewrite Es in IH. cbn [fst] in IH.
  destruct (recv_all c1 ws) as [ds c2]. cbn [fst map] in *. rewrite Hd, IH. reflexivity.
Qed.

Lemma server_to_client_sequence shared msgs : Forall rd_wf msgs ->
  fst (recv_all (new_client_session shared) (fst (send_all (new_server_session shared) msgs)))
  = map (fun r => Some (concat r)) msgs.
Proof. intros H. apply sessions_sequence; auto. Qed.

Lemma client_to_server_sequence shared msgs : Forall rd_wf msgs ->
  fst (recv_all (new_server_session shared) (fst (send_all (new_client_session shared) msgs)))
  = map (fun r => Some (concat r)) msgs.
Proof. intros H. apply sessions_sequence; auto. Qed.

(** ---------- C05, stated on the code's own receive loop ---------- *)
Section StreamTheorem.
  Variable seal : bytes -> bytes -> bytes -> bytes -> bytes * bytes.
  Variable open : bytes -> bytes -> bytes -> bytes -> bytes -> option bytes.
  Hypothesis open_seal : forall k n a p, open k n a (fst (seal k n a p)) (snd (seal k n a p)) = Some p.

  Lemma firstn_map {A B} (f : A -> B) : forall k l, firstn k (map f l) = map f (firstn k l).
  Proof. induction k as [|k IH]; intros [|x l]; simpl; auto. rewrite IH. reflexivity. Qed.

  Lemma stream_prefix_or_forgery key ctr ps r fuel : (length r < fuel)%nat ->
    let sent := sealed_frames seal key ctr ps in
    let '(out, st) := decrypt_stream open fuel key ctr r in
    forgery (fst (recv open key ctr r)) sent \/
    exists j k rest, (k <= j <= length ps)%nat /\
      out = concat (firstn k ps) /\
      r = wire_of (firstn j sent) ++ rest /\
      (st = RClean -> rest = [] /\ k = j) /\
      (rest <> [] -> exists c, st = RError c).
  Proof.
    intros Hf. cbn zeta.
    pose proof (decrypt_stream_vs_recv open key fuel ctr r Hf) as Hlink.
    destruct (recv open key ctr r) as [accs rst] eqn:Er.
    destruct (decrypt_stream open fuel key ctr r) as [out st].
    destruct Hlink as (k & Hk & Hout & Hcl & Hcl2).
    unfold recv in Er.
    destruct (recv_sound seal open open_seal key _ ctr ps r accs rst (Nat.lt_succ_diag_r _) Er)
      as [Hforge|(j & rest & Hj & Hmap & Hr & Hclean & Herr)].
    - left. exact Hforge.
    - right. cbn [fst].
      assert (Hlen : length accs = j).
      { rewrite <- (map_length a_pt), Hmap, firstn_length. lia. }
      exists j, k, rest. split; [lia|]. split.
      + rewrite Hout, <- firstn_map, Hmap, firstn_firstn. rewrite Nat.min_l by lia. reflexivity.
      + split; [exact Hr|]. split.
        * intros Hs. destruct (Hcl Hs) as [Hkk Hrs]. split; [apply Hclean; exact Hrs|lia].
        * intros Hne. destruct (Herr Hne) as [c Hc]. destruct st as [|c']; [|eauto].
          exfalso. destruct (Hcl eq_refl) as [_ Hrs]. rewrite Hc in Hrs. discriminate.
  Qed.
End StreamTheorem.

Definition cc_stream_theorem := stream_prefix_or_forgery cc_seal cc_open ChaChaPolyProofs.aead_open_seal.

Lemma framing_constants_tie :
  Extracted.packet_length_max = frame_max /\
  Extracted.srv_salt = ascii_control_salt /\ Extracted.srv_enc_info = ascii_read_key /\
  Extracted.srv_dec_info = ascii_write_key /\
  Extracted.nonce_offset_EncryptAndSeal = 4%nat /\ Extracted.nonce_offset_DecryptAndVerify = 4%nat /\
  (forall n8, nonce12 n8 = repeat 0 Extracted.nonce_offset_EncryptAndSeal ++ n8).
Proof. repeat split; reflexivity. Qed.

Lemma framing_nonvacuous :
  let shared := repeat 7 32 in
  let msgs := [[[1;2;3]]; [repeat 9 1024]; [repeat 5 1000; repeat 6 100]; []] in
  Forall rd_wf msgs /\
  map (@length N) (fst (send_all (new_server_session shared) msgs)) = [21; 1042; 1042 + 94; 0]%nat /\
  fst (recv_all (new_client_session shared) (fst (send_all (new_server_session shared) msgs)))
  = [Some [1;2;3]; Some (repeat 9 1024); Some (repeat 5 1000 ++ repeat 6 100); Some []].
Proof.
  cbn zeta. split; [|split].
  - repeat constructor; discriminate.
  - vm_compute. reflexivity.
  - vm_compute. reflexivity.
Qed.

Lemma decrypt_stream_c_agrees open : forall fuel key ctr inp,
  fst (decrypt_stream_c open fuel key ctr inp) = decrypt_stream open fuel key ctr inp.
Proof.
  induction fuel as [|f IH]; intros key ctr inp; [reflexivity|].
  cbn [decrypt_stream_c decrypt_stream]. destruct inp as [|b inp']; [reflexivity|].
  destruct (decrypt open key ctr (b :: inp')) as [pt c rest|c c']; [|reflexivity].
  specialize (IH key c rest). destruct (decrypt_stream_c open f key c rest) as [[more st] c2].
  cbn [fst] in *. rewrite <- IH. reflexivity.
Qed.

Lemma both_directions_sequence : forall shared msgs, Forall rd_wf msgs ->
  fst (recv_all (new_client_session shared) (fst (send_all (new_server_session shared) msgs)))
  = map (fun r => Some (concat r)) msgs /\
  fst (recv_all (new_server_session shared) (fst (send_all (new_client_session shared) msgs)))
  = map (fun r => Some (concat r)) msgs.
Proof. intros shared msgs H. split; [exact (server_to_client_sequence shared msgs H)|exact (client_to_server_sequence shared msgs H)]. Qed.
