From HC Require Import Base.HBytes Base.HBytesProofs Model.Tlv8.
From Coq Require Import ZifyBool ZifyNat ZifyN.

Lemma ser_item_length it : length (ser_item it) = S (S (length (ival it))).
Proof. reflexivity. Qed.

Lemma parse_fuel_serialise : forall c fuel rest,
  wf_container c -> (length c < fuel)%nat ->
  parse_fuel fuel rest = Ok [] \/ True ->
  forall tl, parse_fuel (fuel) (serialise c ++ tl) =
    match parse_fuel (fuel - length c) tl with
    | Ok its => Ok (c ++ its) | e => e end.
Proof.
  induction c as [|it c IH]; intros fuel rest Hwf Hf _ tl.
  - simpl. rewrite Nat.sub_0_r. destruct (parse_fuel fuel tl); reflexivity.
  - destruct fuel as [|f]; [simpl in Hf; lia|].
    inversion Hwf as [|? ? Hit Hc]; subst.
    destruct Hit as (Ht & Hl & Hv).
    unfold serialise. cbn [map concat]. unfold ser_item at 1.
    cbn [app parse_fuel].
    rewrite Nat2N.id.
    rewrite <- app_assoc.
    assert (Hlt : (length (ival it ++ concat (map ser_item c) ++ tl) <? length (ival it))%nat = false).
    { rewrite app_length. apply Nat.ltb_ge. lia. }
    rewrite Hlt.
    rewrite skipn_app, skipn_all, Nat.sub_diag. cbn [app skipn].
    rewrite firstn_app, firstn_all, Nat.sub_diag. cbn [firstn]. rewrite app_nil_r.
    fold (serialise c).
    rewrite (IH f tl Hc) by (simpl in Hf; lia || auto).
    cbn [length Nat.sub].
    destruct (parse_fuel (f - length c) tl); try reflexivity.
    destruct it; reflexivity.
Qed.

Lemma serialise_length_ge c : (length c <= length (serialise c))%nat.
Proof.
  induction c as [|it c IH]; [simpl; lia|].
  unfold serialise in *. cbn [map concat]. rewrite app_length, ser_item_length. simpl. lia.
Qed.

Lemma parse_serialise c : wf_container c -> parse (serialise c) = Ok c.
Proof.
  intros Hwf. unfold parse.
  pose proof (serialise_length_ge c) as Hl.
  pose proof (parse_fuel_serialise c (S (length (serialise c))) [] Hwf) as H.
  specialize (H ltac:(lia) (or_intror I) []).
  rewrite app_nil_r in H. rewrite H.
  destruct (S (length (serialise c)) - length c)%nat eqn:E; [lia|].
  simpl. rewrite app_nil_r. reflexivity.
Qed.

(** parse never panics nor runs out of fuel *)
Lemma parse_fuel_total : forall fuel bs, (length bs < fuel)%nat ->
  (exists c, parse_fuel fuel bs = Ok c) \/ (exists e, parse_fuel fuel bs = Err e).
Proof.
  induction fuel as [|f IH]; intros bs Hl; [lia|].
  destruct bs as [|t [|l rest]]; cbn [parse_fuel].
  - left; eauto.
  - right; eauto.
  - destruct (length rest <? N.to_nat l)%nat eqn:E; [right; eauto|].
    destruct (IH (skipn (N.to_nat l) rest)) as [[c Hc]|[e He]].
    + rewrite skipn_length. simpl in Hl. lia.
    + rewrite Hc. left; eauto.
    + rewrite He. right; eauto.
Qed.

Lemma parse_total bs :
  (exists c, parse bs = Ok c) \/ (exists e, parse bs = Err e).
Proof. apply parse_fuel_total. lia. Qed.

(** whatever parse returns was in the input: serialising it gives the input back *)
Lemma parse_fuel_inverse : forall fuel bs c, parse_fuel fuel bs = Ok c -> serialise c = bs.
Proof.
  induction fuel as [|f IH]; intros bs c H; [discriminate|].
  destruct bs as [|t [|l rest]]; cbn [parse_fuel] in H.
  - injection H as <-. reflexivity.
  - discriminate.
  - destruct (length rest <? N.to_nat l)%nat eqn:E; [discriminate|].
    destruct (parse_fuel f (skipn (N.to_nat l) rest)) as [its| | |] eqn:P; try discriminate.
    injection H as <-. apply IH in P.
    unfold serialise in *. cbn [map concat]. unfold ser_item at 1. cbn [itag ival].
    rewrite P. rewrite firstn_length. apply Nat.ltb_ge in E.
    rewrite Nat.min_l by lia. rewrite N2Nat.id. cbn [app].
    rewrite firstn_skipn. reflexivity.
Qed.

Lemma parse_inverse bs c : parse bs = Ok c -> serialise c = bs.
Proof. apply parse_fuel_inverse. Qed.

Lemma parse_fuel_wf : forall fuel bs c, wf_bytes bs -> parse_fuel fuel bs = Ok c -> wf_container c.
Proof.
  induction fuel as [|f IH]; intros bs c Hwf H; [discriminate|].
  destruct bs as [|t [|l rest]]; cbn [parse_fuel] in H.
  - injection H as <-. constructor.
  - discriminate.
  - destruct (length rest <? N.to_nat l)%nat eqn:E; [discriminate|].
    destruct (parse_fuel f (skipn (N.to_nat l) rest)) as [its| | |] eqn:P; try discriminate.
    injection H as <-.
    inversion Hwf as [|? ? Ht Hw1]; subst. inversion Hw1 as [|? ? Hl Hr]; subst.
    constructor.
    + split; [exact Ht|]. cbn [ival]. split.
      * rewrite firstn_length. unfold wf_byte in Hl. lia.
      * unfold wf_bytes in *. rewrite <- (firstn_skipn (N.to_nat l) rest) in Hr.
        apply Forall_app in Hr. tauto.
    + eapply IH; [|exact P]. unfold wf_bytes in *.
      rewrite <- (firstn_skipn (N.to_nat l) rest) in Hr. apply Forall_app in Hr. tauto.
Qed.

(** set operations keep the container well-formed *)
Lemma set_bytes_wf c tag v : wf_container c -> wf_byte tag -> wf_bytes v ->
  wf_container (set_bytes c tag v).
Proof.
  intros Hc Ht Hv. unfold set_bytes, wf_container. apply Forall_app. split; [exact Hc|].
  apply Forall_map. 
  pose proof (@chunks_len N frag v) as Hlen.
  assert (Hsub : Forall wf_bytes (chunks frag v)).
  { assert (Hcat : wf_bytes (concat (chunks frag v))) by (rewrite chunks_concat; [auto|unfold frag; lia]).
    unfold wf_bytes in Hcat. rewrite Forall_concat in Hcat. exact Hcat. }
  rewrite Forall_forall in *. intros x Hx. split; [exact Ht|]. cbn [ival].
  split; [apply (Hlen x Hx)|apply (Hsub x Hx)].
Qed.

Definition wf_setop (op : setop) : Prop := wf_byte (fst op) /\ wf_bytes (snd op).

Lemma run_sets_from_wf ops : forall c, wf_container c -> Forall wf_setop ops ->
  wf_container (fold_left (fun c op => set_bytes c (fst op) (snd op)) ops c).
Proof.
  induction ops as [|op ops IH]; intros c Hc Hops; [exact Hc|].
  inversion Hops as [|? ? [H1 H2] H3]; subst. cbn [fold_left].
  apply IH; [apply set_bytes_wf; auto|auto].
Qed.

Lemma run_sets_wf ops : Forall wf_setop ops -> wf_container (run_sets ops).
Proof. apply run_sets_from_wf. constructor. Qed.

Lemma get_bytes_app c1 c2 tag : get_bytes (c1 ++ c2) tag = get_bytes c1 tag ++ get_bytes c2 tag.
Proof. unfold get_bytes. rewrite filter_app, map_app, concat_app. reflexivity. Qed.

Lemma get_bytes_frags tag tag' v :
  get_bytes (map (mkItem tag') (chunks frag v)) tag = if tag' =? tag then v else [].
Proof.
  unfold get_bytes.
  assert (H : forall l, filter (fun it => itag it =? tag) (map (mkItem tag') l) =
                        if tag' =? tag then map (mkItem tag') l else []).
  { induction l as [|x l IHl]; [destruct (tag' =? tag); reflexivity|].
    cbn [map filter itag]. rewrite IHl. destruct (tag' =? tag); reflexivity. }
  rewrite H. destruct (tag' =? tag); [|reflexivity].
  rewrite map_map. cbn [ival]. rewrite map_id. apply chunks_concat. unfold frag; lia.
Qed.

Definition spec_get (ops : list setop) (tag : N) : bytes :=
  concat (map snd (filter (fun op => fst op =? tag) ops)).

Lemma get_run_sets_from ops : forall c tag,
  get_bytes (fold_left (fun c op => set_bytes c (fst op) (snd op)) ops c) tag =
  get_bytes c tag ++ spec_get ops tag.
Proof.
  induction ops as [|op ops IH]; intros c tag; cbn [fold_left].
  - unfold spec_get. simpl. rewrite app_nil_r. reflexivity.
  - rewrite IH. unfold set_bytes. rewrite get_bytes_app, get_bytes_frags.
    unfold spec_get. cbn [filter]. destruct (fst op =? tag); cbn [map concat];
    rewrite <- ?app_assoc; reflexivity.
Qed.

Lemma get_run_sets ops tag : get_bytes (run_sets ops) tag = spec_get ops tag.
Proof. unfold run_sets. rewrite get_run_sets_from. reflexivity. Qed.

(** the spec reader agrees with hc's reader on everything hc's parser accepts *)
Lemma spec_items_parse : forall fuel bs,
  spec_items_fuel fuel bs =
  match parse_fuel fuel bs with
  | Ok c => Some (map (fun it => (itag it, ival it)) c)
  | _ => None end.
Proof.
  induction fuel as [|f IH]; intros bs; [reflexivity|].
  destruct bs as [|t [|l rest]]; cbn [spec_items_fuel parse_fuel]; try reflexivity.
  destruct (length rest <? N.to_nat l)%nat; [reflexivity|].
  rewrite IH. destruct (parse_fuel f (skipn (N.to_nat l) rest)); reflexivity.
Qed.

Lemma spec_reassemble_serialise c tag : wf_container c ->
  spec_reassemble (serialise c) tag = Some (get_bytes c tag).
Proof.
  intros Hwf. unfold spec_reassemble. rewrite spec_items_parse.
  fold (parse (serialise c)). rewrite parse_serialise by exact Hwf.
  cbn [option_map]. f_equal. unfold get_bytes.
  induction c as [|it c IH]; [reflexivity|].
  inversion Hwf; subst. cbn [map filter fst]. destruct (itag it =? tag); cbn [map concat snd];
  rewrite IH by assumption; reflexivity.
Qed.

(** fragment shape of one long value *)
Lemma set_bytes_fragments tag v :
  let its := set_bytes [] tag v in
  Forall (fun it => itag it = tag /\ (length (ival it) <= 255)%nat /\ ival it <> []) its /\
  (forall pre last, its = pre ++ [last] -> Forall (fun it => length (ival it) = 255%nat) pre) /\
  concat (map ival its) = v.
Proof.
  cbn zeta. unfold set_bytes. cbn [app].
  assert (Hn : (0 < frag)%nat) by (unfold frag; lia).
  split; [|split].
  - apply Forall_map. cbn [itag ival].
    pose proof (@chunks_len N frag v) as H1. pose proof (@chunks_nonempty N frag v Hn) as H2.
    rewrite Forall_forall in *. intros x Hx. split; [reflexivity|]. split; [apply (H1 x Hx)|apply (H2 x Hx)].
  - intros pre last E.
    assert (E' : chunks frag v = map ival pre ++ [ival last]).
    { rewrite <- (map_id (chunks frag v)). rewrite <- (map_ext (fun x => ival (mkItem tag x)) (fun x => x)) by reflexivity.
      rewrite <- map_map. rewrite E. rewrite map_app. reflexivity. }
    destruct (chunks_full_but_last frag Hn (length v) v (le_n _) _ _ E') as [Hf _].
    rewrite Forall_map in Hf. exact Hf.
  - rewrite map_map. cbn [ival]. rewrite map_id. apply chunks_concat. exact Hn.
Qed.

Lemma roundtrip_sets : forall ops : list setop, Forall wf_setop ops ->
  exists c', parse (serialise (run_sets ops)) = Ok c' /\
             forall tag, get_bytes c' tag = spec_get ops tag.
Proof.
  intros ops H. exists (run_sets ops). split.
  - exact (parse_serialise _ (run_sets_wf ops H)).
  - exact (get_run_sets ops).
Qed.

Lemma standard_reader_sets : forall ops tag, Forall wf_setop ops ->
  spec_reassemble (serialise (run_sets ops)) tag = Some (spec_get ops tag).
Proof.
  intros ops tag H. rewrite <- get_run_sets.
  exact (spec_reassemble_serialise _ tag (run_sets_wf ops H)).
Qed.

Lemma nonvacuous_sets :
  let ops := [(6, [1]); (3, repeat 7 600); (6, []); (1, [5; 6]); (3, [9])] in
  Forall wf_setop ops /\
  map (fun it => length (ival it)) (run_sets ops) = [1; 255; 255; 90; 2; 1]%nat /\
  get_bytes (run_sets ops) 3 = repeat 7 600 ++ [9].
Proof.
  cbn zeta. split; [|split]; [|vm_compute; reflexivity|vm_compute; reflexivity].
  repeat (apply Forall_cons; [split; cbn [fst snd]; unfold wf_byte; try lia|]); try apply Forall_nil.
  all: try (repeat constructor; unfold wf_byte; lia).
Qed.
