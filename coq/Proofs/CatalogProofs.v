From Coq Require Import String.
From HC Require Import Base.HBytes Base.ChaChaPolyProofs Gen.CatalogGen Gen.MetadataGen Model.Spec Model.Catalog.
Open Scope string_scope.
Open Scope N_scope.

(** soundness of the boolean checkers: they are what the propositions below say *)
Lemma beq_eq a b : beq a b = true -> a = b.
Proof. apply eqb_bytes_eq. Qed.

Lemma every_meta_char_sound : every_meta_char_has_ctor = true ->
  forall m, In m meta_chars -> exists k, In k char_ctors /\ char_matches m k = true.
Proof.
  unfold every_meta_char_has_ctor. intros H m Hm. rewrite forallb_forall in H. specialize (H m Hm).
  apply existsb_exists in H. exact H.
Qed.

Lemma char_matches_sound m k : char_matches m k = true ->
  cc_type_used k = cm_type m /\ cc_format k = cm_format m /\
  (cm_read m = mem (s2b "pr") (cc_perms k)) /\ (cm_write m = mem (s2b "pw") (cc_perms k)) /\
  (cm_notify m = mem (s2b "ev") (cc_perms k)) /\ cc_unit k = cm_unit m /\
  onum_eq (cc_min k) (cm_min m) = true /\ onum_eq (cc_max k) (cm_max m) = true /\ onum_eq (cc_step k) (cm_step m) = true /\
  default_ok k = true /\ embedded_ok k = true.
Proof.
  unfold char_matches. intros H.
  repeat match goal with H : (_ && _)%bool = true |- _ => apply andb_true_iff in H; destruct H end.
  repeat match goal with H : beq _ _ = true |- _ => apply beq_eq in H end.
  repeat match goal with H : Bool.eqb _ _ = true |- _ => apply Bool.eqb_prop in H end.
  repeat split; assumption.
Qed.

Lemma ctor_type_sound : ctor_type_is_declared = true ->
  forall k, In k char_ctors -> cc_type_used k = cc_type_declared k /\ cc_type_used k <> [].
Proof.
  unfold ctor_type_is_declared. intros H k Hk. rewrite forallb_forall in H. specialize (H k Hk).
  apply andb_true_iff in H. destruct H as [H1 H2]. apply beq_eq in H1. split; [exact H1|].
  intros E. rewrite E in H2. discriminate.
Qed.

Lemma mem_In x l : mem x l = true -> In x l.
Proof. unfold mem. intros H. apply existsb_exists in H. destruct H as [y [Hy E]]. apply beq_eq in E. subst. exact Hy. Qed.

Lemma nodupb_NoDup l : nodupb l = true -> NoDup l.
Proof.
  induction l as [|x l IH]; cbn [nodupb]; intros H; [constructor|].
  apply andb_true_iff in H. destruct H as [H1 H2]. constructor; [|apply IH; exact H2].
  intros Hin. apply negb_true_iff in H1.
  assert (mem x l = true) by (unfold mem; apply existsb_exists; exists x; split; [exact Hin|apply eqb_bytes_refl]).
  congruence.
Qed.

Lemma every_meta_service_sound : every_meta_service_has_ctor = true ->
  forall m, In m meta_svcs -> exists s, In s svc_ctors /\ svc_type s = sm_type m /\
    forall req, In req (sm_required m) -> In req (svc_char_types s).
Proof.
  unfold every_meta_service_has_ctor. intros H m Hm. rewrite forallb_forall in H. specialize (H m Hm).
  apply existsb_exists in H. destruct H as [s [Hs H]]. apply andb_true_iff in H. destruct H as [H1 H2].
  exists s. split; [exact Hs|]. split; [apply beq_eq; exact H1|].
  intros req Hr. rewrite forallb_forall in H2. apply mem_In. apply H2. exact Hr.
Qed.

Lemma services_sound : services_usable_and_distinct = true ->
  forall s, In s svc_ctors -> sc_has_base s = true /\ svc_type s <> [] /\
    (forall n, In n (sc_chars s) -> exists k, char_ctor_named n = Some k) /\ NoDup (svc_char_types s).
Proof.
  unfold services_usable_and_distinct. intros H s Hs. rewrite forallb_forall in H. specialize (H s Hs).
  repeat match goal with H : (_ && _)%bool = true |- _ => apply andb_true_iff in H; destruct H end.
  split; [assumption|]. split.
  - intros E. rewrite E in *. discriminate.
  - split.
    + intros n Hn. match goal with H : forallb _ (sc_chars s) = true |- _ => rewrite forallb_forall in H; specialize (H n Hn) end.
      destruct (char_ctor_named n); [eauto|discriminate].
    + apply nodupb_NoDup. assumption.
Qed.

(** the finite facts, by computation over the regenerated catalog *)
Lemma catalog_every_meta_char : every_meta_char_has_ctor = true.
Proof. vm_compute. reflexivity. Qed.
Lemma catalog_ctor_types : ctor_type_is_declared = true.
Proof. vm_compute. reflexivity. Qed.
Lemma catalog_every_meta_service : every_meta_service_has_ctor = true.
Proof. vm_compute. reflexivity. Qed.
Lemma catalog_services : services_usable_and_distinct = true.
Proof. vm_compute. reflexivity. Qed.

Lemma meta_chars_covered : forall m, In m meta_chars ->
  exists k, In k char_ctors /\
    cc_type_used k = cm_type m /\ cc_format k = cm_format m /\
    (cm_read m = mem (s2b "pr") (cc_perms k)) /\ (cm_write m = mem (s2b "pw") (cc_perms k)) /\
    (cm_notify m = mem (s2b "ev") (cc_perms k)) /\ cc_unit k = cm_unit m /\
    onum_eq (cc_min k) (cm_min m) = true /\ onum_eq (cc_max k) (cm_max m) = true /\ onum_eq (cc_step k) (cm_step m) = true /\
    default_ok k = true /\ embedded_ok k = true.
Proof.
  intros m Hm. destruct (every_meta_char_sound catalog_every_meta_char m Hm) as [k [Hk Hc]].
  exists k. split; [exact Hk|]. apply char_matches_sound. exact Hc.
Qed.

Lemma catalog_sizes : (146 <= length meta_chars)%nat /\ (43 <= length meta_svcs)%nat /\
  (160 <= length char_ctors)%nat /\ (50 <= length svc_ctors)%nat.
Proof. vm_compute. repeat split; repeat constructor. Qed.
