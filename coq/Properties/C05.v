(** C05 — any alteration of the encrypted stream is detected. *)
From HC Require Import Base.HBytes Base.ChaChaPoly Base.ChaChaPolyProofs Gen.Extracted Model.Framing Model.ConnRead Proofs.FramingProofs Proofs.ConnReadProofs Proofs.ConnAdvProofs Model.Pipeline Proofs.PipelineProofs Model.PlainFrame Proofs.PlainFrameProofs Model.PlainRead Proofs.PlainReadProofs.

(** For ANY AEAD with open(seal p) = p, any key, any start counter, any plaintext chunks [ps]
    the peer sealed, and ANY byte string [r] arriving instead of the peer's stream (bit flips,
    truncation, dropped / duplicated / reordered / replayed / reflected / foreign frames...):
    the code's receive loop (Decrypt called until the stream is exhausted or a call fails)
    either witnesses a forgery event — [open] accepted at position i a (nonce, aad, ciphertext,
    tag) the peer never sealed at position i — or
      * releases exactly the first k sent chunks, k <= j, where the first j sent frames are a
        prefix of [r];
      * ends cleanly only if [r] is exactly those j frames and all of them were released;
      * reports an error whenever anything follows that prefix, i.e. no later than the first
        altered frame. *)
Theorem C05_prefix_or_forgery :
  forall seal open,
  (forall k n a p, open k n a (fst (seal k n a p)) (snd (seal k n a p)) = Some p) ->
  forall key ctr ps r fuel, (length r < fuel)%nat ->
    let sent := sealed_frames seal key ctr ps in
    let '(out, st) := decrypt_stream open fuel key ctr r in
    forgery (fst (recv open key ctr r)) sent \/
    exists j k rest, (k <= j <= length ps)%nat /\
      out = concat (firstn k ps) /\
      r = wire_of (firstn j sent) ++ rest /\
      (st = RClean -> rest = [] /\ k = j) /\
      (rest <> [] -> exists c, st = RError c).
Proof. exact stream_prefix_or_forgery. Qed.
Print Assumptions C05_prefix_or_forgery.

(** The instance hc runs: ChaCha20-Poly1305 as modelled in Base/ChaChaPoly.v satisfies the
    premise, so the statement holds for it outright. *)
Theorem C05_chacha20poly1305 :
  forall key ctr ps r fuel, (length r < fuel)%nat ->
    let sent := sealed_frames cc_seal key ctr ps in
    let '(out, st) := decrypt_stream cc_open fuel key ctr r in
    forgery (fst (recv cc_open key ctr r)) sent \/
    exists j k rest, (k <= j <= length ps)%nat /\
      out = concat (firstn k ps) /\
      r = wire_of (firstn j sent) ++ rest /\
      (st = RClean -> rest = [] /\ k = j) /\
      (rest <> [] -> exists c, st = RError c).
Proof. exact cc_stream_theorem. Qed.
Print Assumptions C05_chacha20poly1305.

(** A frame is accepted only if its tag is the Poly1305 of (length ‖ ciphertext) under the
    one-time key of (key, counter): acceptance = tag recomputation, nothing else. *)
Theorem C05_accept_is_tag_recomputation : forall key n12 aad ct tag pt,
  aead_open key n12 aad ct tag = Some pt ->
  tag = poly1305 (firstn 32 (chacha_block key n12 0)) (mac_data aad ct) /\ pt = chacha_xor key n12 1 ct.
Proof. exact aead_open_some. Qed.
Print Assumptions C05_accept_is_tag_recomputation.

(** Key separation, from the labels found in the Go source: the two directions use different
    HKDF info strings and each side decrypts under the label the other encrypts with, so the
    accessory's own frames are not frames "the peer sealed" for its receive direction and fall
    under the forgery disjunct above. *)
Theorem C05_key_separation :
  Extracted.srv_salt = Extracted.cli_salt /\ Extracted.srv_enc_info = Extracted.cli_dec_info /\
  Extracted.srv_dec_info = Extracted.cli_enc_info /\ Extracted.srv_enc_info <> Extracted.srv_dec_info.
Proof. exact extracted_labels_interop. Qed.
Print Assumptions C05_key_separation.


(** The same at the connection (hap.Connection.Read over readFrame, where frames that follow the
    altered one may already be buffered): for EVERY list of chunks the peer sealed, EVERY schedule
    of socket events — any bytes at all, in any segmentation, with timeouts and end of stream —
    and EVERY sequence of caller reads, however long the caller goes on reading after an error,
    what Read has delivered together with what it holds decrypted is the concatenation of the
    first j sent chunks for some j, or a forgery event occurred. *)
Theorem C05_connection_prefix_or_forgery :
  forall seal open,
  (forall k n a p, open k n a (fst (seal k n a p)) (snd (seal k n a p)) = Some p) ->
  forall key ctr ps bsizes evs, Forall (fun b => (0 < b)%nat) bsizes ->
    let sent := sealed_frames seal key ctr ps in
    let '(rs, st', _) := run_reads true open key (init_conn ctr) bsizes evs in
    forgery (fst (recv open key ctr (datas evs))) sent \/
    exists j, (j <= length ps)%nat /\ concat (map out_of rs) ++ plain_of st' = concat (firstn j ps).
Proof. exact conn_prefix_or_forgery. Qed.
Print Assumptions C05_connection_prefix_or_forgery.

Theorem C05_connection_chacha20poly1305 :
  forall key ctr ps bsizes evs, Forall (fun b => (0 < b)%nat) bsizes ->
    let sent := sealed_frames cc_seal key ctr ps in
    let '(rs, st', _) := run_reads true cc_open key (init_conn ctr) bsizes evs in
    forgery (fst (recv cc_open key ctr (datas evs))) sent \/
    exists j, (j <= length ps)%nat /\ concat (map out_of rs) ++ plain_of st' = concat (firstn j ps).
Proof. exact cc_conn_prefix_or_forgery. Qed.
Print Assumptions C05_connection_chacha20poly1305.

(** The read path before commit 1e7d383 violated it: with frame 1 of three frames corrupted and all
    three in one segment, a caller that kept reading was handed frame 2 (and frame 0, then
    (0, nil)); the repaired path answers frame 0, an error, and errors from then on. *)
Theorem C05_refuted_pinned_connection :
  let key := repeat 3 32 in
  let w := wire cc_seal key 0 [[1; 2; 3]; [4; 5]; [6; 7; 8; 9]] in
  let fr0 := firstn 21 w in let fr1 := firstn 20 (skipn 21 w) in let fr2 := skipn 41 w in
  let bad := fr0 ++ (2 :: 0 :: map (fun x => N.lxor x 1) (skipn 2 fr1)) ++ fr2 in
  fst (fst (run_reads false cc_open key (init_conn 0) [16; 16; 16; 16]%nat [SockData bad])) =
    [RData [1; 2; 3]; RZero; RData [6; 7; 8; 9]; RZero] /\
  fst (fst (run_reads true cc_open key (init_conn 0) [16; 16; 16; 16]%nat [SockData bad])) =
    [RData [1; 2; 3]; RErr 2; RErr 3; RErr 3].
Proof. exact pinned_conn_delivers_after_failure. Qed.

(** Where the encrypted stream BEGINS: requests that wait in the HTTP layer's buffer while the
    connection switches to the secure session (Model/Pipeline.v).  Served by the origin of their
    bytes, only what the peer sealed is released, whatever arrives and however it is cut into
    requests. *)
Theorem C05_only_sealed_requests_served : forall evs,
  Forall (fun r => all_sealed r = true) (p_served (prun true evs)).
Proof. exact by_origin_only_sealed. Qed.
Print Assumptions C05_only_sealed_requests_served.

(** /repo serves by the state of the session at the moment a request is handled.  That is the same
    as long as no pair-verify finish is handled while plaintext waits behind it ... *)
Theorem C05_served_by_session_state_without_leftover : forall evs,
  p_leftover (prun false evs) = false -> Forall (fun r => all_sealed r = true) (p_served (prun false evs)).
Proof. exact by_state_without_leftover. Qed.
Print Assumptions C05_served_by_session_state_without_leftover.

(** ... and refuted otherwise (the recorded finding C05:plaintext-behind-verify-finish): the finish
    and a protected request arrive in one read, the finish is handled, one more byte arrives, the
    buffered request — no byte of it sealed — is served. *)
Theorem C05_refuted_request_buffered_before_the_switch :
  p_served (prun false injected) = [[Plain]] /\ p_served (prun true injected) = [].
Proof. exact by_state_refuted. Qed.

(** /repo since repair cfc28f0 hands plaintext to the HTTP layer one request at a time ([framed]:
    when a request is taken out of the buffer nothing beyond it is buffered).  For EVERY such history,
    serving by the state of the session — what /repo does — releases only what the peer sealed; the
    history of the finding is not among them. *)
Theorem C05_framed_reads_serve_only_sealed : forall evs,
  framed 0 evs = true -> Forall (fun r => all_sealed r = true) (p_served (prun false evs)).
Proof. exact framed_reads_serve_only_sealed. Qed.
Print Assumptions C05_framed_reads_serve_only_sealed.

Example C05_finding_history_is_not_framed : framed 0 injected = false.
Proof. exact injected_is_not_framed. Qed.

(** How /repo tells where a plain text message ends (Model/PlainFrame.v, run against
    hap.Connection.plainHeaderEnd / plainMessageBytes byte for byte).  The code keeps no scanner state
    between reads: it looks at the last two bytes it handed over.  For EVERY header [h] handed over so far
    and EVERY next bytes [b], the end it finds is the end a single scan of the whole stream finds — no cut
    of the stream into reads moves the boundary behind which bytes are withheld from the HTTP layer ... *)
Theorem C05_plain_header_end_does_not_depend_on_the_reads : forall h b,
  scan hinit h = None ->
  scan hinit (h ++ b) = option_map (Nat.add (length h)) (header_end h b).
Proof. exact header_end_segmentation. Qed.
Print Assumptions C05_plain_header_end_does_not_depend_on_the_reads.

(** ... that end is the end of an empty line ("\n\n" or "\n\r\n": a line ends as net/http lets it end) ... *)
Theorem C05_plain_header_ends_with_an_empty_line : forall s n,
  scan hinit s = Some n ->
  (n <= length s)%nat /\ exists p, firstn n s = p ++ [10; 10] \/ firstn n s = p ++ [10; 13; 10].
Proof. exact header_end_is_an_empty_line. Qed.
Print Assumptions C05_plain_header_ends_with_an_empty_line.

(** ... and of the first one: no empty line is passed (the header of finding 9586e4d, lines ending with a
    bare "\n", is the first conjunct). *)
Theorem C05_plain_header_ends_with_the_first_empty_line : forall p q,
  (exists n, scan hinit (p ++ [10; 10] ++ q) = Some n /\ (n <= length p + 2)%nat) /\
  (exists n, scan hinit (p ++ [10; 13; 10] ++ q) = Some n /\ (n <= length p + 3)%nat).
Proof. exact header_end_is_the_first_empty_line. Qed.
Print Assumptions C05_plain_header_ends_with_the_first_empty_line.

Example C05_plain_header_cut_inside_the_empty_line :
  let h := [71; 69; 84; 32; 47; 10; 72; 58; 49; 10] in
  scan hinit h = None /\ header_end h [10; 80] = Some 1%nat /\ scan hinit (h ++ [10; 80]) = Some 11%nat.
Proof. exact header_end_lf_example. Qed.

(** Reads of the plain text phase stay inside one message.  The stream is ANY sequence of messages
    header ++ body whose headers end with their first empty line ([wf_msg]), ReadRequest answering each
    header with the length of its body ([orc_of]); [Inv s rest orc left]: [rest] has not been handed over
    yet and [left] bytes of it belong to the part (header or body) being handed over.  It holds at the start ... *)
Theorem C05_plain_reads_invariant_at_the_start : forall msgs,
  Forall wf_msg msgs -> exists left, Inv pst0 (stream_of msgs) (orc_of msgs) left.
Proof. exact inv_at_the_start. Qed.
Print Assumptions C05_plain_reads_invariant_at_the_start.

(** ... and for EVERY number [k] of bytes that have arrived by the time of a read and EVERY buffer size
    [max], the read hands over at least one byte, none beyond the end of that part — so none of the next
    message, which after a pair-verify finish is the encrypted stream — and the invariant holds again. *)
Theorem C05_plain_read_stays_inside_one_message : forall s rest orc left k max,
  Inv s rest orc left -> (0 < k)%nat -> (0 < max)%nat -> rest <> [] ->
  let '(n, s', orc') := pm_bytes s (firstn k rest) max orc in
  (1 <= n <= left)%nat /\ exists left', Inv s' (skipn n rest) orc' left'.
Proof. exact pm_bytes_stays_inside. Qed.
Print Assumptions C05_plain_read_stays_inside_one_message.

Example C05_plain_reads_invariant_is_met :
  let m1 := ([80; 32; 47; 13; 10; 13; 10], [1; 2; 3]) in let m2 := ([71; 10; 10], []) in
  Forall wf_msg [m1; m2] /\ exists left, Inv pst0 (stream_of [m1; m2]) (orc_of [m1; m2]) left.
Proof. exact inv_holds_somewhere. Qed.

(** The same for EVERY sequence of reads [(k, max)] ([k] > 0 bytes of what is left have arrived, the buffer
    holds [max] > 0): each read of the run starts in a state that meets the invariant and hands over between
    one byte and what is left of the part being handed over ([all_inside], Proofs/PlainFrameProofs.v). *)
Theorem C05_plain_reads_stay_inside_their_messages : forall msgs reads,
  Forall wf_msg msgs -> Forall (fun km => (0 < fst km)%nat /\ (0 < snd km)%nat) reads ->
  all_inside pst0 (stream_of msgs) (orc_of msgs) reads.
Proof. exact reads_stay_inside_from_the_start. Qed.
Print Assumptions C05_plain_reads_stay_inside_their_messages.

(** The plain text phase of hap.Connection.Read with the HTTP layer above it (Model/PlainRead.v, run against the real
    hap.Connection event by event): bytes arrive, the HTTP layer reads, a pair-verify handler accepts at ANY moment,
    responses end.  For EVERY byte stream, every answer of ReadRequest and every such schedule: nothing is lost,
    duplicated or reordered on the way into the secure session — what came from the network is, in order, what was
    handed over in plain text, then what is kept as the beginning of the encrypted stream, then what is buffered, then
    what has not been read ... *)
Theorem C05_switch_every_byte_accounted_for : forall stream orc evs,
  let w := wrun stream orc evs in
  c_closed (w_c w) = false -> accounted w = stream.
Proof. exact every_byte_accounted_for. Qed.
Print Assumptions C05_switch_every_byte_accounted_for.

(** ... once a pair-verify handler has accepted (the secure session is pending or in use) nothing is handed over in
    plain text any more, whatever arrives and whatever else happens ... *)
Theorem C05_switch_no_plain_text_after_the_finish : forall w evs, secure (w_c w) = true ->
  w_delivered (fold_left wstep evs w) = w_delivered w.
Proof. exact no_plain_text_after_the_finish. Qed.
Print Assumptions C05_switch_no_plain_text_after_the_finish.

(** ... and while a request is being handled and all of it has been handed over, no byte of what follows it is handed
    over — not to the byte net/http reads ahead in the background either — until the response is written: at the
    moment the handler of a pair-verify finish accepts, the HTTP layer holds nothing behind that request. *)
Theorem C05_switch_nothing_handed_over_while_handling : forall w evs,
  Forall (fun e => e <> EDone) evs -> handling (w_c w) = true ->
  w_delivered (fold_left wstep evs w) = w_delivered w.
Proof. exact nothing_handed_over_while_handling. Qed.
Print Assumptions C05_switch_nothing_handed_over_while_handling.

(** non-vacuity: a request with a body, the handler accepts, a plain text request behind it arrives in the same
    segment: it is never handed over, it is the beginning of the encrypted stream *)
Example C05_switch_example :
  let req := [80; 32; 47; 10; 10; 1; 2] in let behind := [71; 32; 47; 10; 10] in
  let w := wrun (req ++ behind) [CL 2] [EArrive 100; ERead 4096; ERead 4096; ERead 1; EVerify; ERead 4096; ERead 4096] in
  w_delivered w = req /\ c_received (w_c w) = behind /\ handling (w_c (wrun (req ++ behind) [CL 2] [EArrive 100; ERead 4096; ERead 4096])) = true.
Proof. vm_compute. auto. Qed.
