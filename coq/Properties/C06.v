(** C06 — secure framing round-trips every payload in the specified wire format. *)
From HC Require Import Base.HBytes Base.ChaChaPoly Gen.Extracted Model.Framing Proofs.FramingProofs.

(** However the source io.Reader delivers the payload (any list of non-empty pieces), the
    packetiser produces the 1024-byte chunks of the payload. *)
Theorem C06_reader_independent : forall r, rd_wf r -> packets r = chunks frame_max (concat r).
Proof. exact packets_spec. Qed.
Print Assumptions C06_reader_independent.

(** Encrypt emits exactly the specified wire format, for any AEAD [seal], key, start counter
    and payload: frames of <= 1024 plaintext bytes, LE16 length = AAD, nonce 0000 ++ LE64(ctr+i). *)
Theorem C06_wire_format : forall seal key ctr r, rd_wf r -> ctr < m64n ->
  fst (encrypt seal key ctr r) = spec_wire seal key ctr (concat r).
Proof. exact encrypt_spec_wire. Qed.
Print Assumptions C06_wire_format.

(** Every sequence of messages written into the accessory end comes out identical at the
    controller end and vice versa (ChaCha20-Poly1305, HKDF keys with the labels found in the Go
    source), whatever the lengths (0, k*1024, multi-frame) and reader behaviours: counter
    continuity included. *)
Theorem C06_roundtrip_accessory_to_controller : forall shared msgs, Forall rd_wf msgs ->
  fst (recv_all (new_client_session shared) (fst (send_all (new_server_session shared) msgs)))
  = map (fun r => Some (concat r)) msgs.
Proof. exact server_to_client_sequence. Qed.
Print Assumptions C06_roundtrip_accessory_to_controller.

Theorem C06_roundtrip_controller_to_accessory : forall shared msgs, Forall rd_wf msgs ->
  fst (recv_all (new_server_session shared) (fst (send_all (new_client_session shared) msgs)))
  = map (fun r => Some (concat r)) msgs.
Proof. exact client_to_server_sequence. Qed.
Print Assumptions C06_roundtrip_controller_to_accessory.

(** The constants of the Go source (regenerated into Gen/Extracted.v on every run) are the
    specification's: frame size 1024, salt "Control-Salt", accessory encrypts under
    "Control-Read-Encryption-Key" and decrypts under "Control-Write-Encryption-Key", 8-byte nonce
    at offset 4 of a zero 12-byte nonce. *)
Theorem C06_constants_are_the_specification :
  Extracted.packet_length_max = frame_max /\
  Extracted.srv_salt = ascii_control_salt /\ Extracted.srv_enc_info = ascii_read_key /\
  Extracted.srv_dec_info = ascii_write_key /\
  Extracted.nonce_offset_EncryptAndSeal = 4%nat /\ Extracted.nonce_offset_DecryptAndVerify = 4%nat /\
  (forall n8, nonce12 n8 = repeat 0 Extracted.nonce_offset_EncryptAndSeal ++ n8).
Proof. exact framing_constants_tie. Qed.
Print Assumptions C06_constants_are_the_specification.

(** The pinned packetiser (one Read per packet) is refuted by a one-byte-at-a-time reader. *)
Theorem C06_reader_independent_refuted_pinned :
  packets_pinned [[104]; [101]; [108]; [108]; [111]] = [[104]] /\
  packets [[104]; [101]; [108]; [108]; [111]] = [[104; 101; 108; 108; 111]].
Proof. exact packets_pinned_onebyte. Qed.
Print Assumptions C06_reader_independent_refuted_pinned.

Example C06_nonvacuous :
  let shared := repeat 7 32 in
  let msgs := [[[1;2;3]]; [repeat 9 1024]; [repeat 5 1000; repeat 6 100]; []] in
  Forall rd_wf msgs /\
  map (@length N) (fst (send_all (new_server_session shared) msgs)) = [21; 1042; 1042 + 94; 0]%nat /\
  fst (recv_all (new_client_session shared) (fst (send_all (new_server_session shared) msgs)))
  = [Some [1;2;3]; Some (repeat 9 1024); Some (repeat 5 1000 ++ repeat 6 100); Some []].
Proof. exact framing_nonvacuous. Qed.
