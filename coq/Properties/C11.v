(** C11 — read, write and event permissions are enforced for remote peers. *)
From HC Require Import Base.HBytes Model.Charac Model.Hap Proofs.HapProofs Proofs.CharacProofs.
Open Scope N_scope.

(** A remote write to a characteristic without write permission changes nothing and invokes no
    callback — for every format, permission set, bounds and written value. *)
Theorem C11_no_write : forall c v k, p_write c = false ->
  declared (format c) -> bounds_ok c = true -> well_typed c = true ->
  update true c v (Remote k) true = Ok (c, []).
Proof. exact remote_write_refused_declared. Qed.
Print Assumptions C11_no_write.

(** A characteristic without read permission never stores a value, whatever sequence of local
    updates, remote writes and getter refreshes happens (so nothing can reveal one). *)
Theorem C11_no_read : forall strict ops c c' cbs,
  p_read c = false -> cvalue c = None -> crun strict c ops = Ok (c', cbs) -> cvalue c' = None /\ p_read c' = false.
Proof. exact unreadable_never_stores. Qed.
Print Assumptions C11_no_read.

(** An event subscription on a characteristic without event permission is answered with status
    -70406 and changes nothing (no subscription, hence by C10 never an event). *)
Theorem C11_no_event : forall w c i ch e,
  get_char (chars w) i = Some ch -> p_event ch = false ->
  do_put w c [(i, None, Some e)] = (w, [(i, None, Some (-70406)%Z)]).
Proof. exact put_event_refused. Qed.
Print Assumptions C11_no_event.

(** ... wherever the refused entry stands in a write of several entries: it is answered with -70406 and
    the entries that follow are processed exactly as if it were not there. *)
Theorem C11_no_event_in_any_position : forall w c i ch e rest,
  get_char (chars w) i = Some ch -> p_event ch = false ->
  do_put w c ((i, None, Some e) :: rest) = (fst (do_put w c rest), (i, None, Some (-70406)%Z) :: snd (do_put w c rest)).
Proof. exact put_event_refused_any. Qed.
Print Assumptions C11_no_event_in_any_position.

(** Events never reveal a value that may not be read: whatever is written to (or set on) a
    characteristic without read permission — observable or not — the events this update sends to
    its subscribers carry no value (nil). *)
Theorem C11_event_never_reveals_unreadable : forall w i v o chk ch e,
  get_char (chars w) i = Some ch -> p_read ch = false -> cvalue ch = None ->
  In e (outbox (apply_update w i v o chk)) -> In e (outbox w) \/ (snd (fst e) = i /\ snd e = VNil).
Proof. exact event_never_reveals_unreadable. Qed.
Print Assumptions C11_event_never_reveals_unreadable.
