(** C11 — read, write and event permissions are enforced for remote peers. *)
From HC Require Import Base.HBytes Model.Charac Model.Hap Proofs.HapProofs Proofs.CharacProofs.
Open Scope N_scope.

(** A remote write to a characteristic without write permission changes nothing and invokes no
    callback — for every format, permission set, bounds and written value. *)
Theorem C11_no_write : forall c v k, p_write c = false ->
  declared (format c) -> bounds_ok c = true -> well_typed c = true ->
  update true c v (Remote k) true = Ok (c, []).
Proof. exact remote_write_refused_declared. Qed.
Print Assumptions C11_no_write.

(** A characteristic without read permission never stores a value, whatever sequence of local
    updates, remote writes and getter refreshes happens (so nothing can reveal one). *)
Theorem C11_no_read : forall strict ops c c' cbs,
  p_read c = false -> cvalue c = None -> crun strict c ops = Ok (c', cbs) -> cvalue c' = None /\ p_read c' = false.
Proof. exact unreadable_never_stores. Qed.
Print Assumptions C11_no_read.

(** An event subscription on a characteristic without event permission is answered with status
    -70406 and changes nothing (no subscription, hence by C10 never an event). *)
Theorem C11_no_event : forall w c i ch e,
  get_char (chars w) i = Some ch -> p_event ch = false ->
  do_put w c [(i, None, Some e)] = (w, [(i, None, Some (-70406)%Z)]).
Proof. exact put_event_refused. Qed.
Print Assumptions C11_no_event.
