(** C19 — a crash during a storage write never corrupts the stored value.
    Process-kill semantics: any prefix of the write's file-system operations may have run. *)
From HC Require Import Base.HBytes Model.Storage Proofs.StorageProofs.

(** For EVERY directory state, key file name, new value and crash index: the key holds its
    previous value (or is still absent) or the new value in full; every other file that is not
    this key's temp file is untouched. *)
Theorem C19_atomic : forall d n v i m,
  let d' := apply_ops d (firstn i (set_ops true n v)) in
  (eqb_list n m = true -> fs_get d' m = fs_get d m \/ fs_get d' m = Some v) /\
  (eqb_list n m = false -> eqb_list (tmp_of n) m = false -> fs_get d' m = fs_get d m).
Proof. exact set_atomic_crash. Qed.
Print Assumptions C19_atomic.

(** Operations built on it (SaveEntity = one Set; config save = three Sets in a row): at every
    crash point of the whole sequence, every non-temp file holds its old value or the value one
    of the Sets gives it. *)
Theorem C19_sequences : forall sets d i m, is_tmp m = false ->
  let d' := apply_ops d (firstn i (multi_ops sets)) in
  fs_get d' m = fs_get d m \/
  exists k v, In (k, v) sets /\ sanitize k = m /\ fs_get d' m = Some v.
Proof. exact multi_crash. Qed.
Print Assumptions C19_sequences.

(** A temp file left behind by a crash is invisible to the entity listing (it does not end in
    ".entity"; entity keys are never temp names) and is overwritten by the next Set. *)
Theorem C19_leftover_harmless : forall d n v m name,
  (eqb_list n m = true -> fs_get (apply_ops d (set_ops true n v)) m = Some v) /\
  is_tmp (entity_key name) = false /\ is_tmp (tmp_of n) = true.
Proof. exact leftover_harmless. Qed.
Print Assumptions C19_leftover_harmless.

(** The pinned in-place write is refuted: killed after the create, an absent key reads back
    empty. *)
Theorem C19_refuted_pinned :
  fs_get (apply_ops [] (firstn 1 (set_ops false [107] [97;98]))) [107] = Some [].
Proof. exact pinned_crash_empty. Qed.
Print Assumptions C19_refuted_pinned.

(** Every kind of write — Sets (also under names so long that the temp file cannot be created:
    such a Set fails before anything is written) and Deletes (one unlink) — in any sequence, killed
    at any point: every file that is not a temp file holds what it held, or what one of the Sets
    gives it in full, or is gone because one of the Deletes names it. *)
Theorem C19_writes_and_deletes : forall ws d i m, is_tmp m = false ->
  let d' := apply_ops d (firstn i (writes_ops ws)) in
  fs_get d' m = fs_get d m \/
  exists o, In o ws /\
    match o with
    | WSet k v => sanitize k = m /\ fs_get d' m = Some v
    | WDelete k => sanitize k = m /\ fs_get d' m = None
    end.
Proof. exact writes_crash. Qed.
Print Assumptions C19_writes_and_deletes.

Theorem C19_name_too_long_writes_nothing : forall n v d i,
  fits n = false -> apply_ops d (firstn i (set_ops_os n v)) = d.
Proof. exact too_long_writes_nothing. Qed.
