(** C02 — pair-setup stores a controller key only after a valid setup-code proof. *)
From HC Require Import Base.HBytes Model.Charac Model.Hap Proofs.HapProofs.
Open Scope N_scope.

(** In every world satisfying the controller invariant (step 4 => the encryption key is the SRP
    session key — true of every reachable world, next theorem), a step changes the pairing store only
    if it is a key-exchange message, on a connection whose controller accepted a right setup-code
    proof in this exchange, sealed under that exchange's session key and genuinely signed — or an
    add / remove pairing request of an already verified connection. *)
Theorem C02_store_only_after_proof : forall w o, world_ps_inv w ->
  store (fst (step fixed w o)) <> store w -> genuine_keyexch w o \/ admin_pairings w o.
Proof. exact store_step. Qed.
Print Assumptions C02_store_only_after_proof.

Theorem C02_invariant_reachable : forall w o, world_ps_inv w -> world_ps_inv (fst (step fixed w o)).
Proof. exact step_ps_inv. Qed.
Print Assumptions C02_invariant_reachable.

(** Step 4 is reached only through a right proof; every other message keeps the controller out of it. *)
Theorem C02_no_proof_no_key_exchange : forall st stor m,
  m <> PSVerify AValid PRight -> ps_step st <> 4 -> ps_step (fst (fst (ps_handle fixed st stor m))) <> 4.
Proof. exact ps_handle_no_proof. Qed.
Print Assumptions C02_no_proof_no_key_exchange.

(** EVERY message sequence of peers that never prove the setup code (wrong code, reordered,
    repeated, truncated, malformed, forged, sealed under zero / guessed / foreign keys, unknown steps
    and methods, on any number of interleaved connections) leaves the store exactly as it was. *)
Theorem C02_adversary_never_stores : forall ops w,
  (forall c, unv w c) -> world_ps_inv w -> Forall adv_all ops -> store (fst (run fixed w ops)) = store w.
Proof. exact adv_store. Qed.
Print Assumptions C02_adversary_never_stores.

(** The pinned code is refuted: start; verify(A = 0 mod N); key exchange under the all-zero key. *)
Theorem C02_refuted_pinned :
  let ops := [OConnect 1; OReq 1 TPlain (EPairSetup PSStart); OReq 1 TPlain (EPairSetup (PSVerify AZeroModN PRight));
              OReq 1 TPlain (EPairSetup (PSKeyExch KZero (IGenuine [105] 66) false))] in
  Forall adv_all ops /\
  store (fst (run (mkKnobs false true true true true true) (empty_world demo_chars) ops)) = [([105], 66)] /\
  store (fst (run fixed (empty_world demo_chars) ops)) = [].
Proof. exact pinned_zero_key_stores. Qed.
Print Assumptions C02_refuted_pinned.

Example C02_nonvacuous : (forall c, unv (empty_world demo_chars) c) /\ world_ps_inv (empty_world demo_chars).
Proof. exact (empty_world_ok demo_chars). Qed.
