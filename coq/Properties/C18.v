(** C18 — storage and pairing database behave like a persistent map.
    Statements only; proofs are in Proofs/StorageProofs.v. *)
From HC Require Import Base.HBytes Model.Storage Proofs.StorageProofs.

(** For EVERY history of Set / Delete / Reopen whose keys are not themselves temp-file names
    ("….tmp"), and every key: Get returns exactly the value of the last Set of that key (keys
    are identified after removing ':') that no later Delete removed; not-found otherwise. *)
Theorem C18_storage_refines_map : forall h k, Forall key_ok h ->
  st_get (st_run true h) k = spec_lookup h (sanitize k).
Proof. exact storage_key_view. Qed.
Print Assumptions C18_storage_refines_map.

(** Listing returns exactly the live entries with the suffix, each once. *)
Theorem C18_listing_exact : forall h sfx, Forall key_ok h ->
  NoDup (st_keys (st_run true h) sfx) /\
  forall n, In n (st_keys (st_run true h) sfx) <->
            (exists v, spec_lookup h n = Some v) /\ has_suffix sfx n = true.
Proof. exact listing_refines_map. Qed.
Print Assumptions C18_listing_exact.

(** The pairing database is a map over entity NAMES, for every name (arbitrary bytes): the key
    derivation is injective, survives the file-name sanitiser, carries the ".entity" suffix and
    never collides with a temp file. *)
Theorem C18_database_refines_map : forall h name, Forall dop_wf h -> wf_bytes name ->
  db_load (db_run true h) name = db_spec h name.
Proof. exact database_refines_map. Qed.
Print Assumptions C18_database_refines_map.

Theorem C18_database_listing : forall h, Forall dop_wf h ->
  NoDup (db_list (db_run true h)) /\
  forall name, wf_bytes name ->
    (In (entity_key name) (db_list (db_run true h)) <-> exists c, db_spec h name = Some c).
Proof. exact database_listing. Qed.
Print Assumptions C18_database_listing.

(** The pinned code (in-place write without O_TRUNC) is refuted: a shorter overwrite leaves a
    mixture.  Kept as the named variant [atomic := false] of the model. *)
Theorem C18_refuted_pinned :
  st_get (st_run false [SSet [107] [108;111;110;103;118;97;108;117;101]; SSet [107] [97;98]]) [107]
  = Some [97;98;110;103;118;97;108;117;101].
Proof. exact pinned_overwrite_mixture. Qed.
Print Assumptions C18_refuted_pinned.

Example C18_nonvacuous :
  let h := [SSet [107;58] [1;2;3;4;5]; SSet [97] [9]; SSet [107] [7]; SDelete [97]; SReopen; SSet [98;58;58] []] in
  Forall key_ok h /\ st_get (st_run true h) [107] = Some [7] /\ st_get (st_run true h) [97] = None /\
  st_keys (st_run true h) [] = [[98]; [107]].
Proof. exact storage_nonvacuous. Qed.

(** Two Sets of one key at the same time.  One after the other — /repo serialises the writes of the
    file storage (repair ea831b1) — the key holds the second value in full; ... *)
Theorem C18_sets_one_after_the_other : forall d n v1 v2,
  fs_get (apply_ops d (set_ops true n v1 ++ set_ops true n v2)) n = Some v2.
Proof. exact sets_one_after_the_other. Qed.
Print Assumptions C18_sets_one_after_the_other.

(** ... overlapping, both go through the one temp file, and there is an interleaving of their
    file-system operations after which the key holds neither value (the short one followed by the
    tail of the long one): what the implementation-side runs `CS` look for. *)
Theorem C18_refuted_overlapping_sets :
  let k := [107] in let long := [1; 2; 3; 4; 5; 6] in let short := [9] in
  exists l, merge l (set_ops true k long) (set_ops true k short) /\
            fs_get (apply_ops [] l) k = Some [9; 2; 3; 4; 5; 6].
Proof. exact overlapping_sets_refuted. Qed.
