(** C16 — TLV8 containers round-trip and fragment correctly.
    Statements only; every proof is [exact <lemma>] into Proofs/Tlv8Proofs.v. *)
From HC Require Import Base.HBytes Model.Tlv8 Proofs.Tlv8Proofs.

(** For ANY sequence of set operations (any tags, any lengths, any contents): parsing the
    serialised container succeeds and yields, for EVERY tag, the concatenation in order of the
    values set for that tag (and nothing for tags never set). *)
Theorem C16_roundtrip : forall ops : list setop, Forall wf_setop ops ->
  exists c', parse (serialise (run_sets ops)) = Ok c' /\
             forall tag, get_bytes c' tag = spec_get ops tag.
Proof. exact roundtrip_sets. Qed.
Print Assumptions C16_roundtrip.

(** Values of any length are cut into items of at most 255 bytes, none empty, all but the last
    exactly 255 bytes, whose concatenation is the value. *)
Theorem C16_fragments : forall tag v,
  let its := set_bytes [] tag v in
  Forall (fun it => itag it = tag /\ (length (ival it) <= 255)%nat /\ ival it <> []) its /\
  (forall pre last, its = pre ++ [last] -> Forall (fun it => length (ival it) = 255%nat) pre) /\
  concat (map ival its) = v.
Proof. exact set_bytes_fragments. Qed.
Print Assumptions C16_fragments.

(** A standard TLV8 reader (written from the specification) reassembles every value from the
    bytes hc serialises. *)
Theorem C16_standard_reader_reassembles : forall ops tag, Forall wf_setop ops ->
  spec_reassemble (serialise (run_sets ops)) tag = Some (spec_get ops tag).
Proof. exact standard_reader_sets. Qed.
Print Assumptions C16_standard_reader_reassembles.

(** Parsing arbitrary bytes returns a container or an error — never a panic, never fuel
    exhaustion (the model's stand-in for non-termination). *)
Theorem C16_parse_total : forall bs,
  (exists c, parse bs = Ok c) \/ (exists e, parse bs = Err e).
Proof. exact parse_total. Qed.
Print Assumptions C16_parse_total.

(** ... and never yields data that was not in the input: what it returns serialises back to
    exactly the input bytes. *)
Theorem C16_parse_only_input : forall bs c, parse bs = Ok c -> serialise c = bs.
Proof. exact parse_inverse. Qed.
Print Assumptions C16_parse_only_input.

(** Non-vacuity: a concrete history with a repeated tag, an interleaved tag, an empty value and a
    600-byte value meets the hypotheses and behaves as stated. *)
Example C16_nonvacuous :
  let ops := [(6, [1]); (3, repeat 7 600); (6, []); (1, [5; 6]); (3, [9])] in
  Forall wf_setop ops /\
  map (fun it => length (ival it)) (run_sets ops) = [1; 255; 255; 90; 2; 1]%nat /\
  get_bytes (run_sets ops) 3 = repeat 7 600 ++ [9].
Proof. exact nonvacuous_sets. Qed.
