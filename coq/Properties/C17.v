(** C17 — struct TLV8 marshalling round-trips and matches the wire encoding; unmarshalling
    arbitrary bytes never panics. *)
From HC Require Import Base.HBytes Model.TlvStruct Gen.RtpGen Proofs.TlvStructProofs Proofs.TlvRoundtrip.
Open Scope N_scope.

(** Decoder: for EVERY struct type (any nesting of scalars, nested structs, tagged and inline
    lists) and EVERY byte string, Unmarshal returns a value or an error.  In the model every Go
    operation that can panic (indexing a bucket, binary.LittleEndian.UintNN on a short slice) is a
    partial operation whose failure is the outcome [Panic], and every loop runs on fuel whose
    exhaustion is [OutOfFuel]: neither outcome is reachable. *)
Theorem C17_unmarshal_total : forall fs b,
  (exists vs, unmarshal fixed_knobs fs b = Ok vs) \/ unmarshal fixed_knobs fs b = Err 1.
Proof. exact unmarshal_total. Qed.
Print Assumptions C17_unmarshal_total.

Theorem C17_unmarshal_never_panics : forall fs b,
  unmarshal fixed_knobs fs b <> Panic /\ unmarshal fixed_knobs fs b <> OutOfFuel.
Proof. exact unmarshal_never_panics. Qed.
Print Assumptions C17_unmarshal_never_panics.

(** the message types found in rtp/*.go on this run are well-formed struct types *)
Theorem C17_rtp_types_well_formed : forallb (fun p => wf_fields (snd p)) rtp_types = true.
Proof. exact rtp_types_wf. Qed.
Print Assumptions C17_rtp_types_well_formed.

(** Round trip: for EVERY well-formed struct type (tags 1..255 distinct per struct, inline element
    tags disjoint from sibling tags, inline elements of scalars) and EVERY value of it whose numbers
    are in range, whose list elements have a non-empty encoding and whose inline elements have no
    empty string (the value class [okvs]; outside it see the refuted statement below), at any
    nesting depth, any list length, any string length (fragments beyond 255 bytes):
    Unmarshal (Marshal v) = v, where a signalling float32 NaN comes back quiet. *)
Theorem C17_roundtrip : forall fs vs, wf_fields fs = true -> okvs fs vs = true ->
  unmarshal fixed_knobs fs (marshal fixed_knobs fs vs) = Ok (norm_vals fs vs).
Proof. exact roundtrip. Qed.
Print Assumptions C17_roundtrip.

(** ... in particular for every RTP message type found in rtp/*.go on this run *)
Theorem C17_rtp_roundtrip : forall name fs vs, In (name, fs) rtp_types -> okvs fs vs = true ->
  unmarshal fixed_knobs fs (marshal fixed_knobs fs vs) = Ok (norm_vals fs vs).
Proof. exact rtp_roundtrip. Qed.
Print Assumptions C17_rtp_roundtrip.

(** Wire format: the bytes are exactly the concatenation of type-length-value items
    [tag; length; value...] of at most 255 value bytes each, and a conformant item parser reads
    them back; ... *)
Theorem C17_wire_items : forall fs vs, okvs fs vs = true ->
  marshal fixed_knobs fs vs = flat (it_vals fs vs) /\ TlvStruct.items (marshal fixed_knobs fs vs) = ROk (it_vals fs vs) /\ Forall short (it_vals fs vs).
Proof. exact wire_items. Qed.
Print Assumptions C17_wire_items.

(** ... a value longer than 255 bytes is a run of items with the same tag, all but the last full,
    none empty, whose values concatenate to the value; ... *)
Theorem C17_fragments : forall tag v,
  map fst (frags tag v) = repeat tag (length (frags tag v)) /\ concat (map snd (frags tag v)) = v /\ Forall (fun p => snd p <> [] /\ (length (snd p) <= 255)%nat) (frags tag v).
Proof. exact frags_spec. Qed.
Print Assumptions C17_fragments.

(** ... and integers are little-endian two's complement of their width: the k bytes written for z
    denote z mod 256^k. *)
Theorem C17_little_endian : forall k z, length (le_z k z) = k /\ of_le (le_z k z) = (z mod 256 ^ Z.of_nat k)%Z.
Proof. intros k z. split; [apply le_z_length|apply of_le_le_z]. Qed.
Print Assumptions C17_little_endian.

Example C17_roundtrip_nonvacuous :
  let fs := FCons 1 TU8 (FCons 2 TI64 (FCons 3 TF32 (FCons 4 TStr (FCons 5 (TStruct (FCons 1 TU16 (FCons 2 TBytes FNil)))
            (FCons 6 (TList (FCons 1 TI32 FNil)) (FCons 0 (TInline (FCons 8 TU8 (FCons 9 TBool FNil))) (FCons 10 TBool FNil))))))) in
  let vs := VCons (VNum 255) (VCons (VNum (-9223372036854775808)) (VCons (VNum 2139095041) (VCons (VBytes [104; 105])
            (VCons (VStruct (VCons (VNum 65535) (VCons (VBytes []) VNil)))
            (VCons (VList (LCons (VCons (VNum (-1)) VNil) (LCons (VCons (VNum 2147483647) VNil) LNil)))
            (VCons (VList (LCons (VCons (VNum 0) (VCons (VBool false) VNil)) (LCons (VCons (VNum 7) (VCons (VBool true) VNil)) LNil)))
            (VCons (VBool true) VNil))))))) in
  wf_fields fs = true /\ okvs fs vs = true /\ unmarshal fixed_knobs fs (marshal fixed_knobs fs vs) = Ok (norm_vals fs vs) /\ norm_vals fs vs <> vs.
Proof. exact roundtrip_nonvacuous. Qed.

(** Outside the value class the round trip is false of the repaired tree as well: the two recorded
    findings (an omitted empty string shifts the following values of an inline list; a list element
    with an empty encoding vanishes). *)
Theorem C17_roundtrip_outside_class_refuted :
  (let fs := FCons 0 (TInline (FCons 11 TU16 (FCons 5 TStr FNil))) FNil in
   let vs := VCons (VList (LCons (VCons (VNum 0) (VCons (VBytes []) VNil)) (LCons (VCons (VNum 0) (VCons (VBytes [113]) VNil)) LNil))) VNil in
   wf_fields fs = true /\ okvs fs vs = false /\ unmarshal fixed_knobs fs (marshal fixed_knobs fs vs) <> Ok (norm_vals fs vs)) /\
  (let fs := FCons 7 (TList (FCons 1 TStr FNil)) FNil in
   let vs := VCons (VList (LCons (VCons (VBytes []) VNil) (LCons (VCons (VBytes [97]) VNil) LNil))) VNil in
   wf_fields fs = true /\ okvs fs vs = false /\ unmarshal fixed_knobs fs (marshal fixed_knobs fs vs) <> Ok (norm_vals fs vs)).
Proof. exact roundtrip_outside_class_refuted. Qed.

(** The pinned snapshot violated the round trip inside the class: int64 beyond 32 bits, every
    non-zero float32, inline elements with two fields. *)
Theorem C17_pinned_roundtrip_refuted :
  unmarshal pinned_knobs (FCons 1 TI64 FNil) (marshal pinned_knobs (FCons 1 TI64 FNil) (VCons (VNum 4294967296) VNil)) = Ok (VCons (VNum 0) VNil) /\
  unmarshal pinned_knobs (FCons 1 TF32 FNil) (marshal pinned_knobs (FCons 1 TF32 FNil) (VCons (VNum 1065353216) VNil)) = Ok (VCons (VNum 0) VNil).
Proof. destruct pinned_roundtrip_refuted as (A & B & _). exact (conj A B). Qed.

(** the pinned snapshot violated the decoder half: a float32 item of one to three bytes panicked,
    and an inline list of elements with a nested struct, followed by another field, never ended *)
Theorem C17_pinned_unmarshal_refuted :
  unmarshal pinned_knobs (FCons 1 TF32 FNil) [1; 1; 1] = Panic /\
  unmarshal pinned_knobs (FCons 0 (TInline (FCons 2 (TStruct (FCons 1 TU8 FNil)) FNil)) (FCons 3 TU8 FNil)) [2; 3; 1; 1; 5; 3; 1; 7] = OutOfFuel.
Proof. exact (conj pinned_unmarshal_panics pinned_inline_nested_runs_out_of_fuel). Qed.
