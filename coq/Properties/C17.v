(** C17 — struct TLV8 marshalling round-trips and matches the wire encoding; unmarshalling
    arbitrary bytes never panics. *)
From HC Require Import Base.HBytes Model.TlvStruct Gen.RtpGen Proofs.TlvStructProofs.
Open Scope N_scope.

(** Decoder: for EVERY struct type (any nesting of scalars, nested structs, tagged and inline
    lists) and EVERY byte string, Unmarshal returns a value or an error.  In the model every Go
    operation that can panic (indexing a bucket, binary.LittleEndian.UintNN on a short slice) is a
    partial operation whose failure is the outcome [Panic], and every loop runs on fuel whose
    exhaustion is [OutOfFuel]: neither outcome is reachable. *)
Theorem C17_unmarshal_total : forall fs b,
  (exists vs, unmarshal fixed_knobs fs b = Ok vs) \/ unmarshal fixed_knobs fs b = Err 1.
Proof. exact unmarshal_total. Qed.
Print Assumptions C17_unmarshal_total.

Theorem C17_unmarshal_never_panics : forall fs b,
  unmarshal fixed_knobs fs b <> Panic /\ unmarshal fixed_knobs fs b <> OutOfFuel.
Proof. exact unmarshal_never_panics. Qed.
Print Assumptions C17_unmarshal_never_panics.

(** the message types found in rtp/*.go on this run are well-formed struct types *)
Theorem C17_rtp_types_well_formed : forallb (fun p => wf_fields (snd p)) rtp_types = true.
Proof. exact rtp_types_wf. Qed.
Print Assumptions C17_rtp_types_well_formed.

(** the pinned snapshot violated the decoder half: a float32 item of one to three bytes panicked,
    and an inline list of elements with a nested struct, followed by another field, never ended *)
Theorem C17_pinned_unmarshal_refuted :
  unmarshal pinned_knobs (FCons 1 TF32 FNil) [1; 1; 1] = Panic /\
  unmarshal pinned_knobs (FCons 0 (TInline (FCons 2 (TStruct (FCons 1 TU8 FNil)) FNil)) (FCons 3 TU8 FNil)) [2; 3; 1; 1; 5; 3; 1; 7] = OutOfFuel.
Proof. exact (conj pinned_unmarshal_panics pinned_inline_nested_runs_out_of_fuel). Qed.
