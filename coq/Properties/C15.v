(** C15 — the characteristic and service catalog matches the HomeKit metadata.
    Gen/CatalogGen.v (every zero-argument constructor found in characteristic/ and service/) and
    Gen/MetadataGen.v (gen/metadata.json) are REGENERATED from /repo on every run; the statements
    below are recompiled against them. The domain is finite ("at check time"): each is proved by
    computing a boolean checker over the whole catalog, lifted by the checker's soundness lemma. *)
From Coq Require Import String.
From HC Require Import Base.HBytes Gen.CatalogGen Gen.MetadataGen Model.Spec Model.Catalog Proofs.CatalogProofs.
Open Scope N_scope.

(** Every characteristic of the metadata has a constructor with exactly its type identifier,
    format, permissions, unit, minimum / maximum / step; when readable a default of the format's
    type inside the bounds; and an embedded Go type (and bound literals) fitting the format. *)
Theorem C15_every_meta_char_has_ctor : forall m, In m meta_chars ->
  exists k, In k char_ctors /\
    cc_type_used k = cm_type m /\ cc_format k = cm_format m /\
    (cm_read m = mem (s2b "pr") (cc_perms k)) /\ (cm_write m = mem (s2b "pw") (cc_perms k)) /\
    (cm_notify m = mem (s2b "ev") (cc_perms k)) /\ cc_unit k = cm_unit m /\
    onum_eq (cc_min k) (cm_min m) = true /\ onum_eq (cc_max k) (cm_max m) = true /\ onum_eq (cc_step k) (cm_step m) = true /\
    default_ok k = true /\ embedded_ok k = true.
Proof. exact meta_chars_covered. Qed.
Print Assumptions C15_every_meta_char_has_ctor.

(** Every constructor's type identifier is the one declared for it (and is not empty). *)
Theorem C15_ctor_type_is_declared : forall k, In k char_ctors ->
  cc_type_used k = cc_type_declared k /\ cc_type_used k <> [].
Proof. exact (ctor_type_sound catalog_ctor_types). Qed.
Print Assumptions C15_ctor_type_is_declared.

(** Every service of the metadata has a constructor of its type containing at least its required
    characteristics. *)
Theorem C15_every_meta_service_has_ctor : forall m, In m meta_svcs ->
  exists s, In s svc_ctors /\ svc_type s = sm_type m /\
    forall req, In req (sm_required m) -> In req (svc_char_types s).
Proof. exact (every_meta_service_sound catalog_every_meta_service). Qed.
Print Assumptions C15_every_meta_service_has_ctor.

(** Every service constructor initialises its base service, has a type, adds only known
    characteristics and never two of the same type. *)
Theorem C15_services_usable_and_distinct : forall s, In s svc_ctors ->
  sc_has_base s = true /\ svc_type s <> [] /\
  (forall n, In n (sc_chars s) -> exists k, char_ctor_named n = Some k) /\ NoDup (svc_char_types s).
Proof. exact (services_sound catalog_services). Qed.
Print Assumptions C15_services_usable_and_distinct.

Example C15_nonvacuous : (146 <= length meta_chars)%nat /\ (43 <= length meta_svcs)%nat /\
  (160 <= length char_ctors)%nat /\ (50 <= length svc_ctors)%nat.
Proof. exact catalog_sizes. Qed.
