(** C13 — no remote input panics or wedges the accessory. *)
From HC Require Import Base.HBytes Model.Charac Model.Hap Proofs.HapProofs Proofs.CharacProofs Model.Sessions Proofs.SessionsProofs.
Open Scope N_scope.

(** No operation in any world makes a handler panic: every request is answered (a TLV8 / JSON
    answer, an HTTP error status, the refusal, or net/http's answer to undecodable input). *)
Theorem C13_no_panic : forall w o, snd (step fixed w o) <> RPanic.
Proof. exact step_no_panic. Qed.
Print Assumptions C13_no_panic.

(** From ANY pair-setup controller state, after at most one rejected start request the same
    connection completes a correct pair-setup, which stores the controller ... *)
Theorem C13_setup_recovers_same_connection : forall st stor n pk,
  let st1 := fst (fst (ps_handle fixed st stor PSStart)) in
  let st2 := if ps_step st =? 0 then st1 else fst (fst (ps_handle fixed st1 stor PSStart)) in
  ps_step st2 = 2 /\
  let '(st3, _, r3) := ps_handle fixed st2 stor (PSVerify AValid PRight) in
  r3 = RTlv 4 None /\
  let '(_, stor', r4) := ps_handle fixed st3 stor (PSKeyExch KSession (IGenuine n pk) false) in
  r4 = RTlv 6 None /\ stor' = store_put stor n pk.
Proof. exact ps_recovers. Qed.
Print Assumptions C13_setup_recovers_same_connection.

(** ... and from ANY pair-verify state likewise a correct pair-verify installs the session. *)
Theorem C13_verify_recovers_same_connection : forall step keyed stor n pk, store_get stor n = Some (N.pos pk) ->
  let s1 := fst (fst (fst (pv_handle fixed step keyed stor (PVStart true)))) in
  let '(s2, k2, _, _) := if step =? 0 then pv_handle fixed step keyed stor (PVStart true)
                         else pv_handle fixed s1 keyed stor (PVStart true) in
  s2 = 2 /\ k2 = true /\
  pv_handle fixed s2 k2 stor (PVFinish true false true n SGenuine) = (0, true, true, RTlv 4 None).
Proof. exact pv_recovers. Qed.
Print Assumptions C13_verify_recovers_same_connection.

(** Characteristic updates with arbitrary JSON values never panic (shared with C12). *)
Theorem C13_updates_never_panic : forall ops c,
  declared (format c) -> bounds_ok c = true -> well_typed c = true ->
  exists c' cbs, crun true c ops = Ok (c', cbs) /\ well_typed c' = true /\
    format c' = format c /\ minv c' = minv c /\ maxv c' = maxv c.
Proof. exact crun_well_typed. Qed.
Print Assumptions C13_updates_never_panic.

(** The pinned code panics on an undecryptable key exchange, a short one, an undecryptable finish. *)
Theorem C13_refuted_pinned :
  snd (ps_handle (mkKnobs true true true true false true) (mkPS 4 ESrp) [] (PSKeyExch KSession ITampered false)) = RPanic /\
  snd (ps_handle (mkKnobs true true true true false true) (mkPS 4 ESrp) [] (PSKeyExch KSession IMalformed true)) = RPanic /\
  snd (pv_handle (mkKnobs true true true true false true) 2 true [] (PVFinish false false true [] SInvalid)) = RPanic.
Proof. exact pinned_panics. Qed.
Print Assumptions C13_refuted_pinned.

(** A connection that is closed late — its successor under the same key (the peer reset it and
    connected again from the same port) was accepted already: removing whatever is stored under the
    key leaves the successor's handler without a session (it panicked); removing only one's own
    (repair 44e806b) does not. *)
Theorem C13_late_close_keeps_the_successors_session :
  srun (fun _ => 0%nat) false empty_table [SConnect 1; SConnect 2; SClose 1; SRequest 2]%nat = [ONone; ONone; ONone; ONoSession] /\
  srun (fun _ => 0%nat) true empty_table [SConnect 1; SConnect 2; SClose 1; SVerify 2; SRequest 2]%nat = [ONone; ONone; ONone; ONone; OServed].
Proof. exact late_close. Qed.
