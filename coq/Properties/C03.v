(** C03 — a connection becomes verified only by a valid long-term-key signature. *)
From HC Require Import Base.HBytes Model.Charac Model.Hap Proofs.HapProofs.
Open Scope N_scope.

(** The endpoint installs the encrypted session only for a finish message that opens under this
    exchange's key, is well formed, names a STORED controller and carries a signature made with
    that controller's long-term key over this exchange's keys and name, in the right step. *)
Theorem C03_install_iff_genuine : forall step keyed stor m,
  let '(_, _, install, _) := pv_handle fixed step keyed stor m in
  install = true -> exists n, m = PVFinish true false true n SGenuine /\ step = 2 /\ store_get stor n <> None.
Proof. exact pv_install_genuine. Qed.
Print Assumptions C03_install_iff_genuine.

(** Lifted to the world: one step verifies c only if it is that genuine finish on c. *)
Theorem C03_verified_only_by_valid_signature : forall w o c,
  verified (fst (step fixed w o)) c = true -> verified w c = true \/ genuine_finish w o c.
Proof. exact verified_step. Qed.
Print Assumptions C03_verified_only_by_valid_signature.

(** ... and for every history of a peer that cannot make that signature the connection stays
    unverified (and therefore in plaintext: C01_refused...). *)
Theorem C03_unverified_stays_unverified : forall ops w c,
  unv w c -> Forall (adv_on c) ops -> unv (fst (run fixed w ops)) c.
Proof. exact adv_run. Qed.
Print Assumptions C03_unverified_stays_unverified.

(** The pinned endpoint (looks at the state byte only) is refuted: a bad signature for a known name. *)
Theorem C03_refuted_pinned :
  let w0 := mkWorld [([99], 7)] [] demo_chars [] [] in
  let ops := [OConnect 1; OReq 1 TPlain (EPairVerify (PVStart true)); OReq 1 TPlain (EPairVerify (PVFinish true false true [99] SInvalid))] in
  Forall adv_all ops /\
  verified (fst (run (mkKnobs true false true true true true) w0 ops)) 1 = true /\
  verified (fst (run fixed w0 ops)) 1 = false.
Proof. exact pinned_bad_signature_verifies. Qed.
Print Assumptions C03_refuted_pinned.
