(** C10 — each change is notified exactly once to exactly the subscribed others. *)
From HC Require Import Base.HBytes Model.Charac Model.Hap Proofs.HapProofs Model.Update Proofs.UpdateProofs.
Open Scope N_scope.

(** The events written for one value change of characteristic i (new value v, made by [origin]) are
    exactly: one (k, i, v) for every OPEN connection k that is currently SUBSCRIBED to i and is NOT
    the originator — nothing to never-subscribed, unsubscribed or closed connections, nothing to
    the connection that made the change. *)
Theorem C10_exactly_the_subscribed_others : forall w i v origin k j v',
  In (k, j, v') (notify w i v origin) <->
  j = i /\ v' = v /\ exists cn, In (k, cn) (conns w) /\ hc_open cn = true /\
    (match origin with Some o => k <> o | None => True end) /\ existsb (cid_eqb i) (hc_subs cn) = true.
Proof. exact notify_spec. Qed.
Print Assumptions C10_exactly_the_subscribed_others.

(** ... each at most once (connection ids are unique). *)
Theorem C10_at_most_once : forall w i v origin,
  NoDup (map fst (conns w)) -> NoDup (map (fun e => fst (fst e)) (notify w i v origin)).
Proof. exact notify_at_most_once. Qed.
Print Assumptions C10_at_most_once.

(** No event (and no callback) when the update does not change the value, is refused for lack of
    write permission, or cannot be represented. *)
Theorem C10_no_event_without_change : forall w i v o chk ch,
  get_char (chars w) i = Some ch -> update true ch v o chk = Ok (ch, []) ->
  outbox (apply_update w i v o chk) = outbox w /\ cblog (apply_update w i v o chk) = cblog w.
Proof. exact apply_update_silent. Qed.
Print Assumptions C10_no_event_without_change.

(** A characteristic that does not permit events can never be subscribed to, hence never notified. *)
Theorem C10_no_subscription_without_event_permission : forall w c i ch e,
  get_char (chars w) i = Some ch -> p_event ch = false ->
  do_put w c [(i, None, Some e)] = (w, [(i, None, Some (-70406)%Z)]).
Proof. exact put_event_refused. Qed.
Print Assumptions C10_no_subscription_without_event_permission.

(** Several controllers write the SAME new value at the same time (Model/Update.v).  With comparing
    and storing as one step — /repo, repair 071f081 — ANY number of writers under ANY schedule
    notify at most one change, and exactly one as soon as one of them is through. *)
Theorem C10_same_value_one_event : forall (old v : Z) n sched, old <> v ->
  let s := urun true v old n sched in
  (u_events s <= 1)%nat /\ (someone_done s = true -> u_val s = v /\ u_events s = 1%nat).
Proof. exact same_value_one_event. Qed.
Print Assumptions C10_same_value_one_event.

(** In two steps (the code before the repair) two writers both read the old value, both store,
    both notify: one change, two events — what the runs `DUPW` look for. *)
Theorem C10_refuted_compare_then_store :
  u_events (urun false 1%Z 0%Z 2 [0; 1; 0; 1]%nat) = 2%nat.
Proof. exact two_steps_refuted. Qed.
