(** C04 — a specification-conformant controller can pair, verify and talk. *)
From Coq Require Import String.
From HC Require Import Base.HBytes Base.ChaChaPoly Gen.Extracted Model.Spec Model.Charac Model.Framing Model.Hap
  Proofs.HapProofs Proofs.SpecProofs Proofs.FramingProofs Model.Srp Proofs.SrpProofs.
Open Scope N_scope.

(** From EVERY world (any store contents, other connections in any state), on a fresh connection,
    a controller that knows the setup code completes pair-setup (its name and key are what is
    stored), then pair-verify (the connection is verified), then is served over the session — for
    every controller name and key. *)
Theorem C04_completes : forall w c n p,
  let pk := N.pos p in   (* the controller has a long-term public key *)
  let ops := [OConnect c;
              OReq c TPlain (EPairSetup PSStart); OReq c TPlain (EPairSetup (PSVerify AValid PRight));
              OReq c TPlain (EPairSetup (PSKeyExch KSession (IGenuine n pk) false));
              OReq c TPlain (EPairVerify (PVStart true)); OReq c TPlain (EPairVerify (PVFinish true false true n SGenuine));
              OReq c TSession EAccessories] in
  let '(w', rs) := run fixed w ops in
  rs = [RNoContent; RTlv 2 None; RTlv 4 None; RTlv 6 None; RTlv 2 None; RTlv 4 None; RAccessories (db_of w)] /\
  store w' = store_put (store w) n pk /\ verified w' c = true /\ chars w' = chars w.
Proof. exact honest_run. Qed.
Print Assumptions C04_completes.

(** With a wrong setup code the same controller is answered with authentication error 2 and
    nothing is stored. *)
Theorem C04_wrong_code : forall w c n pk,
  let ops := [OConnect c; OReq c TPlain (EPairSetup PSStart); OReq c TPlain (EPairSetup (PSVerify AValid PWrong));
              OReq c TPlain (EPairSetup (PSKeyExch KOther (IGenuine n pk) false))] in
  let '(w', rs) := run fixed w ops in
  rs = [RNoContent; RTlv 2 None; RTlv 4 (Some 2); RHttp500] /\ store w' = store w.
Proof. exact wrong_code_run. Qed.
Print Assumptions C04_wrong_code.

(** Every constant the handshake depends on, as found in the Go source on this run
    (Gen/Extracted.v), is the specification's: SRP group / user name / hash, HKDF salts and infos,
    AEAD nonces PS-Msg05/06 and PV-Msg02/03, TLV8 type numbers ... *)
Theorem C04_constants_are_the_specification :
  Extracted.srp_group = spec_srp_group /\ Extracted.srp_username = spec_srp_username /\
  Extracted.srp_hash = s2b "sha512.New"%string /\
  Extracted.ps_enc_salt = spec_ps_enc_salt /\ Extracted.ps_enc_info = spec_ps_enc_info /\
  Extracted.ps_m5_nonce = spec_ps_m5_nonce /\ Extracted.ps_m6_nonce = spec_ps_m6_nonce /\
  Extracted.ps_ctrl_sign = spec_ps_ctrl_sign /\ Extracted.ps_acc_sign = spec_ps_acc_sign /\
  Extracted.pv_enc_salt = spec_pv_enc_salt /\ Extracted.pv_enc_info = spec_pv_enc_info /\
  Extracted.pv_m2_nonce = spec_pv_m2_nonce /\ Extracted.pv_m3_nonce = spec_pv_m3_nonce /\
  [Extracted.tag_TagPairingMethod; Extracted.tag_TagUsername; Extracted.tag_TagSalt; Extracted.tag_TagPublicKey;
   Extracted.tag_TagProof; Extracted.tag_TagEncryptedData; Extracted.tag_TagSequence; Extracted.tag_TagErrCode;
   Extracted.tag_TagSignature; Extracted.tag_TagPermission] = spec_tags.
Proof. exact pairing_constants_are_spec. Qed.
Print Assumptions C04_constants_are_the_specification.

(** ... and the signed blobs are concatenated in the specification's order (X, PairingID, LTPK for
    pair-setup; own ephemeral key, PairingID, peer's ephemeral key for pair-verify). *)
Theorem C04_signature_material_order :
  map (role_of false) Extracted.ps_ctrl_material = spec_setup_info /\
  map (role_of true) Extracted.ps_acc_material = spec_setup_info /\
  map (role_of true) Extracted.pv_acc_material = spec_verify_info /\
  map (role_of false) Extracted.pv_ctrl_material = spec_verify_info.
Proof. exact signature_material_is_spec. Qed.
Print Assumptions C04_signature_material_order.

(** Encrypted requests and responses: both directions of the session interoperate (C06). *)
Theorem C04_session_interop : forall shared msgs, Forall rd_wf msgs ->
  fst (recv_all (new_client_session shared) (fst (send_all (new_server_session shared) msgs)))
  = map (fun r => Some (concat r)) msgs /\
  fst (recv_all (new_server_session shared) (fst (send_all (new_client_session shared) msgs)))
  = map (fun r => Some (concat r)) msgs.
Proof. exact both_directions_sequence. Qed.
Print Assumptions C04_session_interop.

(** SRP-6a itself, over the integers (the world model above treats the proof symbolically): for EVERY
    group modulus, generator, user name, setup code, salt and secrets a (controller) and b (accessory),
    a controller that computes A, the premaster secret, K, M1 and the expected M2 as the specification
    says, against an accessory that holds the verifier of the same code, is ACCEPTED: the accessory
    derives the same key K and answers with exactly the proof the controller expects — unless one of
    the accessory's degenerate-value guards (A = 0 mod N, u = 0, A v^u <= 1) fires, in which case it
    refuses before deriving a key.  It is never the proof comparison that fails.
    ([mexp_spec b e n] is [b ^ e mod n]; the correspondence run evaluates the same [client] with a fast
    exponentiation proved equal to it in Proofs/SrpFast.v and compares A, M1 and M2 with what hc's
    accessory accepted and answered.) *)
Theorem C04_srp_completes : forall G user pin salt a b,
  (0 < gN G)%Z -> (0 <= a)%Z -> (0 <= b)%Z ->
  let v := verifier mexp_spec G (srp_x user pin salt) in
  let c := client mexp_spec G user pin a salt (zbe (server_B mexp_spec G v b)) in
  match server mexp_spec G user salt v b (cA c) (cM1 c) with
  | SrvOk K M2 => K = cK c /\ M2 = cM2 c
  | SrvBadProof => False
  | _ => True
  end.
Proof. exact srp_completes. Qed.
Print Assumptions C04_srp_completes.

(** the premaster secrets agree for all exponents (the algebra behind it) *)
Theorem C04_srp_agreement : forall G x a b u, (0 < gN G)%Z -> (0 <= x)%Z -> (0 <= a)%Z -> (0 <= b)%Z -> (0 <= u)%Z ->
  let v := verifier mexp_spec G x in
  client_S mexp_spec G (srp_k G) x a u (server_B mexp_spec G v b)
  = mexp_spec (server_base mexp_spec G v u (mexp_spec (gg G) a (gN G))) b (gN G).
Proof. exact srp_agreement. Qed.
Print Assumptions C04_srp_agreement.
