(** C14 — accessory and instance ids are unique, stable and well-formed. *)
From Coq Require Import String.
From HC Require Import Base.HBytes Gen.Extracted Gen.CatalogGen Model.Spec Model.Catalog Model.Ids Proofs.IdsProofs.
Open Scope N_scope.

(** Within an accessory built from ANY list of services (any number of characteristics each),
    the ids of services and characteristics, in construction order, are exactly 1, 2, 3, ... *)
Theorem C14_instance_ids_sequential : forall s,
  instance_ids s = map N.of_nat (seq 1 (length s + fold_right Nat.add 0%nat s)).
Proof. exact instance_ids_seq. Qed.
Print Assumptions C14_instance_ids_sequential.

(** ... hence unique and non-zero; and they are a function of the shape (construction order) alone,
    so rebuilding the same accessory yields the same ids. *)
Theorem C14_instance_ids_unique_nonzero : forall s,
  NoDup (instance_ids s) /\ Forall (fun i => i <> 0) (instance_ids s).
Proof. exact instance_ids_unique_nonzero. Qed.
Print Assumptions C14_instance_ids_unique_nonzero.

(** For EVERY composition of accessories with explicit or automatic ids, the ids of the
    accessories in the container are unique and non-zero (a duplicate is rejected). *)
Theorem C14_accessory_ids_unique_nonzero : forall l,
  NoDup (map fst (c_accs (add_all l))) /\ Forall (fun a => fst a <> 0) (c_accs (add_all l)).
Proof. exact container_ids. Qed.
Print Assumptions C14_accessory_ids_unique_nonzero.

(** ... also for EVERY history of additions and removals, of members and of accessories that are
    not members (e.g. one that AddAccessory refused): an id in use is never given out again. *)
Theorem C14_accessory_ids_unique_nonzero_history : forall ops,
  let m := fold_left capply ops empty_container in
  NoDup (map fst (c_accs m)) /\ Forall (fun a => fst a <> 0) (c_accs m).
Proof. exact container_ids_history. Qed.
Print Assumptions C14_accessory_ids_unique_nonzero_history.

(** The served JSON always carries the mandatory members: the struct tags found in the Go source on
    this run emit aid / iid / type / services / characteristics / perms / format unconditionally. *)
Theorem C14_json_mandatory_members :
  mandatory [s2b "ID=iid"; s2b "Type=type"; s2b "Perms=perms"; s2b "Format=format"] Extracted.json_characteristic = true /\
  mandatory [s2b "ID=iid"; s2b "Type=type"; s2b "Characteristics=characteristics"] Extracted.json_service = true /\
  mandatory [s2b "ID=aid"; s2b "Services=services"] Extracted.json_accessory = true /\
  mandatory [s2b "Accessories=accessories"] Extracted.json_container = true.
Proof. exact json_members_mandatory. Qed.
Print Assumptions C14_json_mandatory_members.

(** ... and every characteristic constructor of the library sets a format and a non-empty list of
    valid permissions. *)
Theorem C14_every_ctor_sets_format_and_perms :
  forallb (fun k => negb (eqb_bytes (cc_format k) []) && negb (match cc_perms k with [] => true | _ => false end) &&
                    forallb valid_perm (cc_perms k)) char_ctors = true.
Proof. exact catalog_format_perms. Qed.
Print Assumptions C14_every_ctor_sets_format_and_perms.

Example C14_nonvacuous :
  instance_ids [6; 1; 3]%nat = [1; 2; 3; 4; 5; 6; 7; 8; 9; 10; 11; 12; 13] /\
  map fst (c_accs (add_all [(0, [6; 1]%nat); (5, [6]%nat); (0, [6]%nat); (2, [6]%nat); (0, [6]%nat)])) = [1; 5; 2; 3].
Proof. exact ids_nonvacuous. Qed.
