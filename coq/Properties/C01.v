(** C01 — protected endpoints serve only pair-verified connections. *)
From HC Require Import Base.HBytes Model.Charac Model.Hap Proofs.HapProofs.
Open Scope N_scope.

(** A peer without the setup code and without a paired long-term key ([adv_on c]: on connection c it
    never sends a right SRP proof nor a genuinely signed finish) never gets connection c verified —
    for EVERY sequence of operations, whatever happens on the other connections (legitimate
    controllers pairing, verifying, reading, writing, subscribing), the application, connects and
    closes. *)
Theorem C01_adversary_never_verified : forall ops w c,
  unv w c -> Forall (adv_on c) ops -> unv (fst (run fixed w ops)) c.
Proof. exact adv_run. Qed.
Print Assumptions C01_adversary_never_verified.

(** An unverified connection is refused every protected operation (listing accessories, reading /
    writing characteristics, subscribing, fetching resources, adding / removing pairings), over any
    transport it can produce; the answer is the constant refusal (or, for ciphertext, net/http's
    400-and-close) — so it cannot depend on any attribute or value — and nothing changes: store,
    characteristic values, event outbox, application callbacks, every other connection, and the
    connection itself stays unverified with its subscriptions as they were. *)
Theorem C01_refused_no_disclosure_no_effect : forall w c cn t e,
  get_conn (conns w) c = Some cn -> hc_open cn = true -> unverified_conn cn ->
  protected fixed e = true ->
  let '(w', r) := step fixed w (OReq c t e) in
  (r = RRefused470 \/ r = RHttp400Closed) /\
  store w' = store w /\ chars w' = chars w /\ outbox w' = outbox w /\ cblog w' = cblog w /\
  (forall d, d <> c -> get_conn (conns w') d = get_conn (conns w) d) /\
  (forall cn', get_conn (conns w') c = Some cn' -> unverified_conn cn' /\ hc_subs cn' = (if hc_open cn' then hc_subs cn else [])).
Proof. exact protected_refused. Qed.
Print Assumptions C01_refused_no_disclosure_no_effect.

(** Verification never carries over: a step verifies connection c only if it is a genuine
    pair-verify finish ON c; and a request on d leaves the session state of every c <> d untouched. *)
Theorem C01_no_carry_over : forall w o c,
  verified (fst (step fixed w o)) c = true -> verified w c = true \/ genuine_finish w o c.
Proof. exact verified_step. Qed.
Print Assumptions C01_no_carry_over.

Theorem C01_connections_independent : forall w d t e c, c <> d ->
  option_map flags (get_conn (conns (fst (step fixed w (OReq d t e)))) c) = option_map flags (get_conn (conns w) c).
Proof. exact step_other_conn. Qed.
Print Assumptions C01_connections_independent.

(** The pinned code is refuted: plaintext GET /accessories on a fresh connection is served; an
    unauthenticated POST /pairings stores a controller. *)
Theorem C01_refuted_pinned_plaintext_served :
  snd (run (mkKnobs true true false true true true) (empty_world demo_chars) [OConnect 1; OReq 1 TPlain EAccessories])
  = [RNoContent; RAccessories [((2, 9), VBool false); ((4, 13), VStr [67;65;78;65;82;89] 0 0 false)]].
Proof. exact pinned_plaintext_served. Qed.
Theorem C01_refuted_pinned_pairings :
  store (fst (run (mkKnobs true true true false true true) (empty_world demo_chars) [OConnect 1; OReq 1 TPlain (EPairingsAdd [105] 66)]))
  = [([105], 66)].
Proof. exact pinned_pairings_unprotected. Qed.
Print Assumptions C01_refuted_pinned_pairings.

Example C01_nonvacuous :
  let ops := [OConnect 1;
              OReq 1 TPlain (EPairSetup PSStart); OReq 1 TPlain (EPairSetup (PSVerify AValid PRight));
              OReq 1 TPlain (EPairSetup (PSKeyExch KSession (IGenuine [99] 7) false));
              OReq 1 TPlain (EPairVerify (PVStart true)); OReq 1 TPlain (EPairVerify (PVFinish true false true [99] SGenuine));
              OReq 1 TSession (ECharsPut [((2, 9), None, Some true)]);
              OConnect 2; OReq 2 TPlain (ECharsGet [(2, 9)] true);
              OLocalSet (2, 9) (VBool true);
              OReq 1 TSession (ECharsGet [(2, 9); (7, 7)] true)] in
  let '(w, rs) := run fixed (empty_world demo_chars) ops in
  store w = [([99], 7)] /\ verified w 1 = true /\ verified w 2 = false /\
  outbox w = [(1, (2, 9), VBool true)] /\
  nth 8 rs RPanic = RRefused470 /\
  nth 10 rs RPanic = RChars 207 [((2, 9), Some (VBool true), Some 0%Z); ((7, 7), None, Some (-70402)%Z)].
Proof. exact hap_nonvacuous. Qed.
