(** C07 — reads on an encrypted connection deliver exactly the bytes sent. *)
From HC Require Import Base.HBytes Model.Framing Model.ConnRead Proofs.ConnReadProofs.
