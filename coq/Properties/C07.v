(** C07 — reads on an encrypted connection deliver exactly the bytes sent. *)
From HC Require Import Base.HBytes Base.ChaChaPoly Model.Framing Model.ConnRead Proofs.ConnReadProofs.

(** Refinement to a byte FIFO.  For EVERY list of plaintext chunks the peer sealed (any number,
    each at most one frame), EVERY schedule of socket reads that delivers their ciphertext (any
    segmentation: frames split at any offset or several frames per segment; read timeouts
    anywhere), EVERY sequence of positive caller buffer sizes, any AEAD with open∘seal = id:
      * every Read result is data (non-empty) or a timeout, or the read blocks — never
        end-of-stream, never a decryption error;
      * delivered bytes ++ decrypted-but-undelivered bytes ++ chunks not yet decrypted = what
        the peer sent: no byte lost, duplicated or reordered. *)
Theorem C07_refines_fifo :
  forall seal open,
  (forall k n a p, open k n a (fst (seal k n a p)) (snd (seal k n a p)) = Some p) ->
  (forall k n a p, length (fst (seal k n a p)) = length p /\ length (snd (seal k n a p)) = 16%nat) ->
  forall key bsizes st evs chunks,
    small chunks -> no_eof evs -> Forall (fun b => (0 < b)%nat) bsizes -> closed st = false ->
    received st ++ datas evs = wire seal key (rctr st) chunks ->
    let '(rs, st', evs') := run_reads true open key st bsizes evs in
    Forall good_result rs /\
    exists k, (k <= length chunks)%nat /\
      concat (map out_of rs) ++ plain_of st' ++ concat (skipn k chunks) = plain_of st ++ concat chunks /\
      received st' ++ datas evs' = wire seal key (rctr st') (skipn k chunks).
Proof. exact reads_refine_fifo. Qed.
Print Assumptions C07_refines_fifo.

(** the instance hc runs *)
Theorem C07_refines_fifo_chacha20poly1305 :
  forall key bsizes st evs chunks,
    small chunks -> no_eof evs -> Forall (fun b => (0 < b)%nat) bsizes -> closed st = false ->
    received st ++ datas evs = wire cc_seal key (rctr st) chunks ->
    let '(rs, st', evs') := run_reads true cc_open key st bsizes evs in
    Forall good_result rs /\
    exists k, (k <= length chunks)%nat /\
      concat (map out_of rs) ++ plain_of st' ++ concat (skipn k chunks) = plain_of st ++ concat chunks /\
      received st' ++ datas evs' = wire cc_seal key (rctr st') (skipn k chunks).
Proof. exact cc_reads_refine_fifo. Qed.
Print Assumptions C07_refines_fifo_chacha20poly1305.

(** A read returns data as soon as a complete frame has arrived: it does not consume any
    further socket event (does not wait for the network). *)
Theorem C07_progress : forall key f st b evs c cs,
  small (c :: cs) -> c <> [] -> plain st = None -> closed st = false -> complete (received st) = true ->
  received st ++ datas evs = wire cc_seal key (rctr st) (c :: cs) ->
  exists st', conn_read true cc_open key (S (S f)) st (S b) evs = (RData (firstn (S b) c), st', evs).
Proof. exact cc_read_progress. Qed.
Print Assumptions C07_progress.

(** readFrame conserves the byte stream under every schedule (the lemma the pinned code failed:
    its per-call bufio.Reader dropped read-ahead). *)
Theorem C07_no_byte_lost_by_buffering : forall fuel rcv evs,
  match read_frame fuel rcv evs with
  | (FFrame f rcv1, rcv2, evs') =>
      rcv2 = rcv1 /\ f ++ rcv1 ++ datas evs' = rcv ++ datas evs /\ frame_need f = Some (length f)
  | (_, rcv2, evs') => rcv2 ++ datas evs' = rcv ++ datas evs
  end.
Proof. exact read_frame_conserves. Qed.
Print Assumptions C07_no_byte_lost_by_buffering.

Example C07_nonvacuous :
  let key := repeat 3 32 in
  let chunks := [[1;2;3;4;5]; [6;7]] in
  let w := wire cc_seal key 0 chunks in
  let evs := [SockTimeout; SockData (firstn 30 w); SockData (skipn 30 w)] in
  small chunks /\ no_eof evs /\ received (init_conn 0) ++ datas evs = wire cc_seal key (rctr (init_conn 0)) chunks /\
  fst (fst (run_reads true cc_open key (init_conn 0) [3; 3; 3; 3; 3]%nat evs)) =
    [RTimeout; RData [1;2;3]; RData [4;5]; RData [6;7]; RBlocked].
Proof. exact connread_nonvacuous. Qed.
