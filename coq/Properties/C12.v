(** C12 — a characteristic's value always has its declared type and range. *)
From HC Require Import Base.HBytes Model.Charac Proofs.CharacProofs.

(** For EVERY characteristic of a declared format whose declared bounds have the format's Go type
    and are ordered, and EVERY sequence of local updates, remote writes and getter-function
    refreshes carrying ARBITRARY values (nil, bools, any float64 bit pattern incl. NaN / Inf, ints,
    strings with whatever strconv makes of them, JSON arrays / objects, repeated composites):
    no step panics and the stored value always has the type the format declares and lies within
    the declared minimum and maximum. *)
Theorem C12_invariant : forall ops c,
  declared (format c) -> bounds_ok c = true -> well_typed c = true ->
  exists c' cbs, crun true c ops = Ok (c', cbs) /\ well_typed c' = true /\
    format c' = format c /\ minv c' = minv c /\ maxv c' = maxv c.
Proof. exact crun_well_typed. Qed.
Print Assumptions C12_invariant.

(** The same over histories in which the application declares the range AGAIN between updates
    (Int/Float.SetMinValue / SetMaxValue or the exported fields, as accessory.NewThermostat does),
    every new range being of the format's type and ordered: no step panics, the stored value keeps
    the declared type throughout, every value an update stores or hands to a callback lies within
    the range IN FORCE at that moment, and after every storing update of a readable characteristic
    the stored value is within it.  (Between a narrowing declaration and the next storing update
    the old value stays: hc does not touch the value when the range is declared.) *)
Theorem C12_ranges_declared_again : forall ops c,
  declared (format c) -> bounds_ok c = true -> typed c = true -> redecl_ok c ops ->
  exists tr, crun2 true c ops = Ok tr /\ Forall step_ok tr.
Proof. exact crun2_redeclared. Qed.
Print Assumptions C12_ranges_declared_again.

Example C12_ranges_declared_again_nonvacuous :
  declared (format thermo) /\ bounds_ok thermo = true /\ typed thermo = true /\
  redecl_ok thermo [CUpd (CLocal (VFloat f35 35)); CRedeclare (BFloat f15) (BFloat f30); CUpd (CRemote 1 (VFloat f35 35))] /\
  exists c1 c2 c3 cb1 cb3,
    crun2 true thermo [CUpd (CLocal (VFloat f35 35)); CRedeclare (BFloat f15) (BFloat f30); CUpd (CRemote 1 (VFloat f35 35))]
    = Ok [(c1, [cb1]); (c2, []); (c3, [cb3])] /\
    cvalue c1 = Some (VFloat f35 0) /\ cvalue c2 = Some (VFloat f35 0) /\ well_typed c2 = false /\
    cvalue c3 = Some (VFloat f30 0) /\ well_typed c3 = true.
Proof. exact redeclared_nonvacuous. Qed.

(** Consequently the typed getters' type assertions succeed on every stored value (and floats
    are finite, so the attribute database encodes). *)
Theorem C12_getters_total : forall c v,
  declared (format c) -> well_typed c = true -> cvalue c = Some v ->
  match format c with
  | FString | FData | FTlv8 => exists s a b d, v = VStr s a b d
  | FBool => exists b, v = VBool b
  | FFloat => exists b u, v = VFloat b u /\ f_finite b = true
  | FOther => True
  | _ => exists z, v = VInt z
  end.
Proof. exact getter_total. Qed.
Print Assumptions C12_getters_total.

(** The pinned code (strict := false) is refuted three ways. *)
Theorem C12_refuted_pinned_number_into_string :
  exists c' cbs, cstep false string_char (CRemote 1 (VFloat f_one 1)) = Ok (c', cbs) /\ well_typed c' = false.
Proof. exact pinned_number_into_string. Qed.
Theorem C12_refuted_pinned_NaN_string_into_float :
  let nan := 9221120237041090560%N in
  exists c' cbs, cstep false float_char (CRemote 1 (VStr [78;97;78]%N 0 nan false)) = Ok (c', cbs) /\ well_typed c' = false.
Proof. exact pinned_nan_into_float. Qed.
Theorem C12_refuted_pinned_same_object_twice :
  crun false string_char [CRemote 1 (VComposite 7); CRemote 1 (VComposite 7)] = Panic.
Proof. exact pinned_same_object_twice. Qed.
Print Assumptions C12_refuted_pinned_same_object_twice.

Example C12_nonvacuous :
  declared (format float_char) /\ bounds_ok float_char = true /\ well_typed float_char = true /\
  exists c' cbs, crun true float_char [CRemote 1 (VFloat 4641240890982006784%N 200); CLocal (VStr [78;97;78]%N 0 9221120237041090560%N false);
                                       CRemote 2 (VFloat 4641240890982006784%N 200)] = Ok (c', cbs) /\
     cvalue c' = Some (VFloat 4636737291354636288%N 0) /\ length cbs = 1%nat.
Proof. exact charac_nonvacuous. Qed.
