(** C20 — identity, configuration number and discoverability persist correctly; setup codes and
    the setup URI. *)
From HC Require Import Base.HBytes Gen.Extracted Model.Pin Model.Config Proofs.ConfigProofs.
Open Scope N_scope.

(** Histories: restarts with ANY structure hash and ANY proposals of the random generators,
    pairings and unpairings of controllers, in any order and number. *)

(** The first start on empty storage creates an identity (device id + key pair) and stores it ... *)
Theorem C20_first_start_creates_identity : forall rid rkey h, rid <> [] ->
  good (fst (start empty_disk rid rkey h)) rid rkey.
Proof. exact first_start_good. Qed.
Print Assumptions C20_first_start_creates_identity.

(** ... and from then on, after ANY history that does not overwrite the accessory's own entity, EVERY
    restart reports the same device id and the same long-term key pair, whatever the random
    generators would propose, and the stored identity is unchanged at the end. *)
Theorem C20_identity_stable : forall ops d u k, identity d u k -> forallb (fun o => negb (touches u o)) ops = true ->
  identity (fold_left cstep ops d) u k /\
  forall pre rid rkey h post, ops = pre ++ CStart rid rkey h :: post ->
    let cfg := snd (start (fold_left cstep pre d) rid rkey h) in c_id cfg = u /\ c_key cfg = k.
Proof. exact identity_stable. Qed.
Print Assumptions C20_identity_stable.

(** The premise is needed: the accessory's entity shares its name space with the controllers'
    pairings, so a controller pairing under the accessory's own device id replaces it (recorded
    finding C20:controller-named-as-accessory, reproduced on the code by the PSELF histories). *)
Theorem C20_identity_refuted_when_own_name_is_paired :
  let d1 := fst (start empty_disk [65] 7 [1]) in
  let d2 := pair d1 [65] 9 in
  let '(d3, c3) := start d2 [66] 8 [1] in
  identity d1 [65] 7 /\ touches [65] (CPair [65] 9) = true /\
  c_id c3 = [65] /\ c_key c3 = 9 /\ c_discoverable c3 = true /\ d_entities d3 = [([65], 9, false)].
Proof. exact identity_lost_when_own_name_is_paired. Qed.

(** Pairings persist: a restart never changes the stored entities once the identity exists. *)
Theorem C20_restart_keeps_pairings : forall d rid rkey h u k p, d_uuid d = Some u -> u <> [] ->
  find_entity (d_entities d) u = Some (k, p) ->
  let '(d', cfg) := start d rid rkey h in
  c_id cfg = u /\ c_key cfg = k /\ d_uuid d' = Some u /\ d_entities d' = d_entities d.
Proof. exact start_keeps_identity. Qed.
Print Assumptions C20_restart_keeps_pairings.

(** The configuration number after ANY history is the number before plus the number of restarts
    whose structure hash differs from the previous run's; pairing and unpairing never change it;
    and each restart reports the number that is on disk. *)
Theorem C20_version_counts_structure_changes : forall ops d, hashes_nonempty ops ->
  ver (fold_left cstep ops d) = ver d + count_changes (nonempty (d_hash d)) ops.
Proof. exact version_history. Qed.
Print Assumptions C20_version_counts_structure_changes.

Theorem C20_consecutive_restarts : forall d r1 k1 h1 r2 k2 h2, h1 <> [] ->
  let '(d1, c1) := start d r1 k1 h1 in
  let '(d2, c2) := start d1 r2 k2 h2 in
  c_version c2 = c_version c1 + (if eqb_bytes h1 h2 then 0 else 1).
Proof. exact consecutive_starts. Qed.
Print Assumptions C20_consecutive_restarts.

Theorem C20_start_reports_version : forall d rid rkey h,
  c_version (snd (start d rid rkey h)) = ver (fst (start d rid rkey h)).
Proof. exact start_reports_version. Qed.
Print Assumptions C20_start_reports_version.

(** A start with a changed structure that is KILLED while it rewrites its files (after any number
    of completed, individually atomic writes — the order of the writes is read from config.go on
    this run) and is then repeated still yields a greater configuration number. *)
Theorem C20_interrupted_start_still_increases : forall n d oh h v,
  d_hash d = Some oh -> oh <> [] -> h <> [] -> eqb_bytes oh h = false -> d_version d = Some v ->
  v < ver_after_restart (order_of Extracted.cfg_save_keys) n d h.
Proof. intros n d oh h v. apply interrupted_start_still_increases. exact source_save_order. Qed.
Print Assumptions C20_interrupted_start_still_increases.

Theorem C20_hash_first_refuted :
  let d := fst (start empty_disk [65] 7 [1]) in
  d_version d = Some 1 /\ ver_after_restart [KHash; KUuid; KVersion] 1 d [2] = 1 /\
  ver_after_restart [KUuid; KVersion; KHash] 1 d [2] = 2.
Proof. exact hash_first_loses_the_increase. Qed.

(** "never because characteristic values changed": two attribute databases that differ only in
    "value" members (changed, added or removed, at any depth) have the same hash input. *)
Theorem C20_values_do_not_reach_the_hash :
  (forall j j', same_structure j j' -> strip j = strip j') /\
  (forall l l', same_list l l' -> strip_list l = strip_list l') /\
  (forall m m', same_members m m' -> strip_members m = strip_members m').
Proof. exact strip_ignores_values. Qed.
Print Assumptions C20_values_do_not_reach_the_hash.

(** Discoverability: in every state reached by ANY history from a state with the accessory's own
    entity, the flag (as computed at start and on pair / unpair events) is "discoverable" exactly
    when no entity other than the accessory's own is stored. *)
Theorem C20_discoverable_iff_unpaired : forall ops d u k, good d u k ->
  forallb (fun o => negb (touches u o)) ops = true ->
  let d' := fold_left cstep ops d in
  (discoverable_now d' = true <-> forall n, In n (names (d_entities d')) -> n = u).
Proof. intros ops d u k Hg Hall. apply (discoverable_iff_unpaired _ u k). apply good_history; assumption. Qed.
Print Assumptions C20_discoverable_iff_unpaired.

Theorem C20_start_advertises_current_flag : forall d rid rkey h,
  c_discoverable (snd (start d rid rkey h)) = discoverable_now (fst (start d rid rkey h)).
Proof. exact start_discoverable_is_now. Qed.
Print Assumptions C20_start_advertises_current_flag.

(** Setup codes: with the list of trivial codes found in the Go source on this run, a string is
    accepted exactly when it has eight characters, all digits, and is not one of the trivial codes
    of the HAP specification; the accepted code is formatted XXX-XX-XXX. *)
Theorem C20_pin_accepted_iff : forall s,
  (exists f, validate_pin Extracted.invalid_pins s = Some f) <->
  (length s = 8%nat /\ forallb is_digit s = true /\ ~ In s hap_trivial_codes).
Proof. exact pin_accepted_iff. Qed.
Print Assumptions C20_pin_accepted_iff.

Theorem C20_pin_format : forall trivial s f, validate_pin trivial s = Some f <->
  (length s = 8%nat /\ forallb is_digit s = true /\ existsb (eqb_bytes s) trivial = false) /\ f = fmt_pin s.
Proof. exact validate_pin_spec. Qed.
Print Assumptions C20_pin_format.

(** Setup URI: for EVERY accepted code, category (8 bit), list of flags (4 bit) and setup id, the
    URI decodes — with an independently written decoder — to the code's value, category, flags, id. *)
Theorem C20_setup_uri_roundtrip : forall trivial pin f sid cat flags,
  validate_pin trivial pin = Some f -> cat < 256 -> Forall (fun x => x < 16) flags ->
  exists uri code, xhm_of_pin pin sid cat flags = Some uri /\ parse_dec pin 0 = Some code /\ code < 100000000 /\
                   xhm_decode uri = (code, cat, merge_flags flags, sid).
Proof. exact accepted_pin_uri_roundtrip. Qed.
Print Assumptions C20_setup_uri_roundtrip.

Theorem C20_uri_roundtrip_numeric : forall code cat flags id, code < 100000000 -> cat < 256 -> flags < 16 ->
  xhm_decode (xhm_uri code cat flags id) = (code, cat, flags, id).
Proof. exact xhm_roundtrip. Qed.
Print Assumptions C20_uri_roundtrip_numeric.

(** the Go source's constants on this run are those the model was written against *)
Theorem C20_source_constants : subset_b Extracted.invalid_pins hap_trivial_codes = true /\
  subset_b hap_trivial_codes Extracted.invalid_pins = true /\ Extracted.xhm_shifts = [4; 8; 4; 27] /\
  Extracted.xhm_digits = 9%nat /\ Extracted.xhm_base = 36 /\ Extracted.cfg_first_version = 1 /\ Extracted.paired_threshold = 1.
Proof. destruct source_trivial_codes_are_haps as [A B]. destruct config_constants_pinned as (_ & _ & C & _ & D & E & _ & _ & _ & _ & F & G). repeat split; assumption. Qed.
Print Assumptions C20_source_constants.

Example C20_nonvacuous :
  let d1 := fst (start empty_disk [65] 7 [1]) in
  let d2 := pair d1 [99] 9 in
  let '(d3, c3) := start d2 [66] 8 [2] in
  c_id c3 = [65] /\ c_key c3 = 7 /\ c_version c3 = 2 /\ c_discoverable c3 = false /\
  c_discoverable (snd (start (unpair d3 [99]) [67] 5 [2])) = true /\ c_version (snd (start (unpair d3 [99]) [67] 5 [2])) = 2.
Proof. exact config_nonvacuous. Qed.

(** A FIRST start that ends early — wherever: before or after the id is written, after the
    accessory's entity is saved, in the middle of save() (the order of these steps is read from
    ip_transport.go and config.go on this run) — followed by a complete start: exactly one entity is
    stored, the accessory's own, the accessory is announced as discoverable, and once anything was
    written the id chosen by the first start is the id kept. *)
Theorem C20_first_start_interrupted : forall n rid rkey h rid2 rkey2 h2, rid <> [] -> rid2 <> [] ->
  let r := start (first_start_cut (fsteps_of (order_of Extracted.cfg_save_keys) Extracted.transport_start_steps) n rid rkey h) rid2 rkey2 h2 in
  List.length (d_entities (fst r)) = 1%nat /\ c_discoverable (snd r) = true /\ (0 < n -> c_id (snd r) = rid)%nat.
Proof. intros n rid rkey h rid2 rkey2 h2. apply first_start_cut_recovers. exact source_first_start_order. Qed.
Print Assumptions C20_first_start_interrupted.

(** The pinned order (entity first, id with save()) is refuted: ended after the entity was saved,
    the next start chooses another id and stores a second entity — not discoverable, never paired. *)
Theorem C20_refuted_id_written_last :
  let r := start (first_start_cut [FDevice; FUuid; FVersion; FHash] 1 [65] 7 [1]) [66] 8 [1] in
  List.length (d_entities (fst r)) = 2%nat /\ c_discoverable (snd r) = false.
Proof. exact id_last_refuted. Qed.
