(** C09 — what the application sets is what a controller reads, and vice versa. *)
From HC Require Import Base.HBytes Base.HBytesProofs Model.Charac Model.Hap Proofs.HapProofs Proofs.CharacProofs Model.Respond Proofs.RespondProofs.
Open Scope N_scope.

(** GET /characteristics for ANY id list: one entry per requested id, in order; a found entry
    carries the characteristic's current value (no value when it has none), a missing one status
    -70402; the answer is 207 exactly when some id is missing, and then EVERY entry has a status. *)
Theorem C09_get_shape : forall w ids,
  match do_get fixed w ids with
  | RChars status entries =>
      map (fun e => fst (fst e)) entries = ids /\
      Forall (fun e => match get_char (chars w) (fst (fst e)) with
                       | Some ch => snd (fst e) = cvalue ch /\ (status = 207 -> snd e = Some 0%Z) /\ (status = 200 -> snd e = None)
                       | None => snd (fst e) = None /\ snd e = Some (-70402)%Z end) entries /\
      (status = 207 <-> exists i, In i ids /\ get_char (chars w) i = None) /\
      (status = 200 \/ status = 207) /\
      (status = 207 -> Forall (fun e => snd e <> None) entries)
  | _ => False
  end.
Proof. exact do_get_shape. Qed.
Print Assumptions C09_get_shape.

(** A value valid for the characteristic (fixpoint of conversion and clamping) written by the
    application or a controller is stored exactly (so GET and /accessories carry exactly it), or
    equals the stored value and nothing happens. *)
Theorem C09_write_then_read : forall c v o chk,
  convert true (format c) v = Some v -> clamp c v = v -> p_read c = true -> (chk = true -> p_write c = true) ->
  declared (format c) -> bounds_ok c = true -> well_typed c = true ->
  exists c' cbs, update true c v o chk = Ok (c', cbs) /\ cvalue c' = Some v \/
                 (update true c v o chk = Ok (c, []) /\ iface_eq (cvalue c) v = Some true).
Proof. exact update_valid. Qed.
Print Assumptions C09_write_then_read.

(** The 2048-byte chunked writer and the 1024-byte framing are transparent: pieces concatenate to
    the payload and none exceeds the chunk size (framing: C06). *)
Theorem C09_chunked_identity : forall (p : bytes) n, (0 < n)%nat ->
  concat (chunks n p) = p /\ Forall (fun c => (length c <= n)%nat) (chunks n p).
Proof. exact chunked_identity. Qed.
Print Assumptions C09_chunked_identity.

Theorem C09_get_shape_refuted_pinned :
  do_get (mkKnobs true true true true true false) (empty_world demo_chars) [(2, 9); (2, 99)] =
  RChars 207 [((2, 9), Some (VBool false), None); ((2, 99), None, Some (-70402)%Z)].
Proof. exact pinned_multistatus_incomplete. Qed.
Print Assumptions C09_get_shape_refuted_pinned.

(** What the controller reads stays readable while values change: a response is written to the
    connection in several parts, and notifications for the same connection are produced by other
    goroutines at any moment.  For EVERY history of request starts, response parts, request ends and
    notifications in which parts are written only while a request is being handled, no response is
    continued after a notification ... *)
Theorem C09_responses_never_interleaved : forall ops,
  wf_ops ops = true -> responses_intact (rout (rrun true ops)) = true.
Proof. exact responses_never_interleaved. Qed.
Print Assumptions C09_responses_never_interleaved.

(** ... every notification is written exactly once and in the order it was made (those of a request
    still being handled are pending), the parts of the responses are exactly what the server wrote, and
    once no request is being handled nothing is pending (for every history, well-formed or not). *)
Theorem C09_notifications_and_parts_conserved : forall ops,
  let s := rrun true ops in
  notes_of_items (rout s) ++ pending s = notes_of_ops ops /\
  parts_of_items (rout s) = parts_of_ops ops /\
  (responding s = false -> pending s = []).
Proof. exact notifications_and_parts_conserved. Qed.
Print Assumptions C09_notifications_and_parts_conserved.

(** The code before fix 826820b (notifications written at once) is refuted. *)
Theorem C09_refuted_unqueued_notifications :
  wf_ops [RBegin; RPart [1]; RNotify [9]; RPart [2]; RFinish] = true /\
  responses_intact (rout (rrun false [RBegin; RPart [1]; RNotify [9]; RPart [2]; RFinish])) = false.
Proof. exact unqueued_refuted. Qed.

Example C09_responses_nonvacuous :
  wf_ops [RNotify [8]; RBegin; RPart [1]; RNotify [9]; RPart [2]; RNotify [7]; RFinish; RNotify [6]] = true /\
  rout (rrun true [RNotify [8]; RBegin; RPart [1]; RNotify [9]; RPart [2]; RNotify [7]; RFinish; RNotify [6]])
  = [Note [8]; Part 1 [1]; Part 1 [2]; Note [9]; Note [7]; Note [6]].
Proof. exact respond_nonvacuous. Qed.
