(** C08 — concurrent writers never corrupt the encrypted stream. *)
From HC Require Import Base.HBytes Model.ConnWrite Proofs.ConnWriteProofs.

(** For EVERY schedule of Enter / Step events of any number of writers with any payloads (fewer
    than 2^64 events): the i-th frame that reaches the socket was sealed with nonce i — no frame
    counter is reused or emitted out of order, so the peer (which opens frame i with counter i)
    can decrypt every frame in the order it arrives — and never more than one writer is between
    sealing and sending. *)
Theorem C08_no_counter_reuse_in_order : forall evs, N.of_nat (length evs) < m64 ->
  let s := wrun true evs in
  in_order 0 (sock s) /\ (length (active s) <= 1)%nat.
Proof. exact locked_writes_in_order. Qed.
Print Assumptions C08_no_counter_reuse_in_order.

(** Every completed write's payload is on the socket intact and contiguous: the socket is the
    concatenation, in completion order, of the completed writes' chunk lists, numbered
    consecutively from 0. *)
Theorem C08_payloads_intact_contiguous : forall evs, N.of_nat (length evs) < m64 ->
  let s := wrun true evs in
  sock s = segs_of 0 (rev (done s)).
Proof. exact locked_writes_intact. Qed.
Print Assumptions C08_payloads_intact_contiguous.

(** Without the mutex (the pinned code) the statement is false: two writers of one frame each. *)
Theorem C08_refuted_unlocked :
  let s := wrun false [Enter 0 [[1]]; Enter 1 [[2]]; Step 0; Step 1; Step 1; Step 0] in
  sock s = [(1, 1%nat, [2]); (0, 0%nat, [1])] /\ ~ in_order 0 (sock s).
Proof. exact unlocked_out_of_order. Qed.
Print Assumptions C08_refuted_unlocked.

Example C08_nonvacuous :
  let evs := [Enter 0 [[1]; [2]]; Enter 1 [[9]]; Step 0; Step 1; Step 0; Enter 1 [[9]]; Step 0; Enter 1 [[9]]; Step 1; Step 1] in
  sock (wrun true evs) = [(0, 0%nat, [1]); (1, 0%nat, [2]); (2, 1%nat, [9])].
Proof. vm_compute. reflexivity. Qed.
