(** Model of ValidatePin (password.go) and util.XHMURI (util/xhmurl.go). *)
From HC Require Import Base.HBytes.
Open Scope N_scope.

Definition is_digit (b : N) : bool := (48 <=? b) && (b <=? 57).

(** [trivial] is the list found in the Go source (Gen/Extracted.v) *)
Definition validate_pin (trivial : list bytes) (s : bytes) : option bytes :=
  if existsb (eqb_bytes s) trivial then None
  else if negb (length s =? 8)%nat then None
  else if negb (forallb is_digit s) then None
  else Some (firstn 3 s ++ [45] ++ firstn 2 (skipn 3 s) ++ [45] ++ skipn 5 s).

(** X-HM payload: version(3) reserved(4) category(8) flags(4) code(27), 9 base-36 digits *)
Definition xhm_payload (code cat flags : N) : N :=
  (((0 * 16 + 0) * 256 + cat mod 256) * 16 + flags mod 16) * 134217728 + code mod 134217728.

Definition b36_digit (d : N) : N := if d <? 10 then 48 + d else 55 + d.      (* '0'..'9', 'A'..'Z' *)
Fixpoint b36_rev (k : nat) (x : N) : bytes :=
  match k with O => [] | S k' => b36_digit (x mod 36) :: b36_rev k' (x / 36) end.
Definition b36 (x : N) : bytes := rev (b36_rev 9 x).

Definition xhm_prefix : bytes := [88; 45; 72; 77; 58; 47; 47].     (* "X-HM://" *)
Definition xhm_uri (code cat flags : N) (setup_id : bytes) : bytes := xhm_prefix ++ b36 (xhm_payload code cat flags) ++ setup_id.

(** an independent decoder, as a controller scanning the code would do *)
Definition b36_val (c : N) : N := if c <? 58 then c - 48 else c - 55.
Definition b36_decode (ds : bytes) : N := fold_left (fun acc c => acc * 36 + b36_val c) ds 0.
Definition xhm_decode (uri : bytes) : N * N * N * bytes :=
  let body := skipn 7 uri in
  let p := b36_decode (firstn 9 body) in
  (p mod 134217728, (p / 134217728 / 16) mod 256, (p / 134217728) mod 16, skipn 9 body).


(** util.XHMURI as called with a textual pin: dashes removed, decimal parse (strconv.ParseUint), flags or-ed *)
Definition strip_dashes (s : bytes) : bytes := filter (fun b => negb (b =? 45)) s.
Fixpoint parse_dec (s : bytes) (acc : N) : option N :=
  match s with
  | [] => Some acc
  | b :: r => if is_digit b then parse_dec r (acc * 10 + (b - 48)) else None
  end.
Definition merge_flags (flags : list N) : N := fold_left N.lor flags 0.
Definition xhm_of_pin (pin sid : bytes) (cat : N) (flags : list N) : option bytes :=
  match strip_dashes pin with
  | [] => None
  | p => match parse_dec p 0 with
         | Some code => Some (xhm_uri code cat (merge_flags flags) sid)
         | None => None
         end
  end.
