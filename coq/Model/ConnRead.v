(** Model of hap.Connection.DecryptedRead / readFrame (hap/connection.go): the read path of an
    encrypted connection over a socket whose Read results are given by a schedule. *)
From HC Require Import Base.HBytes Base.ChaChaPoly Model.Framing.

(** what successive Read calls on the underlying net.Conn return *)
Inductive sockev :=
| SockData (bs : bytes)      (* some bytes arrived (non-empty); a Read returns at most sock_buf of them *)
| SockTimeout                (* the read deadline expired: net.Error with Timeout() *)
| SockEOF.                   (* the peer closed *)

Definition sock_buf : nat := 1042.      (* 2 + PacketLengthMax + 16, the buffer readFrame passes to Read *)

Record cstate := mkC {
  received : bytes;          (* con.received: bytes read from the socket, not yet decrypted *)
  plain : option bytes;      (* con.readBuffer: decrypted bytes of the current frame not yet returned *)
  rctr : N;                  (* decryptCount of the session *)
  closed : bool
}.

Inductive rres :=
| RZero                      (* (0, nil) for a non-empty buffer: the pinned read path after a failed frame *)
| RData (bs : bytes)         (* (n > 0 or len(b) = 0, nil) *)
| RTimeout                   (* (0, timeout error): connection stays open *)
| RErr (code : N)            (* any other error. 1 = EOF, 2 = decrypt failure (socket closed by the read path), 3 = read on the closed socket *)
| RBlocked.                  (* the schedule is exhausted: the Read would block *)

Definition frame_need (rcv : bytes) : option nat :=
  match rcv with
  | l0 :: l1 :: _ => Some (2 + N.to_nat (l0 + 256 * l1) + 16)%nat
  | _ => None
  end.

Inductive fres :=
| FFrame (f : bytes) (rcv' : bytes)
| FTimeout
| FEOF
| FBlocked.

(** readFrame: loop until [received] holds a complete frame *)
Fixpoint read_frame (fuel : nat) (rcv : bytes) (evs : list sockev) : fres * bytes * list sockev :=
  match fuel with
  | O => (FBlocked, rcv, evs)
  | S f =>
    let complete := match frame_need rcv with
                    | Some n => (n <=? length rcv)%nat
                    | None => false end in
    if complete then
      match frame_need rcv with
      | Some n => (FFrame (firstn n rcv) (skipn n rcv), skipn n rcv, evs)
      | None => (FBlocked, rcv, evs)
      end
    else
      match evs with
      | [] => (FBlocked, rcv, [])
      | SockTimeout :: evs' => (FTimeout, rcv, evs')
      | SockEOF :: evs' => (FEOF, rcv, evs')
      | SockData bs :: evs' =>
        if (length bs <=? sock_buf)%nat then read_frame f (rcv ++ bs) evs'
        else read_frame f (rcv ++ firstn sock_buf bs) (SockData (skipn sock_buf bs) :: evs')
      end
  end.

(** fuel for read_frame: every iteration either finishes or consumes at least one byte / event *)
Definition ev_size (e : sockev) : nat := match e with SockData bs => S (length bs) | _ => 1%nat end.
Definition evs_size (evs : list sockev) : nat := fold_right (fun e a => (ev_size e + a)%nat) 0%nat evs.

Section WithOpen.
  (** [sticky]: after a frame failed to decrypt nothing more is delivered (buffered bytes are dropped
      and the error is returned).  [false] is the read path before commit "stop reading ... after a
      frame failed to decrypt": it closed the socket but answered (0, nil) and kept the buffer. *)
  Variable sticky : bool.
  Variable open : bytes -> bytes -> bytes -> bytes -> bytes -> option bytes.
  Variable key : bytes.

  (** one DecryptedRead(b) with len(b) = bsize *)
  Fixpoint conn_read (fuel : nat) (st : cstate) (bsize : nat) (evs : list sockev)
    : rres * cstate * list sockev :=
    match fuel with
    | O => (RBlocked, st, evs)
    | S f =>
      match plain st with
      | Some p =>
        let out := firstn bsize p in
        let p' := skipn bsize p in
        (* n < len(b) || err == io.EOF (the buffer was already empty) drops the buffer *)
        let drop := ((length out <? bsize)%nat || ((length p =? 0)%nat && negb (bsize =? 0)%nat))%bool in
        let st' := mkC (received st) (if drop then None else Some p') (rctr st) (closed st) in
        match out, bsize with
        | [], S _ => conn_read f st' bsize evs          (* used up: continue with the next frame *)
        | _, _ => (RData out, st', evs)
        end
      | None =>
        (* once the read path has closed the socket, socket reads fail; complete frames that are
           still buffered (non-sticky variant only) are served without touching the socket *)
        match (if closed st then read_frame 1 (received st) [] else read_frame (S (evs_size evs)) (received st) evs) with
        | (FFrame fr rcv', _, evs0) =>
          let evs' := if closed st then evs else evs0 in
          match decrypt open key (rctr st) fr with
          | DOk pt c _ => conn_read f (mkC rcv' (Some pt) c (closed st)) bsize evs'
          | DErr _ c => if sticky then (RErr 2, mkC [] None c true, evs') else (RZero, mkC rcv' None c true, evs')
          end
        | (FTimeout, rcv', evs') => (RTimeout, mkC rcv' None (rctr st) (closed st), evs')
        | (FEOF, rcv', evs') => (RErr 1, mkC rcv' None (rctr st) true, evs')
        | (FBlocked, rcv', evs') =>
          if closed st then ((if sticky then RErr 3 else RZero), st, evs) else (RBlocked, mkC rcv' None (rctr st) (closed st), evs')
        end
      end
    end.

  (** a caller issuing reads with the given buffer sizes until one blocks or fails *)
  Fixpoint run_reads (st : cstate) (bsizes : list nat) (evs : list sockev) : list rres * cstate * list sockev :=
    match bsizes with
    | [] => ([], st, evs)
    | b :: bs =>
      let '(r, st', evs') := conn_read (4 + length (received st) + evs_size evs) st b evs in
      match r with
      | RBlocked | RErr 1 => ([r], st', evs')       (* the caller stops at end-of-stream / when it would block *)
      | _ => let '(rs, st'', evs'') := run_reads st' bs evs' in (r :: rs, st'', evs'')
      end
    end.
End WithOpen.

Definition init_conn (ctr : N) : cstate := mkC [] None ctr false.
