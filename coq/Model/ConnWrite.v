(** Model of the write path of hap.Connection (Write -> EncryptedWrite -> Encrypt -> socket)
    under every interleaving of concurrent writers.
    [locked = true] is the current code (Connection.Write holds writeMutex around sealing and
    sending); [locked = false] is the pinned code. A sealed frame is recorded abstractly as
    (counter used as nonce, writer id, chunk). *)
From HC Require Import Base.HBytes.

Definition fr := (N * nat * bytes)%type.       (* counter, writer, plaintext chunk *)

Record writer := mkW {
  wid : nat;
  todo : list bytes;          (* chunks of its payload not yet sealed *)
  wbuf : list fr;             (* frames sealed, not yet handed to the socket *)
  orig : list bytes;          (* ghost: the payload's chunks as given to Write (never changes) *)
}.

Record wstate := mkS {
  wctr : N;                   (* session.encryptCount *)
  sock : list fr;             (* what reached the socket, in order *)
  active : list writer;       (* writers inside the critical region (at most one when locked) *)
  done : list (nat * list bytes)   (* ghost: completed writes (writer, payload chunks), most recent first *)
}.

Inductive wev :=
| Enter (t : nat) (chunks : list bytes)   (* a goroutine calls Write; with the lock it gets in only if nobody is inside *)
| Step (t : nat).                         (* writer t performs its next micro-step *)

Fixpoint upd (ws : list writer) (t : nat) (f : writer -> option writer) : list writer :=
  match ws with
  | [] => []
  | w :: r => if Nat.eqb (wid w) t then match f w with Some w' => w' :: r | None => r end
              else w :: upd r t f
  end.
Fixpoint find (ws : list writer) (t : nat) : option writer :=
  match ws with
  | [] => None
  | w :: r => if Nat.eqb (wid w) t then Some w else find r t
  end.

Definition m64 : N := 18446744073709551616.

Definition wstep (locked : bool) (s : wstate) (e : wev) : wstate :=
  match e with
  | Enter t chunks =>
    match find (active s) t with
    | Some _ => s
    | None =>
      if (locked && negb (match active s with [] => true | _ => false end))%bool then s   (* blocked on the mutex *)
      else mkS (wctr s) (sock s) (active s ++ [mkW t chunks [] chunks]) (done s)
    end
  | Step t =>
    match find (active s) t with
    | None => s
    | Some w =>
      match todo w with
      | c :: rest =>      (* seal one chunk: nonce = current counter, then increment *)
        mkS ((wctr s + 1) mod m64) (sock s)
            (upd (active s) t (fun w => Some (mkW (wid w) rest (wbuf w ++ [(wctr s, wid w, c)]) (orig w)))) (done s)
      | [] =>             (* everything sealed: one socket write of all frames, then leave *)
        mkS (wctr s) (sock s ++ wbuf w) (upd (active s) t (fun _ => None)) ((t, orig w) :: done s)
      end
    end
  end.

Definition wrun (locked : bool) (evs : list wev) : wstate :=
  fold_left (wstep locked) evs (mkS 0 [] [] []).

(** what the peer needs: the i-th frame on the wire was sealed with nonce i *)
Fixpoint in_order (from : N) (l : list fr) : Prop :=
  match l with
  | [] => True
  | (c, _, _) :: r => c = from /\ in_order (from + 1) r
  end.
