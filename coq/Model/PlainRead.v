(** * The plain text phase of hap.Connection.Read and the HTTP layer above it, up to the switch to the secure session

    [cread] is Connection.Read before the connection is encrypted (hap/connection.go), over [PlainFrame.pm_bytes]:
    fill the buffer from the socket when it is empty; close when the end of a message could not be told and a secure
    session is there; switch to the secure session — everything buffered is the beginning of the encrypted stream —
    when one is pending (Session.Decrypter promotes the cryptographer the pair-verify handler set); hand over nothing
    of the next message while a request is being handled; else hand over what [pm_bytes] says.

    The world around it: bytes arrive from the network; the HTTP layer (net/http's serve loop, hap/http/server.go
    connState) reads; it is "responding" from the moment a request's header is complete (StateActive follows
    readRequest in the same goroutine) until the response is written (StateIdle); the pair-verify handler may accept
    the request being handled once all of it was handed over. *)
From HC Require Import Base.HBytes Model.PlainFrame.
From Coq Require Import List Bool Arith NArith.
Import ListNotations.
Open Scope N_scope.

Record cst := mkC {
  c_p : pst;                (* plainHeader, plainBody, plainUnframed *)
  c_plain : bytes;          (* con.plain *)
  c_pending : bool;         (* session.nextCryptographer != nil *)
  c_enc : bool;             (* session.cryptographer != nil *)
  c_resp : bool;            (* con.responding *)
  c_closed : bool;
  c_received : bytes }.     (* con.received: not decrypted yet *)

Definition cst0 := mkC pst0 [] false false false false [].

Inductive pres := PHand (d : bytes) | PZero | PBlock | PClosed | PSecure.

Definition at_boundary (p : pst) : bool := (Nat.eqb (length (ps_header p)) 0) && (ps_body p =? 0).

(** one call of Read with a buffer of [max] bytes; [sock]: what has arrived and was not read yet.
    The HTTP layer's [responding] becomes true with the read that completes a header. *)
Definition cread (c : cst) (sock : bytes) (max : nat) (orc : list clen) : pres * cst * bytes * list clen :=
  if c_closed c then (PClosed, c, sock, orc) else
  if c_enc c then (PSecure, c, sock, orc) else
  let '(blocked, plain, sock') :=
    match c_plain c with
    | [] => match max, sock with
            | O, _ => (true, [], sock)
            | _, [] => (true, [], sock)
            | _, _ => (false, firstn max sock, skipn max sock)
            end
    | _ => (false, c_plain c, sock)
    end in
  if blocked then ((match max with O => PZero | _ => PBlock end), c, sock, orc) else
  if c_pending c then
    if ps_unframed (c_p c)
    then (PClosed, mkC (c_p c) [] false true (c_resp c) true (c_received c), sock', orc)
    else (PSecure, mkC (c_p c) [] false true (c_resp c) false (c_received c ++ plain), sock', orc)
  else
  if at_boundary (c_p c) && c_resp c
  then (PZero, mkC (c_p c) plain false false (c_resp c) false (c_received c), sock', orc)
  else
    let '(n, p', orc') := pm_bytes (c_p c) plain max orc in
    (* the read was looking for the end of a header and found it: net/http's readRequest returns, StateActive *)
    let header_done := (ps_body (c_p c) =? 0) && (Nat.eqb (length (ps_header p')) 0) && negb (Nat.eqb n 0) in
    (PHand (firstn n plain),
     mkC p' (skipn n plain) false false (c_resp c || header_done) false (c_received c), sock', orc').

Inductive wev :=
| EArrive (k : nat)        (* k more bytes arrive from the network *)
| ERead (max : nat)        (* the HTTP layer reads *)
| EVerify                  (* a pair-verify handler accepts: Session.SetCryptographer — at ANY moment, no guard *)
| EDone.                   (* the response is written: StateIdle *)

Record world := mkW {
  w_c : cst; w_sock : bytes; w_future : bytes; w_orc : list clen;
  w_delivered : bytes }.      (* everything handed to the HTTP layer in plain text, in order *)

Definition wstep (w : world) (e : wev) : world :=
  match e with
  | EArrive k => mkW (w_c w) (w_sock w ++ firstn k (w_future w)) (skipn k (w_future w)) (w_orc w) (w_delivered w)
  | ERead max =>
    let '(r, c', sock', orc') := cread (w_c w) (w_sock w) max (w_orc w) in
    mkW c' sock' (w_future w) orc'
        (match r with PHand d => w_delivered w ++ d | _ => w_delivered w end)
  | EVerify =>
    let c := w_c w in
    mkW (mkC (c_p c) (c_plain c) true (c_enc c) (c_resp c) (c_closed c) (c_received c))
        (w_sock w) (w_future w) (w_orc w) (w_delivered w)
  | EDone =>
    let c := w_c w in
    mkW (mkC (c_p c) (c_plain c) (c_pending c) (c_enc c) false (c_closed c) (c_received c))
        (w_sock w) (w_future w) (w_orc w) (w_delivered w)
  end.

Definition winit (stream : bytes) (orc : list clen) : world := mkW cst0 [] stream orc [].
Definition wrun (stream : bytes) (orc : list clen) (evs : list wev) : world := fold_left wstep evs (winit stream orc).
