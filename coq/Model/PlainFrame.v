(** * Where a plain text HTTP message ends — hap.Connection.plainHeaderEnd / plainMessageBytes, byte for byte

    Before a connection is encrypted hap.Connection.Read hands the HTTP layer the bytes of ONE message at
    a time (repairs cfc28f0, 9586e4d; the discipline [Pipeline.framed]).  This file is the code that finds
    the end of a message:

    - [derive] / [scan]  : plainHeaderEnd — the header ends with the first empty line, a line ending with
                           "\n" or "\r\n"; the code does not carry a scanner state from call to call, it
                           looks at the last two bytes of what it handed over before ([derive]);
    - [pm_bytes]         : plainMessageBytes — body bytes are counted down, a header is looked for otherwise;
    - [preads]           : the plain text phase of Read over socket segments and caller buffer sizes.

    What net/http's ReadRequest answers for a complete header (Content-Length, unknown length, not a
    request) is NOT modelled: it is the oracle [orc], one answer per header end, in order. *)
From HC Require Import Base.HBytes.
From Coq Require Import List Bool Arith NArith.
Import ListNotations.
Open Scope N_scope.

Definition hstate := (bool * bool)%type.        (* lineStart, afterCR *)
Definition hinit : hstate := (false, false).

(** one byte; [None]: the header ends with this byte *)
Definition hstep (st : hstate) (c : N) : option hstate :=
  let '(ls, cr) := st in
  if c =? 10 then (if ls then None else Some (true, false))
  else if (c =? 13) && ls && negb cr then Some (true, true)
  else Some (false, false).

(** [scan st b]: number of bytes of [b] up to and including the empty line, [None] when it is not in [b] *)
Fixpoint scan (st : hstate) (b : bytes) : option nat :=
  match b with
  | [] => None
  | c :: r => match hstep st c with
              | None => Some 1%nat
              | Some st' => option_map S (scan st' r)
              end
  end.

(** the state after [b] when the header does not end in it *)
Fixpoint final (st : hstate) (b : bytes) : option hstate :=
  match b with
  | [] => Some st
  | c :: r => match hstep st c with None => None | Some st' => final st' r end
  end.

(** the state the code computes from the last two bytes handed over before *)
Definition derive (h : bytes) : hstate :=
  match rev h with
  | [] => (false, false)
  | x :: t => ((x =? 10) || ((x =? 13) && match t with y :: _ => y =? 10 | [] => false end), x =? 13)
  end.

Definition header_end (h b : bytes) : option nat := scan (derive h) b.

(** what ReadRequest made of a complete header *)
Inductive clen := CL (n : N) | CUnknown | CBad.

Record pst := mkPst { ps_header : bytes; ps_body : N; ps_unframed : bool }.
Definition pst0 := mkPst [] 0 false.

Definition max_header_bytes : N := 1048576.      (* http.DefaultMaxHeaderBytes *)

Definition pm_bytes (s : pst) (plain : bytes) (max : nat) (orc : list clen) : nat * pst * list clen :=
  let n := Nat.min (length plain) max in
  if 0 <? ps_body s then
    let n' := if ps_body s <? N.of_nat n then N.to_nat (ps_body s) else n in
    (n', mkPst (ps_header s) (ps_body s - N.of_nat n') (ps_unframed s), orc)
  else
    match header_end (ps_header s) (firstn n plain) with
    | Some i =>
      match orc with
      | CL k :: o => (i, mkPst [] k (ps_unframed s), o)
      | CUnknown :: o => (i, mkPst [] 0 true, o)
      | CBad :: o => (i, mkPst [] 0 (ps_unframed s), o)
      | [] => (i, mkPst [] 0 (ps_unframed s), [])
      end
    | None =>
      let h := ps_header s ++ firstn n plain in
      (n, mkPst h 0 (ps_unframed s || (max_header_bytes <? N.of_nat (length h))), orc)
    end.

(** the plain text phase of Read: when nothing is buffered at most [max] bytes are taken from the socket
    (the front of [segs]); one result per read *)
Fixpoint preads (s : pst) (plain : bytes) (segs : list bytes) (maxes : list nat) (orc : list clen)
  : list (nat * pst) :=
  match maxes with
  | [] => []
  | m :: ms =>
    let segs0 := filter (fun sg => negb (Nat.eqb (length sg) 0)) segs in
    let '(plain1, segs1) :=
      match plain with
      | [] => match segs0 with
              | [] => ([], [])
              | sg :: r => (firstn m sg, skipn m sg :: r)
              end
      | _ => (plain, segs)
      end in
    match plain1 with
    | [] => []
    | _ => let '(n, s', orc') := pm_bytes s plain1 m orc in
           (n, s') :: preads s' (skipn n plain1) segs1 ms orc'
    end
  end.
