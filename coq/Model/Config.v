(** Model of the start-up / persistence logic of ipTransport (config.go, hap/device.go,
    ip_transport.go): identity, key pair, configuration number, discoverability. *)
From HC Require Import Base.HBytes.
Open Scope N_scope.

(** the persistent directory, as the keys hc uses *)
Record disk := mkDisk {
  d_uuid : option bytes;          (* file "uuid" *)
  d_version : option N;           (* file "version" (decimal) *)
  d_hash : option bytes;          (* file "configHash" *)
  d_entities : list (bytes * N * bool)   (* entity name, key pair / public key id, has private key *)
}.
Definition empty_disk : disk := mkDisk None None None [].

Record runcfg := mkCfg { c_id : bytes; c_key : N; c_version : N; c_discoverable : bool }.

Fixpoint find_entity (l : list (bytes * N * bool)) (n : bytes) : option (N * bool) :=
  match l with
  | [] => None
  | (k, key, priv) :: r => if eqb_bytes k n then Some (key, priv) else find_entity r n
  end.

Definition nonempty (o : option bytes) : option bytes := match o with Some [] => None | x => x end.

(** NewIPTransport: [rnd_id], [rnd_key] are what the random generators would give; [h] is the
    content hash of the accessory database with all "value" members removed *)
Definition start (d : disk) (rnd_id : bytes) (rnd_key : N) (h : bytes) : disk * runcfg :=
  let id := match nonempty (d_uuid d) with Some u => u | None => rnd_id end in
  let version := match d_version d with Some v => v | None => 1 end in
  let old_hash := nonempty (d_hash d) in
  (* NewSecuredDevice: load the entity named by the id or create and save a fresh key pair *)
  let '(key, ents) := match find_entity (d_entities d) id with
                      | Some (k, _) => (k, d_entities d)
                      | None => (rnd_key, d_entities d ++ [(id, rnd_key, true)])
                      end in
  let paired := (1 <? N.of_nat (length ents)) in
  let version' := match old_hash with
                  | Some oh => if eqb_bytes oh h then version else version + 1
                  | None => version end in
  (mkDisk (Some id) (Some version') (Some h) ents, mkCfg id key version' (negb paired)).

(** pairing database changes between / during runs *)
Definition del_entity (l : list (bytes * N * bool)) (n : bytes) := filter (fun e => negb (eqb_bytes (fst (fst e)) n)) l.
Definition pair (d : disk) (name : bytes) (k : N) : disk :=
  mkDisk (d_uuid d) (d_version d) (d_hash d) (del_entity (d_entities d) name ++ [(name, k, false)]).
Definition unpair (d : disk) (name : bytes) : disk :=
  mkDisk (d_uuid d) (d_version d) (d_hash d) (del_entity (d_entities d) name).
Definition discoverable_now (d : disk) : bool := negb (1 <? N.of_nat (length (d_entities d))).

(** ---- the content hash ignores values: JSON trees with every "value" member removed ---- *)
Inductive json :=
| JNull | JBool (b : bool) | JNum (lit : bytes) | JStr (s : bytes)
| JArr (l : jlist)
| JObj (m : jmembers)
with jlist := JNil | JCons (j : json) (r : jlist)
with jmembers := MNil | MCons (k : bytes) (j : json) (r : jmembers).

Definition key_value : bytes := [118; 97; 108; 117; 101].     (* "value" *)

Fixpoint strip (j : json) : json :=
  match j with
  | JArr l => JArr (strip_list l)
  | JObj m => JObj (strip_members m)
  | x => x
  end
with strip_list (l : jlist) : jlist :=
  match l with JNil => JNil | JCons j r => JCons (strip j) (strip_list r) end
with strip_members (m : jmembers) : jmembers :=
  match m with
  | MNil => MNil
  | MCons k j r => if eqb_bytes k key_value then strip_members r else MCons k (strip j) (strip_members r)
  end.

(** two databases that differ only in "value" members (changed, added or removed) *)
Inductive same_structure : json -> json -> Prop :=
| SSRefl : forall j, same_structure j j
| SSArr : forall l l', same_list l l' -> same_structure (JArr l) (JArr l')
| SSObj : forall m m', same_members m m' -> same_structure (JObj m) (JObj m')
with same_list : jlist -> jlist -> Prop :=
| SLNil : same_list JNil JNil
| SLCons : forall j j' r r', same_structure j j' -> same_list r r' -> same_list (JCons j r) (JCons j' r')
with same_members : jmembers -> jmembers -> Prop :=
| SMNil : same_members MNil MNil
| SMCons : forall k j j' r r', same_structure j j' -> same_members r r' -> same_members (MCons k j r) (MCons k j' r')
| SMValueL : forall j r r', same_members r r' -> same_members (MCons key_value j r) r'
| SMValueR : forall j r r', same_members r r' -> same_members r (MCons key_value j r').


Fixpoint json_eqb (a b : json) : bool :=
  match a, b with
  | JNull, JNull => true
  | JBool x, JBool y => Bool.eqb x y
  | JNum x, JNum y => eqb_bytes x y
  | JStr x, JStr y => eqb_bytes x y
  | JArr x, JArr y => jlist_eqb x y
  | JObj x, JObj y => jmembers_eqb x y
  | _, _ => false
  end
with jlist_eqb (a b : jlist) : bool :=
  match a, b with
  | JNil, JNil => true
  | JCons x r, JCons y r' => json_eqb x y && jlist_eqb r r'
  | _, _ => false
  end
with jmembers_eqb (a b : jmembers) : bool :=
  match a, b with
  | MNil, MNil => true
  | MCons k x r, MCons k' y r' => eqb_bytes k k' && json_eqb x y && jmembers_eqb r r'
  | _, _ => false
  end.

(** what the correspondence check compares with the equality of the real content hashes *)
Definition same_hash_input (a b : json) : bool := json_eqb (strip a) (strip b).

(** ---- a start that is killed while it rewrites its files ----
    config.go: save() rewrites the files one after the other, each write is atomic (C19); the
    accessory's entity is saved before.  A kill leaves a prefix of the rewrites. *)
Inductive cfgkey := KUuid | KVersion | KHash.
Definition save_one (id : bytes) (v : N) (h : bytes) (acc : disk) (k : cfgkey) : disk :=
  match k with
  | KUuid => mkDisk (Some id) (d_version acc) (d_hash acc) (d_entities acc)
  | KVersion => mkDisk (d_uuid acc) (Some v) (d_hash acc) (d_entities acc)
  | KHash => mkDisk (d_uuid acc) (d_version acc) (Some h) (d_entities acc)
  end.
Definition start_interrupted (order : list cfgkey) (n : nat) (d : disk) (rnd_id : bytes) (rnd_key : N) (h : bytes) : disk :=
  let '(d', cfg) := start d rnd_id rnd_key h in
  fold_left (save_one (c_id cfg) (c_version cfg) h) (firstn n order)
            (mkDisk (d_uuid d) (d_version d) (d_hash d) (d_entities d')).
Definition key_of_name (n : bytes) : option cfgkey :=
  if eqb_bytes n [117; 117; 105; 100] then Some KUuid
  else if eqb_bytes n [118; 101; 114; 115; 105; 111; 110] then Some KVersion
  else if eqb_bytes n [99; 111; 110; 102; 105; 103; 72; 97; 115; 104] then Some KHash else None.
Fixpoint order_of (names : list bytes) : list cfgkey :=
  match names with [] => [] | n :: r => match key_of_name n with Some k => k :: order_of r | None => order_of r end end.

(** ---- a FIRST start that ends early (an error of the mDNS responder, a power loss) ----
    NewIPTransport: read the stored configuration (none yet: a random id is chosen), [FUuid] write
    the id, [FDevice] create the accessory's key pair and save its entity under the id, then
    save(): id, version, hash.  The order of these steps is read from ip_transport.go / config.go. *)
Inductive fstep := FUuid | FDevice | FVersion | FHash.
Definition fstep_apply (rid : bytes) (rkey : N) (h : bytes) (acc : disk) (s : fstep) : disk :=
  match s with
  | FUuid => mkDisk (Some rid) (d_version acc) (d_hash acc) (d_entities acc)
  | FDevice => match find_entity (d_entities acc) rid with
               | Some _ => acc
               | None => mkDisk (d_uuid acc) (d_version acc) (d_hash acc) (d_entities acc ++ [(rid, rkey, true)])
               end
  | FVersion => mkDisk (d_uuid acc) (Some 1) (d_hash acc) (d_entities acc)
  | FHash => mkDisk (d_uuid acc) (d_version acc) (Some h) (d_entities acc)
  end.
Definition first_start_cut (order : list fstep) (n : nat) (rid : bytes) (rkey : N) (h : bytes) : disk :=
  fold_left (fstep_apply rid rkey h) (firstn n order) empty_disk.
Definition fsteps_of_key (k : cfgkey) : fstep := match k with KUuid => FUuid | KVersion => FVersion | KHash => FHash end.
Fixpoint fsteps_of (save : list cfgkey) (names : list bytes) : list fstep :=
  match names with
  | [] => []
  | n :: r =>
    (if eqb_bytes n [117; 117; 105; 100] then [FUuid]
     else if eqb_bytes n [100; 101; 118; 105; 99; 101] then [FDevice]
     else if eqb_bytes n [115; 97; 118; 101] then map fsteps_of_key save
     else []) ++ fsteps_of save r
  end.
