(** World model of the accessory: connections with their pair-setup / pair-verify controllers and
    session state, the pairing store, the characteristic table, subscriptions and event
    delivery; the HTTP endpoints with the Authenticate middleware.
    Cryptography is symbolic (DESIGN.md 3.4): a message records which key it was sealed under
    and who signed what; forging is impossible by construction of the alphabet. *)
From HC Require Import Base.HBytes Model.Charac.
Open Scope N_scope.

Definition connid := N.
Definition cid := (N * N)%type.                   (* accessory id, instance id *)
Definition cid_eqb (a b : cid) : bool := (fst a =? fst b) && (snd a =? snd b).
Definition name := bytes.

(** knobs: the current code is [fixed]; each field switched off gives a pinned behaviour *)
Record knobs := mkKnobs {
  k_reset_on_bad_srp_key : bool;        (* 8e309ac *)
  k_session_requires_no_error : bool;   (* 6e95041 *)
  k_auth_requires_crypt : bool;         (* eb0064d: Authenticate refuses and returns *)
  k_pairings_protected : bool;          (* eb0064d: /pairings, /resource behind Authenticate *)
  k_no_panic_on_bad_crypto : bool;      (* 8ca1773 *)
  k_multistatus_complete : bool         (* 7b0ae81 *)
}.
Definition fixed : knobs := mkKnobs true true true true true true.

(** ---- pair-setup (per connection) ---- *)
Inductive akey := AValid | AZeroModN | AMissing.
Inductive proofk := PRight | PWrong | PMissing.          (* PRight: M1 computed with the setup code for this A *)
Inductive sealk := KSession | KZero | KOther.            (* KSession: the key of this connection's last proved exchange *)
Inductive innerk :=
| IGenuine (n : name) (ltpk : N)     (* well-formed, signed with the secret key of [ltpk] over this exchange *)
| IBadSig (n : name) (ltpk : N)
| ITampered                          (* ciphertext or tag altered: the AEAD rejects *)
| IMalformed.                        (* opens, but is not a TLV8 container *)
Inductive psmsg :=
| PSStart
| PSVerify (a : akey) (p : proofk)
| PSKeyExch (k : sealk) (i : innerk) (short : bool)
| PSBadStep
| PSBadMethod.

Inductive enckey := EZero | ESrp.
Record psstate := mkPS { ps_step : N; ps_key : enckey }.     (* step: 0 waiting, 2, 4, 6 *)

(** ---- pair-verify (per connection) ---- *)
Inductive sigk :=
| SGenuine                           (* signed with the long-term secret of the stored key of the claimed name, over
                                        this exchange's (controller eph, name, accessory eph) *)
| SInvalid.                          (* anything else: wrong key, stale / reordered material, reflected signature *)
Inductive pvmsg :=
| PVStart (len32 : bool)
| PVFinish (sealed_ok : bool) (short : bool) (wellformed : bool) (n : name) (s : sigk)
| PVBadStep
| PVBadMethod.

Record hconn := mkConn {
  hc_open : bool;
  hc_crypt : bool;        (* session.cryptographer set: the connection is verified and encrypted *)
  hc_next : bool;         (* nextCryptographer set: becomes the cryptographer at the next read *)
  hc_ps : psstate;
  hc_pv : N;              (* 0 waiting, 2 start answered *)
  hc_pv_keyed : bool;     (* a valid start derived this exchange's key *)
  hc_subs : list cid
}.
Definition new_conn : hconn := mkConn true false false (mkPS 0 EZero) 0 false [].

Record world := mkWorld {
  store : list (name * N);                    (* controller name -> long-term public key (symbolic id) *)
  conns : list (connid * hconn);
  chars : list (cid * charac);
  outbox : list (connid * cid * gval);        (* EVENT messages written, oldest first *)
  cblog : list (cid * gval)                   (* remote-update callbacks seen by the application *)
}.

Fixpoint get_conn (l : list (connid * hconn)) (c : connid) : option hconn :=
  match l with [] => None | (k, v) :: r => if k =? c then Some v else get_conn r c end.
Fixpoint set_conn (l : list (connid * hconn)) (c : connid) (v : hconn) : list (connid * hconn) :=
  match l with
  | [] => [(c, v)]
  | (k, x) :: r => if k =? c then (k, v) :: r else (k, x) :: set_conn r c v
  end.
Fixpoint get_char (l : list (cid * charac)) (i : cid) : option charac :=
  match l with [] => None | (k, v) :: r => if cid_eqb k i then Some v else get_char r i end.
Fixpoint set_char (l : list (cid * charac)) (i : cid) (v : charac) : list (cid * charac) :=
  match l with
  | [] => []
  | (k, x) :: r => if cid_eqb k i then (k, v) :: r else (k, x) :: set_char r i v
  end.
Fixpoint store_get (s : list (name * N)) (n : name) : option N :=
  match s with [] => None | (k, v) :: r => if eqb_bytes k n then Some v else store_get r n end.
Fixpoint store_del (s : list (name * N)) (n : name) : list (name * N) :=
  match s with [] => [] | (k, v) :: r => if eqb_bytes k n then store_del r n else (k, v) :: store_del r n end.
Definition store_put (s : list (name * N)) (n : name) (k : N) : list (name * N) := (n, k) :: store_del s n.

(** responses *)
Inductive resp :=
| RTlv (state : N) (err : option N)          (* 200 with a pairing TLV8 body *)
| RHttp500
| RRefused470                                (* the constant refusal of Authenticate *)
| RHttp400Closed                             (* ciphertext on a plaintext connection: net/http answers 400 and closes *)
| RClosed                                    (* undecryptable input on an encrypted connection: closed without answer *)
| RNoConn
| RAccessories (db : list (cid * gval))
| RChars (status : N) (entries : list (cid * option gval * option Z))
| RNoContent
| RPanic.                                    (* handler panicked (connection dropped by net/http) *)

Definition ps_handle (k : knobs) (st : psstate) (stor : list (name * N)) (m : psmsg)
  : psstate * list (name * N) * resp :=
  let reset := mkPS 0 (ps_key st) in
  match m with
  | PSBadMethod => (st, stor, RHttp500)
  | PSBadStep => (st, stor, RHttp500)
  | PSStart =>
    if ps_step st =? 0 then (mkPS 2 (ps_key st), stor, RTlv 2 None) else (reset, stor, RHttp500)
  | PSVerify a p =>
    if negb (ps_step st =? 2) then (reset, stor, RHttp500)
    else match a with
         | AValid =>
           match p with
           | PRight => (mkPS 4 ESrp, stor, RTlv 4 None)
           | _ => (mkPS 0 (ps_key st), stor, RTlv 4 (Some 2))
           end
         | _ => if k_reset_on_bad_srp_key k then (reset, stor, RHttp500)
                else (mkPS 4 (ps_key st), stor, RHttp500)
         end
  | PSKeyExch sk inner short =>
    if negb (ps_step st =? 4) then (reset, stor, RHttp500)
    else if short then
      (if k_no_panic_on_bad_crypto k then (reset, stor, RTlv 6 (Some 2)) else (mkPS 6 (ps_key st), stor, RPanic))
    else
      let opens := match sk, ps_key st, inner with
                   | _, _, ITampered => false
                   | KSession, ESrp, _ => true
                   | KZero, EZero, _ => true
                   | _, _, _ => false
                   end in
      if negb opens then
        (if k_no_panic_on_bad_crypto k then (reset, stor, RTlv 6 (Some 1)) else (reset, stor, RPanic))
      else match inner with
           | IGenuine n pk => (mkPS 6 (ps_key st), store_put stor n pk, RTlv 6 None)
           | IBadSig _ _ => (reset, stor, RTlv 6 (Some 2))
           | IMalformed => (mkPS 6 (ps_key st), stor, RHttp500)
           | ITampered => (reset, stor, RTlv 6 (Some 1))
           end
  end.

(** pair-verify controller + endpoint glue: returns (step, keyed, install-session?, response) *)
Definition pv_handle (k : knobs) (step : N) (keyed : bool) (stor : list (name * N)) (m : pvmsg)
  : N * bool * bool * resp :=
  match m with
  | PVBadMethod => (step, keyed, false, RHttp500)
  | PVBadStep => (step, keyed, false, RHttp500)
  | PVStart len32 =>
    if negb (step =? 0) then (0, keyed, false, RHttp500)
    else if len32 then (2, true, false, RTlv 2 None) else (2, keyed, false, RHttp500)
  | PVFinish sealed_ok short wf n s =>
    (* defer reset: the step is 0 afterwards in every case *)
    if negb (step =? 2) then (0, keyed, false, RHttp500)
    else if short then
      (if k_no_panic_on_bad_crypto k then (0, keyed, false, RTlv 4 (Some 2)) else (0, keyed, false, RPanic))
    else if negb sealed_ok then   (* sealed_ok: opens under the accessory's current pair-verify key *)
      (if k_no_panic_on_bad_crypto k then (0, keyed, false, RTlv 4 (Some 2)) else (0, keyed, false, RPanic))
    else if negb wf then (0, keyed, false, RHttp500)
    else match store_get stor n with
         | None => (0, keyed, false, RHttp500)
         | Some 0 => (0, keyed, false, RHttp500)      (* an entity without a long-term public key (key id 0) *)
         | Some _ =>
           match s with
           | SGenuine => (0, keyed, true, RTlv 4 None)
           | SInvalid => (0, keyed, negb (k_session_requires_no_error k), RTlv 4 (Some 4))
           end
         end
  end.

(** HTTP requests *)
Inductive transport := TPlain | TSession | TOtherKey.      (* TSession: framed under this connection's session keys *)
(** the "ev" member of a write request: a JSON boolean, or any other non-null JSON value *)
Inductive evreq := EvBool (b : bool) | EvOther.
Inductive endpoint :=
| EAccessories
| ECharsGet (ids : list cid) (wellformed : bool)
| ECharsPut (writes : list (cid * option gval * option evreq))
| EPairingsAdd (n : name) (pk : N)
| EPairingsRemove (n : name)
| EPairingsOther
| EResource
| EIdentify
| EPairSetup (m : psmsg)
| EPairVerify (m : pvmsg).

Definition protected (k : knobs) (e : endpoint) : bool :=
  match e with
  | EAccessories | ECharsGet _ _ | ECharsPut _ => true
  | EPairingsAdd _ _ | EPairingsRemove _ | EPairingsOther | EResource => k_pairings_protected k
  | EIdentify | EPairSetup _ | EPairVerify _ => false
  end.

Inductive op :=
| OConnect (c : connid)
| OClose (c : connid)
| OReq (c : connid) (t : transport) (e : endpoint)
| OLocalSet (i : cid) (v : gval).

(** fan-out of one value change: every other open connection subscribed to the characteristic *)
Definition notify (w : world) (i : cid) (v : gval) (origin : option connid) : list (connid * cid * gval) :=
  flat_map (fun kc => let '(k, c) := kc in
     if (hc_open c && negb (match origin with Some o => k =? o | None => false end) &&
         existsb (cid_eqb i) (hc_subs c))%bool then [(k, i, v)] else []) (conns w).

Definition observable_ch (c : charac) : bool := p_event c.

(** one characteristic update from origin [o]; returns world with value, callbacks, events *)
Definition apply_update (w : world) (i : cid) (v : gval) (o : origin) (chk : bool) : world :=
  match get_char (chars w) i with
  | None => w
  | Some ch =>
    match update true ch v o chk with
    | Ok (ch', cbs) =>
      let w1 := mkWorld (store w) (conns w) (set_char (chars w) i ch') (outbox w) (cblog w) in
      fold_left (fun w cb =>
        mkWorld (store w) (conns w) (chars w)
                (outbox w ++ notify w i (match cvalue ch' with Some x => x | None => VNil end)   (* the event body carries c.Value: nil when not readable *)
                                     (match cb_origin cb with Remote k => Some k | Local => None end))
                (match cb_origin cb with Remote _ => cblog w ++ [(i, cb_new cb)] | Local => cblog w end)) cbs w1
    | _ => w
    end
  end.

Definition remove_sub (l : list cid) (i : cid) : list cid := filter (fun j => negb (cid_eqb i j)) l.

(** PUT /characteristics, entry by entry; returns world and the error entries of the response *)
Fixpoint do_put (w : world) (c : connid) (ws : list (cid * option gval * option evreq))
  : world * list (cid * option gval * option Z) :=
  match ws with
  | [] => (w, [])
  | (i, v, ev) :: r =>
    match get_char (chars w) i with
    | None => do_put w c r
    | Some ch =>
      let w1 := match v with Some (VNil) => w | Some x => apply_update w i x (Remote c) true | None => w end in
      match ev with
      | None => do_put w1 c r
      | Some e =>
        if negb (observable_ch ch) then
          let '(w2, errs) := do_put w1 c r in (w2, (i, None, Some (-70406)%Z) :: errs)
        else
          let w2 := match get_conn (conns w1) c with
                    | Some cn => mkWorld (store w1)
                        (set_conn (conns w1) c (mkConn (hc_open cn) (hc_crypt cn) (hc_next cn) (hc_ps cn) (hc_pv cn) (hc_pv_keyed cn)
                                                 (match e with
                                                  | EvBool true => i :: remove_sub (hc_subs cn) i
                                                  | EvBool false => remove_sub (hc_subs cn) i
                                                  | EvOther => hc_subs cn end)))
                        (chars w1) (outbox w1) (cblog w1)
                    | None => w1 end in
          do_put w2 c r
      end
    end
  end.

Definition do_get (k : knobs) (w : world) (ids : list cid) : resp :=
  let entries := map (fun i => match get_char (chars w) i with
                               | Some ch => (i, cvalue ch, None)
                               | None => (i, None, Some (-70402)%Z) end) ids in
  let missing := existsb (fun i => match get_char (chars w) i with None => true | _ => false end) ids in
  if missing then
    RChars 207 (map (fun e => match e with
                              | (i, v, None) => (i, v, if k_multistatus_complete k then Some 0%Z else None)
                              | x => x end) entries)
  else RChars 200 entries.

Definition db_of (w : world) : list (cid * gval) :=
  flat_map (fun ic => match cvalue (snd ic) with Some v => [(fst ic, v)] | None => [] end) (chars w).

Definition close_conn (w : world) (c : connid) : world :=
  match get_conn (conns w) c with
  | Some cn => mkWorld (store w) (set_conn (conns w) c (mkConn false false false (hc_ps cn) (hc_pv cn) (hc_pv_keyed cn) [])) (chars w) (outbox w) (cblog w)
  | None => w
  end.

Definition upd_conn (w : world) (c : connid) (cn : hconn) : world :=
  mkWorld (store w) (set_conn (conns w) c cn) (chars w) (outbox w) (cblog w).

Definition step (k : knobs) (w : world) (o : op) : world * resp :=
  match o with
  | OConnect c => (upd_conn w c new_conn, RNoContent)
  | OClose c => (close_conn w c, RNoContent)
  | OLocalSet i v => (apply_update w i v Local false, RNoContent)
  | OReq c t e =>
    match get_conn (conns w) c with
    | None => (w, RNoConn)
    | Some cn0 =>
      if negb (hc_open cn0) then (w, RNoConn) else
      (* the read that delivers the request promotes a pending cryptographer *)
      let cn := mkConn true (hc_crypt cn0 || hc_next cn0) false (hc_ps cn0) (hc_pv cn0) (hc_pv_keyed cn0) (hc_subs cn0) in
      let w := upd_conn w c cn in
      let readable := match hc_crypt cn, t with
                      | true, TSession => true
                      | false, TPlain => true
                      | _, _ => false end in
      if negb readable then
        (close_conn w c, if hc_crypt cn then RClosed else RHttp400Closed)
      else if (protected k e && negb (hc_crypt cn) && k_auth_requires_crypt k)%bool then (w, RRefused470)
      else
        match e with
        | EAccessories => (w, RAccessories (db_of w))
        | ECharsGet ids wf => if wf then (w, do_get k w ids) else (w, RHttp500)
        | ECharsPut ws => let '(w', errs) := do_put w c ws in
                          (w', match errs with [] => RNoContent | _ => RChars 200 errs end)
        | EPairingsAdd n pk => (mkWorld (store_put (store w) n pk) (conns w) (chars w) (outbox w) (cblog w), RTlv 2 None)
        | EPairingsRemove n => (mkWorld (store_del (store w) n) (conns w) (chars w) (outbox w) (cblog w), RTlv 2 None)
        | EPairingsOther => (w, RHttp500)
        | EResource => (w, RNoContent)
        | EIdentify => (w, RNoContent)
        | EPairSetup m =>
          let '(ps', st', r) := ps_handle k (hc_ps cn) (store w) m in
          (mkWorld st' (set_conn (conns w) c (mkConn true (hc_crypt cn) false ps' (hc_pv cn) (hc_pv_keyed cn) (hc_subs cn)))
                   (chars w) (outbox w) (cblog w), r)
        | EPairVerify m =>
          let '(pv', keyed', install, r) := pv_handle k (hc_pv cn) (hc_pv_keyed cn) (store w) m in
          (upd_conn w c (mkConn true (hc_crypt cn) install (hc_ps cn) pv' keyed' (hc_subs cn)), r)
        end
    end
  end.

Fixpoint run (k : knobs) (w : world) (ops : list op) : world * list resp :=
  match ops with
  | [] => (w, [])
  | o :: r => let '(w1, x) := step k w o in let '(w2, xs) := run k w1 r in (w2, x :: xs)
  end.

Definition verified (w : world) (c : connid) : bool :=
  match get_conn (conns w) c with Some cn => (hc_open cn && (hc_crypt cn || hc_next cn))%bool | None => false end.

(** everything a refused request must leave untouched *)
Definition observables (w : world) := (store w, chars w, outbox w, cblog w,
  map (fun kc => (fst kc, hc_subs (snd kc), hc_crypt (snd kc) || hc_next (snd kc))%bool) (conns w)).

Definition empty_world (cs : list (cid * charac)) : world := mkWorld [] [] cs [] [].
