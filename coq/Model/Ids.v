(** Model of accessory.UpdateIDs and Container.AddAccessory: instance and accessory ids. *)
From HC Require Import Base.HBytes.
Open Scope N_scope.

(** the shape of an accessory: for each service (in the order they were added) the number of its
    characteristics; nothing else influences the ids *)
Definition shape := list nat.

(** UpdateIDs starting at counter [from]: per service, its id followed by the ids of its characteristics *)
Fixpoint assign (from : N) (s : shape) : list (N * list N) * N :=
  match s with
  | [] => ([], from)
  | k :: r =>
    let cids := map (fun i => from + 1 + N.of_nat i) (seq 0 k) in
    let '(rest, final) := assign (from + 1 + N.of_nat k) r in
    ((from, cids) :: rest, final)
  end.
Definition flat (l : list (N * list N)) : list N := flat_map (fun p => fst p :: snd p) l.

(** a fresh accessory has idCount = 1 *)
Definition instance_ids (s : shape) : list N := flat (fst (assign 1 s)).

(** the container: accessories with their ids, the id counter *)
(** [c_reserved]: the ids ever given to an accepted accessory (the map `as` of the Go code, which RemoveAccessory
    does not touch) *)
Record container := mkCont { c_accs : list (N * shape); c_count : N; c_reserved : list N }.
Definition empty_container : container := mkCont [] 1 [].

(** AddAccessory of an accessory with explicit id [eid] (0 = none). Returns the container and whether the
    accessory was accepted (a duplicate id is an error; the counter is consumed all the same). *)
Definition add_accessory (m : container) (eid : N) (s : shape) : container * bool :=
  let '(aid, count') := if eid =? 0 then (c_count m, c_count m + 1) else (eid, c_count m) in
  if existsb (N.eqb aid) (c_reserved m) then (mkCont (c_accs m) count' (c_reserved m), false)
  else (mkCont (c_accs m ++ [(aid, s)]) count' (aid :: c_reserved m), true).

(** RemoveAccessory of the member at position [i] of the list (the Go code compares pointers: an accessory that is
    not a member — e.g. one that AddAccessory refused — removes nothing); the id stays reserved *)
Fixpoint remove_nth {A} (i : nat) (l : list A) : list A :=
  match l, i with
  | [], _ => []
  | _ :: r, O => r
  | x :: r, S j => x :: remove_nth j r
  end.
Definition remove_accessory (m : container) (member : option nat) : container :=
  match member with
  | None => m
  | Some i => mkCont (remove_nth i (c_accs m)) (c_count m) (c_reserved m)
  end.

Definition add_all (l : list (N * shape)) : container :=
  fold_left (fun m a => fst (add_accessory m (fst a) (snd a))) l empty_container.
