(** Checkers relating the constructor catalog found in the Go source (Gen/CatalogGen.v) to the
    bundled HomeKit metadata (Gen/MetadataGen.v). *)
From HC Require Import Base.HBytes Gen.CatalogGen Gen.MetadataGen Model.Spec.
From Coq Require Import String.
Open Scope N_scope.

Definition beq := eqb_bytes.
Definition mem (x : bytes) (l : list bytes) : bool := existsb (beq x) l.

Definition num_text (n : num) : bytes := fst (fst n).
Definition num_micro (n : num) : Z := snd (fst n).
Definition onum_eq (a b : option num) : bool :=
  match a, b with
  | None, None => true
  | Some x, Some y => beq (num_text x) (num_text y)
  | _, _ => false
  end.

Definition is_numeric_format (f : bytes) : bool :=
  mem f [s2b "uint8"; s2b "uint16"; s2b "uint32"; s2b "uint64"; s2b "int32"; s2b "int"; s2b "float"].

(** a readable characteristic gets a default of the format's type inside the declared bounds *)
Definition default_ok (k : char_ctor) : bool :=
  if negb (mem (s2b "pr") (cc_perms k)) then true
  else if is_numeric_format (cc_format k) then
    match cc_default k with
    | Some d => beq (cc_default_kind k) (s2b "num") &&
                match cc_min k with Some m => (num_micro m <=? num_micro d)%Z | None => true end &&
                match cc_max k with Some m => (num_micro d <=? num_micro m)%Z | None => true end
    | None => false
    end
  else if beq (cc_format k) (s2b "bool") then beq (cc_default_kind k) (s2b "bool")
  else if beq (cc_format k) (s2b "string") then beq (cc_default_kind k) (s2b "string")
  else true.

(** the embedded Go type must be the one whose setters / getters fit the format, and numeric
    bounds must be written with that Go type (an int literal for Int, so that clamping works) *)
Definition embedded_ok (k : char_ctor) : bool :=
  let f := cc_format k in
  if beq f (s2b "float") then beq (cc_embedded k) (s2b "Float")
  else if is_numeric_format f then
    beq (cc_embedded k) (s2b "Int") &&
    forallb (fun o => match o with Some n => snd n | None => true end) [cc_min k; cc_max k; cc_step k]
  else if beq f (s2b "bool") then beq (cc_embedded k) (s2b "Bool")
  else if beq f (s2b "string") then beq (cc_embedded k) (s2b "String")
  else beq (cc_embedded k) (s2b "Bytes").

Definition char_matches (m : char_meta) (k : char_ctor) : bool :=
  beq (cc_type_used k) (cm_type m) && beq (cc_format k) (cm_format m) &&
  Bool.eqb (cm_read m) (mem (s2b "pr") (cc_perms k)) &&
  Bool.eqb (cm_write m) (mem (s2b "pw") (cc_perms k)) &&
  Bool.eqb (cm_notify m) (mem (s2b "ev") (cc_perms k)) &&
  beq (cc_unit k) (cm_unit m) &&
  onum_eq (cc_min k) (cm_min m) && onum_eq (cc_max k) (cm_max m) && onum_eq (cc_step k) (cm_step m) &&
  default_ok k && embedded_ok k.

Definition every_meta_char_has_ctor : bool :=
  forallb (fun m => existsb (char_matches m) char_ctors) meta_chars.

Definition ctor_type_is_declared : bool :=
  forallb (fun k => beq (cc_type_used k) (cc_type_declared k) && negb (beq (cc_type_used k) [])) char_ctors.

Definition char_ctor_named (n : bytes) : option char_ctor := find (fun k => beq (cc_name k) n) char_ctors.
Definition svc_ctor_named (n : bytes) : option svc_ctor := find (fun s => beq (sc_name s) n) svc_ctors.

(** all characteristic types a service constructor adds (including those of an embedded service) *)
Definition svc_char_types (s : svc_ctor) : list bytes :=
  let own := map (fun n => match char_ctor_named n with Some k => cc_type_used k | None => [] end) (sc_chars s) in
  match svc_ctor_named (sc_base_ctor s) with
  | Some b => map (fun n => match char_ctor_named n with Some k => cc_type_used k | None => [] end) (sc_chars b) ++ own
  | None => own
  end.
Definition svc_type (s : svc_ctor) : bytes :=
  match svc_ctor_named (sc_base_ctor s) with Some b => sc_type b | None => sc_type s end.

Fixpoint nodupb (l : list bytes) : bool :=
  match l with [] => true | x :: r => negb (mem x r) && nodupb r end.

Definition every_meta_service_has_ctor : bool :=
  forallb (fun m => existsb (fun s => beq (svc_type s) (sm_type m) &&
                                      forallb (fun req => mem req (svc_char_types s)) (sm_required m)) svc_ctors) meta_svcs.

Definition services_usable_and_distinct : bool :=
  forallb (fun s => sc_has_base s && negb (beq (svc_type s) []) &&
                    forallb (fun n => match char_ctor_named n with Some _ => true | None => false end) (sc_chars s) &&
                    nodupb (svc_char_types s)) svc_ctors.
