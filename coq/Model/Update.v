(** * Several writers of the same new value (characteristic.updateValue)

    A writer compares the value it was given with the stored one and, when they differ, stores it
    and notifies the subscribers.  [atomic = true]: comparing and storing are one step (/repo, repair
    071f081); [atomic = false]: a writer reads the stored value in one step and acts on what it
    read in a later one (the code before: no lock between the comparison and the store). *)
From Coq Require Import List ZArith Bool Arith.
Import ListNotations.
Open Scope Z_scope.

Inductive wpc := WStart | WRead (seen : Z) | WDone.
Record ustate := mkU { u_val : Z; u_events : nat; u_pcs : list wpc }.

Fixpoint set_nth {A} (l : list A) (i : nat) (x : A) : list A :=
  match l, i with
  | [], _ => []
  | _ :: r, O => x :: r
  | y :: r, S j => y :: set_nth r j x
  end.

Definition ustep (atomic : bool) (v : Z) (s : ustate) (w : nat) : ustate :=
  match nth_error (u_pcs s) w with
  | Some WStart =>
    if atomic then
      if u_val s =? v then mkU (u_val s) (u_events s) (set_nth (u_pcs s) w WDone)
      else mkU v (S (u_events s)) (set_nth (u_pcs s) w WDone)
    else mkU (u_val s) (u_events s) (set_nth (u_pcs s) w (WRead (u_val s)))
  | Some (WRead seen) =>
    if seen =? v then mkU (u_val s) (u_events s) (set_nth (u_pcs s) w WDone)
    else mkU v (S (u_events s)) (set_nth (u_pcs s) w WDone)
  | _ => s
  end.

Definition uinit (old : Z) (n : nat) : ustate := mkU old 0 (repeat WStart n).
Definition urun (atomic : bool) (v old : Z) (n : nat) (sched : list nat) : ustate :=
  fold_left (ustep atomic v) sched (uinit old n).
Definition someone_done (s : ustate) : bool := existsb (fun p => match p with WDone => true | _ => false end) (u_pcs s).
