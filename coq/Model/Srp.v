(** SRP-6a as HAP pair-setup uses it (RFC 5054 3072-bit group, SHA-512, user "Pair-Setup"):
    the controller's side written from the specification, the accessory's side written after the
    library hc calls (tadglines/go-pkgs/crypto/srp, outside /repo), both over a modular
    exponentiation [mexp] that is a parameter: the theorems instantiate it with [b ^ e mod n], the
    correspondence run with a Bignums implementation proved equal to it (Proofs/SrpProofs.v). *)
From Coq Require Import ZArith List.
From HC Require Import Base.HBytes Base.Sha512.
Import ListNotations.
Open Scope Z_scope.

(** big.Int.Bytes(): minimal big-endian bytes, empty for 0 *)
Fixpoint nle (fuel : nat) (n : N) : bytes :=
  match fuel with
  | O => []
  | S f => if N.eqb n 0 then [] else N.land n 255 :: nle f (N.shiftr n 8)
  end.
Definition zbe (z : Z) : bytes := let n := Z.to_N z in rev (nle (N.to_nat (N.size n)) n).
(** big.Int.SetBytes() *)
Definition zof (b : bytes) : Z := Z.of_N (le_value (rev b)).
Definition padto (n : nat) (b : bytes) : bytes := repeat 0%N (n - length b) ++ b.

Record group := { gN : Z; gg : Z; glen : nat }.
Definition rfc5054_3072 : group := {| gN := 0xffffffffffffffffc90fdaa22168c234c4c6628b80dc1cd129024e088a67cc74020bbea63b139b22514a08798e3404ddef9519b3cd3a431b302b0a6df25f14374fe1356d6d51c245e485b576625e7ec6f44c42e9a637ed6b0bff5cb6f406b7edee386bfb5a899fa5ae9f24117c4b1fe649286651ece45b3dc2007cb8a163bf0598da48361c55d39a69163fa8fd24cf5f83655d23dca3ad961c62f356208552bb9ed529077096966d670c354e4abc9804f1746c08ca18217c32905e462e36ce3be39e772c180e86039b2783a2ec07a28fb5c55df06f4c52c9de2bcbf6955817183995497cea956ae515d2261898fa051015728e5a8aaac42dad33170d04507a33a85521abdf1cba64ecfb850458dbef0a8aea71575d060c7db3970f85a6e1e4c7abf5ae8cdb0933d71e8c94e04a25619dcee3d2261ad2ee6bf12ffa06d98a0864d87602733ec86a64521f2b18177b200cbbe117577a615d6c770988c0bad946e208e24fa074e5ab3143db5bfce0fd108e4b82d120a93ad2caffffffffffffffff; gg := 5; glen := 384 |}.

Definition H := sha512.
Definition srp_k (G : group) : Z := zof (H (zbe (gN G) ++ padto (glen G) (zbe (gg G)))).
Definition srp_x (user pin salt : bytes) : Z := zof (H (salt ++ H (user ++ [58%N] ++ pin))).
Definition srp_u (G : group) (A B : Z) : Z := zof (H (padto (glen G) (zbe A) ++ padto (glen G) (zbe B))).
Definition srp_m1 (G : group) (user salt Ab Bb K : bytes) : bytes :=
  H (zbe (Z.lxor (zof (H (zbe (gN G)))) (zof (H (zbe (gg G))))) ++ H user ++ salt ++ Ab ++ Bb ++ K).
Definition srp_m2 (Ab M1 K : bytes) : bytes := H (Ab ++ M1 ++ K).

Section WithModexp.
  Variable mexp : Z -> Z -> Z -> Z.

  Definition verifier (G : group) (x : Z) : Z := mexp (gg G) x (gN G).

  (** the controller: its secret a, the code, and what the accessory sent (salt, B) *)
  Record client_out := { cA : bytes; cK : bytes; cM1 : bytes; cM2 : bytes }.
  Definition client_S (G : group) (k x a u B : Z) : Z :=
    mexp ((B - k * mexp (gg G) x (gN G)) mod gN G) (a + u * x) (gN G).
  Definition client (G : group) (user pin : bytes) (a : Z) (salt Bb : bytes) : client_out :=
    let A := mexp (gg G) a (gN G) in
    let B := zof Bb in
    let Ab := zbe A in
    let x := srp_x user pin salt in
    let S := client_S G (srp_k G) x a (srp_u G A B) B in
    let K := H (zbe S) in
    let M1 := srp_m1 G user salt Ab (zbe B) K in
    {| cA := Ab; cK := K; cM1 := M1; cM2 := srp_m2 Ab M1 K |}.

  (** the accessory: verifier v of the code, its secret b *)
  Definition server_B (G : group) (v b : Z) : Z := (srp_k G * v + mexp (gg G) b (gN G)) mod gN G.
  Definition server_base (G : group) (v u A : Z) : Z := (A * mexp v u (gN G)) mod gN G.
  Inductive server_res := SrvBadA | SrvBadU | SrvBadBase | SrvBadProof | SrvOk (K M2 : bytes).
  Definition server (G : group) (user salt : bytes) (v b : Z) (Ab M1 : bytes) : server_res :=
    let A := zof Ab in
    if A mod gN G =? 0 then SrvBadA else
    let B := server_B G v b in
    let u := srp_u G A B in
    if u =? 0 then SrvBadU else
    let base := server_base G v u A in
    if base <=? 1 then SrvBadBase else
    let K := H (zbe (mexp base b (gN G))) in
    let Am := zbe A in
    if eqb_bytes (srp_m1 G user salt Am (zbe B) K) M1 then SrvOk K (srp_m2 Am M1 K) else SrvBadProof.
End WithModexp.

Definition mexp_spec (b e n : Z) : Z := b ^ e mod n.
