(** Model of crypto/packet.go and crypto/secure_session.go: packetiser, Encrypt, Decrypt.
    The AEAD is a parameter (Section variables); the concrete ChaCha20-Poly1305 instance is at
    the end of the file. *)
From HC Require Import Base.HBytes Base.ChaChaPoly Base.Sha512 Gen.Extracted.

Definition frame_max : nat := 1024.          (* crypto.PacketLengthMax; tied to the source by Gen/Extracted.v *)
Definition m64n : N := 18446744073709551616.

(** An io.Reader as the list of pieces successive Read calls return (each call returns at most
    the head piece, cut to the caller's buffer; the remainder of the piece stays at the head). *)
Definition reader := list bytes.
Definition rd_read (r : reader) (n : nat) : bytes * reader :=
  match r with
  | [] => ([], [])
  | p :: r' => if (length p <=? n)%nat then (p, r') else (firstn n p, skipn n p :: r')
  end.
Definition rd_wf (r : reader) : Prop := Forall (fun p => p <> []) r.

(** io.ReadFull(r, buf[n]) *)
Fixpoint read_full (fuel : nat) (r : reader) (n : nat) : bytes * reader :=
  match fuel with
  | O => ([], r)
  | S f =>
    match n, r with
    | O, _ => ([], r)
    | _, [] => ([], [])
    | _, _ => let '(got, r') := rd_read r n in
              let '(more, r'') := read_full f r' (n - length got) in
              (got ++ more, r'')
    end
  end.

(** packetsWithSizeFromBytes after the repair: io.ReadFull per packet; stop at a short packet *)
Fixpoint packets_fuel (fuel : nat) (r : reader) : list bytes :=
  match fuel with
  | O => []
  | S f => let '(p, r') := read_full (S (length r)) r frame_max in
           match p with
           | [] => []
           | _ => if (length p <? frame_max)%nat then [p] else p :: packets_fuel f r'
           end
  end.
Definition packets (r : reader) : list bytes := packets_fuel (S (length (concat r))) r.

(** the pinned packetiser: ONE Read per packet, stop at the first short read *)
Fixpoint packets_pinned_fuel (fuel : nat) (r : reader) : list bytes :=
  match fuel with
  | O => []
  | S f => let '(p, r') := rd_read r frame_max in
           match p with
           | [] => []
           | _ => if (length p <? frame_max)%nat then [p] else p :: packets_pinned_fuel f r'
           end
  end.
Definition packets_pinned (r : reader) : list bytes := packets_pinned_fuel (S (length r)) r.

Section WithAEAD.
  (** seal key nonce12 aad plaintext = (ciphertext, tag); open returns the plaintext or None *)
  Variable seal : bytes -> bytes -> bytes -> bytes -> bytes * bytes.
  Variable open : bytes -> bytes -> bytes -> bytes -> bytes -> option bytes.

  Definition nonce_of (ctr : N) : bytes := nonce12 (le_bytes 8 (ctr mod m64n)).
  Definition aad_of (p : bytes) : bytes := le_bytes 2 (N.of_nat (length p)).

  Definition frame (key : bytes) (ctr : N) (p : bytes) : bytes :=
    let '(ct, tag) := seal key (nonce_of ctr) (aad_of p) p in
    aad_of p ++ ct ++ tag.

  (** Encrypt: one frame per packet, counter incremented per frame (uint64 wrap) *)
  Fixpoint encrypt_packets (key : bytes) (ctr : N) (ps : list bytes) : bytes * N :=
    match ps with
    | [] => ([], ctr)
    | p :: ps' => let '(rest, ctr') := encrypt_packets key ((ctr + 1) mod m64n) ps' in
                  (frame key ctr p ++ rest, ctr')
    end.
  Definition encrypt (key : bytes) (ctr : N) (r : reader) : bytes * N := encrypt_packets key ctr (packets r).

  (** Decrypt.  Result of one call: released plaintext, new counter, unread rest of the input.
      Error codes: 1 = unexpected end of input inside a frame, 2 = authentication failure. *)
  Inductive dres :=
  | DOk (pt : bytes) (ctr : N) (rest : bytes)
  | DErr (code : N) (ctr : N).

  Fixpoint decrypt_fuel (fuel : nat) (key : bytes) (ctr : N) (inp acc : bytes) : dres :=
    match fuel with
    | O => DErr 99 ctr
    | S f =>
      match inp with
      | [] => DOk acc ctr []                       (* io.EOF on a frame boundary: break *)
      | [_] => DErr 1 ctr
      | l0 :: l1 :: rest =>
        let len := N.to_nat (l0 + 256 * l1) in
        if (length rest <? len + 16)%nat then DErr 1 ctr
        else
          let ct := firstn len rest in
          let tag := firstn 16 (skipn len rest) in
          let rest' := skipn (len + 16) rest in
          let ctr' := (ctr + 1) mod m64n in
          match open key (nonce_of ctr) [l0; l1] ct tag with
          | None => DErr 2 ctr'
          | Some pt =>
            if (len <? frame_max)%nat then DOk (acc ++ pt) ctr' rest'
            else decrypt_fuel f key ctr' rest' (acc ++ pt)
          end
      end
    end.
  Definition decrypt (key : bytes) (ctr : N) (inp : bytes) : dres :=
    decrypt_fuel (S (length inp)) key ctr inp [].

  (** the receiving side of a stream: Decrypt is called again and again on what is left; an
      error is final (the connection is closed).  Returns the frames it accepted, in order, as
      (counter, aad, ciphertext, tag, plaintext), and whether it ended cleanly. *)
  Record accepted := mkAcc { a_ctr : N; a_aad : bytes; a_ct : bytes; a_tag : bytes; a_pt : bytes }.
  Inductive rstatus := RClean | RError (code : N).

  Fixpoint recv_fuel (fuel : nat) (key : bytes) (ctr : N) (inp : bytes) : list accepted * rstatus :=
    match fuel with
    | O => ([], RError 99)
    | S f =>
      match inp with
      | [] => ([], RClean)
      | [_] => ([], RError 1)
      | l0 :: l1 :: rest =>
        let len := N.to_nat (l0 + 256 * l1) in
        if (length rest <? len + 16)%nat then ([], RError 1)
        else
          let ct := firstn len rest in
          let tag := firstn 16 (skipn len rest) in
          let rest' := skipn (len + 16) rest in
          match open key (nonce_of ctr) [l0; l1] ct tag with
          | None => ([], RError 2)
          | Some pt =>
            let '(more, st) := recv_fuel f key ((ctr + 1) mod m64n) rest' in
            (mkAcc ctr [l0; l1] ct tag pt :: more, st)
          end
      end
    end.
  Definition recv (key : bytes) (ctr : N) (inp : bytes) : list accepted * rstatus :=
    recv_fuel (S (length inp)) key ctr inp.

  (** what the honest peer put on the wire for plaintext chunks [ps] starting at counter [ctr] *)
  Record sealed := mkSealed { s_ctr : N; s_aad : bytes; s_ct : bytes; s_tag : bytes; s_pt : bytes }.
  Fixpoint sealed_frames (key : bytes) (ctr : N) (ps : list bytes) : list sealed :=
    match ps with
    | [] => []
    | p :: ps' => let '(ct, tag) := seal key (nonce_of ctr) (aad_of p) p in
                  mkSealed ctr (aad_of p) ct tag p :: sealed_frames key ((ctr + 1) mod m64n) ps'
    end.
  Definition wire_of (fs : list sealed) : bytes := flat_map (fun s => s_aad s ++ s_ct s ++ s_tag s) fs.
End WithAEAD.

(** -------- the concrete instance hc uses -------- *)
Definition cc_seal (key n12 aad pt : bytes) : bytes * bytes := aead_seal key n12 aad pt.
Definition cc_open (key n12 aad ct tag : bytes) : option bytes := aead_open key n12 aad ct tag.

Definition ascii_control_salt : bytes := [67;111;110;116;114;111;108;45;83;97;108;116].
Definition ascii_read_key : bytes := [67;111;110;116;114;111;108;45;82;101;97;100;45;69;110;99;114;121;112;116;105;111;110;45;75;101;121].
Definition ascii_write_key : bytes := [67;111;110;116;114;111;108;45;87;114;105;116;101;45;69;110;99;114;121;112;116;105;111;110;45;75;101;121].

(** NewSecureSessionFromSharedKey / NewSecureClientSessionFromSharedKey: the labels come from
    Gen/Extracted.v (accessory: encrypt = "Control-Read…", decrypt = "Control-Write…") *)
Record session := mkSession { enc_key : bytes; dec_key : bytes; enc_ctr : N; dec_ctr : N }.
Definition new_session (salt enc_info dec_info shared : bytes) : session :=
  mkSession (hkdf_sha512 shared salt enc_info 32) (hkdf_sha512 shared salt dec_info 32) 0 0.
Definition new_server_session := new_session Extracted.srv_salt Extracted.srv_enc_info Extracted.srv_dec_info.
Definition new_client_session := new_session Extracted.cli_salt Extracted.cli_enc_info Extracted.cli_dec_info.

Definition session_encrypt (s : session) (r : reader) : bytes * session :=
  let '(out, c) := encrypt cc_seal (enc_key s) (enc_ctr s) r in
  (out, mkSession (enc_key s) (dec_key s) c (dec_ctr s)).
Definition session_decrypt (s : session) (inp : bytes) : dres * session :=
  let d := decrypt cc_open (dec_key s) (dec_ctr s) inp in
  (d, mkSession (enc_key s) (dec_key s) (enc_ctr s)
                (match d with DOk _ c _ => c | DErr _ c => c end)).

(** the receiver as the code runs it: Decrypt is called on what is left of the stream until the
    stream is exhausted or a call fails (then the connection is closed).  A failing call releases
    nothing (Decrypt returns nil, err). *)
Fixpoint decrypt_stream (open : bytes -> bytes -> bytes -> bytes -> bytes -> option bytes)
         (fuel : nat) (key : bytes) (ctr : N) (inp : bytes) : bytes * rstatus :=
  match fuel with
  | O => ([], RError 99)
  | S f =>
    match inp with
    | [] => ([], RClean)
    | _ => match decrypt open key ctr inp with
           | DErr c _ => ([], RError c)
           | DOk pt ctr' rest => let '(more, st) := decrypt_stream open f key ctr' rest in (pt ++ more, st)
           end
    end
  end.

(** a sequence of messages written into one end and read, message by message, at the other *)
Fixpoint send_all (s : session) (msgs : list reader) : list bytes * session :=
  match msgs with
  | [] => ([], s)
  | m :: ms => let '(w, s1) := session_encrypt s m in
               let '(ws, s2) := send_all s1 ms in (w :: ws, s2)
  end.
Fixpoint recv_all (s : session) (wires : list bytes) : list (option bytes) * session :=
  match wires with
  | [] => ([], s)
  | w :: ws => let '(d, s1) := session_decrypt s w in
               let '(ds, s2) := recv_all s1 ws in
               ((match d with DOk pt _ [] => Some pt | _ => None end) :: ds, s2)
  end.

(** The wire format as the HAP specification states it (written independently of the fold in
    [encrypt_packets]): frame i of a payload carries chunk i, 2-byte little-endian length,
    ciphertext, 16-byte tag, AEAD nonce = 4 zero bytes ++ LE64(counter0 + i), AAD = the length. *)
Definition spec_frame (seal : bytes -> bytes -> bytes -> bytes -> bytes * bytes)
           (key : bytes) (ctr0 : N) (i : nat) (chunk : bytes) : bytes :=
  let len2 := [N.of_nat (length chunk) mod 256; N.of_nat (length chunk) / 256 mod 256] in
  let n12 := [0; 0; 0; 0] ++ le_bytes 8 ((ctr0 + N.of_nat i) mod m64n) in
  len2 ++ fst (seal key n12 len2 chunk) ++ snd (seal key n12 len2 chunk).
Fixpoint spec_wire_from (seal : bytes -> bytes -> bytes -> bytes -> bytes * bytes)
         (key : bytes) (ctr0 : N) (i : nat) (chunks : list bytes) : bytes :=
  match chunks with
  | [] => []
  | c :: cs => spec_frame seal key ctr0 i c ++ spec_wire_from seal key ctr0 (S i) cs
  end.
Definition spec_wire seal key ctr0 payload := spec_wire_from seal key ctr0 0 (chunks 1024 payload).

(** the same loop returning the counter as well, and its iteration over separately delivered
    segments (each segment is its own reader: Decrypt sees end-of-input at the end of a segment) *)
Fixpoint decrypt_stream_c (open : bytes -> bytes -> bytes -> bytes -> bytes -> option bytes)
         (fuel : nat) (key : bytes) (ctr : N) (inp : bytes) : bytes * rstatus * N :=
  match fuel with
  | O => ([], RError 99, ctr)
  | S f =>
    match inp with
    | [] => ([], RClean, ctr)
    | _ => match decrypt open key ctr inp with
           | DErr c ctr' => ([], RError c, ctr')
           | DOk pt ctr' rest => let '(more, st, c) := decrypt_stream_c open f key ctr' rest in (pt ++ more, st, c)
           end
    end
  end.
Fixpoint decrypt_segments (open : bytes -> bytes -> bytes -> bytes -> bytes -> option bytes)
         (key : bytes) (ctr : N) (segs : list bytes) : bytes * rstatus :=
  match segs with
  | [] => ([], RClean)
  | sg :: rest =>
    match decrypt_stream_c open (S (length sg)) key ctr sg with
    | (out, RClean, c) => let '(more, st) := decrypt_segments open key c rest in (out ++ more, st)
    | (out, st, _) => (out, st)
    end
  end.
