(** Model of util/tlv8.go: the TLV8 container used by pair-setup / pair-verify / pairings. *)
From HC Require Import Base.HBytes.

Record item := mkItem { itag : N; ival : bytes }.

Definition container := list item.

(** SetBytes: io.ReadFull in 255-byte pieces; a short (non-empty) read appends and stops,
    an empty read (EOF) appends nothing.  This is [chunks 255]. *)
Definition frag : nat := 255.
Definition set_bytes (c : container) (tag : N) (v : bytes) : container :=
  c ++ map (mkItem tag) (chunks frag v).
Definition set_byte (c : container) (tag b : N) : container := set_bytes c tag [b].

(** BytesBuffer: tag, length (uint8 of the piece), value, per item. *)
Definition ser_item (it : item) : bytes :=
  itag it :: N.of_nat (length (ival it)) :: ival it.
Definition serialise (c : container) : bytes := concat (map ser_item c).

(** GetBytes: concatenation of every item with the tag; GetByte: first byte or 0. *)
Definition get_bytes (c : container) (tag : N) : bytes :=
  concat (map ival (filter (fun it => itag it =? tag) c)).
Definition get_byte (c : container) (tag : N) : N :=
  match get_bytes c tag with [] => 0 | b :: _ => b end.

(** NewTLV8ContainerFromReader.  Error codes: 1 = input ends inside an item header,
    2 = input ends inside a value. *)
Fixpoint parse_fuel (fuel : nat) (bs : bytes) : outcome container :=
  match fuel with
  | O => OutOfFuel
  | S f =>
    match bs with
    | [] => Ok []
    | _ :: [] => Err 1
    | t :: l :: rest =>
      if (length rest <? N.to_nat l)%nat then Err 2
      else match parse_fuel f (skipn (N.to_nat l) rest) with
           | Ok its => Ok (mkItem t (firstn (N.to_nat l) rest) :: its)
           | e => e
           end
    end
  end.
Definition parse (bs : bytes) : outcome container := parse_fuel (S (length bs)) bs.

(** A standard TLV8 reader, written from the HAP specification (not from hc): the value of a
    type is the concatenation of the values of all items of that type, and an item whose
    length is 255 is continued by the next item of the same type.  It reads the wire bytes. *)
Fixpoint spec_items_fuel (fuel : nat) (bs : bytes) : option (list (N * bytes)) :=
  match fuel with
  | O => None
  | S f =>
    match bs with
    | [] => Some []
    | _ :: [] => None
    | t :: l :: rest =>
      if (length rest <? N.to_nat l)%nat then None
      else option_map (cons (t, firstn (N.to_nat l) rest))
                      (spec_items_fuel f (skipn (N.to_nat l) rest))
    end
  end.
Definition spec_reassemble (bs : bytes) (tag : N) : option bytes :=
  option_map (fun its => concat (map snd (filter (fun p => fst p =? tag) its)))
             (spec_items_fuel (S (length bs)) bs).

Definition wf_item (it : item) : Prop :=
  wf_byte (itag it) /\ (length (ival it) <= 255)%nat /\ wf_bytes (ival it).
Definition wf_container (c : container) : Prop := Forall wf_item c.

(** a history of set operations *)
Definition setop := (N * bytes)%type.
Definition run_sets (ops : list setop) : container :=
  fold_left (fun c op => set_bytes c (fst op) (snd op)) ops [].
