(** Model of hap.Connection.WriteNotification / SetResponding (hap/connection.go) and the
    http.Server.ConnState hook of hap/http/server.go: what reaches a connection when responses,
    which are written in several parts, and event notifications / keep-alives, which other
    goroutines produce at any moment, are mixed.
    [queue = true] is the current code (fix 826820b: a notification for a connection on which a
    request is being handled is kept until the response is complete); [queue = false] the code
    before it (every notification is written at once). *)
From HC Require Import Base.HBytes.

Inductive item :=
| Part (resp : nat) (p : bytes)     (* a part of response number [resp] (the number is a ghost) *)
| Note (n : bytes).                 (* a notification *)

Record rstate := mkR {
  responding : bool;        (* Connection.responding *)
  cur : nat;                (* ghost: number of the response being (or last) written *)
  pending : list bytes;     (* Connection.notifications *)
  rout : list item          (* what was written to the connection, in order *)
}.

Inductive rop :=
| RBegin                  (* http.StateActive -> SetResponding(true) *)
| RPart (p : bytes)       (* the server writes (flushes) a part of the response *)
| RFinish                 (* http.StateIdle -> SetResponding(false) *)
| RNotify (n : bytes).    (* WriteNotification(n) from notifyListener / the keep-alive *)

Definition rstep (queue : bool) (s : rstate) (o : rop) : rstate :=
  match o with
  | RBegin => mkR true (S (cur s)) (pending s) (rout s)
  | RPart p => mkR (responding s) (cur s) (pending s) (rout s ++ [Part (cur s) p])
  | RFinish => mkR false (cur s) [] (rout s ++ map Note (pending s))
  | RNotify n => if (queue && responding s)%bool then mkR (responding s) (cur s) (pending s ++ [n]) (rout s)
                 else mkR (responding s) (cur s) (pending s) (rout s ++ [Note n])
  end.

Definition rinit : rstate := mkR false 0 [] [].
Definition rrun (queue : bool) (ops : list rop) : rstate := fold_left (rstep queue) ops rinit.

(** histories the server produces: parts are written only while a request is being handled *)
Fixpoint wf_from (resp : bool) (ops : list rop) : bool :=
  match ops with
  | [] => true
  | RBegin :: r => wf_from true r
  | RPart _ :: r => resp && wf_from resp r
  | RFinish :: r => wf_from false r
  | RNotify _ :: r => wf_from resp r
  end.
Definition wf_ops (ops : list rop) : bool := wf_from false ops.

(** what a controller needs: scanning what was written, a response is never continued after a
    notification (state: the response whose part was seen last, and whether a notification came
    after it) *)
Definition adv (st : option nat * bool) (it : item) : option (option nat * bool) :=
  match it with
  | Note _ => Some (fst st, true)
  | Part i _ => if (match fst st with Some h => Nat.eqb h i | None => false end) && snd st then None
                else Some (Some i, false)
  end.
Fixpoint advs (st : option nat * bool) (l : list item) : option (option nat * bool) :=
  match l with
  | [] => Some st
  | it :: r => match adv st it with Some st' => advs st' r | None => None end
  end.
Definition responses_intact (l : list item) : bool :=
  match advs (None, false) l with Some _ => true | None => false end.

Definition notes_of_items (l : list item) : list bytes :=
  flat_map (fun it => match it with Note n => [n] | Part _ _ => [] end) l.
Definition notes_of_ops (ops : list rop) : list bytes :=
  flat_map (fun o => match o with RNotify n => [n] | _ => [] end) ops.
Definition parts_of_items (l : list item) : list bytes :=
  flat_map (fun it => match it with Part _ p => [p] | Note _ => [] end) l.
Definition parts_of_ops (ops : list rop) : list bytes :=
  flat_map (fun o => match o with RPart p => [p] | _ => [] end) ops.
