(** Model of the reflection-driven struct <-> TLV8 codec (tlv8/encoder.go, writer.go, reader.go,
    decoder.go).  Go struct types are a deep embedding [ty] / [fields]; Go values are [val].
    Every Go operation that can panic (indexing, binary.LittleEndian.UintNN on a short slice) is
    modelled as a partial operation whose failure is the outcome [Panic]; loops run on explicit
    fuel and exhaustion is the outcome [OutOfFuel]. *)
From HC Require Import Base.HBytes.
Open Scope N_scope.

Inductive ty :=
| TU8 | TU16 | TU32 | TU64 | TI16 | TI32 | TI64 | TF32 | TBool | TStr | TBytes
| TStruct (fs : fields)
| TList (fs : fields)       (* []T with `tlv8:"<tag>"` *)
| TInline (fs : fields)     (* []T with `tlv8:"-"` *)
with fields := FNil | FCons (tag : N) (t : ty) (r : fields).

(** numbers are mathematical integers (the float32 is its 32-bit pattern) *)
Inductive val :=
| VNum (z : Z) | VBool (b : bool) | VBytes (b : bytes)
| VStruct (vs : vals)
| VList (l : vlist)
with vals := VNil | VCons (v : val) (r : vals)
with vlist := LNil | LCons (e : vals) (r : vlist).

(** variants of the code: the pinned snapshot and the repaired tree *)
Record tknobs := mkTK {
  k_i64_width : nat;        (* bytes written for an int64: 8 (4 in the pinned snapshot) *)
  k_f32_written : bool;     (* writeFloat32 stores the bits (the pinned snapshot wrote zeros) *)
  k_f32_guard : bool;       (* readFloat32 checks the length (the pinned snapshot indexed blindly) *)
  k_read_fixed : bool;      (* read(): buckets are kept per delimiter-separated segment *)
  k_inline_fixed : bool     (* an inline list ends when an element read nothing (pinned: when it is all zero) *)
}.
Definition fixed_knobs := mkTK 8 true true true true.
Definition pinned_knobs := mkTK 4 false false false false.

(** ---------- little-endian two's complement ---------- *)
Fixpoint le_z (k : nat) (z : Z) : bytes :=
  match k with
  | O => []
  | S k' => Z.to_N (z mod 256) :: le_z k' (z / 256)
  end.
Fixpoint of_le (b : bytes) : Z :=
  match b with
  | [] => 0
  | x :: r => Z.of_N x + 256 * of_le r
  end.
Definition signed (bits : Z) (u : Z) : Z := if (u <? 2 ^ (bits - 1))%Z then u else (u - 2 ^ bits)%Z.

(** ---------- writer ---------- *)
Definition item (tag : N) (v : bytes) : bytes := tag :: N.of_nat (length v) :: v.
(** writeBytes: 255-byte fragments; nothing at all for an empty value *)
Definition write_bytes (tag : N) (v : bytes) : bytes := concat (map (item tag) (chunks 255 v)).
Definition delimiter : bytes := [0; 0].

Inductive rerr := EEof | EOther.
Inductive rres (A : Type) := ROk (a : A) | RErr (e : rerr).
Arguments ROk {A} a.
Arguments RErr {A} e.

Section Enc.
Variable K : tknobs.

Fixpoint enc_val (tag : N) (t : ty) (v : val) {struct v} : bytes :=
  match t, v with
  | TU8, VNum z => [tag; 1; Z.to_N (z mod 256)]
  | TU16, VNum z => write_bytes tag (le_z 2 z)
  | TU32, VNum z => write_bytes tag (le_z 4 z)
  | TU64, VNum z => write_bytes tag (le_z 8 z)
  | TI16, VNum z => write_bytes tag (le_z 2 z)
  | TI32, VNum z => write_bytes tag (le_z 4 z)
  | TI64, VNum z => write_bytes tag (firstn (k_i64_width K) (le_z 8 z))
  | TF32, VNum z => write_bytes tag (if k_f32_written K then le_z 4 z else [0; 0; 0; 0])
  | TBool, VBool b => [tag; 1; if b then 1 else 0]
  | TStr, VBytes b => write_bytes tag b
  | TBytes, VBytes b => write_bytes tag b
  | TStruct fs, VStruct vs => write_bytes tag (enc_vals fs vs)
  | TList fs, VList l => enc_list tag fs l true
  | TInline fs, VList l => enc_inline fs l true
  | _, _ => []
  end
with enc_vals (fs : fields) (vs : vals) {struct vs} : bytes :=
  match fs, vs with
  | FCons tag t fr, VCons v vr => enc_val tag t v ++ enc_vals fr vr
  | _, _ => []
  end
with enc_list (tag : N) (fs : fields) (l : vlist) (first : bool) {struct l} : bytes :=
  match l with
  | LNil => []
  | LCons e r => (if first then [] else delimiter) ++ write_bytes tag (enc_vals fs e) ++ enc_list tag fs r false
  end
with enc_inline (fs : fields) (l : vlist) (first : bool) {struct l} : bytes :=
  match l with
  | LNil => []
  | LCons e r => (if first then [] else delimiter) ++ enc_vals fs e ++ enc_inline fs r false
  end.

(** tlv8.Marshal of a struct value *)
Definition marshal (fs : fields) (vs : vals) : bytes := enc_vals fs vs.

(** ---------- reader ---------- *)

(** the raw items of a byte string: binary.Read of tag, length, value *)
Fixpoint items_fuel (fuel : nat) (b : bytes) : rres (list (N * bytes)) :=
  match fuel with
  | O => ROk []
  | S f =>
    match b with
    | [] => ROk []
    | [_] => RErr EEof
    | t :: n :: rest =>
      if (length rest <? N.to_nat n)%nat then RErr (match rest with [] => EEof | _ => EOther end)
      else match items_fuel f (skipn (N.to_nat n) rest) with
           | ROk l => ROk ((t, firstn (N.to_nat n) rest) :: l)
           | RErr e => RErr e
           end
    end
  end.
Definition items (b : bytes) : rres (list (N * bytes)) := items_fuel (S (length b)) b.

(** the bucket map: tag -> non-empty list of values, in order of appearance *)
Definition rmap := list (N * list bytes).
Fixpoint mget (m : rmap) (tag : N) : list bytes :=
  match m with [] => [] | (t, l) :: r => if t =? tag then l else mget r tag end.
Fixpoint mdel (m : rmap) (tag : N) : rmap :=
  match m with [] => [] | (t, l) :: r => if t =? tag then mdel r tag else (t, l) :: mdel r tag end.
Definition mset (m : rmap) (tag : N) (l : list bytes) : rmap :=
  match l with [] => mdel m tag | _ => (tag, l) :: mdel m tag end.
Definition meof (m : rmap) : bool := match m with [] => true | _ => false end.

Fixpoint append_last (l : list bytes) (v : bytes) : list bytes :=
  match l with
  | [] => [v]
  | [x] => [x ++ v]
  | x :: r => x :: append_last r v
  end.

(** read(): fold of the items into the map.  [lastdelim]: the previous item was {0,0};
    [seen]: tags stored since the last delimiter (used by the repaired code only) *)
Fixpoint fill (its : list (N * bytes)) (m : rmap) (lastdelim : bool) (seen : list N) : rmap :=
  match its with
  | [] => m
  | (t, v) :: r =>
    let isdelim := (t =? 0) && (match v with [] => true | _ => false end) in
    match v with
    | [] => fill r m isdelim (if isdelim then [] else seen)
    | _ =>
      let old := mget m t in
      let m' :=
        match old with
        | [] => mset m t [v]
        | x :: _ =>
          if k_read_fixed K then
            (if existsb (N.eqb t) seen then mset m t (append_last old v) else mset m t (old ++ [v]))
          else
            (if lastdelim then mset m t (old ++ [v]) else mset m t [x ++ v])
        end in
      fill r m' isdelim (if isdelim then [] else t :: seen)
    end
  end.

Definition read (b : bytes) : rres rmap :=
  match items b with
  | ROk its => ROk (fill its [] false [])
  | RErr e => RErr e
  end.

(** readBytes: pop the first bucket of a tag *)
Definition pop (m : rmap) (tag : N) : option (bytes * rmap) :=
  match mget m tag with
  | [] => None
  | b :: rest => Some (b, mset m tag rest)
  end.
Definition first_len (m : rmap) (tag : N) : nat :=
  match mget m tag with [] => O | b :: _ => length b end.

(** partial operations (a [None] is a Go run-time panic) *)
Definition le_prefix (k : nat) (b : bytes) : option Z :=
  if (length b <? k)%nat then None else Some (of_le (firstn k b)).

(** scalar readers: [None] = tag absent (io.EOF); the inner outcome carries panics *)
Definition read_u (width : nat) (m : rmap) (tag : N) : option (outcome Z * rmap) :=
  (* readUintNN: falls back to the next smaller reader while the first bucket is shorter *)
  match pop m tag with
  | None => None
  | Some (b, m') =>
    let n := length b in
    let w := if (n <? 2)%nat then 1%nat else if (n <? 4)%nat then Nat.min width 2 else if (n <? 8)%nat then Nat.min width 4 else width in
    Some (match le_prefix w b with Some z => Ok z | None => Panic end, m')
  end.
Definition read_i (width : nat) (m : rmap) (tag : N) : option (outcome Z * rmap) :=
  match pop m tag with
  | None => None
  | Some (b, m') =>
    let n := length b in
    let w := if (n <? 2)%nat then 1%nat else if (n <? 4)%nat then Nat.min width 2 else if (n <? 8)%nat then Nat.min width 4 else width in
    Some (match le_prefix w b with
          | Some z => Ok (if (w =? 1)%nat then z else signed (8 * Z.of_nat w) z)
          | None => Panic end, m')
  end.

(** float32 -> float64 -> float32 quiets a signalling NaN *)
Definition quiet (bits : Z) : Z :=
  let e := ((bits / 8388608) mod 256)%Z in
  let frac := (bits mod 8388608)%Z in
  if ((e =? 255) && negb (frac =? 0) && (frac <? 4194304))%Z then (bits + 4194304)%Z else bits.

Definition zero_scalar (t : ty) : val :=
  match t with
  | TBool => VBool false
  | TStr | TBytes => VBytes []
  | _ => VNum 0
  end.

Fixpoint zero_of (t : ty) : val :=
  match t with
  | TStruct fs => VStruct (zeros fs)
  | TList _ | TInline _ => VList LNil
  | _ => zero_scalar t
  end
with zeros (fs : fields) : vals :=
  match fs with FNil => VNil | FCons _ t r => VCons (zero_of t) (zeros r) end.

(** isEmptyValue / isEmptyStruct *)
Definition empty_val (t : ty) (v : val) : bool :=
  match t, v with
  | TStruct _, _ => false
  | TF32, VNum z => ((z =? 0) || (z =? 2147483648))%Z
  | _, VNum z => (z =? 0)%Z
  | _, VBool b => negb b
  | _, VBytes b => match b with [] => true | _ => false end
  | _, VList l => match l with LNil => true | _ => false end
  | _, VStruct _ => false
  end.
Fixpoint empty_vals (fs : fields) (vs : vals) : bool :=
  match fs, vs with
  | FCons _ t fr, VCons v vr => empty_val t v && empty_vals fr vr
  | _, _ => true
  end.

Fixpoint snoc (l : vlist) (e : vals) : vlist :=
  match l with LNil => LCons e LNil | LCons x r => LCons x (snoc r e) end.

Fixpoint buckets (m : rmap) : nat :=
  match m with [] => O | (_, l) :: r => (length l + buckets r)%nat end.

(** the decoder.  Result of decoding the fields of a struct against a reader:
    the (possibly partially filled) values, the reader afterwards, and whether an error is returned *)
Definition dres := outcome (vals * rmap * bool).

(** [Ok (None, m')] = the reader returned an error other than io.EOF *)
Definition scalar_field (t : ty) (m : rmap) (tag : N) : outcome (option val * rmap) :=
  match t with
  | TU8 => match pop m tag with
           | None => Ok (Some (zero_scalar t), m)
           | Some (b, m') => match b with [] => Panic | x :: _ => Ok (Some (VNum (Z.of_N x)), m') end
           end
  | TBool => match pop m tag with
             | None => Ok (Some (zero_scalar t), m)
             | Some (b, m') => match b with [] => Panic | x :: _ => Ok (Some (VBool (x =? 1)), m') end
             end
  | TU16 => match read_u 2 m tag with None => Ok (Some (zero_scalar t), m) | Some (Ok z, m') => Ok (Some (VNum z), m') | Some (_, _) => Panic end
  | TU32 => match read_u 4 m tag with None => Ok (Some (zero_scalar t), m) | Some (Ok z, m') => Ok (Some (VNum z), m') | Some (_, _) => Panic end
  | TU64 => match read_u 8 m tag with None => Ok (Some (zero_scalar t), m) | Some (Ok z, m') => Ok (Some (VNum z), m') | Some (_, _) => Panic end
  | TI16 => match read_i 2 m tag with None => Ok (Some (zero_scalar t), m) | Some (Ok z, m') => Ok (Some (VNum z), m') | Some (_, _) => Panic end
  | TI32 => match read_i 4 m tag with None => Ok (Some (zero_scalar t), m) | Some (Ok z, m') => Ok (Some (VNum z), m') | Some (_, _) => Panic end
  | TI64 => match read_i 8 m tag with None => Ok (Some (zero_scalar t), m) | Some (Ok z, m') => Ok (Some (VNum z), m') | Some (_, _) => Panic end
  | TF32 => match pop m tag with
            | None => Ok (Some (zero_scalar t), m)
            | Some (b, m') =>
              match le_prefix 4 b with
              | Some z => Ok (Some (VNum (quiet z)), m')
              | None => if k_f32_guard K then Ok (None, m') else Panic
              end
            end
  | TStr | TBytes => match pop m tag with
                     | None => Ok (Some (zero_scalar t), m)
                     | Some (b, m') => Ok (Some (VBytes b), m')
                     end
  | _ => OutOfFuel
  end.

Definition is_scalar (t : ty) : bool :=
  match t with TStruct _ | TList _ | TInline _ => false | _ => true end.

(** helpers of the struct decoder *)
Definition cont (v : val) (r : dres) : dres :=
  match r with
  | Ok (vr, m'', e) => Ok (VCons v vr, m'', e)
  | Err c => Err c | Panic => Panic | OutOfFuel => OutOfFuel
  end.
Definition lres := outcome (vlist * rmap * bool).

(** tagged list: one bucket per element, each decoded by its own reader *)
Fixpoint list_loop (dec_elem : rmap -> dres) (tag : N) (fuel : nat) (acc : vlist) (m : rmap) {struct fuel} : lres :=
  match fuel with
  | O => OutOfFuel
  | S f =>
    match pop m tag with
    | None => Ok (acc, m, false)
    | Some (b, m1) =>
      match read b with
      | RErr _ => Ok (acc, m1, false)              (* `break` with the error dropped *)
      | ROk mb =>
        match dec_elem mb with
        | Ok (vs, _, errd) =>
          let acc' := if errd then acc else snoc acc vs in
          if meof m1 then Ok (acc', m1, false)
          else if errd then Ok (acc', m1, true)
          else list_loop dec_elem tag f acc' m1
        | Err c => Err c | Panic => Panic | OutOfFuel => OutOfFuel
        end
      end
    end
  end.

(** inline list: the elements are decoded from the struct's own reader *)
Fixpoint inline_loop (dec_elem : rmap -> dres) (is_empty : vals -> bool) (fuel : nat) (acc : vlist) (m : rmap) {struct fuel} : lres :=
  match fuel with
  | O => OutOfFuel
  | S f =>
    match dec_elem m with
    | Ok (vs, m1, errd) =>
      if (if k_inline_fixed K then (buckets m1 =? buckets m)%nat else is_empty vs) then Ok (acc, m1, false)
      else
        let acc' := if errd then acc else snoc acc vs in
        if meof m1 then Ok (acc', m1, false)
        else if errd then Ok (acc', m1, true)
        else inline_loop dec_elem is_empty f acc' m1
    | Err c => Err c | Panic => Panic | OutOfFuel => OutOfFuel
    end
  end.

Fixpoint dec_fields (fs : fields) (m : rmap) {struct fs} : dres :=
  match fs with
  | FNil => Ok (VNil, m, false)
  | FCons tag t fr =>
    (* an error stops the struct: the remaining fields keep their zero value *)
    let fail_with (m' : rmap) : dres := Ok (VCons (zero_of t) (zeros fr), m', true) in
    match t with
    | TStruct fs' =>
      match pop m tag with
      | None => cont (zero_of t) (dec_fields fr m)
      | Some (data, m') =>
        match read data with
        | RErr EEof => cont (zero_of t) (dec_fields fr m')
        | RErr EOther => fail_with m'
        | ROk md =>
          match dec_fields fs' md with
          | Ok (vs, _, false) => cont (VStruct vs) (dec_fields fr m')
          | Ok (_, _, true) => fail_with m'
          | Err c => Err c | Panic => Panic | OutOfFuel => OutOfFuel
          end
        end
      end
    | TList fs' =>
      match list_loop (dec_fields fs') tag (S (buckets m)) LNil m with
      | Ok (l, m', false) => cont (VList l) (dec_fields fr m')
      | Ok (_, m', true) => fail_with m'
      | Err c => Err c | Panic => Panic | OutOfFuel => OutOfFuel
      end
    | TInline fs' =>
      match inline_loop (dec_fields fs') (empty_vals fs') (S (buckets m)) LNil m with
      | Ok (l, m', false) => cont (VList l) (dec_fields fr m')
      | Ok (_, m', true) => fail_with m'
      | Err c => Err c | Panic => Panic | OutOfFuel => OutOfFuel
      end
    | _ =>
      match scalar_field t m tag with
      | Ok (Some v, m') => cont v (dec_fields fr m')
      | Ok (None, m') => fail_with m'
      | Err c => Err c
      | Panic => Panic
      | OutOfFuel => OutOfFuel
      end
    end
  end.

(** tlv8.Unmarshal into a zero value of the struct type *)
Definition unmarshal (fs : fields) (b : bytes) : outcome vals :=
  match read b with
  | RErr _ => Err 1
  | ROk m =>
    match dec_fields fs m with
    | Ok (vs, _, false) => Ok vs
    | Ok (_, _, true) => Err 1
    | Err c => Err c | Panic => Panic | OutOfFuel => OutOfFuel
    end
  end.
End Enc.

(** ---------- well-formed struct types (what the round-trip theorem is about) ---------- *)
Fixpoint field_tags (fs : fields) : list N :=
  match fs with
  | FNil => []
  | FCons tag (TInline fs') r => own_tags fs' ++ field_tags r
  | FCons tag _ r => tag :: field_tags r
  end
with own_tags (fs : fields) : list N :=
  match fs with FNil => [] | FCons tag _ r => tag :: own_tags r end.

Fixpoint nodupb (l : list N) : bool :=
  match l with [] => true | x :: r => negb (existsb (N.eqb x) r) && nodupb r end.
Fixpoint scalars_only (fs : fields) : bool :=
  match fs with FNil => true | FCons _ t r => is_scalar t && scalars_only r end.

Definition tags_ok (fs : fields) : bool :=
  nodupb (field_tags fs) && forallb (fun t => (1 <=? t) && (t <=? 255)) (field_tags fs).

Fixpoint wf_ty (t : ty) : bool :=
  match t with
  | TStruct fs | TList fs => tags_ok fs && wf_each fs
  | TInline fs => scalars_only fs
  | _ => true
  end
with wf_each (fs : fields) : bool :=
  match fs with FNil => true | FCons _ t r => wf_ty t && wf_each r end.
Definition wf_fields (fs : fields) : bool := tags_ok fs && wf_each fs.
