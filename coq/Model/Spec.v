(** Constants and orders written from the HomeKit Accessory Protocol specification (R1/R2,
    chapters 4.7 Pair Setup, 4.8 Pair Verify, 5.5.2 session security) — never from hc.
    Gen/Extracted.v holds what the Go source says; Properties/C04.v proves them equal. *)
From Coq Require Import String Ascii.
From HC Require Import Base.HBytes.

Fixpoint s2b (s : string) : bytes :=
  match s with
  | EmptyString => []
  | String a r => N_of_ascii a :: s2b r
  end.

Definition spec_srp_group := s2b "rfc5054.3072".           (* 3072-bit group of RFC 5054, generator 5 *)
Definition spec_srp_username := s2b "Pair-Setup".
Definition spec_ps_enc_salt := s2b "Pair-Setup-Encrypt-Salt".
Definition spec_ps_enc_info := s2b "Pair-Setup-Encrypt-Info".
Definition spec_ps_m5_nonce := s2b "PS-Msg05".
Definition spec_ps_m6_nonce := s2b "PS-Msg06".
Definition spec_ps_ctrl_sign := [s2b "Pair-Setup-Controller-Sign-Salt"; s2b "Pair-Setup-Controller-Sign-Info"].
Definition spec_ps_acc_sign := [s2b "Pair-Setup-Accessory-Sign-Salt"; s2b "Pair-Setup-Accessory-Sign-Info"].
Definition spec_pv_enc_salt := s2b "Pair-Verify-Encrypt-Salt".
Definition spec_pv_enc_info := s2b "Pair-Verify-Encrypt-Info".
Definition spec_pv_m2_nonce := s2b "PV-Msg02".
Definition spec_pv_m3_nonce := s2b "PV-Msg03".

(** kTLVType_* *)
Definition spec_tags : list N := [0; 1; 2; 3; 4; 5; 6; 7; 10; 11].
   (* Method, Identifier, Salt, PublicKey, Proof, EncryptedData, State, Error, Signature, Permissions *)

(** the parts of a signed "Info" blob, in the order the specification concatenates them *)
Inductive role := RX | RPairingID | RLTPK | REphOwn | REphPeer | RUnknown.
Definition spec_setup_info : list role := [RX; RPairingID; RLTPK].         (* iOSDeviceX / AccessoryX, PairingID, LTPK *)
Definition spec_verify_info : list role := [REphOwn; RPairingID; REphPeer]. (* own Curve25519 key, PairingID, peer's *)

(** how the Go expressions found by the translator are read (trusted reading of the source) *)
Definition role_of (own_is_accessory : bool) (e : bytes) : role :=
  if eqb_bytes e (s2b "hash[:]") then RX
  else if eqb_bytes e (s2b "[]byte(username)") then RPairingID
  else if eqb_bytes e (s2b "[]byte(setup.session.Username)") then RPairingID
  else if eqb_bytes e (s2b "device.Name()") then RPairingID
  else if eqb_bytes e (s2b "clientltpk") then RLTPK
  else if eqb_bytes e (s2b "ltpk") then RLTPK
  else if eqb_bytes e (s2b "verify.session.PublicKey[:]") then (if own_is_accessory then REphOwn else REphPeer)
  else if eqb_bytes e (s2b "clientPublicKey") then (if own_is_accessory then REphPeer else REphOwn)
  else if eqb_bytes e (s2b "verify.session.OtherPublicKey[:]") then (if own_is_accessory then REphPeer else REphOwn)
  else RUnknown.

Definition spec_protected_paths := [s2b "/accessories"; s2b "/characteristics"; s2b "/pairings"; s2b "/resource"].
Definition spec_open_paths := [s2b "/pair-setup"; s2b "/pair-verify"; s2b "/identify"].
