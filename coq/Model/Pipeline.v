(** * Requests that wait in the HTTP layer's buffer while the connection switches to the secure session

    hap.Connection hands bytes to net/http; net/http buffers them and parses one request after the
    other.  A byte is handed over either as it came from the socket ([Plain]) or out of a frame that
    verified under the session's keys ([Sealed] — sealed by the peer, C05's other theorems).  The
    pair-verify finish is a plaintext request; once it is accepted the secure session is PENDING and
    the connection switches when the next bytes arrive from the socket (fix e748ac2).  A request the
    HTTP layer had buffered before that moment is handled after it.

    [by_origin = true ] a protected request is served iff every byte of it was sealed — what C05
                        demands: nothing is released but what the peer sent;
    [by_origin = false] as /repo does it (http.Server.Authenticate): iff the session is encrypted at
                        the moment the request is handled. *)
From Coq Require Import List Bool Arith.
Import ListNotations.

Inductive origin := Plain | Sealed.

Inductive pev :=
| Recv (k : nat)                          (* k bytes arrive from the socket and are handed to the HTTP layer *)
| Parse (n : nat) (protected finish : bool).
   (* the HTTP layer takes the next n buffered bytes as one request and runs its handler;
      protected: /accessories, /characteristics, /pairings, /resource;
      finish: a pair-verify finish with a valid signature *)

Record pstate := mkP {
  p_buf : list origin;            (* handed over, not parsed yet *)
  p_pending : bool;               (* finish accepted, session not switched yet *)
  p_encrypted : bool;
  p_leftover : bool;              (* some finish was handled while a Plain byte waited behind it *)
  p_served : list (list origin) } (* protected requests that were served, by the origin of their bytes *).

Definition pinit := mkP [] false false false [].

Definition is_sealed (o : origin) : bool := match o with Sealed => true | Plain => false end.
Definition all_sealed (r : list origin) : bool := forallb is_sealed r.

Definition pstep (by_origin : bool) (s : pstate) (e : pev) : pstate :=
  match e with
  | Recv k =>
    if (p_pending s || p_encrypted s)%bool
    then mkP (p_buf s ++ repeat Sealed k) false true (p_leftover s) (p_served s)
    else mkP (p_buf s ++ repeat Plain k) false false (p_leftover s) (p_served s)
  | Parse n prot fin =>
    if length (p_buf s) <? n then s else
    let r := firstn n (p_buf s) in
    let rest := skipn n (p_buf s) in
    if prot then
      if (if by_origin then all_sealed r else p_encrypted s)
      then mkP rest (p_pending s) (p_encrypted s) (p_leftover s) (p_served s ++ [r])
      else mkP rest (p_pending s) (p_encrypted s) (p_leftover s) (p_served s)
    else if fin
      then mkP rest true (p_encrypted s) (p_leftover s || negb (all_sealed rest))%bool (p_served s)
      else mkP rest (p_pending s) (p_encrypted s) (p_leftover s) (p_served s)
  end.

Definition prun (by_origin : bool) (evs : list pev) : pstate := fold_left (pstep by_origin) evs pinit.

(** the history of the finding: the finish (1 byte here) and a protected request (1 byte) arrive in
    one read; the finish is handled; one more byte arrives; the buffered request is handled *)
Definition injected : list pev := [Recv 2; Parse 1 false true; Recv 1; Parse 1 true false].

(** The repaired connection (plaintext reads stop at the end of an HTTP message) hands over the bytes
    of ONE request at a time: when a request is taken out of the buffer nothing beyond it is
    buffered.  [framed buffered evs]: the history keeps that discipline. *)
Fixpoint framed (buffered : nat) (evs : list pev) : bool :=
  match evs with
  | [] => true
  | Recv k :: r => framed (buffered + k) r
  | Parse n _ _ :: r =>
    if buffered <? n then framed buffered r          (* the request is not complete yet: nothing happens *)
    else (buffered =? n) && framed 0 r
  end.
