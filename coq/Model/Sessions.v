(** * Whose session answers a request: the server's session table (hap/context.go, hap/connection.go)

    Every connection gets a session when it is accepted; pair-verify marks it verified; protected
    requests of a connection are served iff the session found for it is verified; closing a
    connection removes a session.  The table is keyed by [key c] — /repo: the connection's local and
    remote address (repair 4df6943; the pinned code: the remote address only) — and Close removes
    the entry only if it is the closing connection's own ([own_only], repair 44e806b). *)
From Coq Require Import List Bool Arith.
Import ListNotations.

Record sess := mkSess { s_owner : nat; s_verified : bool }.
Definition table := nat -> option sess.
Definition tput (t : table) (k : nat) (s : sess) : table := fun k' => if Nat.eqb k' k then Some s else t k'.
Definition tdel (t : table) (k : nat) : table := fun k' => if Nat.eqb k' k then None else t k'.

Inductive sop :=
| SConnect (c : nat)       (* accept: a new session for the connection *)
| SVerify (c : nat)        (* pair-verify finish with a valid signature on connection c *)
| SRequest (c : nat)       (* a protected request arrives on connection c *)
| SClose (c : nat).

Inductive sout := ONone | OServed | ORefused | ONoSession.   (* ONoSession: the handler finds no session (it panics) *)

Section WithKey.
Variable key : nat -> nat.
Variable own_only : bool.

Definition sstep (t : table) (o : sop) : table * sout :=
  match o with
  | SConnect c => (tput t (key c) (mkSess c false), ONone)
  | SVerify c => match t (key c) with
                 | Some s => (tput t (key c) (mkSess (s_owner s) true), ONone)
                 | None => (t, ONoSession)
                 end
  | SRequest c => match t (key c) with
                  | Some s => (t, if s_verified s then OServed else ORefused)
                  | None => (t, ONoSession)
                  end
  | SClose c => match t (key c) with
                | Some s => if (negb own_only || Nat.eqb (s_owner s) c)%bool then (tdel t (key c), ONone) else (t, ONone)
                | None => (t, ONone)
                end
  end.

Fixpoint srun (t : table) (ops : list sop) : list sout :=
  match ops with
  | [] => []
  | o :: r => let '(t', out) := sstep t o in out :: srun t' r
  end.
End WithKey.

(** what the property says: connection by connection, nothing shared *)
Definition cstate := nat -> option bool.      (* connected? verified? *)
Definition spec_step (m : cstate) (o : sop) : cstate * sout :=
  match o with
  | SConnect c => ((fun c' => if Nat.eqb c' c then Some false else m c'), ONone)
  | SVerify c => match m c with
                 | Some _ => ((fun c' => if Nat.eqb c' c then Some true else m c'), ONone)
                 | None => (m, ONoSession)
                 end
  | SRequest c => match m c with
                  | Some v => (m, if v then OServed else ORefused)
                  | None => (m, ONoSession)
                  end
  | SClose c => ((fun c' => if Nat.eqb c' c then None else m c'), ONone)
  end.
Fixpoint spec_run (m : cstate) (ops : list sop) : list sout :=
  match ops with
  | [] => []
  | o :: r => let '(m', out) := spec_step m o in out :: spec_run m' r
  end.

Definition empty_table : table := fun _ => None.
Definition nobody : cstate := fun _ => None.
