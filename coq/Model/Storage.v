(** Model of util/file_storage.go and db/database.go as operations on a directory of files.
    A directory is an association list name -> content with unique names. *)
From HC Require Import Base.HBytes.

Definition fname := bytes.
Definition dir := list (fname * bytes).

Fixpoint eqb_list (a b : bytes) : bool :=
  match a, b with
  | [], [] => true
  | x :: a', y :: b' => (x =? y) && eqb_list a' b'
  | _, _ => false
  end.

Fixpoint fs_get (d : dir) (n : fname) : option bytes :=
  match d with
  | [] => None
  | (m, v) :: r => if eqb_list m n then Some v else fs_get r n
  end.
Fixpoint fs_del (d : dir) (n : fname) : dir :=
  match d with
  | [] => []
  | (m, v) :: r => if eqb_list m n then fs_del r n else (m, v) :: fs_del r n
  end.
Definition fs_put (d : dir) (n : fname) (v : bytes) : dir := (n, v) :: fs_del d n.

(** file-system operations a storage call performs, in order (process-kill semantics:
    a completed operation persists, the next one has not started) *)
Inductive fsop :=
| OpenCreate (n : fname)             (* open(O_WRONLY|O_CREATE): creates empty when absent, keeps content *)
| OpenCreateTrunc (n : fname)        (* open(O_WRONLY|O_CREATE|O_TRUNC) *)
| WriteAt0 (n : fname) (v : bytes)   (* write at offset 0 through the fresh handle: overwrites a prefix, extends *)
| Sync (n : fname)
| Close (n : fname)
| Rename (a b : fname)
| Remove (n : fname).

Definition overwrite (old new : bytes) : bytes := new ++ skipn (length new) old.

Definition apply_op (d : dir) (o : fsop) : dir :=
  match o with
  | OpenCreate n => match fs_get d n with Some _ => d | None => fs_put d n [] end
  | OpenCreateTrunc n => fs_put d n []
  | WriteAt0 n v => match fs_get d n with Some old => fs_put d n (overwrite old v) | None => d end
  | Sync _ | Close _ => d
  | Rename a b => match fs_get d a with Some v => fs_put (fs_del d a) b v | None => d end
  | Remove n => fs_del d n
  end.
Definition apply_ops (d : dir) (os : list fsop) : dir := fold_left apply_op os d.

(** removeInvalidFileNameCharacters: every ':' (58) is dropped *)
Definition sanitize (k : bytes) : fname := filter (fun b => negb (b =? 58)) k.

Definition tmp_suffix : bytes := [46; 116; 109; 112].      (* ".tmp" *)
Definition tmp_of (n : fname) : fname := n ++ tmp_suffix.

(** The two write sequences. [atomic = true] is the current code (temp file, sync, rename);
    [atomic = false] is the pinned code before the repair (in place, no O_TRUNC). *)
Definition set_ops (atomic : bool) (n : fname) (v : bytes) : list fsop :=
  if atomic then [OpenCreateTrunc (tmp_of n); WriteAt0 (tmp_of n) v; Sync (tmp_of n); Close (tmp_of n);
                  Rename (tmp_of n) n]
  else [OpenCreate n; WriteAt0 n v; Close n].

Fixpoint has_suffix_rev (rs rn : bytes) : bool :=
  match rs, rn with
  | [], _ => true
  | x :: rs', y :: rn' => (x =? y) && has_suffix_rev rs' rn'
  | _ :: _, [] => false
  end.
Definition has_suffix (s n : bytes) : bool := has_suffix_rev (rev s) (rev n).

(** storage API *)
Definition st_set (atomic : bool) (d : dir) (k v : bytes) : dir := apply_ops d (set_ops atomic (sanitize k) v).
Definition st_get (d : dir) (k : bytes) : option bytes := fs_get d (sanitize k).
Definition st_delete (d : dir) (k : bytes) : dir := apply_op d (Remove (sanitize k)).
Definition st_keys (d : dir) (sfx : bytes) : list fname :=
  map fst (filter (fun p => has_suffix sfx (fst p)) d).

(** histories over the storage API; Reopen creates a new handle on the same directory and is
    the identity on the directory (the handle holds no state) *)
Inductive sop :=
| SSet (k v : bytes)
| SDelete (k : bytes)
| SReopen.
Definition st_step (atomic : bool) (d : dir) (o : sop) : dir :=
  match o with
  | SSet k v => st_set atomic d k v
  | SDelete k => st_delete d k
  | SReopen => d
  end.
Definition st_run (atomic : bool) (h : list sop) : dir := fold_left (st_step atomic) h [].

(** the abstract persistent map, defined on the history alone: the value of the last Set of
    a key with the same file name that no later Delete removed *)
Fixpoint spec_lookup_rev (rh : list sop) (n : fname) : option bytes :=
  match rh with
  | [] => None
  | SSet k v :: r => if eqb_list (sanitize k) n then Some v else spec_lookup_rev r n
  | SDelete k :: r => if eqb_list (sanitize k) n then None else spec_lookup_rev r n
  | SReopen :: r => spec_lookup_rev r n
  end.
Definition spec_lookup (h : list sop) (n : fname) : option bytes := spec_lookup_rev (rev h) n.

(** file names the theorems speak about: what a sanitised key can be, minus temp names *)
Definition is_tmp (n : fname) : bool := has_suffix tmp_suffix n.

(** pairing database: key = lower-case hex of the name ++ ".entity" *)
Definition hexdigit (x : N) : N := if x <? 10 then 48 + x else 87 + x.
Definition hex_of (name : bytes) : bytes := flat_map (fun b => [hexdigit (b / 16); hexdigit (b mod 16)]) name.
Definition entity_suffix : bytes := [46; 101; 110; 116; 105; 116; 121].   (* ".entity" *)
Definition entity_key (name : bytes) : bytes := hex_of name ++ entity_suffix.

(** pairing database histories: an entity's file content is opaque bytes here (the JSON layer is
    encoding/json; its round trip is exercised by the correspondence, not proved) *)
Inductive dop :=
| DSave (name content : bytes)
| DRemove (name : bytes)
| DReopen.
Definition dop_to_sop (o : dop) : sop :=
  match o with
  | DSave n c => SSet (entity_key n) c
  | DRemove n => SDelete (entity_key n)
  | DReopen => SReopen
  end.
Definition db_run (atomic : bool) (h : list dop) : dir := st_run atomic (map dop_to_sop h).
Definition db_load (d : dir) (name : bytes) : option bytes := st_get d (entity_key name).
Definition db_list (d : dir) : list fname := st_keys d entity_suffix.

Fixpoint db_spec_rev (rh : list dop) (name : bytes) : option bytes :=
  match rh with
  | [] => None
  | DSave n c :: r => if eqb_list n name then Some c else db_spec_rev r name
  | DRemove n :: r => if eqb_list n name then None else db_spec_rev r name
  | DReopen :: r => db_spec_rev r name
  end.
Definition db_spec (h : list dop) (name : bytes) : option bytes := db_spec_rev (rev h) name.
Definition dop_wf (o : dop) : Prop :=
  match o with DSave n _ => wf_bytes n | DRemove n => wf_bytes n | DReopen => True end.

(** several Sets in a row (config save = three, one after the other) *)
Definition multi_ops (sets : list (bytes * bytes)) : list fsop :=
  flat_map (fun kv => set_ops true (sanitize (fst kv)) (snd kv)) sets.

(** ---- every kind of write, and file names at the file system's limit ----
    A name whose temp name is longer than NAME_MAX cannot be created: open fails (ENAMETOOLONG), the
    Set returns the error and nothing was written.  Delete is one unlink. *)
Definition name_max : nat := 255.
Definition fits (n : fname) : bool := (length (tmp_of n) <=? name_max)%nat.
Definition set_ops_os (n : fname) (v : bytes) : list fsop := if fits n then set_ops true n v else [].
Inductive wop := WSet (k v : bytes) | WDelete (k : bytes).
Definition wop_ops (o : wop) : list fsop :=
  match o with WSet k v => set_ops_os (sanitize k) v | WDelete k => [Remove (sanitize k)] end.
Definition writes_ops (ws : list wop) : list fsop := flat_map wop_ops ws.

(** ---- two writes at the same time ----
    [merge l a b]: l is an interleaving of the operation sequences a and b (each in its own order). *)
Inductive merge {A} : list A -> list A -> list A -> Prop :=
| merge_nil : merge [] [] []
| merge_l x l a b : merge l a b -> merge (x :: l) (x :: a) b
| merge_r x l a b : merge l a b -> merge (x :: l) a (x :: b).
