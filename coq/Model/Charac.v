(** Model of characteristic/characteristic.go: conversion by format, clamping, the equality
    test, permission checks and callbacks of updateValue. *)
From HC Require Import Base.HBytes.
Open Scope Z_scope.

Inductive fmt := FString | FBool | FFloat | FU8 | FU16 | FU32 | FI32 | FU64 | FData | FTlv8 | FOther.

(** A Go value as it reaches updateValue (interface{}): what encoding/json produces for any JSON
    value, plus Go ints passed by the application.  Results of library conversions that the model
    does not compute are carried as annotations and are universally quantified in the theorems:
    - a float64 is its IEEE-754 bit pattern; [f_uint] is what the platform's uint64(float64) gives
    - a string carries what strconv.ParseUint / ParseFloat / ParseBool return for it *)
Inductive gval :=
| VNil
| VBool (b : bool)
| VFloat (bits : N) (f_uint : N)
| VInt (z : Z)
| VStr (s : bytes) (s_uint : N) (s_float : N) (s_bool : bool)
| VComposite (id : N).     (* JSON object (even id) or array (odd id); uncomparable with == *)

Inductive bound := BNone | BInt (z : Z) | BFloat (bits : N).

Record charac := mkChar {
  format : fmt;
  p_read : bool; p_write : bool; p_event : bool;
  cvalue : option gval;           (* Characteristic.Value; None = nil *)
  minv : bound; maxv : bound;
  upd_same : bool                 (* updateOnSameValue: an update with the stored value still counts as a change *)
}.

(** ---- IEEE-754 double helpers on bit patterns ---- *)
Definition two63 : N := 9223372036854775808%N.
Definition two52 : N := 4503599627370496%N.
Definition f_sign (b : N) : bool := (two63 <=? b)%N.
Definition f_mag (b : N) : N := (b mod two63)%N.
Definition f_exp (b : N) : N := (f_mag b / two52)%N.
Definition f_is_nan (b : N) : bool := ((f_exp b =? 2047) && negb (f_mag b mod two52 =? 0))%N.
Definition f_is_inf (b : N) : bool := ((f_exp b =? 2047) && (f_mag b mod two52 =? 0))%N.
Definition f_finite (b : N) : bool := negb (f_exp b =? 2047)%N.
(** order key: for non-NaN patterns, a < b as doubles iff key a < key b; -0 and +0 share key 0 *)
Definition f_key (b : N) : Z := if f_sign b then - Z.of_N (f_mag b) else Z.of_N (f_mag b).
Definition f_ltb (a b : N) : bool := negb (f_is_nan a) && negb (f_is_nan b) && (f_key a <? f_key b).
Definition f_eqb (a b : N) : bool := negb (f_is_nan a) && negb (f_is_nan b) && (f_key a =? f_key b).
Definition f_one : N := 4607182418800017408%N.      (* 1.0 *)
Definition f_zero : N := 0%N.

(** float64(int): exact up to 2^53, round-to-nearest-even above (IEEE-754 conversion) *)
Definition f_of_Z (z : Z) : N :=
  match z with
  | Z0 => 0%N
  | _ => let a := Z.to_N (Z.abs z) in
         let e := N.log2 a in
         let sign := (if (z <? 0)%Z then two63 else 0)%N in
         if (e <=? 52)%N then
           (sign + (e + 1023) * two52 + (a * 2 ^ (52 - e) - two52))%N
         else
           let sh := (e - 52)%N in
           let q := (a / 2 ^ sh)%N in
           let r := (a mod 2 ^ sh)%N in
           let half := (2 ^ (sh - 1))%N in
           let q' := (if (half <? r)%N || ((r =? half)%N && N.odd q) then q + 1 else q)%N in
           if (q' =? 2 * two52)%N then (sign + (e + 1 + 1023) * two52)%N
           else (sign + (e + 1023) * two52 + (q' - two52))%N
  end.

Definition two64 : Z := 18446744073709551616.
Definition int_of_uint64 (u : N) : Z :=
  let z := Z.of_N (u mod 18446744073709551616%N) in if 9223372036854775808 <=? z then z - two64 else z.

(** xiam/to, case by case *)
Definition to_float64 (v : gval) : N :=
  match v with
  | VNil => f_zero
  | VBool b => if b then f_one else f_zero
  | VFloat b _ => b
  | VInt z => f_of_Z z
  | VStr _ _ f _ => f
  | VComposite _ => f_zero
  end.
Definition to_uint64 (v : gval) : N :=
  match v with
  | VNil => 0%N
  | VBool b => if b then 1%N else 0%N
  | VFloat _ u => u
  | VInt z => Z.to_N (z mod two64)
  | VStr _ u _ _ => u
  | VComposite _ => 0%N
  end.
Definition to_bool (v : gval) : bool :=
  match v with
  | VNil => false
  | VBool b => b
  | VFloat b _ => (b =? f_one)%N          (* String(1.0) = "1" is the only float ParseBool accepts as true *)
  | VInt z => z =? 1
  | VStr _ _ _ b => b
  | VComposite _ => false
  end.

(** convert: None = the value cannot be represented by the format and the update is ignored.
    [strict = true] is the current code; [strict = false] the pinned code (strings formats keep any
    value, non-finite floats are stored). *)
Definition convert (strict : bool) (f : fmt) (v : gval) : option gval :=
  match f with
  | FFloat => let b := to_float64 v in
              if (strict && negb (f_finite b))%bool then None else Some (VFloat b 0)
  | FU8 | FU16 | FU32 | FI32 | FU64 => Some (VInt (int_of_uint64 (to_uint64 v)))
  | FBool => Some (VBool (to_bool v))
  | FString | FData | FTlv8 =>
    if strict then match v with VStr s _ _ _ => Some (VStr s 0 0 false) | _ => None end
    else match v with VNil => None | VStr s _ _ _ => Some (VStr s 0 0 false) | _ => Some v end
  | FOther => match v with VNil => None | _ => Some v end
  end.

Definition clamp (c : charac) (v : gval) : gval :=
  match format c, v with
  | FFloat, VFloat b _ =>
    match maxv c, minv c with
    | BFloat mx, mn => if f_ltb mx b then VFloat mx 0
                       else match mn with BFloat m => if f_ltb b m then VFloat m 0 else v | _ => v end
    | _, BFloat m => if f_ltb b m then VFloat m 0 else v
    | _, _ => v
    end
  | (FU8 | FU16 | FU32 | FI32 | FU64), VInt z =>
    match maxv c, minv c with
    | BInt mx, mn => if mx <? z then VInt mx
                     else match mn with BInt m => if z <? m then VInt m else v | _ => v end
    | _, BInt m => if z <? m then VInt m else v
    | _, _ => v
    end
  | _, _ => v
  end.

(** Go's == on two interface values: None result = run-time panic (uncomparable) *)
Definition iface_eq (a : option gval) (b : gval) : option bool :=
  match a with
  | None => Some false
  | Some x =>
    match x, b with
    | VBool p, VBool q => Some (Bool.eqb p q)
    | VFloat p _, VFloat q _ => Some (f_eqb p q)
    | VInt p, VInt q => Some (p =? q)
    | VStr p _ _ _, VStr q _ _ _ => Some (eqb_bytes p q)
    | VComposite p, VComposite q => if (p mod 2 =? q mod 2)%N then None else Some false   (* same dynamic type (both maps / both slices): uncomparable *)
    | _, _ => Some false
    end
  end.

Inductive origin := Local | Remote (conn : N).
Record callback := mkCb { cb_origin : origin; cb_new : gval; cb_old : option gval }.

(** updateValue: new characteristic, callbacks invoked, or Panic *)
Definition update (strict : bool) (c : charac) (v : gval) (o : origin) (check_perms : bool)
  : outcome (charac * list callback) :=
  match convert strict (format c) v with
  | None => Ok (c, [])
  | Some v1 =>
    let v2 := clamp c v1 in
    match iface_eq (cvalue c) v2 with
    | None => Panic
    | Some same =>
      if (same && negb (upd_same c))%bool then Ok (c, [])
      else if (check_perms && negb (p_write c))%bool then Ok (c, [])
      else
        let c' := mkChar (format c) (p_read c) (p_write c) (p_event c)
                         (if p_read c then Some v2 else cvalue c) (minv c) (maxv c) (upd_same c) in
        Ok (c', [mkCb o v2 (cvalue c)])
    end
  end.

(** operations on one characteristic *)
Inductive cop :=
| CLocal (v : gval)                 (* UpdateValue *)
| CRemote (conn : N) (v : gval)     (* UpdateValueFromConnection (checkPerms) *)
| CGetFn (conn : option N) (v : gval). (* GetValue[FromConnection] with an OnValueGet function returning v *)

Definition cstep (strict : bool) (c : charac) (op : cop) : outcome (charac * list callback) :=
  match op with
  | CLocal v => update strict c v Local false
  | CRemote k v => update strict c v (Remote k) true
  | CGetFn None v => update strict c v Local false
  | CGetFn (Some k) v => update strict c v (Remote k) false
  end.

Fixpoint crun (strict : bool) (c : charac) (ops : list cop) : outcome (charac * list callback) :=
  match ops with
  | [] => Ok (c, [])
  | op :: r =>
    match cstep strict c op with
    | Ok (c', cbs) => match crun strict c' r with
                      | Ok (c'', cbs') => Ok (c'', cbs ++ cbs')
                      | e => e end
    | Err e => Err e | Panic => Panic | OutOfFuel => OutOfFuel
    end
  end.

(** The application may declare the range again at any time (Int/Float.SetMinValue/SetMaxValue or the
    exported fields; accessory.NewThermostat does): the stored value is left alone, later updates
    are clamped against the range in force. *)
Definition redeclare (c : charac) (mn mx : bound) : charac :=
  mkChar (format c) (p_read c) (p_write c) (p_event c) (cvalue c) mn mx (upd_same c).
Inductive cop2 := CUpd (op : cop) | CRedeclare (mn mx : bound).
Definition cstep2 (strict : bool) (c : charac) (op : cop2) : outcome (charac * list callback) :=
  match op with CUpd o => cstep strict c o | CRedeclare mn mx => Ok (redeclare c mn mx, []) end.
(** the run records the characteristic after every step together with the step's callbacks *)
Fixpoint crun2 (strict : bool) (c : charac) (ops : list cop2) : outcome (list (charac * list callback)) :=
  match ops with
  | [] => Ok []
  | op :: r =>
    match cstep2 strict c op with
    | Ok (c', cbs) => match crun2 strict c' r with
                      | Ok tr => Ok ((c', cbs) :: tr)
                      | e => e end
    | Err e => Err e | Panic => Panic | OutOfFuel => OutOfFuel
    end
  end.

(** what "declared type and range" means *)
Definition is_int_fmt (f : fmt) : bool :=
  match f with FU8 | FU16 | FU32 | FI32 | FU64 => true | _ => false end.
Definition is_str_fmt (f : fmt) : bool :=
  match f with FString | FData | FTlv8 => true | _ => false end.

Definition has_type (f : fmt) (v : gval) : bool :=
  match f, v with
  | FFloat, VFloat b _ => f_finite b
  | (FU8 | FU16 | FU32 | FI32 | FU64), VInt _ => true
  | FBool, VBool _ => true
  | (FString | FData | FTlv8), VStr _ _ _ _ => true
  | FOther, _ => true
  | _, _ => false
  end.

Definition within (c : charac) (v : gval) : bool :=
  match v with
  | VInt z => (match minv c with BInt m => m <=? z | _ => true end) &&
              (match maxv c with BInt m => z <=? m | _ => true end)
  | VFloat b _ => (match minv c with BFloat m => negb (f_ltb b m) | _ => true end) &&
                  (match maxv c with BFloat m => negb (f_ltb m b) | _ => true end)
  | _ => true
  end.

Definition well_typed (c : charac) : bool :=
  match cvalue c with None => true | Some v => has_type (format c) v && within c v end.

(** declared bounds are of the format's Go type, finite, and ordered *)
Definition bounds_ok (c : charac) : bool :=
  match format c with
  | FFloat => (match minv c with BInt _ => false | BFloat m => f_finite m | BNone => true end) &&
              (match maxv c with BInt _ => false | BFloat m => f_finite m | BNone => true end) &&
              (match minv c, maxv c with BFloat a, BFloat b => negb (f_ltb b a) | _, _ => true end)
  | FU8 | FU16 | FU32 | FI32 | FU64 =>
              (match minv c with BFloat _ => false | _ => true end) &&
              (match maxv c with BFloat _ => false | _ => true end) &&
              (match minv c, maxv c with BInt a, BInt b => a <=? b | _, _ => true end)
  | _ => true
  end.
