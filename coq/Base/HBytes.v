(** Byte strings as [list N]; chunking; little-endian encodings. *)
From Coq Require Export List NArith ZArith Lia Bool.
From Coq Require Import ZifyBool ZifyNat ZifyN.
Export ListNotations.
Open Scope N_scope.

Definition bytes := list N.
Definition wf_byte (b : N) : Prop := b < 256.
Definition wf_bytes (l : bytes) : Prop := Forall wf_byte l.
Definition wf_byteb (b : N) : bool := b <? 256.
Definition wf_bytesb (l : bytes) : bool := forallb wf_byteb l.

(** Outcomes of modelled Go functions: a Go panic is a value, never "stuck". *)
Inductive outcome (A : Type) : Type :=
| Ok (a : A)
| Err (code : N)
| Panic
| OutOfFuel.
Arguments Ok {A} a.
Arguments Err {A} code.
Arguments Panic {A}.
Arguments OutOfFuel {A}.

(** [chunks n l]: consecutive pieces of [n] elements, the last one possibly shorter,
    no trailing empty piece.  [n] must be positive. *)
Fixpoint chunks_fuel {A} (fuel n : nat) (l : list A) : list (list A) :=
  match fuel with
  | O => []
  | S f => match l with
           | [] => []
           | _ => firstn n l :: chunks_fuel f n (skipn n l)
           end
  end.
Definition chunks {A} (n : nat) (l : list A) : list (list A) := chunks_fuel (length l) n l.

(** little-endian encodings *)
Fixpoint le_bytes (k : nat) (x : N) : bytes :=
  match k with
  | O => []
  | S k' => (x mod 256) :: le_bytes k' (x / 256)
  end.
Fixpoint le_value (l : bytes) : N :=
  match l with
  | [] => 0
  | b :: r => b + 256 * le_value r
  end.

Definition eqb_bytes (a b : bytes) : bool :=
  (length a =? length b)%nat && forallb (fun p => fst p =? snd p) (combine a b).
