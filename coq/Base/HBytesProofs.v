From HC Require Import Base.HBytes.
From Coq Require Import ZifyBool ZifyNat ZifyN.

Lemma chunks_fuel_concat {A} (n : nat) : (0 < n)%nat -> forall fuel (l : list A),
  (length l <= fuel)%nat -> concat (chunks_fuel fuel n l) = l.
Proof.
  intros Hn fuel; induction fuel as [|f IH]; intros l Hl.
  - destruct l; [reflexivity| simpl in Hl; lia].
  - destruct l as [|a l']; [reflexivity|].
    cbn [chunks_fuel concat]. rewrite IH.
    + apply firstn_skipn.
    + rewrite skipn_length. simpl length in *. lia.
Qed.

Lemma chunks_concat {A} n (l : list A) : (0 < n)%nat -> concat (chunks n l) = l.
Proof. intros; apply chunks_fuel_concat; auto. Qed.

Lemma chunks_fuel_len {A} (n : nat) : forall fuel (l : list A),
  Forall (fun c => (length c <= n)%nat) (chunks_fuel fuel n l).
Proof.
  intros fuel; induction fuel as [|f IH]; intros l; [constructor|].
  destruct l as [|a l']; [constructor|].
  cbn [chunks_fuel]. constructor; [rewrite firstn_length; lia|apply IH].
Qed.

Lemma chunks_len {A} n (l : list A) : Forall (fun c => (length c <= n)%nat) (chunks n l).
Proof. apply chunks_fuel_len. Qed.

(** unfolding equation, the form every later proof uses *)
Lemma chunks_fuel_more {A} (n : nat) : (0 < n)%nat -> forall f1 f2 (l : list A),
  (length l <= f1)%nat -> (length l <= f2)%nat -> chunks_fuel f1 n l = chunks_fuel f2 n l.
Proof.
  intros Hn f1; induction f1 as [|f1 IH]; intros f2 l H1 H2.
  - destruct l; [|simpl in H1; lia]. destruct f2; reflexivity.
  - destruct l as [|a l']; [destruct f2; reflexivity|].
    destruct f2 as [|f2]; [simpl in H2; lia|].
    cbn [chunks_fuel]. f_equal. apply IH; rewrite skipn_length; simpl length in *; lia.
Qed.

Lemma chunks_nil {A} n : @chunks A n [] = [].
Proof. reflexivity. Qed.

Lemma chunks_step {A} n (l : list A) : (0 < n)%nat -> l <> [] ->
  chunks n l = firstn n l :: chunks n (skipn n l).
Proof.
  intros Hn Hl. unfold chunks. destruct l as [|a l']; [congruence|].
  cbn [length chunks_fuel]. f_equal.
  apply chunks_fuel_more; auto; rewrite skipn_length; simpl length; lia.
Qed.

Lemma chunks_short {A} n (l : list A) : (0 < n)%nat -> l <> [] -> (length l <= n)%nat ->
  chunks n l = [l].
Proof.
  intros Hn Hl Hlen. rewrite chunks_step by auto.
  rewrite firstn_all2 by lia. rewrite skipn_all2 by lia. reflexivity.
Qed.

(** all chunks but the last are full *)
Lemma chunks_full_but_last {A} n : (0 < n)%nat -> forall k (l : list A),
  (length l <= k)%nat ->
  forall pre c, chunks n l = pre ++ [c] -> Forall (fun x => length x = n) pre /\ c <> [].
Proof.
  intros Hn k; induction k as [|k IH]; intros l Hl pre c E.
  - destruct l; [|simpl in Hl; lia]. destruct pre; discriminate.
  - destruct l as [|a l']; [destruct pre; discriminate|].
    rewrite chunks_step in E by (auto; discriminate).
    destruct pre as [|p pre'].
    + simpl in E. injection E as E1 E2. split; [constructor|].
      subst c. destruct n; [lia|simpl; discriminate].
    + simpl in E. injection E as E1 E2.
      assert (Hs : (length (skipn n (a :: l')) <= k)%nat)
        by (rewrite skipn_length; simpl length in *; lia).
      destruct (IH _ Hs _ _ E2) as [Hf Hc]. split; [|exact Hc].
      constructor; [|exact Hf]. subst p.
      rewrite firstn_length.
      destruct (Nat.le_gt_cases n (length (a :: l'))) as [Hle|Hgt]; [lia|].
      rewrite skipn_all2 in E2 by lia. rewrite chunks_nil in E2. destruct pre'; discriminate.
Qed.

Lemma chunks_nonempty {A} n (l : list A) : (0 < n)%nat -> Forall (fun c => c <> []) (chunks n l).
Proof.
  intros Hn. remember (length l) as k eqn:Hk.
  assert (Hle : (length l <= k)%nat) by lia. clear Hk. revert l Hle.
  induction k as [|k IH]; intros l Hl.
  - destruct l; [constructor|simpl in Hl; lia].
  - destruct l as [|a l']; [constructor|].
    rewrite chunks_step by (auto; discriminate). constructor.
    + destruct n; [lia|simpl; discriminate].
    + apply IH. rewrite skipn_length; simpl length in *; lia.
Qed.

Lemma le_value_le_bytes k x : x < 256 ^ N.of_nat k -> le_value (le_bytes k x) = x.
Proof.
  revert x; induction k as [|k IH]; intros x Hx.
  - simpl in *. lia.
  - cbn [le_bytes le_value]. rewrite IH.
    + pose proof (N.div_mod x 256). lia.
    + rewrite Nat2N.inj_succ, N.pow_succ_r' in Hx.
      apply N.div_lt_upper_bound; lia.
Qed.

Lemma le_bytes_length k x : length (le_bytes k x) = k.
Proof. revert x; induction k; intros; simpl; auto. Qed.

Lemma le_bytes_wf k x : wf_bytes (le_bytes k x).
Proof.
  revert x; induction k; intros; simpl; constructor.
  - unfold wf_byte. apply N.mod_lt. lia.
  - apply IHk.
Qed.

Lemma skipn_skipn_add {A} a : forall b (l : list A), skipn a (skipn b l) = skipn (b + a) l.
Proof.
  intros b; induction b as [|b IH]; intros l; [reflexivity|].
  destruct l; [rewrite !skipn_nil; reflexivity|]. simpl. apply IH.
Qed.

Lemma chunked_identity : forall (p : bytes) n, (0 < n)%nat ->
  concat (chunks n p) = p /\ Forall (fun c => (length c <= n)%nat) (chunks n p).
Proof. intros p n H. split; [apply chunks_concat; exact H|apply chunks_len]. Qed.
