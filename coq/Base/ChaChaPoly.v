(** ChaCha20-Poly1305 (RFC 8439) over N, executable; used as the concrete AEAD instance of the
    framing model and validated against the RFC test vectors in Base/CryptoVectors.v. *)
From HC Require Import Base.HBytes.

Definition m32 : N := 4294967296.
Definition add32 (a b : N) : N := (a + b) mod m32.
Definition rotl32 (x : N) (k : N) : N := ((x * 2 ^ k) mod m32) + (x / 2 ^ (32 - k)).

Definition geti (st : list N) (i : nat) : N := nth i st 0.
Fixpoint seti (st : list N) (i : nat) (v : N) : list N :=
  match st, i with
  | [], _ => []
  | _ :: r, O => v :: r
  | x :: r, S j => x :: seti r j v
  end.

Definition qround (st : list N) (a b c d : nat) : list N :=
  let va := geti st a in let vb := geti st b in let vc := geti st c in let vd := geti st d in
  let va := add32 va vb in let vd := rotl32 (N.lxor vd va) 16 in
  let vc := add32 vc vd in let vb := rotl32 (N.lxor vb vc) 12 in
  let va := add32 va vb in let vd := rotl32 (N.lxor vd va) 8 in
  let vc := add32 vc vd in let vb := rotl32 (N.lxor vb vc) 7 in
  seti (seti (seti (seti st a va) b vb) c vc) d vd.

Definition double_round (st : list N) : list N :=
  let st := qround st 0 4 8 12 in
  let st := qround st 1 5 9 13 in
  let st := qround st 2 6 10 14 in
  let st := qround st 3 7 11 15 in
  let st := qround st 0 5 10 15 in
  let st := qround st 1 6 11 12 in
  let st := qround st 2 7 8 13 in
  qround st 3 4 9 14.

Fixpoint iter {A} (n : nat) (f : A -> A) (x : A) : A :=
  match n with O => x | S k => iter k f (f x) end.

(** split a byte string into little-endian 32-bit words (length must be a multiple of 4) *)
Fixpoint words32 (fuel : nat) (l : bytes) : list N :=
  match fuel with
  | O => []
  | S f => match l with
           | a :: b :: c :: d :: r => (a + 256 * (b + 256 * (c + 256 * d))) :: words32 f r
           | _ => []
           end
  end.

(** keys are 32 bytes and nonces 12 bytes in every call hc makes (other sizes are rejected by the
    Go wrapper before any cipher runs); the model pads / truncates so that the state always has
    16 words *)
Definition fit (n : nat) (l : bytes) : bytes := firstn n (l ++ repeat 0 n).
Definition chacha_init (key nonce : bytes) (counter : N) : list N :=
  [1634760805; 857760878; 2036477234; 1797285236] ++ words32 8 (fit 32 key) ++ [counter mod m32] ++ words32 3 (fit 12 nonce).

Definition chacha_block (key nonce : bytes) (counter : N) : bytes :=
  let st0 := chacha_init key nonce counter in
  let st := iter 10 double_round st0 in
  flat_map (le_bytes 4) (map (fun p => add32 (fst p) (snd p)) (combine st st0)).

Fixpoint xor_bytes (a b : bytes) : bytes :=
  match a, b with
  | x :: a', y :: b' => N.lxor x y :: xor_bytes a' b'
  | _, _ => []
  end.

(** keystream for [len] bytes starting at block counter [ctr] *)
Fixpoint keystream (blocks : nat) (key nonce : bytes) (ctr : N) : bytes :=
  match blocks with
  | O => []
  | S b => chacha_block key nonce ctr ++ keystream b key nonce (ctr + 1)
  end.
Definition chacha_xor (key nonce : bytes) (ctr : N) (data : bytes) : bytes :=
  xor_bytes data (keystream (S (length data / 64)) key nonce ctr).

(** Poly1305 *)
Definition p1305 : N := 2 ^ 130 - 5.
Definition clamp_r (r : N) : N := N.land r 21267647620597763993911028882763415551.  (* 0x0ffffffc0ffffffc0ffffffc0fffffff *)

Fixpoint poly_blocks (fuel : nat) (r acc : N) (msg : bytes) : N :=
  match fuel with
  | O => acc
  | S f => match msg with
           | [] => acc
           | _ => let blk := firstn 16 msg in
                  let n := le_value (blk ++ [1]) in
                  poly_blocks f r (((acc + n) * r) mod p1305) (skipn 16 msg)
           end
  end.
Definition poly1305 (key msg : bytes) : bytes :=
  let r := clamp_r (le_value (firstn 16 key)) in
  let s := le_value (skipn 16 key) in
  let acc := poly_blocks (S (length msg / 16)) r 0 msg in
  le_bytes 16 ((acc + s) mod 2 ^ 128).

Definition pad16 (l : bytes) : bytes := repeat 0 ((16 - length l mod 16) mod 16).

Definition mac_data (aad ct : bytes) : bytes :=
  aad ++ pad16 aad ++ ct ++ pad16 ct ++ le_bytes 8 (N.of_nat (length aad)) ++ le_bytes 8 (N.of_nat (length ct)).

(** AEAD with a 12-byte nonce (RFC 8439 section 2.8) *)
Definition aead_seal (key nonce aad pt : bytes) : bytes * bytes :=
  let otk := firstn 32 (chacha_block key nonce 0) in
  let ct := chacha_xor key nonce 1 pt in
  (ct, poly1305 otk (mac_data aad ct)).

Definition aead_open (key nonce aad ct tag : bytes) : option bytes :=
  let otk := firstn 32 (chacha_block key nonce 0) in
  if eqb_bytes (poly1305 otk (mac_data aad ct)) tag then Some (chacha_xor key nonce 1 ct) else None.

(** hc's wrapper: 8-byte nonce placed at Nonce[4:] of a zero 12-byte nonce *)
Definition nonce12 (n8 : bytes) : bytes := [0; 0; 0; 0] ++ n8.
