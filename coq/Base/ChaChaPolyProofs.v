From HC Require Import Base.HBytes Base.HBytesProofs Base.ChaChaPoly.
From Coq Require Import ZifyBool ZifyNat ZifyN.

Lemma fit_length n l : length (fit n l) = n.
Proof. unfold fit. rewrite firstn_length, app_length, repeat_length. lia. Qed.

Lemma words32_length : forall f l, (4 * f <= length l)%nat -> length (words32 f l) = f.
Proof.
  induction f as [|f IH]; intros l H; [reflexivity|].
  destruct l as [|a [|b [|c [|d r]]]]; simpl in H; try lia.
  cbn [words32 length]. rewrite IH; [reflexivity|simpl; lia].
Qed.

Lemma seti_length : forall st i v, length (seti st i v) = length st.
Proof. induction st as [|x st IH]; intros [|i] v; simpl; auto. Qed.

Lemma qround_length st a b c d : length (qround st a b c d) = length st.
Proof. unfold qround. rewrite !seti_length. reflexivity. Qed.

Lemma double_round_length st : length (double_round st) = length st.
Proof. unfold double_round. rewrite !qround_length. reflexivity. Qed.

Lemma iter_length_gen {A} (f : list A -> list A) : (forall s, length (f s) = length s) ->
  forall n st, length (iter n f st) = length st.
Proof. intros Hf n; induction n as [|n IH]; intros st; cbn [iter]; [reflexivity|]. rewrite IH. apply Hf. Qed.

Lemma iter_length n st : length (iter n double_round st) = length st.
Proof. apply iter_length_gen. exact double_round_length. Qed.

Lemma chacha_init_length key nonce ctr : length (chacha_init key nonce ctr) = 16%nat.
Proof.
  unfold chacha_init. rewrite !app_length.
  rewrite !words32_length by (rewrite fit_length; lia). reflexivity.
Qed.

Lemma flat_map_le4_length : forall l, length (flat_map (le_bytes 4) l) = (4 * length l)%nat.
Proof. induction l as [|x l IH]; [reflexivity|]. cbn [flat_map]. rewrite app_length, le_bytes_length, IH. simpl. lia. Qed.

Lemma chacha_block_length key nonce ctr : length (chacha_block key nonce ctr) = 64%nat.
Proof.
  unfold chacha_block. rewrite flat_map_le4_length, map_length, combine_length, iter_length, chacha_init_length.
  reflexivity.
Qed.

Lemma keystream_length : forall b key nonce ctr, length (keystream b key nonce ctr) = (64 * b)%nat.
Proof.
  induction b as [|b IH]; intros; [reflexivity|]. cbn [keystream].
  rewrite app_length, chacha_block_length, IH. lia.
Qed.

Lemma xor_bytes_length : forall a b, (length a <= length b)%nat -> length (xor_bytes a b) = length a.
Proof.
  induction a as [|x a IH]; intros [|y b] H; simpl in *; try lia. rewrite IH; lia.
Qed.

Lemma xor_bytes_invol : forall a b, (length a <= length b)%nat -> xor_bytes (xor_bytes a b) b = a.
Proof.
  induction a as [|x a IH]; intros b H; [reflexivity|].
  destruct b as [|y b]; [simpl in H; lia|].
  cbn [xor_bytes]. rewrite IH by (simpl in H; lia). f_equal.
  rewrite N.lxor_assoc, N.lxor_nilpotent, N.lxor_0_r. reflexivity.
Qed.

Lemma chacha_xor_length key nonce ctr d : length (chacha_xor key nonce ctr d) = length d.
Proof.
  unfold chacha_xor. apply xor_bytes_length. rewrite keystream_length.
  pose proof (Nat.div_mod (length d) 64). pose proof (Nat.mod_upper_bound (length d) 64). lia.
Qed.

Lemma chacha_xor_invol key nonce ctr d : chacha_xor key nonce ctr (chacha_xor key nonce ctr d) = d.
Proof.
  unfold chacha_xor at 1. rewrite chacha_xor_length. unfold chacha_xor.
  apply xor_bytes_invol. rewrite keystream_length.
  pose proof (Nat.div_mod (length d) 64). pose proof (Nat.mod_upper_bound (length d) 64). lia.
Qed.

Lemma eqb_bytes_refl a : eqb_bytes a a = true.
Proof.
  unfold eqb_bytes. rewrite Nat.eqb_refl. simpl.
  induction a as [|x a IH]; [reflexivity|]. simpl. rewrite N.eqb_refl. exact IH.
Qed.

Lemma eqb_bytes_eq : forall a b, eqb_bytes a b = true -> a = b.
Proof.
  unfold eqb_bytes. induction a as [|x a IH]; intros [|y b] H; simpl in H; try discriminate; [reflexivity|].
  apply andb_true_iff in H. destruct H as [Hl H]. apply andb_true_iff in H. destruct H as [Hx H].
  apply N.eqb_eq in Hx. subst y. f_equal. apply IH. rewrite Hl. exact H.
Qed.

Theorem aead_open_seal key n12 aad pt :
  aead_open key n12 aad (fst (aead_seal key n12 aad pt)) (snd (aead_seal key n12 aad pt)) = Some pt.
Proof.
  unfold aead_open, aead_seal. cbn [fst snd]. rewrite eqb_bytes_refl. rewrite chacha_xor_invol. reflexivity.
Qed.

Theorem aead_seal_len key n12 aad pt :
  length (fst (aead_seal key n12 aad pt)) = length pt /\ length (snd (aead_seal key n12 aad pt)) = 16%nat.
Proof.
  unfold aead_seal. cbn [fst snd]. split; [apply chacha_xor_length|].
  unfold poly1305. apply le_bytes_length.
Qed.

(** acceptance means the tag is the Poly1305 of the transcript: the decision of [aead_open]
    is exactly tag recomputation *)
Theorem aead_open_some key n12 aad ct tag pt :
  aead_open key n12 aad ct tag = Some pt ->
  tag = poly1305 (firstn 32 (chacha_block key n12 0)) (mac_data aad ct) /\ pt = chacha_xor key n12 1 ct.
Proof.
  unfold aead_open. destruct (eqb_bytes _ tag) eqn:E; [|discriminate].
  intros H. injection H as <-. apply eqb_bytes_eq in E. auto.
Qed.
