(** SHA-512 (FIPS 180-4), HMAC (RFC 2104) and HKDF (RFC 5869) over N, executable. *)
From HC Require Import Base.HBytes.

Definition m64 : N := 18446744073709551616.
Definition add64 (a b : N) : N := (a + b) mod m64.
Definition rotr64 (x k : N) : N := (x / 2 ^ k) + ((x * 2 ^ (64 - k)) mod m64).
Definition shr64 (x k : N) : N := x / 2 ^ k.
Definition not64 (x : N) : N := m64 - 1 - x.

Definition sha_H0 : list N := [7640891576956012808; 13503953896175478587; 4354685564936845355; 11912009170470909681; 5840696475078001361; 11170449401992604703; 2270897969802886507; 6620516959819538809].
Definition sha_K : list N := [4794697086780616226; 8158064640168781261; 13096744586834688815; 16840607885511220156;
  4131703408338449720; 6480981068601479193; 10538285296894168987; 12329834152419229976;
  15566598209576043074; 1334009975649890238; 2608012711638119052; 6128411473006802146;
  8268148722764581231; 9286055187155687089; 11230858885718282805; 13951009754708518548;
  16472876342353939154; 17275323862435702243; 1135362057144423861; 2597628984639134821;
  3308224258029322869; 5365058923640841347; 6679025012923562964; 8573033837759648693;
  10970295158949994411; 12119686244451234320; 12683024718118986047; 13788192230050041572;
  14330467153632333762; 15395433587784984357; 489312712824947311; 1452737877330783856;
  2861767655752347644; 3322285676063803686; 5560940570517711597; 5996557281743188959;
  7280758554555802590; 8532644243296465576; 9350256976987008742; 10552545826968843579;
  11727347734174303076; 12113106623233404929; 14000437183269869457; 14369950271660146224;
  15101387698204529176; 15463397548674623760; 17586052441742319658; 1182934255886127544;
  1847814050463011016; 2177327727835720531; 2830643537854262169; 3796741975233480872;
  4115178125766777443; 5681478168544905931; 6601373596472566643; 7507060721942968483;
  8399075790359081724; 8693463985226723168; 9568029438360202098; 10144078919501101548;
  10430055236837252648; 11840083180663258601; 13761210420658862357; 14299343276471374635;
  14566680578165727644; 15097957966210449927; 16922976911328602910; 17689382322260857208;
  500013540394364858; 748580250866718886; 1242879168328830382; 1977374033974150939;
  2944078676154940804; 3659926193048069267; 4368137639120453308; 4836135668995329356;
  5532061633213252278; 6448918945643986474; 6902733635092675308; 7801388544844847127].

Definition Ch (x y z : N) := N.lxor (N.land x y) (N.land (not64 x) z).
Definition Maj (x y z : N) := N.lxor (N.lxor (N.land x y) (N.land x z)) (N.land y z).
Definition bsig0 x := N.lxor (N.lxor (rotr64 x 28) (rotr64 x 34)) (rotr64 x 39).
Definition bsig1 x := N.lxor (N.lxor (rotr64 x 14) (rotr64 x 18)) (rotr64 x 41).
Definition ssig0 x := N.lxor (N.lxor (rotr64 x 1) (rotr64 x 8)) (shr64 x 7).
Definition ssig1 x := N.lxor (N.lxor (rotr64 x 19) (rotr64 x 61)) (shr64 x 6).

(** big-endian helpers *)
Fixpoint be_value (l : bytes) : N :=
  match l with [] => 0 | b :: r => b * 256 ^ N.of_nat (length r) + be_value r end.
Definition be_bytes (k : nat) (x : N) : bytes := rev (le_bytes k x).

Fixpoint words64 (fuel : nat) (l : bytes) : list N :=
  match fuel with
  | O => []
  | S f => match l with
           | [] => []
           | _ => be_value (firstn 8 l) :: words64 f (skipn 8 l)
           end
  end.

(** message schedule kept newest-first: w = [W(t-1); W(t-2); ...] *)
Definition next_w (w : list N) : N :=
  add64 (add64 (ssig1 (nth 1 w 0)) (nth 6 w 0)) (add64 (ssig0 (nth 14 w 0)) (nth 15 w 0)).

Definition round (st : list N) (k w : N) : list N :=
  match st with
  | [a; b; c; d; e; f; g; h] =>
    let t1 := add64 (add64 (add64 h (bsig1 e)) (add64 (Ch e f g) k)) w in
    let t2 := add64 (bsig0 a) (Maj a b c) in
    [add64 t1 t2; a; b; c; add64 d t1; e; f; g]
  | _ => st
  end.

Fixpoint rounds (ks : list N) (t : nat) (w : list N) (st : list N) : list N :=
  match ks with
  | [] => st
  | k :: ks' =>
    let wt := if Nat.ltb t 16 then nth (15 - t) w 0 else next_w w in
    let w' := if Nat.ltb t 16 then w else wt :: w in
    rounds ks' (S t) w' (round st k wt)
  end.

Definition compress (h : list N) (block : bytes) : list N :=
  let w0 := rev (words64 16 block) in           (* newest (W15) first *)
  let st := rounds sha_K 0 w0 h in
  map (fun p => add64 (fst p) (snd p)) (combine h st).

Definition sha_pad (msg : bytes) : bytes :=
  let l := length msg in
  let z := ((128 - (l + 17) mod 128) mod 128)%nat in
  msg ++ [128] ++ repeat 0 z ++ be_bytes 16 (8 * N.of_nat l).

Fixpoint sha_blocks (fuel : nat) (h : list N) (data : bytes) : list N :=
  match fuel with
  | O => h
  | S f => match data with
           | [] => h
           | _ => sha_blocks f (compress h (firstn 128 data)) (skipn 128 data)
           end
  end.

Definition sha512 (msg : bytes) : bytes :=
  let p := sha_pad msg in
  flat_map (be_bytes 8) (sha_blocks (S (length p / 128)) sha_H0 p).

Definition hmac_sha512 (key msg : bytes) : bytes :=
  let k0 := if Nat.ltb 128 (length key) then sha512 key else key in
  let k := k0 ++ repeat 0 (128 - length k0) in
  let ipad := map (N.lxor 54) k in
  let opad := map (N.lxor 92) k in
  sha512 (opad ++ sha512 (ipad ++ msg)).

(** HKDF-SHA-512, output length <= 64 bytes (one expand block), as hc uses it (32 bytes) *)
Definition hkdf_sha512 (ikm salt info : bytes) (len : nat) : bytes :=
  let salt' := match salt with [] => repeat 0 64 | _ => salt end in
  let prk := hmac_sha512 salt' ikm in
  firstn len (hmac_sha512 prk (info ++ [1])).
