(** Extraction of the executable models to OCaml for the correspondence check.
    Only ExtrOcamlBasic is used (its Extract Inductive for bool, option, unit, list, prod,
    sumbool, sumor; no Extract Constant).  N / Z / nat stay the extracted inductive datatypes. *)
From Coq Require Extraction.
From Coq Require Import ExtrOcamlBasic.
From HC Require Import Base.HBytes Model.Tlv8 Model.Storage Model.Framing Model.ConnRead Model.ConnWrite Model.Respond Model.Sessions Model.PlainFrame Model.PlainRead Model.Charac Model.Hap Gen.CatalogGen Model.Catalog Model.Ids Model.Pin Model.Config Model.TlvStruct Gen.Extracted.
Extraction Language OCaml.
Set Extraction KeepSingleton.
Separate Extraction
  Z.add Z.mul N.add N.mul N.div N.modulo
  Tlv8.set_bytes Tlv8.set_byte Tlv8.serialise Tlv8.parse Tlv8.get_bytes Tlv8.get_byte
  Storage.st_set Storage.st_get Storage.st_delete Storage.st_keys Storage.entity_key Storage.db_load
  Storage.db_list Storage.fs_get Storage.multi_ops Storage.apply_ops Storage.set_ops Storage.sanitize Storage.writes_ops Storage.fits Sessions.srun Sessions.empty_table PlainFrame.preads PlainFrame.pst0 PlainFrame.header_end PlainRead.wstep PlainRead.winit PlainRead.cread
  Framing.new_server_session Framing.new_client_session Framing.send_all Framing.recv_all
  Framing.decrypt_stream Framing.decrypt_segments Framing.cc_open Framing.cc_seal Framing.spec_wire_from Framing.packets_pinned
  ConnRead.run_reads ConnRead.init_conn
  ConnWrite.wrun Respond.rrun HBytes.chunks
  Charac.cstep Charac.cstep2 Charac.well_typed Z.opp Z.div Z.modulo
  Hap.step Hap.fixed Hap.store_get Hap.empty_world Hap.get_conn
  CatalogGen.char_ctors CatalogGen.svc_ctors Catalog.svc_type Catalog.svc_char_types
  Ids.add_accessory Ids.remove_accessory Ids.instance_ids Ids.empty_container
  Pin.validate_pin Pin.xhm_of_pin Pin.xhm_decode Config.start Config.pair Config.unpair Config.discoverable_now
  Config.same_hash_input Config.empty_disk Extracted.invalid_pins
  TlvStruct.marshal TlvStruct.unmarshal TlvStruct.fixed_knobs TlvStruct.pinned_knobs.
