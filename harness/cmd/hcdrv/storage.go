package main

import (
	"bytes"
	"fmt"
	"io/ioutil"
	"os"
	"sort"
	"strconv"
	"strings"
	"sync"

	"github.com/brutella/hc/db"
	"github.com/brutella/hc/util"
)

func init() {
	families["storage"] = runStorage
	families["db"] = runDB
}

func tempDir() string {
	base := os.Getenv("VERIF_TMP")
	if base == "" {
		base = os.TempDir()
	}
	d, err := ioutil.TempDir(base, "hcst")
	if err != nil {
		panic(err)
	}
	return d
}

// case: hist S:<key>:<val> G:<key> D:<key> L:<suffix> R ...    (all hex)
func runStorage(id string, toks []string) (res string) {
	defer func() {
		if r := recover(); r != nil {
			res = "panic"
		}
	}()
	dir := tempDir()
	defer os.RemoveAll(dir)
	st, err := util.NewFileStorage(dir)
	if err != nil {
		return "setup-error"
	}
	var out []string
	var kept [][]byte
	var keptHex []string
	for _, t := range toks[1:] {
		p := strings.Split(t, ":")
		switch p[0] {
		case "CG":
			// CG:<key>:<v1>:<v2>:<rounds>  the key is overwritten with v1, v2, v1, ... while another goroutine keeps reading it:
			// every read returns one of the two values
			key, v1, v2 := string(unhex(p[1])), unhex(p[2]), unhex(p[3])
			rounds, _ := strconv.Atoi(p[4])
			st.Set(key, v1)
			res := "cg=ok"
			stop := make(chan struct{})
			done := make(chan string, 1)
			go func() {
				bad := ""
				for n := 0; bad == ""; n++ {
					select {
					case <-stop:
						done <- bad
						return
					default:
					}
					got, err := st.Get(key)
					if err != nil {
						bad = fmt.Sprintf("cg=not-found@read%d", n)
					} else if !bytes.Equal(got, v1) && !bytes.Equal(got, v2) {
						bad = fmt.Sprintf("cg=other-value@read%d:%d_bytes", n, len(got))
					}
				}
				<-stop
				done <- bad
			}()
			for r := 0; r < rounds; r++ {
				if r%2 == 0 {
					st.Set(key, v2)
				} else {
					st.Set(key, v1)
				}
			}
			close(stop)
			if b := <-done; b != "" {
				res = b
			}
			out = append(out, res)
		case "CS":
			// CS:<key>:<v1>:<v2>:<rounds>  two goroutines set the key at the same time, round after round: both sets succeed and
			// the key holds one of the two values, in full
			key, v1, v2 := string(unhex(p[1])), unhex(p[2]), unhex(p[3])
			rounds, _ := strconv.Atoi(p[4])
			res := "cs=ok"
			for r := 0; r < rounds && res == "cs=ok"; r++ {
				var wg sync.WaitGroup
				errs := make([]error, 2)
				for i, v := range [][]byte{v1, v2} {
					wg.Add(1)
					go func(i int, v []byte) {
						defer wg.Done()
						errs[i] = st.Set(key, v)
					}(i, v)
				}
				wg.Wait()
				got, err := st.Get(key)
				switch {
				case errs[0] != nil || errs[1] != nil:
					res = fmt.Sprintf("cs=set-error@%d", r)
				case err != nil:
					res = fmt.Sprintf("cs=not-found@%d", r)
				case !bytes.Equal(got, v1) && !bytes.Equal(got, v2):
					res = fmt.Sprintf("cs=mixture@%d:%d_bytes", r, len(got))
				}
			}
			out = append(out, res)
		case "S":
			if err := st.Set(string(unhex(p[1])), unhex(p[2])); err != nil {
				out = append(out, "s=err")
			}
		case "G":
			b, err := st.Get(string(unhex(p[1])))
			if err != nil {
				out = append(out, "g=nf")
			} else {
				out = append(out, "g="+hx(b))
			}
			// what an earlier Get returned stays what it was (callers keep the slices: Config.load does)
			for i, k := range kept {
				if hx(k) != keptHex[i] {
					out[len(out)-1] += "!earlier-result-changed"
					kept, keptHex = nil, nil
					break
				}
			}
			if err == nil {
				kept, keptHex = append(kept, b), append(keptHex, hx(b))
			}
		case "D":
			st.Delete(string(unhex(p[1])))
		case "L":
			ks, err := st.KeysWithSuffix(string(unhex(p[1])))
			if err != nil {
				out = append(out, "l=err")
			} else {
				var hs []string
				for _, k := range ks {
					hs = append(hs, hx([]byte(k)))
				}
				sort.Strings(hs)
				out = append(out, "l="+strings.Join(hs, ","))
			}
		case "R":
			st, err = util.NewFileStorage(dir)
			if err != nil {
				return "reopen-error"
			}
		}
	}
	return strings.Join(out, " ")
}

func entStr(e db.Entity) string {
	return hx([]byte(e.Name)) + "." + hx(e.PublicKey) + "." + hx(e.PrivateKey)
}

// case: db SV:<name>:<pub>:<priv> LD:<name> RM:<name> LS R
func runDB(id string, toks []string) (res string) {
	defer func() {
		if r := recover(); r != nil {
			res = "panic"
		}
	}()
	dir := tempDir()
	defer os.RemoveAll(dir)
	d, err := db.NewDatabase(dir)
	if err != nil {
		return "setup-error"
	}
	var out []string
	for _, t := range toks[1:] {
		p := strings.Split(t, ":")
		switch p[0] {
		case "SV":
			if err := d.SaveEntity(db.NewEntity(string(unhex(p[1])), unhex(p[2]), unhex(p[3]))); err != nil {
				out = append(out, "sv=err")
			}
		case "LD":
			e, err := d.EntityWithName(string(unhex(p[1])))
			if err != nil {
				out = append(out, "ld=nf")
			} else {
				out = append(out, "ld="+entStr(e))
			}
		case "RM":
			d.DeleteEntity(db.Entity{Name: string(unhex(p[1]))})
		case "LS":
			es, err := d.Entities()
			if err != nil {
				out = append(out, "ls=err")
			} else {
				var hs []string
				for _, e := range es {
					hs = append(hs, entStr(e))
				}
				sort.Strings(hs)
				out = append(out, "ls="+strings.Join(hs, ","))
			}
		case "R":
			d, err = db.NewDatabase(dir)
			if err != nil {
				return "reopen-error"
			}
		}
	}
	return strings.Join(out, " ")
}
