package main

import (
	"fmt"
	"math/big"
)

func init() { families["srp"] = runSRP }

// case: <pin8> <a-hex> <variant>    variant = ok | wrongcode | badproof
// One pair-setup M1..M4 against a fresh accessory with the controller's secret exponent a given.
// Observation: everything the exchange showed (salt and B as the accessory chose them, A and the
// proof as sent, whether the accessory accepted, and its own proof), so that the SRP model can be
// evaluated afterwards on (code, a, salt, B) and compared.
func runSRP(id string, toks []string) (res string) {
	defer func() {
		if r := recover(); r != nil {
			res = fmt.Sprint("panic ", r)
		}
	}()
	pin, ahex, variant := toks[0], toks[1], toks[2]
	w, err := newWorld(pin, 0)
	if err != nil {
		return "setup-error " + err.Error()
	}
	defer w.close()
	cc, err := dial(w.port)
	if err != nil {
		return "dial-error"
	}
	defer cc.c.Close()
	s := &setupRun{cc: cc}
	m, st, err := s.m1()
	if err != nil || st != 200 || len(m[tErr]) > 0 {
		return fmt.Sprintf("m2-failed st=%d", st)
	}
	a, _ := new(big.Int).SetString(ahex, 16)
	code := w.code()
	if variant == "wrongcode" {
		code = "999-99-998"
		if code == w.code() {
			code = "999-99-997"
		}
	}
	s.srp = srpComputeWith(a, code, s.salt, s.B)
	proof := s.srp.M1
	if variant == "badproof" {
		proof = append([]byte{}, proof...)
		proof[len(proof)-1] ^= 1
	}
	m, st, err = s.post([]tlvItem{{tState, []byte{3}}, {tPub, s.srp.A.Bytes()}, {tProof, proof}})
	if err != nil {
		return "m3-error " + err.Error()
	}
	acc := 0
	if st == 200 && len(m[tErr]) == 0 && len(m[tProof]) > 0 {
		acc = 1
	}
	return fmt.Sprintf("code=%s salt=%s B=%s A=%s M1=%s st=%d err=%s acc=%d M2=%s", hx([]byte(w.code())), hx(s.salt), hx(s.B),
		hx(s.srp.A.Bytes()), hx(proof), st, hx(m[tErr]), acc, hx(m[tProof]))
}
