package main

import (
	"fmt"
	"strconv"
	"strings"

	"github.com/brutella/hc/hap"
)

func init() { families["plain"] = runPlain }

// case: pm <segment hex,...> <buffer sizes,...> <oracle: n|U|B,...|->
//
//	The plain text phase of hap.Connection.Read (hap.VerifPlainReads, build tag verif): the segments arrive from the socket,
//	the reader asks with the given buffer sizes, one per read. The third token (what net/http makes of each complete header)
//	is for the model only. Observed per read: <bytes handed over>/<len(plainHeader)>/<plainBody>/<plainUnframed>.
//
// case: he <header hex|-> <bytes hex|->     plainHeaderEnd(bytes) after header was handed over: the index, or -1
func runPlain(id string, toks []string) (res string) {
	defer func() {
		if r := recover(); r != nil {
			res = "panic"
		}
	}()
	unhexOr := func(s string) []byte {
		if s == "-" {
			return nil
		}
		return unhex(s)
	}
	switch toks[0] {
	case "he":
		return strconv.Itoa(hap.VerifPlainHeaderEnd(unhexOr(toks[1]), unhexOr(toks[2])))
	case "pm":
		var segs [][]byte
		for _, s := range strings.Split(toks[1], ",") {
			segs = append(segs, unhexOr(s))
		}
		var maxes []int
		for _, s := range strings.Split(toks[2], ",") {
			n, _ := strconv.Atoi(s)
			maxes = append(maxes, n)
		}
		var out []string
		for _, st := range hap.VerifPlainReads(segs, maxes) {
			u := 0
			if st.Unframed {
				u = 1
			}
			out = append(out, fmt.Sprintf("%d/%d/%d/%d", st.N, st.HeaderLen, st.Body, u))
		}
		if len(out) == 0 {
			return "-"
		}
		return strings.Join(out, " ")
	case "pw":
		return runPlainWorld(toks)
	}
	return "badcase"
}

// case: pw <stream hex> <event,event,...> <oracle>
//
//	A<k>  k more bytes of the stream arrive at the socket        R<max>  the HTTP layer reads with a buffer of max bytes
//	V     a pair-verify handler accepts (Session.SetCryptographer) D       the response is written (SetResponding(false))
//
// The real hap.Connection over a socket that holds what has arrived. The driver plays net/http's part for "responding": it is
// set with the read that completes a header (StateActive follows readRequest). Observed per event: "-" for A, V, D; for R:
// h:<hex handed over>/<state> | z/<state> (nothing, no error) | b (the socket has nothing) | s (the secure session is in use),
// state = len(plain)/len(plainHeader)/plainBody/plainUnframed/responding.
func runPlainWorld(toks []string) string {
	stream := unhex(toks[1])
	sc, con, ctx := newScripted(nil)
	pos := 0
	resp := false
	var out []string
	state := func() string {
		p, h, b, u, _ := con.VerifPlainState()
		ui, ri := 0, 0
		if u {
			ui = 1
		}
		if resp {
			ri = 1
		}
		return fmt.Sprintf("%d/%d/%d/%d/%d", p, h, b, ui, ri)
	}
	for _, e := range strings.Split(toks[2], ",") {
		switch e[0] {
		case 'A':
			k, _ := strconv.Atoi(e[1:])
			if pos+k > len(stream) {
				k = len(stream) - pos
			}
			sc.mu.Lock()
			sc.pending = append(sc.pending, stream[pos:pos+k]...)
			sc.mu.Unlock()
			pos += k
			out = append(out, "-")
		case 'V':
			sess, err := newServerSession(sharedKey("00"))
			if err != nil {
				return "setup-error"
			}
			ctx.GetSessionForConnection(sc).SetCryptographer(sess)
			out = append(out, "-")
		case 'D':
			con.SetResponding(false)
			resp = false
			out = append(out, "-")
		case 'R':
			max, _ := strconv.Atoi(e[1:])
			_, _, bodyBefore, _, _ := con.VerifPlainState()
			buf := make([]byte, max)
			n, err := con.Read(buf)
			sc.blocked = false
			if ctx.GetSessionForConnection(sc) == nil || ctx.GetSessionForConnection(sc).Encrypter() != nil {
				out = append(out, "s")
				continue
			}
			_, h, _, _, _ := con.VerifPlainState()
			if n > 0 && bodyBefore == 0 && h == 0 && !resp {
				con.SetResponding(true)
				resp = true
			}
			switch {
			case n > 0:
				out = append(out, "h:"+hx(buf[:n])+"/"+state())
			case err == nil:
				out = append(out, "z/"+state())
			default:
				out = append(out, "b")
			}
		default:
			return "badcase"
		}
	}
	return strings.Join(out, " ")
}
