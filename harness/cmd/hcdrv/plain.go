package main

import (
	"fmt"
	"strconv"
	"strings"

	"github.com/brutella/hc/hap"
)

func init() { families["plain"] = runPlain }

// case: pm <segment hex,...> <buffer sizes,...> <oracle: n|U|B,...|->
//
//	The plain text phase of hap.Connection.Read (hap.VerifPlainReads, build tag verif): the segments arrive from the socket,
//	the reader asks with the given buffer sizes, one per read. The third token (what net/http makes of each complete header)
//	is for the model only. Observed per read: <bytes handed over>/<len(plainHeader)>/<plainBody>/<plainUnframed>.
//
// case: he <header hex|-> <bytes hex|->     plainHeaderEnd(bytes) after header was handed over: the index, or -1
func runPlain(id string, toks []string) (res string) {
	defer func() {
		if r := recover(); r != nil {
			res = "panic"
		}
	}()
	unhexOr := func(s string) []byte {
		if s == "-" {
			return nil
		}
		return unhex(s)
	}
	switch toks[0] {
	case "he":
		return strconv.Itoa(hap.VerifPlainHeaderEnd(unhexOr(toks[1]), unhexOr(toks[2])))
	case "pm":
		var segs [][]byte
		for _, s := range strings.Split(toks[1], ",") {
			segs = append(segs, unhexOr(s))
		}
		var maxes []int
		for _, s := range strings.Split(toks[2], ",") {
			n, _ := strconv.Atoi(s)
			maxes = append(maxes, n)
		}
		var out []string
		for _, st := range hap.VerifPlainReads(segs, maxes) {
			u := 0
			if st.Unframed {
				u = 1
			}
			out = append(out, fmt.Sprintf("%d/%d/%d/%d", st.N, st.HeaderLen, st.Body, u))
		}
		if len(out) == 0 {
			return "-"
		}
		return strings.Join(out, " ")
	}
	return "badcase"
}
