package main

import (
	"encoding/json"
	"fmt"
	"math"
	"net"
	"strconv"
	"strings"

	"github.com/brutella/hc/characteristic"
)

func init() { families["charac"] = runCharac }

type fakeConn struct {
	net.Conn
	id string
}

// value tokens: nil | b:0/1 | f:<bits hex>[:..] | i:<dec> | s:<hex>[:..] | o:<id> (JSON object) | a:<id> (JSON array)
var composites = map[string]interface{}{}

func parseVal(t string) interface{} {
	p := strings.Split(t, ":")
	switch p[0] {
	case "nil":
		return nil
	case "b":
		return p[1] == "1"
	case "f":
		u, _ := strconv.ParseUint(p[1], 16, 64)
		return math.Float64frombits(u)
	case "i":
		n, _ := strconv.ParseInt(p[1], 10, 64)
		return int(n)
	case "s":
		return string(unhex(p[1]))
	case "o":
		if v, ok := composites[t]; ok {
			return v
		}
		v := map[string]interface{}{"k": p[1]}
		composites[t] = v
		return v
	case "a":
		if v, ok := composites[t]; ok {
			return v
		}
		v := []interface{}{p[1], 1.0}
		composites[t] = v
		return v
	}
	panic("bad value token " + t)
}

func showVal(v interface{}) string {
	switch x := v.(type) {
	case nil:
		return "nil"
	case bool:
		if x {
			return "b:1"
		}
		return "b:0"
	case float64:
		return fmt.Sprintf("f:%016x", math.Float64bits(x))
	case int:
		return fmt.Sprintf("i:%d", x)
	case string:
		return "s:" + hx([]byte(x))
	case map[string]interface{}:
		return "x:o"
	case []interface{}:
		return "x:a"
	}
	return fmt.Sprintf("x:%T", v)
}

func parseBound(t string) interface{} {
	if t == "-" {
		return nil
	}
	return parseVal(t)
}

func permLetters(c *characteristic.Characteristic) string {
	s := ""
	for _, p := range c.Perms {
		switch p {
		case characteristic.PermRead:
			s += "r"
		case characteristic.PermWrite:
			s += "w"
		case characteristic.PermEvents:
			s += "e"
		}
	}
	if s == "" {
		s = "-"
	}
	return s
}

// case: ch <format> <perms> <min> <max> <init> op...          synthetic characteristic
//       cc <ctor> <format> <perms> <min> <max> <init> op...   the object returned by a catalog constructor (the explicit
//                                                              fields are for the model; the real object is used here)
//       dump <ctor>                                            initial state of a catalog constructor
func runCharac(id string, toks []string) (res string) {
	var c *characteristic.Characteristic
	if toks[0] == "dump" || toks[0] == "cc" {
		f, ok := charRegistry[toks[1]]
		if !ok {
			return "unknown"
		}
		func() {
			defer func() { recover() }()
			c = f()
		}()
		if c == nil {
			return "ctor-panic"
		}
		if toks[0] == "dump" {
			b := func(v interface{}) string {
				if v == nil {
					return "-"
				}
				return showVal(v)
			}
			return fmt.Sprintf("%s %s %s %s %s", c.Format, permLetters(c), b(c.MinValue), b(c.MaxValue), showVal(c.Value))
		}
		toks = toks[1:]
	} else {
		c = characteristic.NewCharacteristic("TEST")
		c.Format = toks[1]
		for _, ch := range toks[2] {
			switch ch {
			case 'r':
				c.Perms = append(c.Perms, characteristic.PermRead)
			case 'w':
				c.Perms = append(c.Perms, characteristic.PermWrite)
			case 'e':
				c.Perms = append(c.Perms, characteristic.PermEvents)
			}
		}
		c.MinValue = parseBound(toks[3])
		c.MaxValue = parseBound(toks[4])
		c.Value = parseVal(toks[5])
	}
	var cbs []string
	c.OnValueUpdate(func(c *characteristic.Characteristic, nw, old interface{}) {
		cbs = append(cbs, "L/"+showVal(nw)+"/"+showVal(old))
	})
	c.OnValueUpdateFromConn(func(conn net.Conn, c *characteristic.Characteristic, nw, old interface{}) {
		cbs = append(cbs, "R"+conn.(*fakeConn).id+"/"+showVal(nw)+"/"+showVal(old))
	})
	var out []string
	step := func(op string) (stop bool) {
		extra := ""
		defer func() {
			if r := recover(); r != nil {
				out = append(out, "panic")
				stop = true
			}
		}()
		p := strings.SplitN(op, ":", 2)
		switch p[0] {
		case "L":
			c.UpdateValue(parseVal(p[1]))
		case "R":
			q := strings.SplitN(p[1], ":", 2)
			c.UpdateValueFromConnection(parseVal(q[1]), &fakeConn{id: q[0]})
		case "G":
			v := parseVal(p[1])
			c.OnValueGet(func() interface{} { return v })
			ret := c.GetValue()
			n := len(cbs)
			extra = handedOut(c, ret)
			cbs = cbs[:n] // the probe calls the getter once more: what that call reports is the harness's doing, not the history's
			c.OnValueGet(nil)
		case "GR":
			q := strings.SplitN(p[1], ":", 2)
			v := parseVal(q[1])
			c.OnValueGet(func() interface{} { return v })
			ret := c.GetValueFromConnection(&fakeConn{id: q[0]})
			n := len(cbs)
			extra = handedOut(c, ret)
			cbs = cbs[:n] // the probe calls the getter once more: what that call reports is the harness's doing, not the history's
			c.OnValueGet(nil)
		case "B":
			// the application declares the range again (exported fields, as the accessory constructors do)
			q := strings.SplitN(p[1], ",", 2)
			c.MinValue = parseBound(q[0])
			c.MaxValue = parseBound(q[1])
		case "ST":
			// the application declares a step value (it must never move a value out of its bounds)
			c.StepValue = parseVal(p[1])
		}
		out = append(out, showVal(c.Value)+extra)
		return false
	}
	for _, op := range toks[6:] {
		if step(op) {
			break
		}
	}
	res = strings.Join(out, " ") + " cbs=" + strings.Join(cbs, ",")
	// consequences the property names: the typed getter works and the characteristic encodes
	res += " getter=" + typedGetter(c)
	if _, err := json.Marshal(c); err != nil {
		res += " json=err"
	} else {
		res += " json=ok"
	}
	return res
}

// handedOut: what a getter call returns while the application's get callback is installed must be the stored
// (converted, clamped) value, and the typed getter must work on it
func handedOut(c *characteristic.Characteristic, ret interface{}) string {
	s := ""
	if showVal(ret) != showVal(c.Value) {
		s += "!ret=" + showVal(ret)
	}
	if c.Value != nil && typedGetter(c) == "panic" {
		s += "!getterpanic"
	}
	return s
}

func typedGetter(c *characteristic.Characteristic) (r string) {
	defer func() {
		if e := recover(); e != nil {
			r = "panic"
		}
	}()
	if c.Value == nil {
		return "skip"
	}
	switch c.Format {
	case characteristic.FormatString:
		(&characteristic.String{Characteristic: c}).GetValue()
	case characteristic.FormatTLV8, characteristic.FormatData:
		(&characteristic.Bytes{String: &characteristic.String{Characteristic: c}}).GetValue()
	case characteristic.FormatBool:
		(&characteristic.Bool{Characteristic: c}).GetValue()
	case characteristic.FormatFloat:
		(&characteristic.Float{Characteristic: c}).GetValue()
	default:
		(&characteristic.Int{Characteristic: c}).GetValue()
	}
	return "ok"
}
