// hcdrv runs brutella/hc (compiled from /repo's working tree) on case files.
// One case per input line, one observation per output line; see DESIGN.md appendix C.
package main

import (
	"bufio"
	"encoding/hex"
	"fmt"
	"os"
	"strings"
)

type family func(id string, toks []string) string

var families = map[string]family{}

func unhex(s string) []byte {
	b, err := hex.DecodeString(s)
	if err != nil {
		panic("bad hex in case file: " + s)
	}
	return b
}

func hx(b []byte) string { return hex.EncodeToString(b) }

func main() {
	if len(os.Args) < 2 {
		fmt.Fprintln(os.Stderr, "usage: hcdrv <family> < cases > observations")
		os.Exit(2)
	}
	if os.Args[1] == "crashchild" {
		crashChildMain(os.Args[2:])
		return
	}
	f, ok := families[os.Args[1]]
	if !ok {
		fmt.Fprintln(os.Stderr, "unknown family", os.Args[1])
		os.Exit(2)
	}
	in := bufio.NewReaderSize(os.Stdin, 1<<20)
	out := bufio.NewWriterSize(os.Stdout, 1<<20)
	defer out.Flush()
	for {
		line, err := in.ReadString('\n')
		line = strings.TrimRight(line, "\n")
		if line != "" {
			toks := strings.Split(line, " ")
			fmt.Fprintf(out, "%s %s\n", toks[0], f(toks[0], toks[1:]))
		}
		if err != nil {
			break
		}
	}
}
