package main

import (
	"bytes"
	"errors"
	"fmt"
	"net"
	"strconv"
	"strings"
	"sync"
	"time"

	"github.com/brutella/hc/hap"
)

func init() { families["conn"] = runConn }

type scriptAddr string

func (a scriptAddr) Network() string { return "script" }
func (a scriptAddr) String() string  { return string(a) }

type timeoutErr struct{}

func (timeoutErr) Error() string   { return "i/o timeout (scripted)" }
func (timeoutErr) Timeout() bool   { return true }
func (timeoutErr) Temporary() bool { return true }

var errBlocked = errors.New("scripted connection: schedule exhausted, read would block")

// scriptConn is a net.Conn whose Read results follow a schedule and whose Writes are captured
type scriptConn struct {
	mu      sync.Mutex
	evs     []string // "D:<hex>" | "T" | "E"
	pending []byte
	addr    string
	laddr   string // local address ("local" when empty)
	written [][]byte
	closed  bool
	blocked bool // the schedule ran out: a real socket would block here
	eof     bool // the scripted peer closed
	// write gating (C08): when gate != nil every Write announces itself and waits to be released
	gate chan *gatedWrite
	feed chan []byte // when set: Read blocks until bytes are fed
	wdl  time.Time   // write deadline (zero = none)
}

type gatedWrite struct {
	data    []byte
	release chan struct{}
}

func (c *scriptConn) Read(p []byte) (int, error) {
	c.mu.Lock()
	defer c.mu.Unlock()
	if c.closed {
		return 0, errors.New("use of closed network connection (scripted)")
	}
	if len(c.pending) == 0 {
		if len(c.evs) == 0 && c.feed != nil {
			// a socket that really blocks until the peer sends something
			c.mu.Unlock()
			b, ok := <-c.feed
			c.mu.Lock()
			if !ok {
				return 0, errors.New("EOF")
			}
			c.pending = b
		} else if len(c.evs) == 0 {
			c.blocked = true
			return 0, errBlocked
		}
	}
	if len(c.pending) == 0 {
		e := c.evs[0]
		c.evs = c.evs[1:]
		switch {
		case e == "T":
			return 0, timeoutErr{}
		case e == "E":
			c.eof = true
			return 0, errors.New("EOF")
		default:
			c.pending = unhex(e[2:])
		}
	}
	n := copy(p, c.pending)
	c.pending = c.pending[n:]
	return n, nil
}

func (c *scriptConn) Write(p []byte) (int, error) {
	c.mu.Lock()
	expired := !c.wdl.IsZero() && c.wdl.Before(time.Now())
	c.mu.Unlock()
	if expired {
		return 0, timeoutErr{} // the write deadline has passed: nothing is sent
	}
	cp := append([]byte(nil), p...)
	if c.gate != nil {
		g := &gatedWrite{data: cp, release: make(chan struct{})}
		c.gate <- g
		<-g.release
	}
	c.mu.Lock()
	defer c.mu.Unlock()
	if c.closed {
		// closed (by another goroutine, possibly while this write was waiting): nothing reaches the peer
		return 0, errors.New("use of closed network connection (scripted)")
	}
	c.written = append(c.written, cp)
	return len(p), nil
}
func (c *scriptConn) Close() error {
	c.mu.Lock()
	c.closed = true
	c.mu.Unlock()
	return nil
}
func (c *scriptConn) LocalAddr() net.Addr {
	if c.laddr != "" {
		return scriptAddr(c.laddr)
	}
	return scriptAddr("local")
}
func (c *scriptConn) RemoteAddr() net.Addr { return scriptAddr(c.addr) }
func (c *scriptConn) SetDeadline(t time.Time) error {
	c.mu.Lock()
	c.wdl = t
	c.mu.Unlock()
	return nil
}
func (c *scriptConn) SetReadDeadline(t time.Time) error { return nil }
func (c *scriptConn) SetWriteDeadline(t time.Time) error {
	c.mu.Lock()
	c.wdl = t
	c.mu.Unlock()
	return nil
}

var connSeq int

func newScripted(evs []string) (*scriptConn, *hap.Connection, hap.Context) {
	connSeq++
	sc := &scriptConn{evs: evs, addr: fmt.Sprintf("peer-%d", connSeq)}
	ctx := hap.NewContextForSecuredDevice(nil)
	con := hap.NewConnection(sc, ctx)
	return sc, con, ctx
}

// case: cr <shared> <ev,ev,...> <bsize,bsize,...>     ev = D:<hex> | T | E
func runConn(id string, toks []string) (res string) {
	defer func() {
		if r := recover(); r != nil {
			res = fmt.Sprint("panic ", r)
		}
	}()
	switch toks[0] {
	case "pf":
		return runPlainFraming(toks)
	case "cr":
		k := sharedKey(toks[1])
		var evs []string
		if toks[2] != "-" {
			evs = strings.Split(toks[2], ",")
		}
		sc, con, ctx := newScripted(evs)
		sess, err := newServerSession(k)
		if err != nil {
			return "setup-error"
		}
		ctx.GetSessionForConnection(sc).SetCryptographer(sess)
		var out []string
		for _, bs := range strings.Split(toks[3], ",") {
			if bs == "" {
				continue // no read asked for
			}
			if strings.HasPrefix(bs, "w") {
				// between two reads the accessory writes on the same connection (a response, an event): no effect on reads
				k, _ := strconv.Atoi(bs[1:])
				con.Write(make([]byte, k))
				continue
			}
			n, _ := strconv.Atoi(bs)
			buf := make([]byte, n)
			m, err := con.Read(buf)
			if sc.blocked {
				out = append(out, "b")
				break
			}
			if sc.eof {
				out = append(out, "e:eof")
				break
			}
			if err != nil {
				if ne, ok := err.(net.Error); ok && ne.Timeout() {
					out = append(out, "t")
					continue
				}
				if err == errBlocked {
					out = append(out, "b")
					break
				} else if err.Error() == "EOF" {
					out = append(out, "e:eof")
					break
				}
				// a failed frame (or a read on the socket the read path has closed): the caller keeps reading,
				// as net/http's buffered reader does after an error it considers temporary
				out = append(out, "e:err")
				continue
			}
			if m == 0 && n > 0 {
				out = append(out, "z") // (0, nil) for a non-empty buffer
				continue
			}
			out = append(out, "d:"+hx(buf[:m]))
		}
		return strings.Join(out, " ")
	case "crsw":
		// crsw <shared1> <shared2> <msg1> <msg2>   the keys of an encrypted connection are replaced (pair-verify again) while a
		// Read is waiting for the next bytes; the bytes that then arrive are sealed under the new keys
		k1, k2 := sharedKey(toks[1]), sharedKey(toks[2])
		m1, m2 := unhex(toks[3]), unhex(toks[4])
		sc, con, ctx := newScripted(nil)
		sc.feed = make(chan []byte, 4)
		s1, _ := newServerSession(k1)
		s2, _ := newServerSession(k2)
		sess := ctx.GetSessionForConnection(sc)
		sess.SetCryptographer(s1)
		readAll := func(want int) string {
			var got []byte
			buf := make([]byte, 4096)
			for len(got) < want {
				n, err := con.Read(buf)
				if err != nil {
					return "err:" + hx(got)
				}
				got = append(got, buf[:n]...)
			}
			return hx(got)
		}
		sc.feed <- refSealFrames(refKey(k1[:], "Control-Write-Encryption-Key"), 0, m1)
		r1 := readAll(len(m1))
		done := make(chan string, 1)
		go func() { done <- readAll(len(m2)) }()
		time.Sleep(30 * time.Millisecond) // the read is waiting on the socket now
		sess.SetCryptographer(s2)
		sc.feed <- refSealFrames(refKey(k2[:], "Control-Write-Encryption-Key"), 0, m2)
		r2 := "stuck"
		select {
		case r2 = <-done:
		case <-time.After(3 * time.Second):
		}
		return "r1=" + r1 + " r2=" + r2
	}
	return "badcase"
}

// case: pf <lens: header/body,header/body,...> <segment sizes,...> <buffer sizes,...>
// The plaintext phase of a connection: HTTP requests (header of the given length incl. its blank line, body of the given
// length announced by Content-Length) arrive back to back, cut into segments of the given sizes; the reader asks with the
// given buffer sizes (cyclically).  After each complete request the reader plays net/http: it declares the request "being
// handled", asks once more (nothing of the next request may be handed over now), then declares it answered.
// Observed: "ok <n reads>" when every read stayed inside one request and everything came out in order; else what failed.
func runPlainFraming(toks []string) string {
	var msgs [][]byte
	for i, t := range strings.Split(toks[1], ",") {
		hb := strings.Split(t, "/")
		h, _ := strconv.Atoi(hb[0])
		b, _ := strconv.Atoi(hb[1])
		// line ends: CRLF, or (5th token "lf") a bare LF, or ("mix") alternating -- net/http accepts all of them
		nl, nl2 := "\r\n", "\r\n"
		if len(toks) > 4 && toks[4] == "lf" {
			nl, nl2 = "\n", "\n"
		} else if len(toks) > 4 && toks[4] == "mix" {
			nl, nl2 = "\n", "\r\n"
		}
		clName := "Content-Length"
		end1, end2 := nl2, nl
		if len(toks) > 4 && strings.HasPrefix(toks[4], "rnd") {
			// every line end chosen by itself, the field name in any case (net/http folds it): "rnd<seed>"
			seed, _ := strconv.Atoi(toks[4][3:])
			st := uint32(seed*2654435761) + uint32(i)*40503 + 12345
			pick := func(n int) int {
				st = st*1664525 + 1013904223
				return int(st>>16) % n
			}
			le := func() string {
				if pick(2) == 0 {
					return "\n"
				}
				return "\r\n"
			}
			nl, nl2, end1, end2 = le(), le(), le(), le()
			clName = []string{"Content-Length", "content-length", "CONTENT-LENGTH", "Content-length"}[pick(4)]
		}
		head := fmt.Sprintf("POST /m%d HTTP/1.1%sHost: x%s%s: %d%sX-Pad: ", i, nl, nl2, clName, b, nl)
		for len(head)+4 < h {
			head += "p"
		}
		head += end1 + end2
		body := make([]byte, b)
		for j := range body {
			body[j] = byte('a' + (i+j)%26)
		}
		msgs = append(msgs, append([]byte(head), body...))
	}
	var stream []byte
	var ends []int
	for _, m := range msgs {
		stream = append(stream, m...)
		ends = append(ends, len(stream))
	}
	var evs []string
	rest := stream
	segs := strings.Split(toks[2], ",")
	for i := 0; len(rest) > 0; i++ {
		n, _ := strconv.Atoi(segs[i%len(segs)])
		if n < 1 {
			n = 1
		}
		if n > len(rest) {
			n = len(rest)
		}
		evs = append(evs, "D:"+hx(rest[:n]))
		rest = rest[n:]
	}
	sc, con, _ := newScripted(evs)
	bufs := strings.Split(toks[3], ",")
	var got []byte
	cur := 0 // index of the request the next byte belongs to
	reads := 0
	for k := 0; len(got) < len(stream) && k < 2000000; k++ {
		n, _ := strconv.Atoi(bufs[k%len(bufs)])
		if n < 1 {
			n = 1
		}
		buf := make([]byte, n)
		m, err := con.Read(buf)
		reads++
		if sc.blocked || err != nil {
			return fmt.Sprintf("stalled after %d of %d bytes", len(got), len(stream))
		}
		if m > 0 && len(got)+m > ends[cur] {
			return fmt.Sprintf("read-crosses-request-boundary at byte %d: %d bytes handed over, request %d ends at %d", len(got), m, cur, ends[cur])
		}
		got = append(got, buf[:m]...)
		if len(got) == ends[cur] {
			// the request is complete: it is being handled now
			con.SetResponding(true)
			if cur+1 < len(ends) {
				one := make([]byte, 1)
				if m2, err2 := con.Read(one); m2 != 0 || (err2 != nil && !sc.blocked) {
					con.SetResponding(false)
					return fmt.Sprintf("handed-over-while-handling request %d: %d bytes", cur, m2)
				}
				sc.blocked = false
			}
			con.SetResponding(false)
			cur++
		}
	}
	if !bytes.Equal(got, stream) {
		return "bytes-differ"
	}
	return fmt.Sprintf("ok")
}
