package main

import (
	"fmt"
	"sort"
	"strconv"
	"strings"
	"sync"
	"time"
)

func init() { families["connw"] = runConnWrite }

// case: cw <shared> <order> <payload0> <payload1> ...
// N goroutines call Connection.Write concurrently on one encrypted connection. The scripted socket holds every
// Write until the runner releases it; <order> (comma separated writer indices) is the preference order in which
// pending socket writes are released: at each round the runner waits (grace period) for writes to arrive and
// releases the pending one that comes first in <order>. The captured stream is decrypted by the reference framer.
func runConnWrite(id string, toks []string) (res string) {
	defer func() {
		if r := recover(); r != nil {
			res = fmt.Sprint("panic ", r)
		}
	}()
	k := sharedKey(toks[1])
	var pref []int
	for _, s := range strings.Split(toks[2], ",") {
		n, _ := strconv.Atoi(s)
		pref = append(pref, n)
	}
	payloads := toks[3:]
	sc, con, ctx := newScripted(nil)
	sc.gate = make(chan *gatedWrite, 64)
	sess, err := newServerSession(k)
	if err != nil {
		return "setup-error"
	}
	s := ctx.GetSessionForConnection(sc)
	s.SetCryptographer(sess)
	s.Decrypter() // promote the cryptographer as a first read would
	var wg sync.WaitGroup
	for _, p := range payloads {
		wg.Add(1)
		go func(b []byte) {
			defer wg.Done()
			con.Write(b)
		}(unhex(p))
	}
	grace := 30 * time.Millisecond
	rk := refKey(k[:], "Control-Read-Encryption-Key")
	finished := make(chan struct{})
	go func() { wg.Wait(); close(finished) }()
	// The runner cannot tell which payload a pending (encrypted) socket write belongs to; it releases by arrival
	// rank: pref[i] = rank, among the writes pending at round i, of the one to release.
	var pending []*gatedWrite
	maxPending := 0
	round := 0
	allDone := false
	idle := 0
	for !allDone {
		timeout := time.After(grace)
	collect:
		for {
			select {
			case g := <-sc.gate:
				pending = append(pending, g)
			case <-finished:
				allDone = true
				break collect
			case <-timeout:
				break collect
			}
		}
		if len(pending) == 0 {
			if allDone {
				break
			}
			idle++
			if idle > 100 {
				return "stuck"
			}
			continue
		}
		idle = 0
		if len(pending) > maxPending {
			maxPending = len(pending)
		}
		idx := 0
		if round < len(pref) {
			idx = pref[round] % len(pending)
		}
		round++
		g := pending[idx]
		pending = append(pending[:idx], pending[idx+1:]...)
		close(g.release)
		// give the released writer time to go on (and, when writes are serialised, the next one to arrive)
		time.Sleep(2 * time.Millisecond)
		allDone = false
		select {
		case <-finished:
			if len(pending) == 0 {
				allDone = true
			}
		default:
		}
	}
	sc.mu.Lock()
	var stream []byte
	for _, w := range sc.written {
		stream = append(stream, w...)
	}
	nw := len(sc.written)
	sc.mu.Unlock()
	pt, ok := refOpenAll(rk, 0, stream)
	if !ok {
		return fmt.Sprintf("undecryptable writes=%d maxpending=%d", nw, maxPending)
	}
	// every payload must appear intact and contiguous: the plaintext must be a concatenation of a permutation
	var want []string
	for _, p := range payloads {
		want = append(want, p)
	}
	got := splitPerm(hx(pt), want)
	if got == nil {
		return fmt.Sprintf("interleaved-plaintext maxpending=%d", maxPending)
	}
	sort.Strings(got)
	return "ok " + strings.Join(got, ",")
}

// splitPerm tries to read s as a concatenation of a permutation of parts
func splitPerm(s string, parts []string) []string {
	if s == "" && len(parts) == 0 {
		return []string{}
	}
	for i, p := range parts {
		if strings.HasPrefix(s, p) {
			rest := append(append([]string{}, parts[:i]...), parts[i+1:]...)
			if r := splitPerm(s[len(p):], rest); r != nil {
				return append([]string{p}, r...)
			}
		}
	}
	return nil
}
