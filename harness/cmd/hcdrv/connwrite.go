package main

import (
	"bufio"
	"bytes"
	gocontext "context"
	"fmt"
	"io"
	"sort"
	"strconv"
	"strings"
	"sync"
	"sync/atomic"
	"time"

	"github.com/brutella/hc/hap"
)

func init() { families["connw"] = runConnWrite }

// case: cw <shared> <order> <payload0> <payload1> ...
// N goroutines call Connection.Write concurrently on one encrypted connection. The scripted socket holds every
// Write until the runner releases it; <order> (comma separated writer indices) is the preference order in which
// pending socket writes are released: at each round the runner waits (grace period) for writes to arrive and
// releases the pending one that comes first in <order>. The captured stream is decrypted by the reference framer.
func runConnWrite(id string, toks []string) (res string) {
	defer func() {
		if r := recover(); r != nil {
			res = fmt.Sprint("panic ", r)
		}
	}()
	switch toks[0] {
	case "cwdl":
		return runWriteInReadDeadlineWindow(toks)
	case "resp":
		return runRespond(toks[1:])
	case "cwsw":
		return runWriteAcrossSwitch(toks)
	case "cwrace":
		return runReadWriteRace(toks)
	case "cwclose":
		return runWritersAndClose(toks)
	case "wcopy":
		return runStandardWriters(toks)
	}
	k := sharedKey(toks[1])
	var pref []int
	for _, s := range strings.Split(toks[2], ",") {
		n, _ := strconv.Atoi(s)
		pref = append(pref, n)
	}
	var payloads []string
	keepAlive := false
	for _, t := range toks[3:] {
		if t == "KA" { // a keep-alive writer (hap.KeepAlive, 1 ms period) runs alongside
			keepAlive = true
		} else {
			payloads = append(payloads, t)
		}
	}
	sc, con, ctx := newScripted(nil)
	sc.gate = make(chan *gatedWrite, 64)
	sess, err := newServerSession(k)
	if err != nil {
		return "setup-error"
	}
	s := ctx.GetSessionForConnection(sc)
	s.SetCryptographer(sess)
	s.Decrypter() // promote the cryptographer as a first read would
	var kaMsg []byte
	kaStop := func() {}
	if keepAlive {
		var b bytes.Buffer
		hap.NewNotification(new(bytes.Buffer)).Write(&b)
		kaMsg = hap.FixProtocolSpecifier(b.Bytes())
		kctx, cancel := gocontext.WithCancel(gocontext.Background())
		kaStop = cancel
		go hap.NewKeepAlive(time.Millisecond, ctx).Start(kctx)
		time.Sleep(3 * time.Millisecond) // the first tick is on its way when the writers start
	}
	var wg sync.WaitGroup
	var badCount int32
	for _, p := range payloads {
		wg.Add(1)
		go func(b []byte) {
			defer wg.Done()
			// io.Writer: a write that succeeds reports len(b), whatever went over the wire
			if n, err := con.Write(b); err == nil && n != len(b) {
				atomic.StoreInt32(&badCount, int32(n-len(b)))
			}
		}(unhex(p))
	}
	grace := 30 * time.Millisecond
	rk := refKey(k[:], "Control-Read-Encryption-Key")
	finished := make(chan struct{})
	go func() { wg.Wait(); close(finished) }()
	// The runner cannot tell which payload a pending (encrypted) socket write belongs to; it releases by arrival
	// rank: pref[i] = rank, among the writes pending at round i, of the one to release.
	var pending []*gatedWrite
	maxPending := 0
	round := 0
	allDone := false
	idle := 0
	for !allDone {
		timeout := time.After(grace)
	collect:
		for {
			select {
			case g := <-sc.gate:
				pending = append(pending, g)
			case <-finished:
				allDone = true
				break collect
			case <-timeout:
				break collect
			}
		}
		if len(pending) == 0 {
			if allDone {
				break
			}
			idle++
			if idle > 100 {
				return "stuck"
			}
			continue
		}
		idle = 0
		if len(pending) > maxPending {
			maxPending = len(pending)
		}
		idx := 0
		if round < len(pref) {
			idx = pref[round] % len(pending)
		}
		round++
		g := pending[idx]
		pending = append(pending[:idx], pending[idx+1:]...)
		close(g.release)
		// give the released writer time to go on (and, when writes are serialised, the next one to arrive)
		time.Sleep(2 * time.Millisecond)
		allDone = false
		select {
		case <-finished:
			if len(pending) == 0 {
				allDone = true
			}
		default:
		}
	}
	// stop the keep-alive and let its last (held) writes through
	kaStop()
	for quiet := 0; keepAlive && quiet < 2; {
		select {
		case g := <-sc.gate:
			close(g.release)
			quiet = 0
		case <-time.After(grace / 2):
			quiet++
		}
		for _, g := range pending {
			close(g.release)
		}
		pending = nil
	}
	sc.mu.Lock()
	var stream []byte
	for _, w := range sc.written {
		stream = append(stream, w...)
	}
	nw := len(sc.written)
	sc.mu.Unlock()
	pt, ok := refOpenAll(rk, 0, stream)
	if !ok {
		return fmt.Sprintf("undecryptable writes=%d maxpending=%d", nw, maxPending)
	}
	if d := atomic.LoadInt32(&badCount); d != 0 {
		return fmt.Sprintf("write-count-off-by %d", d)
	}
	// every payload must appear intact and contiguous: the plaintext must be a concatenation of a permutation
	var want []string
	for _, p := range payloads {
		want = append(want, p)
	}
	plain := hx(pt)
	nka := 0
	if keepAlive {
		// keep-alive messages may stand between payloads, never inside one
		plain, nka = stripBetween(plain, hx(kaMsg), want)
	}
	got := splitPerm(plain, want)
	if got == nil {
		return fmt.Sprintf("interleaved-plaintext maxpending=%d", maxPending)
	}
	sort.Strings(got)
	if keepAlive {
		return fmt.Sprintf("ok %s ka=%d", strings.Join(got, ","), nka)
	}
	return "ok " + strings.Join(got, ",")
}

// stripBetween removes occurrences of ka that stand at a payload boundary: scanning from the left, at each position
// either a keep-alive message or one of the remaining payloads must start
func stripBetween(s, ka string, parts []string) (string, int) {
	var out strings.Builder
	n := 0
	rest := append([]string{}, parts...)
	for len(s) > 0 {
		if strings.HasPrefix(s, ka) {
			s = s[len(ka):]
			n++
			continue
		}
		hit := -1
		for i, p := range rest {
			if strings.HasPrefix(s, p) {
				hit = i
				break
			}
		}
		if hit < 0 {
			out.WriteString(s) // leave the rest: splitPerm will reject it
			break
		}
		out.WriteString(rest[hit])
		s = s[len(rest[hit]):]
		rest = append(rest[:hit], rest[hit+1:]...)
	}
	return out.String(), n
}

// splitPerm tries to read s as a concatenation of a permutation of parts
func splitPerm(s string, parts []string) []string {
	if s == "" && len(parts) == 0 {
		return []string{}
	}
	for i, p := range parts {
		if strings.HasPrefix(s, p) {
			rest := append(append([]string{}, parts[:i]...), parts[i+1:]...)
			if r := splitPerm(s[len(p):], rest); r != nil {
				return append([]string{p}, r...)
			}
		}
	}
	return nil
}

// case: cwsw <old shared | -> <new shared> <payload A> <payload B>
// Writer A is inside its socket write (holding the connection's write lock) and writer B is waiting for the lock when
// the session switches to a new secure session (pair-verify on this connection completed and the next request arrived).
// A was written before the switch (old keys, or plaintext when there was no session); B is written after it and the
// peer, which decrypts in arrival order, expects it under the NEW keys from counter 0.
func runWriteAcrossSwitch(toks []string) string {
	sc, con, ctx := newScripted(nil)
	sc.gate = make(chan *gatedWrite, 16)
	s := ctx.GetSessionForConnection(sc)
	var oldKey []byte
	if toks[1] != "-" {
		ko := sharedKey(toks[1])
		so, err := newServerSession(ko)
		if err != nil {
			return "setup-error"
		}
		s.SetCryptographer(so)
		s.Decrypter()
		oldKey = refKey(ko[:], "Control-Read-Encryption-Key")
	}
	kn := sharedKey(toks[2])
	sn, err := newServerSession(kn)
	if err != nil {
		return "setup-error"
	}
	newKey := refKey(kn[:], "Control-Read-Encryption-Key")
	a, b := unhex(toks[3]), unhex(toks[4])
	doneA, doneB := make(chan struct{}), make(chan struct{})
	go func() { con.Write(a); close(doneA) }()
	var ga *gatedWrite
	select {
	case ga = <-sc.gate:
	case <-time.After(2 * time.Second):
		return "stuck-a"
	}
	go func() { con.Write(b); close(doneB) }()
	time.Sleep(120 * time.Millisecond) // B is now waiting for the write lock (or has captured what it needs before it)
	s.SetCryptographer(sn)
	s.Decrypter() // the reader promotes the new session when the controller's next request arrives
	close(ga.release)
	<-doneA
	for {
		select {
		case g := <-sc.gate:
			close(g.release)
			continue
		case <-doneB:
		case <-time.After(2 * time.Second):
			return "stuck-b"
		}
		break
	}
	sc.mu.Lock()
	w := append([][]byte(nil), sc.written...)
	sc.mu.Unlock()
	if len(w) < 2 {
		return fmt.Sprintf("writes=%d", len(w))
	}
	classify := func(wire, want []byte) string {
		if string(wire) == string(want) {
			return "plain"
		}
		if pt, ok := refOpenAll(newKey, 0, wire); ok && string(pt) == string(want) {
			return "new"
		}
		if oldKey != nil {
			for ctr := uint64(0); ctr < 8; ctr++ {
				if pt, ok := refOpenAll(oldKey, ctr, wire); ok && string(pt) == string(want) {
					return fmt.Sprintf("old@%d", ctr)
				}
			}
		}
		return "undecryptable"
	}
	var rest []byte
	for _, x := range w[1:] {
		rest = append(rest, x...)
	}
	return "a=" + classify(w[0], a) + " b=" + classify(rest, b)
}

// case: cwrace <shared> <writers> <writes per writer> <incoming frames>
// Writers write while the connection's reader decrypts incoming frames on the same session. Every outgoing frame must
// decrypt, in arrival order, under consecutive counters; every incoming frame must be delivered.
func runReadWriteRace(toks []string) string {
	k := sharedKey(toks[1])
	nw, _ := strconv.Atoi(toks[2])
	per, _ := strconv.Atoi(toks[3])
	nin, _ := strconv.Atoi(toks[4])
	ck := refKey(k[:], "Control-Write-Encryption-Key")
	var evs []string
	for i := 0; i < nin; i++ {
		evs = append(evs, "D:"+hx(refSealFrames(ck, uint64(i), []byte(fmt.Sprintf("in-%06d", i)))))
	}
	sc, con, ctx := newScripted(evs)
	sess, err := newServerSession(k)
	if err != nil {
		return "setup-error"
	}
	s := ctx.GetSessionForConnection(sc)
	s.SetCryptographer(sess)
	s.Decrypter()
	var wg sync.WaitGroup
	sizes := []int{90, 1024, 1500, 2600, 7}
	total := 0
	for wr := 0; wr < nw; wr++ {
		wg.Add(1)
		total += per
		go func(wr int) {
			defer wg.Done()
			p := make([]byte, sizes[wr%len(sizes)])
			for i := range p {
				p[i] = byte(wr + 1)
			}
			for i := 0; i < per; i++ {
				con.Write(p)
			}
		}(wr)
	}
	readOK := 0
	rbad := ""
	buf := make([]byte, 4096)
	for i := 0; i < nin; i++ {
		n, err := con.Read(buf)
		if err != nil || string(buf[:n]) != fmt.Sprintf("in-%06d", i) {
			rbad = fmt.Sprintf("read#%d", i)
			break
		}
		readOK++
	}
	wg.Wait()
	sc.mu.Lock()
	var stream []byte
	for _, w := range sc.written {
		stream = append(stream, w...)
	}
	sc.mu.Unlock()
	rk := refKey(k[:], "Control-Read-Encryption-Key")
	// frame by frame, so that the first undecryptable frame is reported
	ctr, pos, frames := uint64(0), 0, 0
	for pos < len(stream) {
		n := int(stream[pos]) | int(stream[pos+1])<<8
		if pos+2+n+16 > len(stream) {
			return fmt.Sprintf("truncated-at-frame %d", frames)
		}
		if _, ok := refOpenAll(rk, ctr, stream[pos:pos+2+n+16]); !ok {
			return fmt.Sprintf("frame %d does not decrypt at counter %d (reads ok %d)", frames, ctr, readOK)
		}
		ctr++
		frames++
		pos += 2 + n + 16
	}
	if rbad != "" {
		return "incoming " + rbad
	}
	return fmt.Sprintf("ok writes=%d", total)
}

// case: resp B | P:<hex> | F | N:<hex> ...
// One hap.Connection (no session: what is written is what arrives): B = a request starts being handled
// (SetResponding(true), what the server's ConnState hook does on StateActive), P = the server writes a part of the response,
// F = the response is complete (SetResponding(false), StateIdle), N = WriteNotification from the event fan-out.
// Observed: the writes that reached the socket, in order, and what is still kept back.
func runRespond(ops []string) string {
	sc, con, _ := newScripted(nil)
	var queued [][]byte
	for _, o := range ops {
		switch {
		case o == "B":
			con.SetResponding(true)
		case o == "F":
			con.SetResponding(false)
			queued = nil
		case strings.HasPrefix(o, "P:"):
			con.Write(unhex(o[2:]))
		case strings.HasPrefix(o, "N:"):
			before := len(sc.written)
			con.WriteNotification(unhex(o[2:]))
			if len(sc.written) == before {
				queued = append(queued, unhex(o[2:]))
			}
		}
	}
	var out, pend []string
	for _, w := range sc.written {
		kind := "P:"
		if len(w) > 0 && w[0] == 'N' {
			kind = "N:"
		}
		out = append(out, kind+hx(w))
	}
	for _, q := range queued {
		pend = append(pend, hx(q))
	}
	return "out=" + strings.Join(out, ",") + " pending=" + strings.Join(pend, ",")
}

// case: cwdl <shared> <p1> <p2>
// The server sets a READ deadline in the past on the connection at the end of every request (to stop its pending read) and
// clears it a moment later; a write that another goroutine makes in that window must go out like any other: p1, then
// (deadline set) p2, then (deadline cleared) p1 again must arrive intact and decrypt in order.
func runWriteInReadDeadlineWindow(toks []string) string {
	k := sharedKey(toks[1])
	p1, p2 := unhex(toks[2]), unhex(toks[3])
	sc, con, ctx := newScripted(nil)
	sess, err := newServerSession(k)
	if err != nil {
		return "setup-error"
	}
	s := ctx.GetSessionForConnection(sc)
	s.SetCryptographer(sess)
	s.Decrypter()
	con.Write(p1)
	con.SetReadDeadline(time.Unix(1, 0))
	_, werr := con.Write(p2)
	con.SetReadDeadline(time.Time{})
	con.Write(p1)
	var stream []byte
	for _, w := range sc.written {
		stream = append(stream, w...)
	}
	pt, ok := refOpenAll(refKey(k[:], "Control-Read-Encryption-Key"), 0, stream)
	if !ok {
		return fmt.Sprintf("undecryptable writes=%d write-error=%v", len(sc.written), werr != nil)
	}
	if hx(pt) != hx(p1)+hx(p2)+hx(p1) {
		return "payloads-differ"
	}
	return "ok"
}

// case: cwclose <key> <payload> <payload> ...
// The first writer is in flight at the socket (it holds the write lock), the others wait for the lock, then the connection
// is closed from another goroutine (the server gives the connection up, the transport stops), then the socket lets the first
// write go.  Whatever reached the peer before the end of the stream must be frames of the session, in counter order.
func runWritersAndClose(toks []string) string {
	k := sharedKey(toks[1])
	sc, con, ctx := newScripted(nil)
	sc.gate = make(chan *gatedWrite, 64)
	sess, err := newServerSession(k)
	if err != nil {
		return "setup-error"
	}
	s := ctx.GetSessionForConnection(sc)
	s.SetCryptographer(sess)
	s.Decrypter()
	var wg sync.WaitGroup
	write := func(b []byte) {
		wg.Add(1)
		go func() {
			defer wg.Done()
			defer func() { recover() }() // a write that finds the session gone may panic: it sends nothing
			con.Write(b)
		}()
	}
	write(unhex(toks[2]))
	var first *gatedWrite
	select {
	case first = <-sc.gate:
	case <-time.After(2 * time.Second):
		return "stuck-first"
	}
	for _, p := range toks[3:] {
		write(unhex(p))
		time.Sleep(2 * time.Millisecond)
	}
	wg.Add(1)
	go func() {
		defer wg.Done()
		con.Close()
	}()
	time.Sleep(5 * time.Millisecond)
	close(first.release)
	done := make(chan struct{})
	go func() { wg.Wait(); close(done) }()
	for fin := false; !fin; {
		select {
		case g := <-sc.gate:
			close(g.release)
		case <-done:
			fin = true
		case <-time.After(3 * time.Second):
			return "stuck"
		}
	}
	sc.mu.Lock()
	var stream []byte
	for _, w := range sc.written {
		stream = append(stream, w...)
	}
	sc.mu.Unlock()
	pt, ok := refOpenAll(refKey(k[:], "Control-Read-Encryption-Key"), 0, stream)
	if !ok {
		return fmt.Sprintf("undecryptable bytes=%d", len(stream))
	}
	return fmt.Sprintf("ok plain=%d", len(pt))
}

// case: wcopy <key> <n>
// n bytes written into the connection by the standard library's writers (io.Copy from a plain reader, a bufio.Writer of 4096
// bytes as net/http uses, one Write of everything): what a conformant peer decrypts must be exactly the bytes, each time.
func runStandardWriters(toks []string) (res string) {
	defer func() {
		if r := recover(); r != nil {
			res = fmt.Sprint("panic ", r)
		}
	}()
	k := sharedKey(toks[1])
	n, _ := strconv.Atoi(toks[2])
	data := make([]byte, n)
	for i := range data {
		data[i] = byte(i*7 + i/251)
	}
	var out []string
	for _, how := range []string{"copy", "bufio", "write"} {
		sc, con, ctx := newScripted(nil)
		sess, err := newServerSession(k)
		if err != nil {
			return "setup-error"
		}
		s := ctx.GetSessionForConnection(sc)
		s.SetCryptographer(sess)
		s.Decrypter()
		var werr error
		func() {
			defer func() {
				if r := recover(); r != nil {
					werr = fmt.Errorf("panic")
				}
			}()
			switch how {
			case "copy":
				_, werr = io.Copy(con, struct{ io.Reader }{bytes.NewReader(data)})
			case "bufio":
				bw := bufio.NewWriterSize(con, 4096)
				if _, werr = bw.Write(data); werr == nil {
					werr = bw.Flush()
				}
			case "write":
				var m int
				if m, werr = con.Write(data); werr == nil && m != len(data) {
					werr = fmt.Errorf("count")
				}
			}
		}()
		sc.mu.Lock()
		var stream []byte
		for _, w := range sc.written {
			stream = append(stream, w...)
		}
		sc.mu.Unlock()
		pt, ok := refOpenAll(refKey(k[:], "Control-Read-Encryption-Key"), 0, stream)
		switch {
		case werr != nil:
			out = append(out, how+"=err:"+strings.Replace(werr.Error(), " ", "_", -1))
		case !ok || !bytes.Equal(pt, data):
			out = append(out, fmt.Sprintf("%s=differs(%d_of_%d)", how, len(pt), len(data)))
		default:
			out = append(out, how+"=ok")
		}
	}
	return strings.Join(out, " ")
}
