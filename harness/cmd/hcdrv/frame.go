package main

import (
	"bytes"
	"crypto/sha512"
	"encoding/binary"
	"fmt"
	"io"
	"io/ioutil"
	"reflect"
	"strconv"
	"strings"
	"testing/iotest"
	"unsafe"

	hccrypto "github.com/brutella/hc/crypto"
	"golang.org/x/crypto/chacha20poly1305"
	"golang.org/x/crypto/hkdf"
)

func init() { families["frame"] = runFrame }

// ---- reference framer, written from the HAP specification on x/crypto primitives only ----
func refKey(shared []byte, info string) []byte {
	r := hkdf.New(sha512.New, shared, []byte("Control-Salt"), []byte(info))
	k := make([]byte, 32)
	io.ReadFull(r, k)
	return k
}

func refSealFrames(key []byte, ctr uint64, payload []byte) []byte {
	aead, _ := chacha20poly1305.New(key)
	var out []byte
	for len(payload) > 0 {
		n := len(payload)
		if n > 1024 {
			n = 1024
		}
		var nonce [12]byte
		binary.LittleEndian.PutUint64(nonce[4:], ctr)
		ctr++
		aad := []byte{byte(n), byte(n >> 8)}
		out = append(out, aad...)
		out = aead.Seal(out, nonce[:], payload[:n], aad)
		payload = payload[n:]
	}
	return out
}

// refOpenMessage decrypts frames until a short frame or the end of input (one message)
func refOpenAll(key []byte, ctr uint64, wire []byte) ([]byte, bool) {
	aead, _ := chacha20poly1305.New(key)
	var out []byte
	for len(wire) > 0 {
		if len(wire) < 2 {
			return nil, false
		}
		n := int(wire[0]) | int(wire[1])<<8
		if len(wire) < 2+n+16 {
			return nil, false
		}
		var nonce [12]byte
		binary.LittleEndian.PutUint64(nonce[4:], ctr)
		ctr++
		pt, err := aead.Open(nil, nonce[:], wire[2:2+n+16], wire[:2])
		if err != nil {
			return nil, false
		}
		out = append(out, pt...)
		wire = wire[2+n+16:]
	}
	return out, true
}

type schedReader struct {
	data  []byte
	sizes []int
}

func (s *schedReader) Read(p []byte) (int, error) {
	if len(s.data) == 0 {
		return 0, io.EOF
	}
	n := len(s.data)
	if len(s.sizes) > 0 {
		if s.sizes[0] < n {
			n = s.sizes[0]
		}
	}
	if n > len(p) {
		if len(s.sizes) > 0 {
			s.sizes[0] -= len(p)
		}
		n = len(p)
	} else if len(s.sizes) > 0 {
		s.sizes = s.sizes[1:]
	}
	copy(p, s.data[:n])
	s.data = s.data[n:]
	return n, nil
}

func mkReader(mode string, data []byte) io.Reader {
	switch {
	case mode == "full":
		return bytes.NewBuffer(data)
	case mode == "onebyte":
		return iotest.OneByteReader(bytes.NewReader(data))
	case mode == "half":
		return iotest.HalfReader(bytes.NewReader(data))
	case mode == "dataerr":
		return iotest.DataErrReader(bytes.NewReader(data))
	case strings.HasPrefix(mode, "sched:"):
		var sizes []int
		for _, s := range strings.Split(mode[6:], ",") {
			n, _ := strconv.Atoi(s)
			sizes = append(sizes, n)
		}
		return &schedReader{data: data, sizes: sizes}
	}
	panic("bad reader mode " + mode)
}

// setCounters puts a session at given frame counters (the fields are private: the harness writes them through
// reflection; when the fields do not exist under these names the cases are reported as "skip")
func setCounters(s hccrypto.Cryptographer, enc, dec uint64) bool {
	v := reflect.ValueOf(s)
	if v.Kind() != reflect.Ptr || v.Elem().Kind() != reflect.Struct {
		return false
	}
	v = v.Elem()
	for _, nv := range []struct {
		name string
		val  uint64
	}{{"encryptCount", enc}, {"decryptCount", dec}} {
		f := v.FieldByName(nv.name)
		if !f.IsValid() || f.Kind() != reflect.Uint64 {
			return false
		}
		*(*uint64)(unsafe.Pointer(f.UnsafeAddr())) = nv.val
	}
	return true
}

func newServerSession(k [32]byte) (hccrypto.Cryptographer, error) {
	return hccrypto.NewSecureSessionFromSharedKey(k)
}

func sharedKey(h string) [32]byte {
	var k [32]byte
	copy(k[:], unhex(h))
	return k
}

// cases:
//
//	enc <shared> <role:srv|cli> <mode> <msg>...   hc session of <role> encrypts the messages; the reference framer
//	                                              opens them; hc's peer session decrypts them
//	seal <shared> <role> <msg>...                 reference framer only (honest stream of <role>'s write direction)
//	dec <shared> <role> <stream>                  hc session of <role> runs its receive loop over <stream>
func runFrame(id string, toks []string) (res string) {
	defer func() {
		if r := recover(); r != nil {
			res = fmt.Sprint("panic ", r)
		}
	}()
	newSess := func(role string, k [32]byte) hccrypto.Cryptographer {
		var s hccrypto.Cryptographer
		var err error
		if role == "srv" {
			s, err = hccrypto.NewSecureSessionFromSharedKey(k)
		} else {
			s, err = hccrypto.NewSecureClientSessionFromSharedKey(k)
		}
		if err != nil {
			panic(err)
		}
		return s
	}
	encLabel := map[string]string{"srv": "Control-Read-Encryption-Key", "cli": "Control-Write-Encryption-Key"}
	peer := map[string]string{"srv": "cli", "cli": "srv"}
	switch toks[0] {
	case "enc":
		k := sharedKey(toks[1])
		role, mode := toks[2], toks[3]
		s, p := newSess(role, k), newSess(peer[role], k)
		rk := refKey(k[:], encLabel[role])
		var out []string
		ctr := uint64(0)
		lazy := false
		// mode prefixes: ctr<N>+ start both directions at frame counter N; lazy+ read the results of Encrypt only
		// after ALL messages were encrypted
		for {
			if strings.HasPrefix(mode, "lazy+") {
				lazy, mode = true, mode[5:]
			} else if strings.HasPrefix(mode, "ctr") {
				i := strings.Index(mode, "+")
				ctr, _ = strconv.ParseUint(mode[3:i], 10, 64)
				mode = mode[i+1:]
				if !setCounters(s, ctr, ctr) || !setCounters(p, ctr, ctr) {
					return "skip"
				}
			} else {
				break
			}
		}
		// a second receiver gets all messages back to back in ONE reader and decrypts them by successive Decrypt calls
		p2 := newSess(peer[role], k)
		if ctr != 0 {
			setCounters(p2, ctr, ctr)
		}
		var allWire, allMsgs []byte
		wireOK := true
		// a third and a fourth receiver get every message through readers that deliver less than they are asked for
		// (half of it / one byte per Read), as sockets and pipes do
		p3, p4 := newSess(peer[role], k), newSess(peer[role], k)
		if ctr != 0 {
			setCounters(p3, ctr, ctr)
			setCounters(p4, ctr, ctr)
		}
		shortReads := ""
		var pending []io.Reader
		if lazy {
			for _, m := range toks[4:] {
				er, err := s.Encrypt(mkReader(mode, unhex(m)))
				if err != nil {
					er = nil
				}
				pending = append(pending, er)
			}
		}
		for i, m := range toks[4:] {
			msg := unhex(m)
			var er io.Reader
			var err error
			if lazy {
				er = pending[i]
				if er == nil {
					err = io.ErrUnexpectedEOF
				}
			} else {
				er, err = s.Encrypt(mkReader(mode, msg))
			}
			if err != nil {
				out = append(out, fmt.Sprintf("w%d=err", i))
				wireOK = false
				continue
			}
			w, _ := ioutil.ReadAll(er)
			allWire = append(allWire, w...)
			allMsgs = append(allMsgs, msg...)
			out = append(out, fmt.Sprintf("w%d=%s", i, hx(w)))
			if pt, ok := refOpenAll(rk, ctr, w); ok {
				out = append(out, fmt.Sprintf("r%d=%s", i, hx(pt)))
			} else {
				out = append(out, fmt.Sprintf("r%d=fail", i))
			}
			ctr += uint64((len(msg) + 1023) / 1024)
			for name, pr := range map[string]io.Reader{"half": iotest.HalfReader(bytes.NewReader(w)), "one-byte": iotest.OneByteReader(bytes.NewReader(w))} {
				sess := p3
				if name == "one-byte" {
					sess = p4
				}
				if len(w) == 0 || shortReads != "" {
					continue
				}
				if d3, err := sess.Decrypt(pr); err != nil {
					shortReads = fmt.Sprintf("%s-reader:message-%d-error", name, i)
				} else if b3, _ := ioutil.ReadAll(d3); !bytes.Equal(b3, msg) {
					shortReads = fmt.Sprintf("%s-reader:message-%d-differs", name, i)
				}
			}
			dr, err := p.Decrypt(bytes.NewBuffer(w))
			if err != nil {
				out = append(out, fmt.Sprintf("d%d=err", i))
			} else {
				d, _ := ioutil.ReadAll(dr)
				out = append(out, fmt.Sprintf("d%d=%s", i, hx(d)))
			}
		}
		if wireOK && len(allWire) > 0 {
			r := bytes.NewBuffer(allWire)
			var got []byte
			bad := ""
			for r.Len() > 0 && bad == "" {
				dr, err := p2.Decrypt(r)
				if err != nil {
					bad = fmt.Sprintf("error-after-%d-bytes", len(got))
					break
				}
				d, _ := ioutil.ReadAll(dr)
				got = append(got, d...)
			}
			if bad == "" && !bytes.Equal(got, allMsgs) {
				bad = fmt.Sprintf("%d-of-%d-bytes", len(got), len(allMsgs))
			}
			if bad != "" {
				out = append(out, "stream="+bad)
			}
		}
		if shortReads != "" {
			out = append(out, "shortreads="+shortReads)
		}
		return strings.Join(out, " ")
	case "sealc":
		// sealc <shared> <role> <ctr> <msg>...   reference framer starting at frame counter <ctr>
		k := sharedKey(toks[1])
		rk := refKey(k[:], encLabel[toks[2]])
		ctr, _ := strconv.ParseUint(toks[3], 10, 64)
		var out []string
		for i, m := range toks[4:] {
			msg := unhex(m)
			out = append(out, fmt.Sprintf("w%d=%s", i, hx(refSealFrames(rk, ctr, msg))))
			ctr += uint64((len(msg) + 1023) / 1024)
		}
		return strings.Join(out, " ")
	case "decc":
		// decc <shared> <role> <ctr> <stream>   hc session of <role> whose receive counter is <ctr>
		k := sharedKey(toks[1])
		s := newSess(toks[2], k)
		ctr, _ := strconv.ParseUint(toks[3], 10, 64)
		if !setCounters(s, ctr, ctr) {
			return "skip"
		}
		r := bytes.NewBuffer(unhex(toks[4]))
		var released []byte
		for r.Len() > 0 {
			dr, err := s.Decrypt(r)
			if err != nil {
				return "out=" + hx(released) + " st=err"
			}
			d, _ := ioutil.ReadAll(dr)
			released = append(released, d...)
		}
		return "out=" + hx(released) + " st=clean"
	case "intl":
		// intl <shared> <m1> <m2>   the two directions of ONE session at the same time: Decrypt has consumed the 2-byte length
		// of an incoming frame from a source that delivers the rest later (a socket); before the rest arrives the same
		// session encrypts m2; then the rest arrives. Both directions must be unaffected by each other.
		k := sharedKey(toks[1])
		m1, m2 := unhex(toks[2]), unhex(toks[3])
		s := newSess("srv", k)
		w1 := refSealFrames(refKey(k[:], encLabel["cli"]), 0, m1)
		var w2 []byte
		hr := &hookReader{data: w1, first: 2, hook: func() {
			if er, err := s.Encrypt(bytes.NewReader(m2)); err == nil {
				w2, _ = ioutil.ReadAll(er)
			}
		}}
		d := "err"
		if dr, err := s.Decrypt(hr); err == nil {
			b, _ := ioutil.ReadAll(dr)
			d = hx(b)
		}
		e := "fail"
		if pt, ok := refOpenAll(refKey(k[:], encLabel["srv"]), 0, w2); ok {
			e = hx(pt)
		}
		return "d=" + d + " e=" + e
	case "xdec":
		// xdec <shared> <m1> <m2>   two sessions (two connections) receive at the same time: session 1 has decrypted a frame
		// that its caller has read only one byte of when session 2 decrypts its frame; then both callers read on.
		// Each must get exactly what its own peer sent.
		k1 := sharedKey(toks[1])
		k2 := k1
		k2[0] ^= 0xff
		m1, m2 := unhex(toks[2]), unhex(toks[3])
		s1, s2 := newSess("srv", k1), newSess("srv", k2)
		w1 := refSealFrames(refKey(k1[:], encLabel["cli"]), 0, m1)
		w2 := refSealFrames(refKey(k2[:], encLabel["cli"]), 0, m2)
		r1, err := s1.Decrypt(bytes.NewBuffer(w1))
		if err != nil {
			return "r1=err"
		}
		one := make([]byte, 1)
		n1, _ := r1.Read(one)
		r2, err := s2.Decrypt(bytes.NewBuffer(w2))
		if err != nil {
			return "r2=err"
		}
		rest1, _ := ioutil.ReadAll(r1)
		all2, _ := ioutil.ReadAll(r2)
		return "r1=" + hx(append(one[:n1], rest1...)) + " r2=" + hx(all2)
	case "sealf":
		// sealf <shared> <role> <chunk|->...   a peer that frames by itself: one frame per chunk, empty chunks included
		k := sharedKey(toks[1])
		rk := refKey(k[:], encLabel[toks[2]])
		aead, _ := chacha20poly1305.New(rk)
		var out []byte
		for i, m := range toks[3:] {
			var pt []byte
			if m != "-" {
				pt = unhex(m)
			}
			var nonce [12]byte
			binary.LittleEndian.PutUint64(nonce[4:], uint64(i))
			aad := []byte{byte(len(pt)), byte(len(pt) >> 8)}
			out = append(out, aad...)
			out = aead.Seal(out, nonce[:], pt, aad)
		}
		return "w0=" + hx(out)
	case "seal":
		k := sharedKey(toks[1])
		rk := refKey(k[:], encLabel[toks[2]])
		var out []string
		ctr := uint64(0)
		for i, m := range toks[3:] {
			msg := unhex(m)
			out = append(out, fmt.Sprintf("w%d=%s", i, hx(refSealFrames(rk, ctr, msg))))
			ctr += uint64((len(msg) + 1023) / 1024)
		}
		return strings.Join(out, " ")
	case "decs":
		// like dec, but every segment is its own reader (Decrypt sees end-of-input after each)
		k := sharedKey(toks[1])
		s := newSess(toks[2], k)
		var released []byte
		for _, sg := range toks[3:] {
			r := bytes.NewBuffer(unhex(sg))
			for r.Len() > 0 {
				dr, err := s.Decrypt(r)
				if err != nil {
					return "out=" + hx(released) + " st=err"
				}
				d, _ := ioutil.ReadAll(dr)
				released = append(released, d...)
			}
		}
		return "out=" + hx(released) + " st=clean"
	case "dec":
		k := sharedKey(toks[1])
		s := newSess(toks[2], k)
		r := bytes.NewBuffer(unhex(toks[3]))
		var released []byte
		for r.Len() > 0 {
			dr, err := s.Decrypt(r)
			if err != nil {
				return "out=" + hx(released) + " st=err"
			}
			d, _ := ioutil.ReadAll(dr)
			released = append(released, d...)
		}
		return "out=" + hx(released) + " st=clean"
	}
	return "badcase"
}

// hookReader delivers its first bytes on the first Read, calls hook, and delivers the rest afterwards
type hookReader struct {
	data  []byte
	first int
	hook  func()
	calls int
}

func (h *hookReader) Read(p []byte) (int, error) {
	h.calls++
	if h.calls == 1 {
		n := h.first
		if n > len(h.data) {
			n = len(h.data)
		}
		if n > len(p) {
			n = len(p)
		}
		copy(p, h.data[:n])
		h.data = h.data[n:]
		return n, nil
	}
	if h.hook != nil {
		f := h.hook
		h.hook = nil
		f()
	}
	if len(h.data) == 0 {
		return 0, io.EOF
	}
	n := copy(p, h.data)
	h.data = h.data[n:]
	return n, nil
}
