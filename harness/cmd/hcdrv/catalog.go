package main

import (
	"encoding/json"
	"fmt"
	"sort"
	"strconv"
	"strings"

	"github.com/brutella/hc/accessory"
	"github.com/brutella/hc/characteristic"
)

func init() { families["catalog"] = runCatalog }

func numText(v interface{}) string {
	switch x := v.(type) {
	case nil:
		return "-"
	case int:
		return strconv.FormatFloat(float64(x), 'g', -1, 64) + "i"
	case float64:
		return strconv.FormatFloat(x, 'g', -1, 64) + "f"
	}
	return fmt.Sprintf("?%T", v)
}

func describeChar(c *characteristic.Characteristic) string {
	def := "none"
	switch x := c.Value.(type) {
	case nil:
	case int:
		def = "num:" + strconv.FormatFloat(float64(x), 'g', -1, 64)
	case float64:
		def = "num:" + strconv.FormatFloat(x, 'g', -1, 64)
	case bool:
		def = "bool"
	case string:
		def = "string"
	default:
		def = fmt.Sprintf("other:%T", c.Value)
	}
	return fmt.Sprintf("type=%s format=%s perms=%s min=%s max=%s step=%s default=%s unit=%s", c.Type, c.Format, strings.Join(c.Perms, ","),
		numText(c.MinValue), numText(c.MaxValue), numText(c.StepValue), def, c.Unit) + servedView(c)
}

// servedView: what a controller is served (the JSON of the characteristic) must declare what the object declares.
// Returns "" when it does, " served=<differences>" otherwise.
func servedView(c *characteristic.Characteristic) string {
	b, err := json.Marshal(c)
	if err != nil {
		return " served=unencodable"
	}
	var m map[string]interface{}
	if json.Unmarshal(b, &m) != nil {
		return " served=not-an-object"
	}
	var diffs []string
	str := func(k, want string) {
		got, _ := m[k].(string)
		if got != want {
			diffs = append(diffs, fmt.Sprintf("%s:%q/%q", k, got, want))
		}
	}
	str("type", c.Type)
	str("format", c.Format)
	str("unit", c.Unit)
	var perms []string
	if l, ok := m["perms"].([]interface{}); ok {
		for _, x := range l {
			perms = append(perms, fmt.Sprint(x))
		}
	}
	if strings.Join(perms, ",") != strings.Join(c.Perms, ",") {
		diffs = append(diffs, "perms:"+strings.Join(perms, ","))
	}
	num := func(k string, v interface{}) {
		var want *float64
		switch x := v.(type) {
		case int:
			f := float64(x)
			want = &f
		case float64:
			want = &x
		}
		got, has := m[k].(float64)
		if (want == nil) != !has || (want != nil && *want != got) {
			diffs = append(diffs, fmt.Sprintf("%s:%v/%s", k, m[k], numText(v)))
		}
	}
	num("minValue", c.MinValue)
	num("maxValue", c.MaxValue)
	num("minStep", c.StepValue)
	if len(diffs) == 0 {
		return ""
	}
	return " served=" + strings.Join(diffs, ";")
}

// cases:  char <ctor> | svc <ctor> | accessories
func runCatalog(id string, toks []string) (res string) {
	defer func() {
		if r := recover(); r != nil {
			res = "panic"
		}
	}()
	switch toks[0] {
	case "char":
		f, ok := charRegistry[toks[1]]
		if !ok {
			return "unknown"
		}
		return describeChar(f())
	case "svc":
		f, ok := svcRegistry[toks[1]]
		if !ok {
			return "unknown"
		}
		s := f()
		if s == nil {
			return "nil-base"
		}
		var ts []string
		bad := ""
		for _, c := range s.Characteristics {
			ts = append(ts, c.Type)
			// the characteristics INSIDE a constructed service: what is stored has the declared type and lies within the
			// bounds the service declares for it (reported only when it does not)
			var v, mn, mx float64
			var hv, hmn, hmx bool
			for _, q := range []struct {
				x   interface{}
				f   *float64
				has *bool
			}{{c.Value, &v, &hv}, {c.MinValue, &mn, &hmn}, {c.MaxValue, &mx, &hmx}} {
				switch x := q.x.(type) {
				case int:
					*q.f, *q.has = float64(x), true
				case float64:
					*q.f, *q.has = x, true
				}
			}
			if hv && ((hmn && v < mn) || (hmx && v > mx) || (hmn && hmx && mn > mx)) {
				bad += fmt.Sprintf(" inside=%s:%s_outside_%s..%s", c.Type, numText(c.Value), numText(c.MinValue), numText(c.MaxValue))
			}
			bad += strings.Replace(servedView(c), " served=", " inside-served="+c.Type+":", 1)
		}
		return fmt.Sprintf("type=%s chars=%s", s.Type, strings.Join(ts, ",")) + bad
	case "accessories":
		// every accessory constructor, once with a minimal Info and once with a fully populated one:
		// <name>:<#services>:<#characteristics>:<svcType>[<charType>,...]/<svcType>[...]...
		var out []string
		for vi, info := range []accessory.Info{{Name: "n"}, {Name: "n", SerialNumber: "sn", Manufacturer: "mf", Model: "md", FirmwareRevision: "1.2.3"}} {
			add := func(name string, a *accessory.Accessory) {
				n := 0
				var svcs []string
				for _, s := range a.Services {
					n += len(s.Characteristics)
					var ts []string
					for _, c := range s.Characteristics {
						ts = append(ts, c.Type)
					}
					svcs = append(svcs, s.Type+"["+strings.Join(ts, ",")+"]")
				}
				// readable numeric values with their declared range: <charType>=<value>/<min>/<max>
				var vals []string
				for _, s := range a.Services {
					for _, c := range s.Characteristics {
						if c.MinValue != nil || c.MaxValue != nil {
							vals = append(vals, fmt.Sprintf("%s=%s/%s/%s", c.Type, numText(c.Value), numText(c.MinValue), numText(c.MaxValue)))
						}
					}
				}
				// ... and the declared range is in force: a value beyond it is clamped (afterwards: the accessories are thrown away)
				for _, s := range a.Services {
					for _, c := range s.Characteristics {
						for _, probe := range []struct {
							bound interface{}
							delta float64
						}{{c.MaxValue, 1000}, {c.MinValue, -1000}} {
							var lim float64
							switch b := probe.bound.(type) {
							case int:
								lim = float64(b)
							case float64:
								lim = b
							default:
								continue
							}
							func() {
								defer func() { recover() }()
								if c.Format == characteristic.FormatFloat {
									c.UpdateValue(lim + probe.delta)
								} else {
									c.UpdateValue(int(lim + probe.delta))
								}
							}()
							var got float64
							switch v := c.Value.(type) {
							case int:
								got = float64(v)
							case float64:
								got = v
							default:
								continue
							}
							if (probe.delta > 0 && got > lim) || (probe.delta < 0 && got < lim) {
								vals = append(vals, fmt.Sprintf("%s=!unclamped(%v_beyond_%v)", c.Type, got, lim))
							}
						}
					}
				}
				out = append(out, fmt.Sprintf("%s.%d:%d:%d:%s:%s:%d", name, vi, len(a.Services), n, strings.Join(svcs, "/"), strings.Join(vals, ","), a.Type))
			}
			add("New", accessory.New(info, accessory.TypeOther))
			add("Bridge", accessory.NewBridge(info).Accessory)
			add("Camera", accessory.NewCamera(info).Accessory)
			add("ColoredLightbulb", accessory.NewColoredLightbulb(info).Accessory)
			add("Lightbulb", accessory.NewLightbulb(info).Accessory)
			add("Outlet", accessory.NewOutlet(info).Accessory)
			add("Switch", accessory.NewSwitch(info).Accessory)
			add("Television", accessory.NewTelevision(info).Accessory)
			add("TemperatureSensor", accessory.NewTemperatureSensor(info, 20, 0, 40, 1).Accessory)
			add("Thermostat", accessory.NewThermostat(info, 20, 10, 30, 1).Accessory)
			add("Window", accessory.NewWindow(info, 0).Accessory)
			// the parameterised constructors with other (valid) arguments: temperature, minimum, maximum, step
			for _, q := range [][4]float64{{5, 0, 8, 1}, {-5, -20, 40, 1}, {100, 50, 150, 0.5}, {10, 10, 10.5, 0.5}, {37.5, 35, 42, 0.1}} {
				tag := fmt.Sprintf("@%g,%g,%g", q[0], q[1], q[2])
				add("TemperatureSensor"+tag, accessory.NewTemperatureSensor(info, q[0], q[1], q[2], q[3]).Accessory)
				add("Thermostat"+tag, accessory.NewThermostat(info, q[0], q[1], q[2], q[3]).Accessory)
			}
		}
		sort.Strings(out)
		return strings.Join(out, " ")
	}
	return "badcase"
}
