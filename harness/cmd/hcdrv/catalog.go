package main

import (
	"fmt"
	"sort"
	"strconv"
	"strings"

	"github.com/brutella/hc/accessory"
	"github.com/brutella/hc/characteristic"
)

func init() { families["catalog"] = runCatalog }

func numText(v interface{}) string {
	switch x := v.(type) {
	case nil:
		return "-"
	case int:
		return strconv.FormatFloat(float64(x), 'g', -1, 64) + "i"
	case float64:
		return strconv.FormatFloat(x, 'g', -1, 64) + "f"
	}
	return fmt.Sprintf("?%T", v)
}

func describeChar(c *characteristic.Characteristic) string {
	def := "none"
	switch x := c.Value.(type) {
	case nil:
	case int:
		def = "num:" + strconv.FormatFloat(float64(x), 'g', -1, 64)
	case float64:
		def = "num:" + strconv.FormatFloat(x, 'g', -1, 64)
	case bool:
		def = "bool"
	case string:
		def = "string"
	default:
		def = fmt.Sprintf("other:%T", c.Value)
	}
	return fmt.Sprintf("type=%s format=%s perms=%s min=%s max=%s step=%s default=%s unit=%s", c.Type, c.Format, strings.Join(c.Perms, ","),
		numText(c.MinValue), numText(c.MaxValue), numText(c.StepValue), def, c.Unit)
}

// cases:  char <ctor> | svc <ctor> | accessories
func runCatalog(id string, toks []string) (res string) {
	defer func() {
		if r := recover(); r != nil {
			res = "panic"
		}
	}()
	switch toks[0] {
	case "char":
		f, ok := charRegistry[toks[1]]
		if !ok {
			return "unknown"
		}
		return describeChar(f())
	case "svc":
		f, ok := svcRegistry[toks[1]]
		if !ok {
			return "unknown"
		}
		s := f()
		if s == nil {
			return "nil-base"
		}
		var ts []string
		for _, c := range s.Characteristics {
			ts = append(ts, c.Type)
		}
		return fmt.Sprintf("type=%s chars=%s", s.Type, strings.Join(ts, ","))
	case "accessories":
		info := accessory.Info{Name: "n"}
		var out []string
		add := func(name string, a *accessory.Accessory) {
			n := 0
			for _, s := range a.Services {
				n += len(s.Characteristics)
			}
			out = append(out, fmt.Sprintf("%s:%d:%d", name, len(a.Services), n))
		}
		add("New", accessory.New(info, accessory.TypeOther))
		add("Bridge", accessory.NewBridge(info).Accessory)
		add("Camera", accessory.NewCamera(info).Accessory)
		add("ColoredLightbulb", accessory.NewColoredLightbulb(info).Accessory)
		add("Lightbulb", accessory.NewLightbulb(info).Accessory)
		add("Outlet", accessory.NewOutlet(info).Accessory)
		add("Switch", accessory.NewSwitch(info).Accessory)
		add("Television", accessory.NewTelevision(info).Accessory)
		add("TemperatureSensor", accessory.NewTemperatureSensor(info, 20, 0, 40, 1).Accessory)
		add("Thermostat", accessory.NewThermostat(info, 20, 10, 30, 1).Accessory)
		add("Window", accessory.NewWindow(info, 0).Accessory)
		sort.Strings(out)
		return strings.Join(out, " ")
	}
	return "badcase"
}
