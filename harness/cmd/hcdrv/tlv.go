package main

import (
	"io/ioutil"
	"bytes"
	"fmt"
	"io"
	"sort"
	"strconv"
	"strings"
	"testing/iotest"

	"github.com/brutella/hc/util"
)

func init() { families["tlv"] = runTLV }

// case:  sets T:HEX T:HEX ...   |   parse HEX
func runTLV(id string, toks []string) (res string) {
	defer func() {
		if r := recover(); r != nil {
			res = "panic"
		}
	}()
	switch toks[0] {
	case "sets":
		c := util.NewTLV8Container()
		tags := map[int]bool{0: true, 255: true}
		var reads strings.Builder
		for i, t := range toks[1:] {
			if strings.HasPrefix(t, "?") { // a read in the middle of the history
				tag, _ := strconv.Atoi(t[1:])
				tags[tag] = true
				fmt.Fprintf(&reads, " q%d=%s/%d", i, hx(c.GetBytes(byte(tag))), c.GetByte(byte(tag)))
				io.Copy(ioutil.Discard, c.BytesBuffer()) // ... and a serialisation in the middle of the history, read to its end
				continue
			}
			p := strings.SplitN(t, ":", 2)
			tag, _ := strconv.Atoi(p[0])
			tags[tag] = true
			v := unhex(p[1])
			if len(v) == 1 && tag%2 == 1 {
				c.SetByte(byte(tag), v[0])
			} else {
				c.SetBytes(byte(tag), v)
			}
		}
		first := c.BytesBuffer()
		ser := append([]byte(nil), first.Bytes()...)
		out := "ser=" + hx(ser) + reads.String()
		// a serialisation that was read to its end (written to a response) leaves the container as it was
		io.Copy(ioutil.Discard, first)
		if again := c.BytesBuffer().Bytes(); !bytes.Equal(again, ser) {
			out += " reserialised=differs"
		}
		c2, err := util.NewTLV8ContainerFromReader(bytes.NewBuffer(ser))
		if err != nil {
			return out + " reparse=err"
		}
		out += " reparse=ok"
		out += gets(c, tags, "a") + gets(c2, tags, "b")
		// ... and when the serialised bytes arrive one byte at a time
		if c3, err3 := util.NewTLV8ContainerFromReader(iotest.OneByteReader(bytes.NewReader(ser))); err3 != nil || gets(c3, tags, "b") != gets(c2, tags, "b") {
			out += " piecewise=one-byte-differs"
		}
		return out
	case "parse":
		in := unhex(toks[1])
		c, err := util.NewTLV8ContainerFromReader(bytes.NewBuffer(in))
		if err != nil {
			return "parse=err"
		}
		tags := map[int]bool{0: true, 255: true}
		for i := 0; i < len(in) && i < 64; i++ {
			tags[int(in[i])] = true
		}
		res := "parse=ok ser=" + hx(c.BytesBuffer().Bytes()) + gets(c, tags, "b")
		// the same bytes arriving in pieces (a request body comes in segments) parse to the same container
		for name, r := range map[string]io.Reader{"one-byte": iotest.OneByteReader(bytes.NewReader(in)), "half": iotest.HalfReader(bytes.NewReader(in))} {
			c2, err2 := util.NewTLV8ContainerFromReader(r)
			if err2 != nil || "parse=ok ser="+hx(c2.BytesBuffer().Bytes())+gets(c2, tags, "b") != res {
				return res + " piecewise=" + name + "-differs"
			}
		}
		return res
	}
	return "badcase"
}

func gets(c util.Container, tags map[int]bool, pfx string) string {
	var ts []int
	for t := range tags {
		ts = append(ts, t)
	}
	sort.Ints(ts)
	var sb strings.Builder
	for _, t := range ts {
		fmt.Fprintf(&sb, " %s%d=%s/%d", pfx, t, hx(c.GetBytes(byte(t))), c.GetByte(byte(t)))
		if str := c.GetString(byte(t)); str != string(c.GetBytes(byte(t))) {
			// GetString is the same bytes as a string (user names, identifiers): reported only when it is not
			fmt.Fprintf(&sb, "/str:%s", hx([]byte(str)))
		}
	}
	return sb.String()
}
