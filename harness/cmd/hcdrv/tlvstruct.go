package main

import (
	"fmt"
	"math"
	"reflect"
	"sort"
	"strconv"
	"strings"

	"github.com/brutella/hc/rtp"
	"github.com/brutella/hc/tlv8"
)

func init() { families["tstruct"] = runTStruct }

// Type descriptors (no spaces):
//   fields := <tag>:<ty>{,<tag>:<ty>}        ty := B H W Q (uint8/16/32/64) h w q (int16/32/64) f (float32) b (bool)
//                                                   s (string) y ([]byte) S(<fields>) L(<fields>) I(<fields>)
// Values:  ints decimal, f as x<8 hex digits of the bits>, b as 0/1, s/y as h<hex>, struct (v,v,..), list [(..);(..)]
var rtpTypes = map[string]reflect.Type{
	"SetupEndpoints":           reflect.TypeOf(rtp.SetupEndpoints{}),
	"SetupEndpointsResponse":   reflect.TypeOf(rtp.SetupEndpointsResponse{}),
	"StreamConfiguration":      reflect.TypeOf(rtp.StreamConfiguration{}),
	"VideoStreamConfiguration": reflect.TypeOf(rtp.VideoStreamConfiguration{}),
	"AudioStreamConfiguration": reflect.TypeOf(rtp.AudioStreamConfiguration{}),
	"Configuration":            reflect.TypeOf(rtp.Configuration{}),
	"StreamingStatus":          reflect.TypeOf(rtp.StreamingStatus{}),
	"VideoCodecConfiguration":  reflect.TypeOf(rtp.VideoCodecConfiguration{}),
	"AudioCodecConfiguration":  reflect.TypeOf(rtp.AudioCodecConfiguration{}),
	"Addr":                     reflect.TypeOf(rtp.Addr{}),
	"AudioCodecParameters":     reflect.TypeOf(rtp.AudioCodecParameters{}),
	"AudioParameters":          reflect.TypeOf(rtp.AudioParameters{}),
	"CryptoSuite":              reflect.TypeOf(rtp.CryptoSuite{}),
	"CryptoSuiteType":          reflect.TypeOf(rtp.CryptoSuiteType{}),
	"RTPParams":                reflect.TypeOf(rtp.RTPParams{}),
	"SessionControlCommand":    reflect.TypeOf(rtp.SessionControlCommand{}),
	"SupportedCryptoSuite":     reflect.TypeOf(rtp.SupportedCryptoSuite{}),
	"VideoCodecAttributes":     reflect.TypeOf(rtp.VideoCodecAttributes{}),
	"VideoCodecLevel":          reflect.TypeOf(rtp.VideoCodecLevel{}),
	"VideoCodecPacketization":  reflect.TypeOf(rtp.VideoCodecPacketization{}),
	"VideoCodecParameters":     reflect.TypeOf(rtp.VideoCodecParameters{}),
	"VideoCodecProfile":        reflect.TypeOf(rtp.VideoCodecProfile{}),
	"VideoParameters":          reflect.TypeOf(rtp.VideoParameters{}),
}

type tparser struct {
	s string
	i int
}

func (p *tparser) peek() byte {
	if p.i < len(p.s) {
		return p.s[p.i]
	}
	return 0
}

func (p *tparser) fields() reflect.Type {
	var fs []reflect.StructField
	for {
		j := p.i
		for p.peek() >= '0' && p.peek() <= '9' {
			p.i++
		}
		tag := p.s[j:p.i]
		if p.peek() != ':' {
			panic("descriptor: expected ':' at " + p.s[p.i:])
		}
		p.i++
		c := p.peek()
		p.i++
		var t reflect.Type
		tagStr := tag
		switch c {
		case 'B':
			t = reflect.TypeOf(uint8(0))
		case 'H':
			t = reflect.TypeOf(uint16(0))
		case 'W':
			t = reflect.TypeOf(uint32(0))
		case 'Q':
			t = reflect.TypeOf(uint64(0))
		case 'h':
			t = reflect.TypeOf(int16(0))
		case 'w':
			t = reflect.TypeOf(int32(0))
		case 'q':
			t = reflect.TypeOf(int64(0))
		case 'f':
			t = reflect.TypeOf(float32(0))
		case 'b':
			t = reflect.TypeOf(false)
		case 's':
			t = reflect.TypeOf("")
		case 'y':
			t = reflect.TypeOf([]byte(nil))
		case 'S', 'L', 'I':
			p.i++ // (
			inner := p.fields()
			p.i++ // )
			if c == 'S' {
				t = inner
			} else {
				t = reflect.SliceOf(inner)
			}
			if c == 'I' {
				tagStr = "-"
			}
		default:
			panic("descriptor: unknown type " + string(c))
		}
		fs = append(fs, reflect.StructField{Name: fmt.Sprintf("F%d", len(fs)), Type: t, Tag: reflect.StructTag(`tlv8:"` + tagStr + `"`)})
		if p.peek() == ',' {
			p.i++
			continue
		}
		break
	}
	return reflect.StructOf(fs)
}

func typeOfDesc(d string) reflect.Type {
	if strings.HasPrefix(d, "rtp:") {
		// rtp:<Name>=<descriptor for the model>: the Go side uses the real type
		name := d[4:]
		if i := strings.Index(name, "="); i >= 0 {
			name = name[:i]
		}
		t, ok := rtpTypes[name]
		if !ok {
			panic("unknown rtp type " + d)
		}
		return t
	}
	p := &tparser{s: d}
	return p.fields()
}

// descriptor of a Go struct type as the tlv8 package sees it (fields with a tlv8 tag)
func descOf(t reflect.Type) string {
	var parts []string
	for i := 0; i < t.NumField(); i++ {
		f := t.Field(i)
		tag, ok := f.Tag.Lookup("tlv8")
		if !ok {
			continue
		}
		var d string
		switch f.Type.Kind() {
		case reflect.Uint8:
			d = "B"
		case reflect.Uint16:
			d = "H"
		case reflect.Uint32:
			d = "W"
		case reflect.Uint64:
			d = "Q"
		case reflect.Int16:
			d = "h"
		case reflect.Int32:
			d = "w"
		case reflect.Int64:
			d = "q"
		case reflect.Float32:
			d = "f"
		case reflect.Bool:
			d = "b"
		case reflect.String:
			d = "s"
		case reflect.Struct:
			d = "S(" + descOf(f.Type) + ")"
		case reflect.Slice:
			if f.Type.Elem().Kind() == reflect.Uint8 {
				d = "y"
			} else if tag == "-" {
				d = "I(" + descOf(f.Type.Elem()) + ")"
			} else {
				d = "L(" + descOf(f.Type.Elem()) + ")"
			}
		default:
			d = "?" + f.Type.Kind().String()
		}
		if tag == "-" {
			tag = "0"
		}
		parts = append(parts, tag+":"+d)
	}
	return strings.Join(parts, ",")
}

// tagged fields of a struct type, in order
func taggedFields(t reflect.Type) []int {
	var idx []int
	for i := 0; i < t.NumField(); i++ {
		if _, ok := t.Field(i).Tag.Lookup("tlv8"); ok {
			idx = append(idx, i)
		}
	}
	return idx
}

func (p *tparser) value(v reflect.Value) {
	switch v.Kind() {
	case reflect.Struct:
		p.i++ // (
		for k, i := range taggedFields(v.Type()) {
			if k > 0 {
				p.i++ // ,
			}
			p.value(v.Field(i))
		}
		p.i++ // )
	case reflect.Slice:
		if v.Type().Elem().Kind() == reflect.Uint8 {
			p.i++ // h
			j := p.i
			for isHex(p.peek()) {
				p.i++
			}
			v.SetBytes(unhex(p.s[j:p.i]))
			return
		}
		p.i++ // [
		sl := reflect.MakeSlice(v.Type(), 0, 0)
		for p.peek() != ']' {
			if p.peek() == ';' {
				p.i++
			}
			e := reflect.New(v.Type().Elem()).Elem()
			p.value(e)
			sl = reflect.Append(sl, e)
		}
		p.i++ // ]
		v.Set(sl)
	case reflect.String:
		p.i++
		j := p.i
		for isHex(p.peek()) {
			p.i++
		}
		v.SetString(string(unhex(p.s[j:p.i])))
	case reflect.Bool:
		v.SetBool(p.peek() == '1')
		p.i++
	case reflect.Float32:
		p.i++ // x
		bits, _ := strconv.ParseUint(p.s[p.i:p.i+8], 16, 32)
		p.i += 8
		// set the exact bit pattern (SetFloat would go through float64 and quiet a signalling NaN)
		*(v.Addr().Interface().(*float32)) = math.Float32frombits(uint32(bits))
	default:
		j := p.i
		if p.peek() == '-' {
			p.i++
		}
		for p.peek() >= '0' && p.peek() <= '9' {
			p.i++
		}
		if v.Kind() == reflect.Int16 || v.Kind() == reflect.Int32 || v.Kind() == reflect.Int64 {
			n, _ := strconv.ParseInt(p.s[j:p.i], 10, 64)
			v.SetInt(n)
		} else {
			n, _ := strconv.ParseUint(p.s[j:p.i], 10, 64)
			v.SetUint(n)
		}
	}
}

func isHex(c byte) bool { return (c >= '0' && c <= '9') || (c >= 'a' && c <= 'f') }

func showValue(v reflect.Value) string {
	switch v.Kind() {
	case reflect.Struct:
		var parts []string
		for _, i := range taggedFields(v.Type()) {
			parts = append(parts, showValue(v.Field(i)))
		}
		return "(" + strings.Join(parts, ",") + ")"
	case reflect.Slice:
		if v.Type().Elem().Kind() == reflect.Uint8 {
			return "h" + hx(v.Bytes())
		}
		var parts []string
		for i := 0; i < v.Len(); i++ {
			parts = append(parts, showValue(v.Index(i)))
		}
		return "[" + strings.Join(parts, ";") + "]"
	case reflect.String:
		return "h" + hx([]byte(v.String()))
	case reflect.Bool:
		if v.Bool() {
			return "1"
		}
		return "0"
	case reflect.Float32:
		return fmt.Sprintf("x%08x", math.Float32bits(float32(v.Float())))
	case reflect.Int16, reflect.Int32, reflect.Int64:
		return strconv.FormatInt(v.Int(), 10)
	default:
		return strconv.FormatUint(v.Uint(), 10)
	}
}

func runTStruct(id string, toks []string) (res string) {
	defer func() {
		if r := recover(); r != nil {
			res = fmt.Sprint("harness-panic ", r)
		}
	}()
	switch toks[0] {
	case "desc":
		var names []string
		for n := range rtpTypes {
			names = append(names, n)
		}
		sort.Strings(names)
		var out []string
		for _, n := range names {
			out = append(out, n+"="+descOf(rtpTypes[n]))
		}
		return strings.Join(out, " ")
	case "rt":
		t := typeOfDesc(toks[1])
		in := reflect.New(t)
		p := &tparser{s: toks[2]}
		p.value(in.Elem())
		enc, st := marshalGuard(in.Elem().Interface())
		if st != "" {
			return "enc=" + st
		}
		encHex := hx(enc)
		res := "enc=" + encHex + " dec=" + unmarshalGuard(t, enc)
		// the bytes a caller got from Marshal stay what they were while the caller marshals other values
		marshalGuard(reflect.New(t).Elem().Interface())
		marshalGuard(struct {
			S string `tlv8:"1"`
			N uint32 `tlv8:"2"`
		}{"retained by the caller?", 0xfeedface})
		if hx(enc) != encHex {
			res += " retained=changed"
		}
		return res
	case "un":
		t := typeOfDesc(toks[1])
		var b []byte
		if toks[2] != "-" {
			b = unhex(toks[2])
		}
		return "dec=" + unmarshalGuard(t, b)
	}
	return "unknown-subcommand"
}

func marshalGuard(v interface{}) (b []byte, st string) {
	defer func() {
		if r := recover(); r != nil {
			st = "panic"
		}
	}()
	b, err := tlv8.Marshal(v)
	if err != nil {
		return nil, "err"
	}
	return b, ""
}

func unmarshalGuard(t reflect.Type, b []byte) (res string) {
	defer func() {
		if r := recover(); r != nil {
			res = "panic"
		}
	}()
	out := reflect.New(t)
	if err := tlv8.Unmarshal(b, out.Interface()); err != nil {
		return "err"
	}
	return showValue(out.Elem())
}
