package main

import (
	gocontext "context"
	"net/http"
	"strings"

	"github.com/brutella/hc/hap"
)

func init() { families["sess"] = runSess }

// case: ss <op> <op> ...
//
//	C:<c>:<local>:<remote>   a connection with these addresses is accepted
//	V:<c>                    the pair-verify endpoint installs the secure session for a request of connection c
//	R:<c>                    a protected request of connection c reaches the server's authentication
//	X:<c>                    connection c is closed
//
// One hap.Context for the whole case; observed per op: "-" | served | refused | nosession (the handler finds no session).
func runSess(id string, toks []string) (res string) {
	defer func() {
		if r := recover(); r != nil {
			res = "panic"
		}
	}()
	ctx := hap.NewContextForSecuredDevice(nil)
	type ent struct {
		sc  *scriptConn
		con *hap.Connection
	}
	conns := map[string]*ent{}
	request := func(e *ent) *http.Request {
		r := &http.Request{RemoteAddr: e.sc.addr}
		return r.WithContext(gocontext.WithValue(gocontext.Background(), http.LocalAddrContextKey, e.sc.LocalAddr()))
	}
	session := func(e *ent) (s hap.Session) {
		defer func() {
			if r := recover(); r != nil {
				s = nil
			}
		}()
		return ctx.GetSessionForRequest(request(e))
	}
	var out []string
	for _, t := range toks[1:] {
		p := strings.Split(t, ":")
		switch p[0] {
		case "C":
			sc := &scriptConn{addr: p[3], laddr: p[2]}
			conns[p[1]] = &ent{sc, hap.NewConnection(sc, ctx)}
			out = append(out, "-")
		case "V":
			e := conns[p[1]]
			s := session(e)
			if s == nil {
				out = append(out, "nosession")
				continue
			}
			k := sharedKey("00")
			sess, err := newServerSession(k)
			if err != nil {
				return "setup-error"
			}
			s.SetCryptographer(sess)
			s.Decrypter() // the controller's next bytes arrive
			out = append(out, "-")
		case "R":
			s := session(conns[p[1]])
			switch {
			case s == nil:
				out = append(out, "nosession")
			case s.Encrypter() != nil:
				out = append(out, "served")
			default:
				out = append(out, "refused")
			}
		case "X":
			conns[p[1]].con.Close()
			out = append(out, "-")
		default:
			return "badop"
		}
	}
	return strings.Join(out, " ")
}
