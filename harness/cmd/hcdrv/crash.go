package main

import (
	"bytes"
	"fmt"
	"io/ioutil"
	"os"
	"os/exec"
	"path/filepath"
	"sort"
	"strconv"
	"strings"

	"github.com/brutella/hc"
	"github.com/brutella/hc/accessory"
	"github.com/brutella/hc/db"
	"github.com/brutella/hc/util"
)

func init() {
	families["crash"] = runCrash
}

type kv struct {
	k, v []byte
	del  bool // <key>:DEL  the key is deleted
}

func parseKVs(s string) []kv {
	if s == "-" {
		return nil
	}
	var out []kv
	for _, p := range strings.Split(s, ",") {
		q := strings.Split(p, ":")
		if q[1] == "DEL" {
			out = append(out, kv{k: unhex(q[0]), del: true})
			continue
		}
		out = append(out, kv{k: unhex(q[0]), v: unhex(q[1])})
	}
	return out
}

// child entry points (run in a separate process that gets killed at a crash point)
func crashChildMain(args []string) {
	switch args[0] {
	case "sets":
		st, err := util.NewFileStorage(args[1])
		if err != nil {
			os.Exit(3)
		}
		for _, e := range parseKVs(args[2]) {
			if e.del {
				st.Delete(string(e.k))
			} else {
				st.Set(string(e.k), e.v)
			}
		}
	case "dbsave":
		d, err := db.NewDatabase(args[1])
		if err != nil {
			os.Exit(3)
		}
		for _, e := range parseKVs(args[2]) {
			if e.del {
				if ent, err := d.EntityWithName(string(e.k)); err == nil {
					d.DeleteEntity(ent)
				}
			} else {
				d.SaveEntity(db.NewEntity(string(e.k), e.v, privOf(e.v)))
			}
		}
	case "cfg":
		startTransport(args[1], args[2])
	case "cfgset":
		// NewIPTransport on <dir> with the accessory set <struct> (the C20 structure language); killed at a crash point
		accs, err := buildSet(args[2])
		if err != nil {
			os.Exit(5)
		}
		if _, err := hc.NewIPTransport(hc.Config{StoragePath: args[1]}, accs[0], accs[1:]...); err != nil {
			os.Exit(4)
		}
	}
	os.Exit(0)
}

func startTransport(dir, structure string) {
	info := accessory.Info{Name: "Verif", SerialNumber: "1", Manufacturer: "m", Model: "x", FirmwareRevision: "1"}
	var a *accessory.Accessory
	if structure == "2" {
		a = accessory.NewSwitch(info).Accessory
	} else {
		a = accessory.NewOutlet(info).Accessory
	}
	_, err := hc.NewIPTransport(hc.Config{StoragePath: dir}, a)
	if err != nil {
		os.Exit(4)
	}
}

func runChild(crash int, args ...string) string {
	cmd := exec.Command(os.Args[0], append([]string{"crashchild"}, args...)...)
	cmd.Env = append(os.Environ(), "HC_VERIF_CRASH="+strconv.Itoa(crash))
	err := cmd.Run()
	if err == nil {
		return "exit0"
	}
	if ee, ok := err.(*exec.ExitError); ok {
		if ee.ProcessState != nil && !ee.ProcessState.Exited() {
			return "killed"
		}
		return fmt.Sprintf("exit%d", ee.ExitCode())
	}
	return "spawn-error"
}

func readAll(dir string, keys [][]byte) string {
	st, _ := util.NewFileStorage(dir)
	seen := map[string]bool{}
	var out []string
	for _, k := range keys {
		h := hx(k)
		if seen[h] {
			continue
		}
		seen[h] = true
		b, err := st.Get(string(k))
		if err != nil {
			out = append(out, h+"=nf")
		} else {
			out = append(out, h+"="+hx(b))
		}
	}
	sort.Strings(out)
	return strings.Join(out, " ")
}

func copyDir(src, dst string) {
	os.MkdirAll(dst, 0755)
	fis, _ := ioutil.ReadDir(src)
	for _, fi := range fis {
		b, _ := ioutil.ReadFile(filepath.Join(src, fi.Name()))
		ioutil.WriteFile(filepath.Join(dst, fi.Name()), b, 0644)
	}
}

// case: crash <olds> <sets> <i> <g>       plain storage Sets, child killed at global crash point g
//       crashdb <olds> <sets> <i> <g>     the same through SaveEntity (key = entity name, value = public key)
//       crashcfg <g>                      restart with a structurally different accessory, killed at g
func runCrash(id string, toks []string) (res string) {
	defer func() {
		if r := recover(); r != nil {
			res = fmt.Sprint("panic ", r)
		}
	}()
	dir := tempDir()
	defer os.RemoveAll(dir)
	switch toks[0] {
	case "crash":
		olds, sets := parseKVs(toks[1]), parseKVs(toks[2])
		st, _ := util.NewFileStorage(dir)
		var keys [][]byte
		for _, e := range olds {
			st.Set(string(e.k), e.v)
			keys = append(keys, e.k)
		}
		for _, e := range sets {
			keys = append(keys, e.k)
		}
		how := runChild(atoi(toks[4]), "sets", dir, toks[2])
		if how != "killed" && how != "exit0" {
			return "child-" + how
		}
		if len(toks) > 5 {
			// after the restart the application writes again (a leftover of the interrupted write must not matter)
			st2, _ := util.NewFileStorage(dir)
			for _, e := range parseKVs(toks[5]) {
				st2.Set(string(e.k), e.v)
				keys = append(keys, e.k)
			}
		}
		return readAll(dir, keys)
	case "crashdb":
		olds, sets := parseKVs(toks[1]), parseKVs(toks[2])
		d, _ := db.NewDatabase(dir)
		var names [][]byte
		for _, e := range olds {
			d.SaveEntity(db.NewEntity(string(e.k), e.v, privOf(e.v)))
			names = append(names, e.k)
		}
		for _, e := range sets {
			names = append(names, e.k)
		}
		how := runChild(atoi(toks[4]), "dbsave", dir, toks[2])
		if how != "killed" && how != "exit0" {
			return "child-" + how
		}
		d2, _ := db.NewDatabase(dir)
		seen := map[string]bool{}
		var out []string
		for _, n := range names {
			if seen[hx(n)] {
				continue
			}
			seen[hx(n)] = true
			e, err := d2.EntityWithName(string(n))
			if err != nil {
				// distinguish "absent" from "present but unreadable"
				if _, err2 := os.Stat(filepath.Join(dir, hx(n)+".entity")); err2 == nil {
					out = append(out, hx(n)+"=corrupt")
				} else {
					out = append(out, hx(n)+"=nf")
				}
			} else {
				v := hx(e.PublicKey)
				if !bytes.Equal(e.PrivateKey, privOf(e.PublicKey)) {
					// every entity was saved with the private key that belongs to its public key: anything else is a mixture
					v += "!priv=" + hx(e.PrivateKey)
				}
				out = append(out, hx(n)+"="+v)
			}
		}
		es, err := d2.Entities()
		if err != nil {
			out = append(out, "list=err")
		} else {
			out = append(out, fmt.Sprintf("list=%d", len(es)))
		}
		sort.Strings(out)
		return strings.Join(out, " ")
	case "crashcfg":
		if how := runChild(-1, "cfg", dir, "1"); how != "exit0" {
			return "child-first-" + how
		}
		keys := [][]byte{[]byte("uuid"), []byte("version"), []byte("configHash")}
		old := readAll(dir, keys)
		dir2 := tempDir()
		defer os.RemoveAll(dir2)
		copyDir(dir, dir2)
		if how := runChild(-1, "cfg", dir2, "2"); how != "exit0" {
			return "child-second-" + how
		}
		nw := readAll(dir2, keys)
		how := runChild(atoi(toks[1]), "cfg", dir, "2")
		if how != "killed" && how != "exit0" {
			return "child-" + how
		}
		got := readAll(dir, keys)
		o, n, g := strings.Split(old, " "), strings.Split(nw, " "), strings.Split(got, " ")
		var out []string
		for i := range g {
			lbl := "other:" + g[i]
			if g[i] == o[i] && g[i] == n[i] {
				lbl = "same"
			} else if g[i] == o[i] {
				lbl = "old"
			} else if g[i] == n[i] {
				lbl = "new"
			}
			out = append(out, strings.SplitN(g[i], "=", 2)[0]+"="+lbl)
		}
		// the pairing database must still be readable and hold the accessory's own entity
		d2, _ := db.NewDatabase(dir)
		es, err := d2.Entities()
		if err != nil {
			out = append(out, "entities=err")
		} else {
			out = append(out, fmt.Sprintf("entities=%d", len(es)))
		}
		return how + " " + strings.Join(out, " ")
	case "setonce":
		// used under strace (T3): one Set into an existing directory
		st, _ := util.NewFileStorage(toks[1])
		st.Set(string(unhex(toks[2])), unhex(toks[3]))
		return "done"
	}
	return "badcase"
}

func atoi(s string) int {
	n, _ := strconv.Atoi(s)
	return n
}

// privOf: the private key the crash scenarios store with a public key (so that a mixture of two saves shows)
func privOf(pub []byte) []byte { return append([]byte("private-key-of:"), pub...) }
