package main

import (
	"bytes"
	"encoding/json"
	"fmt"
	nethttp "net/http"
	"os"
	"strconv"
	"strings"

	"github.com/brutella/hc"
	"github.com/brutella/hc/accessory"
	"github.com/brutella/hc/characteristic"
	haphttp "github.com/brutella/hc/hap/http"
	"github.com/brutella/hc/service"
)

func init() { families["ids"] = runIDs }

// buildIDAcc builds one accessory from <eid>:<svc>[+h][+p][~k|~!][^k],...
func buildIDAcc(ai int, spec string) (*accessory.Accessory, string) {
	p := strings.SplitN(spec, ":", 2)
	early := strings.HasPrefix(p[0], "@") // the application encodes the accessory (a debug dump) before it is added anywhere
	p[0] = strings.TrimPrefix(p[0], "@")
	eid, _ := strconv.ParseUint(p[0], 10, 64)
	a := accessory.New(accessory.Info{Name: fmt.Sprintf("acc%d", ai), ID: eid}, accessory.TypeOther)
	var svcs []*service.Service
	var late [][2]int
	for _, typ := range []string{"000000B7-0000-1000-8000-0026BB765291", "00000049-0000-1000-8000-0026BB765291", "F0000001-0000-1000-8000-0026BB765291", "B7"} {
		if got := service.New(typ).Type; got != typ {
			return nil, "service-constructed-with-type " + typ + " carries-type " + got
		}
	}
	if len(p) > 1 && p[1] != "" {
		for _, ss := range strings.Split(p[1], ",") {
			name := ss
			hidden, primary, link := false, false, -1
			if i := strings.Index(name, "^"); i >= 0 {
				// ^k : k optional characteristics are added to this service AFTER all services were added
				j := i + 1
				for j < len(name) && name[j] >= '0' && name[j] <= '9' {
					j++
				}
				k, _ := strconv.Atoi(name[i+1 : j])
				late = append(late, [2]int{len(svcs), k})
				name = name[:i] + name[j:]
			}
			linkOnly := false
			if i := strings.Index(name, "~!"); i >= 0 {
				// linked to a service that is never added to the accessory (its id stays 0; the ids of the others
				// must still be the same on every build)
				linkOnly = true
				name = name[:i]
			} else if i := strings.Index(name, "~"); i >= 0 {
				link, _ = strconv.Atoi(name[i+1:])
				name = name[:i]
			}
			for strings.Contains(name, "+") {
				i := strings.LastIndex(name, "+")
				switch name[i+1:] {
				case "h":
					hidden = true
				case "p":
					primary = true
				}
				name = name[:i]
			}
			f, ok := svcRegistry[name]
			if !ok {
				return nil, "unknown-service " + name
			}
			s := f()
			s.Hidden, s.Primary = hidden, primary
			if link >= 0 && link < len(svcs) {
				s.AddLinkedService(svcs[link])
			}
			if linkOnly {
				s.AddLinkedService(svcRegistry["NewBatteryService"]())
				s.AddLinkedService(svcRegistry["NewSpeaker"]())
				s.AddLinkedService(svcRegistry["NewLightbulb"]())
			}
			svcs = append(svcs, s)
			a.AddService(s)
		}
	}
	for _, l := range late {
		for q := 0; q < l[1]; q++ {
			// a vendor type, or (every other one) a type in the long form the specification prints Apple-defined types in
			typ := fmt.Sprintf("F00000%02d-0000-1000-8000-0026BB765291", q)
			if q%2 == 1 {
				typ = fmt.Sprintf("000000%02X-0000-1000-8000-0026BB765291", 0xB0+q)
			}
			c := characteristic.NewString(typ)
			if c.Type != typ {
				return nil, "constructed-with-type " + typ + " carries-type " + c.Type
			}
			c.Perms = []string{characteristic.PermRead}
			svcs[l[0]].AddCharacteristic(c.Characteristic)
		}
	}
	if early {
		json.Marshal(a)
		for _, sv := range a.Services {
			json.Marshal(sv)
		}
	}
	return a, ""
}

// case: ids <eid>:<svc>[+h][+p][~k],<svc>... ; <eid>:...      (accessories separated by ';', no spaces)
// every accessory is built with accessory.New (information service first), then the listed services are added in
// order, then the accessory is added to a container. Observed: the ids in the Go objects and, independently, the
// ids found by walking the generic JSON of the container.
func runIDs(id string, toks []string) (res string) {
	defer func() {
		if r := recover(); r != nil {
			res = fmt.Sprint("panic ", r)
		}
	}()
	if toks[0] == "idst" {
		return runIDsTransport(toks[1], toks[2])
	}
	if toks[0] == "served" || toks[0] == "servedpad" {
		return runServed(toks[1], toks[0] == "servedpad")
	}
	cont := accessory.NewContainer()
	var out []string
	var objs []*accessory.Accessory
	for ai, spec := range strings.Split(toks[1], ";") {
		if strings.HasPrefix(spec, "-") {
			// -k : RemoveAccessory of the k-th accessory OBJECT built so far (a member or one that was refused)
			k, _ := strconv.Atoi(spec[1:])
			if k < len(objs) {
				cont.RemoveAccessory(objs[k])
			}
			objs = append(objs, nil)
			out = append(out, fmt.Sprintf("a%d=rm", ai))
			continue
		}
		a, bad := buildIDAcc(ai, spec)
		if a == nil {
			return bad
		}
		objs = append(objs, a)
		if err := cont.AddAccessory(a); err != nil {
			out = append(out, fmt.Sprintf("a%d=rej", ai))
			continue
		}
		var ids []string
		for _, s := range a.Services {
			ids = append(ids, fmt.Sprint(s.ID))
			for _, c := range s.Characteristics {
				ids = append(ids, fmt.Sprint(c.ID))
			}
		}
		out = append(out, fmt.Sprintf("a%d=%d:%s", ai, a.ID, strings.Join(ids, ",")))
	}
	// the JSON the controllers get
	b, err := json.Marshal(cont)
	if err != nil {
		return strings.Join(out, " ") + " json=err"
	}
	// which service / characteristic TYPE has which id, and which ids are linked (compared between two builds)
	var sig []string
	for _, a := range cont.Accessories {
		for _, sv := range a.Services {
			var l []string
			for _, x := range sv.Linked {
				l = append(l, fmt.Sprint(x.ID))
			}
			sig = append(sig, fmt.Sprintf("%d.%s=%d>%s", a.ID, sv.Type, sv.ID, strings.Join(l, "+")))
			for _, ch := range sv.Characteristics {
				sig = append(sig, fmt.Sprintf("%d.%s=%d", a.ID, ch.Type, ch.ID))
			}
		}
	}
	out = append(out, "sig="+strings.Join(sig, ","))
	var g map[string]interface{}
	json.Unmarshal(b, &g)
	wf := "ok"
	bad := func(s string) {
		if wf == "ok" {
			wf = s
		}
	}
	var js []string
	accs, _ := g["accessories"].([]interface{})
	if accs == nil {
		bad("no-accessories-member")
	}
	// accessory ids are 64-bit: read them as number literals, not through float64
	var exact struct {
		Accessories []struct {
			Aid json.Number `json:"aid"`
		} `json:"accessories"`
	}
	json.Unmarshal(b, &exact)
	for ai, av := range accs {
		am, _ := av.(map[string]interface{})
		_, ok := am["aid"].(float64)
		if !ok {
			bad("accessory-without-aid")
		}
		aid := "?"
		if ai < len(exact.Accessories) {
			aid = exact.Accessories[ai].Aid.String()
		}
		var ids []string
		svs, _ := am["services"].([]interface{})
		if svs == nil {
			bad("accessory-without-services")
		}
		for _, sv := range svs {
			sm, _ := sv.(map[string]interface{})
			if _, ok := sm["iid"].(float64); !ok {
				bad("service-without-iid")
			}
			if t, ok := sm["type"].(string); !ok || t == "" {
				bad("service-without-type")
			}
			ids = append(ids, fmt.Sprint(sm["iid"]))
			if l, ok := sm["linked"].([]interface{}); ok {
				for _, x := range l {
					if f, ok := x.(float64); !ok || (f == 0 && !strings.Contains(toks[1], "~!")) {
						bad("linked-service-id-zero")
					}
				}
			}
			cs, _ := sm["characteristics"].([]interface{})
			if cs == nil {
				bad("service-without-characteristics")
			}
			for _, cv := range cs {
				cm, _ := cv.(map[string]interface{})
				if _, ok := cm["iid"].(float64); !ok {
					bad("characteristic-without-iid")
				}
				if t, ok := cm["type"].(string); !ok || t == "" {
					bad("characteristic-without-type")
				}
				if f, ok := cm["format"].(string); !ok || f == "" {
					bad("characteristic-without-format")
				}
				ps, ok := cm["perms"].([]interface{})
				if !ok || len(ps) == 0 {
					bad("characteristic-without-perms")
				}
				for _, pv := range ps {
					switch pv {
					case "pr", "pw", "ev", "hd", "wr", "aa", "tw":
					default:
						bad(fmt.Sprint("invalid-perm-", pv))
					}
				}
				ids = append(ids, fmt.Sprint(cm["iid"]))
			}
		}
		js = append(js, fmt.Sprintf("%s:%s", aid, strings.Join(ids, ",")))
	}
	return strings.Join(out, " ") + " json=" + strings.Join(js, ";") + " wf=" + wf
}

// case: idst <spec> fresh|retry|retry2
// The same accessory objects handed to hc.NewIPTransport: directly (fresh), or after one (retry) or two (retry2)
// attempts that failed (a setup code the library refuses); observed: the ids the objects have once the transport exists.
func runIDsTransport(spec, mode string) (res string) {
	defer func() {
		if r := recover(); r != nil {
			res = fmt.Sprint("panic ", r)
		}
	}()
	var objs []*accessory.Accessory
	for ai, sp := range strings.Split(spec, ";") {
		a, bad := buildIDAcc(ai, sp)
		if a == nil {
			return bad
		}
		objs = append(objs, a)
	}
	dir := tempDir()
	defer os.RemoveAll(dir)
	fails := map[string]int{"fresh": 0, "retry": 1, "retry2": 2}[mode]
	for i := 0; i < fails; i++ {
		pin := []string{"12345678", "1234"}[i%2]
		if _, err := hc.NewIPTransport(hc.Config{Pin: pin, StoragePath: dir}, objs[0], objs[1:]...); err == nil {
			return "the-refused-setup-code-was-accepted"
		}
	}
	t, err := hc.NewIPTransport(hc.Config{Pin: "00102003", StoragePath: dir}, objs[0], objs[1:]...)
	if err != nil {
		return "transport-error " + err.Error()
	}
	_ = t
	var out []string
	for ai, a := range objs {
		var ids []string
		for _, s := range a.Services {
			ids = append(ids, fmt.Sprint(s.ID))
			for _, c := range s.Characteristics {
				ids = append(ids, fmt.Sprint(c.ID))
			}
		}
		out = append(out, fmt.Sprintf("a%d=%d:%s", ai, a.ID, strings.Join(ids, ",")))
	}
	return strings.Join(out, " ")
}

// case: served <spec>
// The attribute database written to controller A in chunks while, between two chunks (A's socket write blocks), another
// JSON answer is encoded and written to controller B by the same scheduler thread: both must receive exactly their own
// encoding.
type chunkHook struct {
	buf   bytes.Buffer
	hdr   nethttp.Header
	calls int
	hook  func()
}

func (w *chunkHook) Header() nethttp.Header { return w.hdr }
func (w *chunkHook) WriteHeader(int)        {}
func (w *chunkHook) Write(p []byte) (int, error) {
	w.calls++
	n, _ := w.buf.Write(p)
	if w.calls == 1 && w.hook != nil {
		w.hook()
	}
	return n, nil
}

func runServed(spec string, pad bool) (res string) {
	defer func() {
		if r := recover(); r != nil {
			res = fmt.Sprint("panic ", r)
		}
	}()
	cont := accessory.NewContainer()
	for ai, sp := range strings.Split(spec, ";") {
		a, bad := buildIDAcc(ai, sp)
		if a == nil {
			return bad
		}
		cont.AddAccessory(a)
	}
	wantA, err := haphttp.JSONEncode(cont)
	if err != nil {
		return "served=unencodable"
	}
	if pad && len(cont.Accessories) > 0 {
		// the name of the first accessory is lengthened until the encoded database is an exact multiple of the chunk size
		nm := cont.Accessories[0].Info.Name
		for k := 0; k < 3 && wantA.Len()%2048 != 0; k++ {
			nm.SetValue(nm.GetValue() + strings.Repeat("x", 2048-wantA.Len()%2048))
			if wantA, err = haphttp.JSONEncode(cont); err != nil {
				return "served=unencodable"
			}
		}
		if wantA.Len()%2048 != 0 {
			return "served=could-not-pad"
		}
	}
	expA := append([]byte(nil), wantA.Bytes()...)
	// the other answer: longer than what A has been sent so far
	other := map[string]interface{}{"characteristics": make([]map[string]interface{}, 0)}
	for i := 0; i < 400; i++ {
		other["characteristics"] = append(other["characteristics"].([]map[string]interface{}), map[string]interface{}{"aid": i, "iid": 9, "value": "other-controller"})
	}
	wantB, _ := haphttp.JSONEncode(other)
	expB := append([]byte(nil), wantB.Bytes()...)
	req, _ := nethttp.NewRequest("GET", "/accessories", nil)
	wB := &chunkHook{hdr: nethttp.Header{}}
	wA := &chunkHook{hdr: nethttp.Header{}}
	wA.hook = func() { haphttp.WriteJSON(wB, req, other) }
	haphttp.WriteJSON(wA, req, cont)
	out := fmt.Sprintf("served=%dB/%dchunks", len(expA), wA.calls)
	if !bytes.Equal(wA.buf.Bytes(), expA) {
		i := 0
		for i < len(expA) && i < wA.buf.Len() && expA[i] == wA.buf.Bytes()[i] {
			i++
		}
		out += fmt.Sprintf(" A=differs@%d", i)
	} else {
		out += " A=own"
	}
	if !bytes.Equal(wB.buf.Bytes(), expB) {
		out += " B=differs"
	} else {
		out += " B=own"
	}
	return out
}
