package main

import (
	"bytes"
	"encoding/json"
	"fmt"
	"io/ioutil"
	"os"
	"path/filepath"
	"sort"
	"strconv"
	"strings"
	"time"

	"github.com/brutella/hc"
	"github.com/brutella/hc/accessory"
	"github.com/brutella/hc/characteristic"
	"github.com/brutella/hc/db"
	hclog "github.com/brutella/hc/log"
	"github.com/brutella/hc/util"
)

func init() { families["config"] = runConfig }

// ---- accessory sets from a structure spec ----
// <struct> = <acc>,<acc>,...   <acc> = <kind><mod digits>
//   kinds: b bridge, l lightbulb, s switch, t thermostat, o outlet
//   mods (each one is a change of the structure of the attribute database):
//     1 an extra battery service        2 "ev" permission removed from the first characteristic of the main service
//     3 a description on that characteristic   4 a unit on it     5 explicit accessory id 40+index
//     6 main service hidden             7 max value 7 on that characteristic   8 an extra custom characteristic
//     9 an extra readable custom characteristic WITHOUT a value (its value, set by vals i.z.n, is not structure)
func buildSet(spec string) ([]*accessory.Accessory, error) {
	var accs []*accessory.Accessory
	for i, a := range strings.Split(spec, ",") {
		if a == "" {
			return nil, fmt.Errorf("empty accessory spec")
		}
		info := accessory.Info{Name: fmt.Sprintf("Acc%d", i), SerialNumber: fmt.Sprintf("SN%d", i), Manufacturer: "verif", Model: "m"}
		if strings.Contains(a[1:], "5") {
			info.ID = uint64(40 + i)
		}
		// explicit accessory ids beyond 2^53 (x: 2^53 + 2i, y: 2^53 + 2i + 1; ids are 64-bit): neighbours must stay different structures
		if strings.Contains(a[1:], "x") {
			info.ID = uint64(9007199254740992 + 2*i)
		}
		if strings.Contains(a[1:], "y") {
			info.ID = uint64(9007199254740993 + 2*i)
		}
		var acc *accessory.Accessory
		switch a[0] {
		case 'b':
			acc = accessory.NewBridge(info).Accessory
		case 'l':
			acc = accessory.NewLightbulb(info).Accessory
		case 's':
			acc = accessory.NewSwitch(info).Accessory
		case 't':
			acc = accessory.NewThermostat(info, 20, 10, 38, 0.5).Accessory
		case 'o':
			acc = accessory.NewOutlet(info).Accessory
		default:
			return nil, fmt.Errorf("unknown kind %q", a)
		}
		main := acc.Services[len(acc.Services)-1]
		first := main.Characteristics[0]
		for _, m := range a[1:] {
			switch m {
			case '1':
				acc.AddService(svcRegistry["NewBatteryService"]())
			case '2':
				var p []string
				for _, x := range first.Perms {
					if x != characteristic.PermEvents {
						p = append(p, x)
					}
				}
				first.Perms = p
			case '3':
				first.Description = "described"
			case '4':
				first.Unit = characteristic.UnitPercentage
			case '5', 'x', 'y':
			case '6':
				main.Hidden = true
			case '7':
				first.MaxValue = 7
			case '8':
				c := characteristic.NewString("F0000009-0000-1000-8000-0026BB765291")
				c.Value = "custom"
				main.AddCharacteristic(c.Characteristic)
			case '9':
				// a readable custom characteristic the application has not given a value yet (vals "i.z.n" gives it one)
				c := characteristic.NewString("F000000A-0000-1000-8000-0026BB765291")
				c.Perms = characteristic.PermsRead()
				main.AddCharacteristic(c.Characteristic)
			default:
				return nil, fmt.Errorf("unknown mod %q", a)
			}
		}
		accs = append(accs, acc)
	}
	return accs, nil
}

// <vals> = "-" | i.j.n,...   set the j-th characteristic (in construction order) of accessory i to a value derived from n
func applyVals(accs []*accessory.Accessory, vals string) {
	if vals == "-" || vals == "" {
		return
	}
	for _, v := range strings.Split(vals, ",") {
		p := strings.Split(v, ".")
		if len(p) != 3 {
			continue
		}
		i, _ := strconv.Atoi(p[0])
		j, _ := strconv.Atoi(p[1])
		n, _ := strconv.Atoi(p[2])
		if i >= len(accs) {
			continue
		}
		var cs []*characteristic.Characteristic
		for _, s := range accs[i].Services {
			cs = append(cs, s.Characteristics...)
		}
		c := cs[j%len(cs)]
		if p[1] == "z" { // the last characteristic of the accessory (the custom one of mods 8 / 9)
			c = cs[len(cs)-1]
		}
		switch c.Format {
		case characteristic.FormatBool:
			c.UpdateValue(n%2 == 1)
		case characteristic.FormatFloat:
			c.UpdateValue(float64(n) / 2)
		case characteristic.FormatString:
			c.UpdateValue(fmt.Sprintf("v%d", n))
		case characteristic.FormatTLV8, characteristic.FormatData:
			c.UpdateValue([]byte{byte(n)})
		default:
			c.UpdateValue(n)
		}
	}
}

// ---- a JSON document as a tree in prefix notation (member order and number literals preserved) ----
//   n | t | f | #<hex literal>; | s<hex>; | a<count>;<elem>... | o<count>;(<hexkey>;<value>)...
func treeOf(b []byte) (string, error) {
	dec := json.NewDecoder(bytes.NewReader(b))
	dec.UseNumber()
	var value func() (string, error)
	value = func() (string, error) {
		tok, err := dec.Token()
		if err != nil {
			return "", err
		}
		switch x := tok.(type) {
		case nil:
			return "n", nil
		case bool:
			if x {
				return "t", nil
			}
			return "f", nil
		case json.Number:
			return "#" + hx([]byte(x.String())) + ";", nil
		case string:
			return "s" + hx([]byte(x)) + ";", nil
		case json.Delim:
			var parts []string
			n := 0
			for dec.More() {
				if x == '{' {
					k, err := dec.Token()
					if err != nil {
						return "", err
					}
					parts = append(parts, hx([]byte(k.(string)))+";")
				}
				v, err := value()
				if err != nil {
					return "", err
				}
				parts = append(parts, v)
				n++
			}
			if _, err := dec.Token(); err != nil {
				return "", err
			}
			kind := "a"
			if x == '{' {
				kind = "o"
			}
			return fmt.Sprintf("%s%d;", kind, n) + strings.Join(parts, ""), nil
		}
		return "", fmt.Errorf("unexpected token")
	}
	return value()
}

func containerOf(structSpec, vals string) (*accessory.Container, error) {
	accs, err := buildSet(structSpec)
	if err != nil {
		return nil, err
	}
	applyVals(accs, vals)
	c := accessory.NewContainer()
	for _, a := range accs {
		if err := c.AddAccessory(a); err != nil {
			return nil, err
		}
	}
	return c, nil
}

func unhexOpt(s string) []byte {
	if s == "-" || s == "" {
		return nil
	}
	return unhex(s)
}

// ---- the family ----
func runConfig(id string, toks []string) (res string) {
	defer func() {
		if r := recover(); r != nil {
			res = fmt.Sprint("panic ", r)
		}
	}()
	hclog.Info.SetOutput(ioutil.Discard)
	switch toks[0] {
	case "pin":
		f, err := hc.ValidatePin(string(unhexOpt(toks[1])))
		if err != nil {
			return "err"
		}
		return "ok:" + hx([]byte(f))
	case "xhm":
		cat, _ := strconv.Atoi(toks[3])
		var flags []util.SetupFlag
		if toks[4] != "-" {
			for _, f := range strings.Split(toks[4], ",") {
				n, _ := strconv.Atoi(f)
				flags = append(flags, util.SetupFlag(n))
			}
		}
		u, err := util.XHMURI(string(unhexOpt(toks[1])), string(unhexOpt(toks[2])), uint8(cat), flags)
		if err != nil {
			return "err"
		}
		return "ok:" + hx([]byte(u))
	case "json":
		// json <structA>:<valsA> <structB>:<valsB>
		var trees []string
		var hashes [][]byte
		for _, t := range toks[1:3] {
			p := strings.SplitN(t, ":", 2)
			c, err := containerOf(p[0], p[1])
			if err != nil {
				return "builderr " + err.Error()
			}
			b, err := json.Marshal(c)
			if err != nil {
				return "marshalerr"
			}
			tr, err := treeOf(b)
			if err != nil {
				return "treeerr " + err.Error()
			}
			trees = append(trees, tr)
			hashes = append(hashes, c.ContentHash())
		}
		eq := 0
		if bytes.Equal(hashes[0], hashes[1]) {
			eq = 1
		}
		return fmt.Sprintf("eq=%d %s %s", eq, trees[0], trees[1])
	case "sweep":
		// sweep <lo> <hi>: EVERY eight-digit code in [lo, hi) through ValidatePin and util.XHMURI, judged by an
		// independent validator / decoder written here from the property text
		lo, _ := strconv.Atoi(toks[1])
		hi, _ := strconv.Atoi(toks[2])
		acc := 0
		for code := lo; code < hi; code++ {
			s := fmt.Sprintf("%08d", code)
			trivial := s == "12345678" || s == "87654321"
			if !trivial {
				trivial = true
				for i := 1; i < 8; i++ {
					if s[i] != s[0] {
						trivial = false
						break
					}
				}
			}
			f, err := hc.ValidatePin(s)
			if (err == nil) == trivial {
				return fmt.Sprintf("bad-accept %s", s)
			}
			if err == nil {
				acc++
				if f != s[:3]+"-"+s[3:5]+"-"+s[5:] {
					return fmt.Sprintf("bad-format %s", s)
				}
			}
			cat, fl := uint8(code%251), util.SetupFlag(code%16)
			u, err := util.XHMURI(s, "HOME", cat, []util.SetupFlag{fl})
			if err != nil || len(u) != 20 || u[:7] != "X-HM://" || u[16:] != "HOME" {
				return fmt.Sprintf("bad-uri %s", s)
			}
			var pl uint64
			for _, ch := range u[7:16] {
				var d uint64
				switch {
				case ch >= '0' && ch <= '9':
					d = uint64(ch - '0')
				case ch >= 'A' && ch <= 'Z':
					d = uint64(ch-'A') + 10
				default:
					return fmt.Sprintf("bad-digit %s", s)
				}
				pl = pl*36 + d
			}
			if pl&0x7ffffff != uint64(code) || (pl>>27)&0xf != uint64(fl) || (pl>>31)&0xff != uint64(cat) || pl>>39 != 0 {
				return fmt.Sprintf("bad-payload %s", s)
			}
		}
		return fmt.Sprintf("ok n=%d acc=%d", hi-lo, acc)
	case "hist":
		return runHistory(toks[1:])
	}
	return "unknown-subcommand " + toks[0]
}

func runHistory(ops []string) string {
	dir := tempDir()
	defer os.RemoveAll(dir)
	// dirname=<hex>: the storage lives in a sub-directory of that name (Config.StoragePath defaults to the accessory's
	// name, which may contain any character a file name may contain)
	if len(ops) > 0 && strings.HasPrefix(ops[0], "dirname=") {
		dir = filepath.Join(dir, string(unhex(ops[0][8:])))
		if err := os.MkdirAll(dir, 0777); err != nil {
			return "dirname-unusable"
		}
		ops = ops[1:]
	}
	cfg := hc.Config{}
	var w *world
	ids := map[string]*identity{}
	seenID := map[string]int{}
	seenKey := map[string]int{}
	starts := 0
	var out []string
	emit := func(s string) { out = append(out, s) }
	stop := func() {
		if w != nil {
			w.stop()
			w = nil
		}
	}
	defer stop()
	ident := func(name string) *identity {
		if id, ok := ids[name]; ok {
			return id
		}
		id := newIdentity(name)
		ids[name] = id
		return id
	}
	live := func(ctrl, what, other string) string {
		if w == nil {
			return "stopped"
		}
		w.ids = ids
		ident(ctrl)
		if other != "" {
			ident(other)
		}
		cc, err := dial(w.port)
		if err != nil {
			return "noconn"
		}
		cc.frameSize = 1024
		w.conns["k"] = cc
		defer func() { cc.c.Close(); delete(w.conns, "k"); delete(w.setups, "k"); delete(w.verifs, "k"); time.Sleep(15 * time.Millisecond) }()
		if what == "setup" {
			return w.pairSetup("k", ctrl, "ok")
		}
		if r := w.pairVerify("k", ctrl, "ok"); !strings.HasPrefix(r, "V=st2/st4") || strings.Contains(r, "err") {
			_ = r
			return "verify-failed"
		}
		if what == "remove-then-add" {
			// over ONE verified connection: the controller removes its own pairing, then adds <other> (the session outlives
			// the pairing it was verified with)
			r1 := w.httpOp([]string{"R", "k", ctrl, "remove"})
			r2 := w.httpOp([]string{"R", "k", other, "add"})
			return r1 + "/" + strings.TrimPrefix(r2, "R=")
		}
		return w.httpOp([]string{"R", "k", other, what})
	}
	for _, op := range ops {
		p := strings.Split(op, ":")
		switch {
		case strings.HasPrefix(op, "pin="):
			cfg.Pin = op[4:]
		case strings.HasPrefix(op, "sid="):
			cfg.SetupId = string(unhex(op[4:]))
		case p[0] == "S":
			stop()
			accs, err := buildSet(p[1])
			if err != nil {
				emit("S=builderr")
				continue
			}
			applyVals(accs, p[2])
			nw, err := newWorldAt(dir, cfg, accs)
			starts++
			if err != nil {
				emit("S=err")
				continue
			}
			w = nw
			txt := w.t.VerifTxtRecords()
			devid := txt["id"]
			if _, ok := seenID[devid]; !ok {
				seenID[devid] = starts
			}
			key := "nokey"
			if d, err := db.NewDatabase(dir); err == nil {
				if e, err := d.EntityWithName(devid); err == nil {
					key = hx(e.PublicKey) + "/" + hx(e.PrivateKey)
				}
			}
			if _, ok := seenKey[key]; !ok {
				seenKey[key] = starts
			}
			uri, err := w.t.XHMURI()
			if err != nil {
				uri = "err"
			}
			onDisk := func(name string) string {
				b, err := ioutil.ReadFile(filepath.Join(dir, name))
				if err != nil {
					return "?"
				}
				return string(b)
			}
			same := "1"
			if onDisk("uuid") != devid || onDisk("version") != txt["c#"] {
				same = "0"
			}
			emit(fmt.Sprintf("S=id%d,key%d,c%s,sf%s,ci%s,disk%s,x%s", seenID[devid], seenKey[key], txt["c#"], txt["sf"], txt["ci"], same, hx([]byte(uri))))
		case p[0] == "C":
			// C:<g>:<struct>  a start with <struct> in a child process that is killed at global crash point <g>
			stop()
			g, _ := strconv.Atoi(p[1])
			how := runChild(g, "cfgset", dir, p[2])
			if how != "killed" && how != "exit0" {
				emit("C=child-" + how)
			} else {
				emit("C=done")
			}
		case p[0] == "X":
			stop()
		case p[0] == "T":
			if w == nil {
				emit("T=stopped")
			} else {
				txt := w.t.VerifTxtRecords()
				emit(fmt.Sprintf("T=sf%s,c%s", txt["sf"], txt["c#"]))
			}
		case p[0] == "P" || p[0] == "U":
			// offline change of the pairing database (only meaningful while stopped)
			if w != nil {
				emit(p[0] + "=running")
				continue
			}
			d, err := db.NewDatabase(dir)
			if err != nil {
				emit(p[0] + "=dberr")
				continue
			}
			idn := ident(p[1])
			if p[0] == "P" {
				d.SaveEntity(db.NewEntity(idn.name, idn.pub, nil))
			} else {
				d.DeleteEntity(db.NewEntity(idn.name, idn.pub, nil))
			}
		case p[0] == "WT":
			ms, _ := strconv.Atoi(p[1])
			time.Sleep(time.Duration(ms) * time.Millisecond)
		case p[0] == "TA":
			// what the mDNS responder holds for the service against what the transport computed
			if w == nil {
				emit("TA=stopped")
				continue
			}
			emit(fmt.Sprintf("TA=sf%s/sf%s", w.t.VerifResponderTxt()["sf"], w.t.VerifTxtRecords()["sf"]))
		case p[0] == "PS":
			emit("PS=" + strings.TrimPrefix(live(p[1], "setup", ""), "S="))
		case p[0] == "PSW":
			// PSW:<ctrl>:<code>  pair-setup by a controller that enters <code> (eight digits), whatever the accessory's code is
			if w == nil {
				emit("PSW=stopped")
				continue
			}
			keep := w.pin
			w.pin = p[2]
			emit("PSW=" + strings.TrimPrefix(live(p[1], "setup", ""), "S="))
			w.pin = keep
		case p[0] == "PSELF":
			// a controller that pairs under the accessory's own device id
			if w == nil {
				emit("PSELF=stopped")
				continue
			}
			emit("PSELF=" + strings.TrimPrefix(live(w.t.VerifTxtRecords()["id"], "setup", ""), "S="))
		case p[0] == "AD":
			emit("AD=" + strings.TrimPrefix(live(p[1], "add", p[2]), "R="))
		case p[0] == "RA":
			emit("RA=" + strings.TrimPrefix(live(p[1], "remove-then-add", p[2]), "R="))
		case p[0] == "RM":
			emit("RM=" + strings.TrimPrefix(live(p[1], "remove", p[2]), "R="))
		case p[0] == "LC":
			// the stored identity is one with lower-case letters (a storage written by other software or by hand): the uuid
			// file and the accessory's own entity are renamed to 3c:a1:0f:7b:e2:d9, the key pair is kept
			if w != nil {
				emit("LC=running")
				continue
			}
			old, err := ioutil.ReadFile(filepath.Join(dir, "uuid"))
			d, err2 := db.NewDatabase(dir)
			if err != nil || err2 != nil {
				emit("LC=nouuid")
				continue
			}
			if e, err := d.EntityWithName(string(old)); err == nil {
				d.DeleteEntity(e)
				e.Name = "3c:a1:0f:7b:e2:d9"
				d.SaveEntity(e)
			}
			ioutil.WriteFile(filepath.Join(dir, "uuid"), []byte("3c:a1:0f:7b:e2:d9"), 0666)
		case p[0] == "D" || p[0] == "Z":
			if w != nil {
				emit(p[0] + "=running")
				continue
			}
			f := filepath.Join(dir, p[1])
			if p[0] == "D" {
				os.Remove(f)
			} else {
				ioutil.WriteFile(f, nil, 0666)
			}
		case p[0] == "E":
			d, err := db.NewDatabase(dir)
			if err != nil {
				emit("E=dberr")
				continue
			}
			es, _ := d.Entities()
			var names []string
			self := ""
			if b, err := ioutil.ReadFile(filepath.Join(dir, "uuid")); err == nil {
				self = string(b)
			}
			for _, e := range es {
				if len(e.PrivateKey) == 0 {
					if e.Name == self {
						names = append(names, "SELF")
					} else {
						names = append(names, e.Name)
					}
				}
			}
			sort.Strings(names)
			emit(fmt.Sprintf("E=%d:%s", len(es)-len(names), strings.Join(names, "+")))
		default:
			emit("badop:" + op)
		}
	}
	return strings.Join(out, " ")
}
