package main

// Reference HomeKit controller, written from the HAP specification on standard primitives only
// (math/big, crypto/sha512, crypto/ed25519, x/crypto curve25519 / chacha20poly1305 / hkdf).
// It never calls hc's client code or hc's crypto wrappers.

import (
	"bufio"
	"bytes"
	"crypto/ed25519"
	"crypto/rand"
	"crypto/sha512"
	"encoding/binary"
	"errors"
	"fmt"
	"io"
	"math/big"
	"net"
	"net/http"
	"strings"
	"time"

	"golang.org/x/crypto/chacha20poly1305"
	"golang.org/x/crypto/curve25519"
	"golang.org/x/crypto/hkdf"
)

// ---- TLV8 (own implementation) ----
type tlvItem struct {
	tag byte
	val []byte
}

func tlvEncode(items []tlvItem) []byte {
	var out []byte
	for _, it := range items {
		v := it.val
		if len(v) == 0 {
			out = append(out, it.tag, 0)
			continue
		}
		for len(v) > 0 {
			n := len(v)
			if n > 255 {
				n = 255
			}
			out = append(out, it.tag, byte(n))
			out = append(out, v[:n]...)
			v = v[n:]
		}
	}
	return out
}

func tlvDecode(b []byte) (map[byte][]byte, bool) {
	m := map[byte][]byte{}
	for len(b) > 0 {
		if len(b) < 2 || len(b) < 2+int(b[1]) {
			return m, false
		}
		m[b[0]] = append(m[b[0]], b[2:2+int(b[1])]...)
		if _, ok := m[b[0]]; !ok {
			m[b[0]] = []byte{}
		}
		b = b[2+int(b[1]):]
	}
	return m, true
}

const (
	tMethod = 0
	tName   = 1
	tSalt   = 2
	tPub    = 3
	tProof  = 4
	tEnc    = 5
	tState  = 6
	tErr    = 7
	tSig    = 10
	tPerm   = 11
)

// ---- SRP-6a, 3072-bit group of RFC 5054 (= RFC 3526 group 15, generator 5), SHA-512 ----
var srpN, srpG = func() (*big.Int, *big.Int) {
	// prime = 2^3072 - 2^3008 - 1 + 2^64 * ( floor(2^2942 * pi) + 1690314 )
	prec := uint(3200)
	one := new(big.Int).Lsh(big.NewInt(1), prec)
	atanInv := func(x int64) *big.Int { // atan(1/x) * 2^prec
		sum := new(big.Int)
		term := new(big.Int).Div(one, big.NewInt(x))
		x2 := big.NewInt(x * x)
		for k := int64(0); term.Sign() != 0; k++ {
			t := new(big.Int).Div(term, big.NewInt(2*k+1))
			if k%2 == 0 {
				sum.Add(sum, t)
			} else {
				sum.Sub(sum, t)
			}
			term.Div(term, x2)
		}
		return sum
	}
	pi := new(big.Int).Mul(atanInv(5), big.NewInt(16))
	pi.Sub(pi, new(big.Int).Mul(atanInv(239), big.NewInt(4)))
	fl := new(big.Int).Rsh(pi, prec-2942) // floor(2^2942 * pi)
	fl.Add(fl, big.NewInt(1690314))
	fl.Lsh(fl, 64)
	n := new(big.Int).Lsh(big.NewInt(1), 3072)
	n.Sub(n, new(big.Int).Lsh(big.NewInt(1), 3008))
	n.Sub(n, big.NewInt(1))
	n.Add(n, fl)
	return n, big.NewInt(5)
}()

func h512(parts ...[]byte) []byte {
	h := sha512.New()
	for _, p := range parts {
		h.Write(p)
	}
	return h.Sum(nil)
}

func pad384(x *big.Int) []byte {
	b := x.Bytes()
	if len(b) >= 384 {
		return b
	}
	return append(make([]byte, 384-len(b)), b...)
}

type srpClient struct {
	a, A *big.Int
	K    []byte
	M1   []byte
}

// srpCompute runs the client side for user "Pair-Setup" and the given password
func srpCompute(password string, salt, Bbytes []byte) *srpClient {
	ab := make([]byte, 32)
	rand.Read(ab)
	return srpComputeWith(new(big.Int).SetBytes(ab), password, salt, Bbytes)
}

// srpComputeWith is srpCompute with the controller's secret exponent given (srp family: the Coq
// model recomputes the exchange from the same secret)
func srpComputeWith(a *big.Int, password string, salt, Bbytes []byte) *srpClient {
	c := &srpClient{}
	c.a = a
	c.A = new(big.Int).Exp(srpG, c.a, srpN)
	B := new(big.Int).SetBytes(Bbytes)
	k := new(big.Int).SetBytes(h512(srpN.Bytes(), pad384(srpG)))
	u := new(big.Int).SetBytes(h512(pad384(c.A), pad384(B)))
	x := new(big.Int).SetBytes(h512(salt, h512([]byte("Pair-Setup"), []byte(":"), []byte(password))))
	// S = (B - k*g^x)^(a + u*x) mod N
	gx := new(big.Int).Exp(srpG, x, srpN)
	base := new(big.Int).Mul(k, gx)
	base.Mod(base, srpN)
	base.Sub(B, base)
	base.Mod(base, srpN)
	exp := new(big.Int).Mul(u, x)
	exp.Add(exp, c.a)
	S := new(big.Int).Exp(base, exp, srpN)
	c.K = h512(S.Bytes())
	hn := new(big.Int).SetBytes(h512(srpN.Bytes()))
	hg := new(big.Int).SetBytes(h512(srpG.Bytes()))
	hng := new(big.Int).Xor(hn, hg)
	c.M1 = h512(hng.Bytes(), h512([]byte("Pair-Setup")), salt, c.A.Bytes(), B.Bytes(), c.K)
	return c
}

func (c *srpClient) expectM2() []byte { return h512(c.A.Bytes(), c.M1, c.K) }

func hk(secret []byte, salt, info string) []byte {
	r := hkdf.New(sha512.New, secret, []byte(salt), []byte(info))
	k := make([]byte, 32)
	io.ReadFull(r, k)
	return k
}

func sealMsg(key []byte, nonce8 string, pt []byte) []byte {
	a, _ := chacha20poly1305.New(key)
	var n [12]byte
	copy(n[4:], nonce8)
	return a.Seal(nil, n[:], pt, nil)
}

func openMsg(key []byte, nonce8 string, ct []byte) ([]byte, bool) {
	a, _ := chacha20poly1305.New(key)
	var n [12]byte
	copy(n[4:], nonce8)
	pt, err := a.Open(nil, n[:], ct, nil)
	return pt, err == nil
}

// ---- a controller identity ----
type identity struct {
	name string
	pub  ed25519.PublicKey
	priv ed25519.PrivateKey
}

func newIdentity(name string) *identity {
	pub, priv, _ := ed25519.GenerateKey(rand.Reader)
	return &identity{name, pub, priv}
}

// ---- a connection to the accessory: plain HTTP until verified, framed afterwards ----
type ctlConn struct {
	tail      []byte // appended once to the next plaintext request (see INJ)
	bareLF    bool   // header lines of plaintext requests end with "\n" instead of "\r\n" (net/http accepts both)
	teBoth    bool   // the next plaintext request is sent chunked AND with a Content-Length that also covers cc.tail (see INJ)
	c         net.Conn
	br        *bufio.Reader // plaintext view (decrypting when secured)
	secured   bool
	wkey      []byte // controller -> accessory ("Control-Write-Encryption-Key")
	rkey      []byte
	wctr      uint64
	rctr      uint64
	raw       *bufio.Reader
	events    []string
	dead      bool
	frameSize int
	writeSeg  int
	readDelay time.Duration // a slow reader: wait this long after sending a request before reading the answer
}

func dial(port int) (*ctlConn, error) {
	c, err := net.DialTimeout("tcp", fmt.Sprintf("127.0.0.1:%d", port), 2*time.Second)
	if err != nil {
		return nil, err
	}
	cc := &ctlConn{c: c}
	cc.raw = bufio.NewReader(c)
	cc.br = cc.raw
	return cc, nil
}

type frameReader struct{ cc *ctlConn }

func (f frameReader) Read(p []byte) (int, error) {
	cc := f.cc
	var hdr [2]byte
	if _, err := io.ReadFull(cc.raw, hdr[:]); err != nil {
		return 0, err
	}
	n := int(binary.LittleEndian.Uint16(hdr[:]))
	buf := make([]byte, n+16)
	if _, err := io.ReadFull(cc.raw, buf); err != nil {
		return 0, err
	}
	a, _ := chacha20poly1305.New(cc.rkey)
	var nonce [12]byte
	binary.LittleEndian.PutUint64(nonce[4:], cc.rctr)
	cc.rctr++
	pt, err := a.Open(nil, nonce[:], buf, hdr[:])
	if err != nil {
		return 0, errors.New("accessory frame does not verify under the specification's keys/nonce")
	}
	if len(pt) > len(p) {
		panic("frame larger than read buffer")
	}
	return copy(p, pt), nil
}

func (cc *ctlConn) secure(shared []byte) {
	cc.wkey = hk(shared, "Control-Salt", "Control-Write-Encryption-Key")
	cc.rkey = hk(shared, "Control-Salt", "Control-Read-Encryption-Key")
	cc.secured = true
	cc.wctr, cc.rctr = 0, 0
	cc.br = bufio.NewReaderSize(frameReader{cc}, 4096)
}

// writeSeg puts the bytes on the socket, in TCP segments of at most cc.writeSeg bytes when that is set
// (TCP_NODELAY is Go's default, a short pause lets each piece leave on its own)
func (cc *ctlConn) writeOut(b []byte) error {
	if cc.writeSeg <= 0 {
		_, err := cc.c.Write(b)
		return err
	}
	for len(b) > 0 {
		n := len(b)
		if n > cc.writeSeg {
			n = cc.writeSeg
		}
		if _, err := cc.c.Write(b[:n]); err != nil {
			return err
		}
		b = b[n:]
		if len(b) > 0 {
			time.Sleep(1500 * time.Microsecond)
		}
	}
	return nil
}

func (cc *ctlConn) send(b []byte) error {
	cc.c.SetWriteDeadline(time.Now().Add(3 * time.Second))
	if !cc.secured {
		return cc.writeOut(b)
	}
	// a controller may cut a message into frames of any size up to 1024 bytes
	fsz := cc.frameSize
	if fsz <= 0 || fsz > 1024 {
		fsz = 1024
	}
	var out []byte
	for len(b) > 0 {
		n := len(b)
		if n > fsz {
			n = fsz
		}
		out = append(out, refSealFrames(cc.wkey, cc.wctr, b[:n])...)
		cc.wctr++
		b = b[n:]
	}
	return cc.writeOut(out)
}

type httpResp struct {
	status int
	ctype  string
	body   []byte
}

// request sends one HTTP request and reads messages until the response arrives; EVENT messages that precede it
// are collected in cc.events
func (cc *ctlConn) request(method, path, ctype string, body []byte) (*httpResp, error) {
	var b bytes.Buffer
	fmt.Fprintf(&b, "%s %s HTTP/1.1\r\nHost: hc.local\r\n", method, path)
	if body != nil {
		fmt.Fprintf(&b, "Content-Type: %s\r\nContent-Length: %d\r\n", ctype, len(body))
	}
	b.WriteString("\r\n")
	if cc.bareLF && !cc.secured {
		h := strings.Replace(b.String(), "\r\n", "\n", -1)
		b.Reset()
		b.WriteString(h)
	}
	b.Write(body)
	if cc.teBoth && !cc.secured && body != nil {
		// the same request re-framed by somebody on the path: chunked transfer encoding (which net/http goes by) and a
		// Content-Length (which it ignores then) that reaches to the end of what is put behind the request
		chunked := fmt.Sprintf("%x\r\n%s\r\n0\r\n\r\n", len(body), body)
		b.Reset()
		fmt.Fprintf(&b, "%s %s HTTP/1.1\r\nHost: hc.local\r\nContent-Type: %s\r\nTransfer-Encoding: chunked\r\nContent-Length: %d\r\n\r\n%s", method, path, ctype, len(chunked)+len(cc.tail), chunked)
		cc.teBoth = false
	}
	if cc.tail != nil && !cc.secured {
		// bytes somebody on the path puts behind this request, in the same segment
		b.Write(cc.tail)
		cc.tail = nil
	}
	if err := cc.send(b.Bytes()); err != nil {
		cc.dead = true
		return nil, err
	}
	if cc.readDelay > 0 {
		time.Sleep(cc.readDelay)
	}
	for {
		r, isEvent, err := cc.readMessage(method)
		if err != nil {
			cc.dead = true
			return nil, err
		}
		if isEvent {
			cc.events = append(cc.events, string(r.body))
			continue
		}
		return r, nil
	}
}

// requestSplit is request with the body sent separately from the headers; between runs after the headers are on the wire
// (and had time to arrive) and before the body is sent
func (cc *ctlConn) requestSplit(method, path, ctype string, body []byte, between func()) (*httpResp, error) {
	var b bytes.Buffer
	fmt.Fprintf(&b, "%s %s HTTP/1.1\r\nHost: hc.local\r\nContent-Type: %s\r\nContent-Length: %d\r\n\r\n", method, path, ctype, len(body))
	if err := cc.send(b.Bytes()); err != nil {
		cc.dead = true
		return nil, err
	}
	time.Sleep(40 * time.Millisecond)
	between()
	if err := cc.send(body); err != nil {
		cc.dead = true
		return nil, err
	}
	for {
		r, isEvent, err := cc.readMessage(method)
		if err != nil {
			cc.dead = true
			return nil, err
		}
		if isEvent {
			cc.events = append(cc.events, string(r.body))
			continue
		}
		return r, nil
	}
}

func (cc *ctlConn) readMessage(method string) (*httpResp, bool, error) {
	cc.c.SetReadDeadline(time.Now().Add(3 * time.Second))
	line, err := cc.br.Peek(5)
	if err != nil {
		return nil, false, err
	}
	isEvent := string(line) == "EVENT"
	var rd io.Reader = cc.br
	if isEvent {
		cc.br.Discard(5)
		rd = io.MultiReader(strings.NewReader("HTTP"), cc.br)
	}
	br := bufio.NewReader(rd)
	resp, err := http.ReadResponse(br, &http.Request{Method: method})
	if err != nil {
		return nil, false, err
	}
	body, err := io.ReadAll(resp.Body)
	resp.Body.Close()
	if err != nil {
		return nil, false, err
	}
	// whatever br buffered beyond this message must go back: read byte-exactly instead
	if br.Buffered() > 0 {
		rest, _ := br.Peek(br.Buffered())
		cc.br = bufio.NewReaderSize(io.MultiReader(bytes.NewReader(append([]byte(nil), rest...)), cc.br), 4096)
	}
	return &httpResp{resp.StatusCode, resp.Header.Get("Content-Type"), body}, isEvent, nil
}

// drainEvents reads EVENT messages that are already on the wire (short deadline)
func (cc *ctlConn) drainEvents(wait time.Duration) {
	for {
		cc.c.SetReadDeadline(time.Now().Add(wait))
		if _, err := cc.br.Peek(5); err != nil {
			return
		}
		r, isEvent, err := cc.readMessage("GET")
		if err != nil || !isEvent {
			return
		}
		cc.events = append(cc.events, string(r.body))
	}
}

const tlvCT = "application/pairing+tlv8"

// ---- pair-setup, message by message ----
type setupRun struct {
	cc      *ctlConn
	srp     *srpClient
	sesKey  []byte // HKDF(K, Pair-Setup-Encrypt-Salt/Info)
	salt    []byte
	B       []byte
	notes   []string // what the controller verified about the accessory's messages
	accName string
	accLTPK []byte
	sent    [][]byte // raw request bodies of this exchange, in order
}

func (s *setupRun) post(items []tlvItem) (map[byte][]byte, int, error) {
	s.sent = append(s.sent, tlvEncode(items))
	r, err := s.cc.request("POST", "/pair-setup", tlvCT, tlvEncode(items))
	if err != nil {
		return nil, 0, err
	}
	m, _ := tlvDecode(r.body)
	return m, r.status, nil
}

func (s *setupRun) m1() (map[byte][]byte, int, error) {
	m, st, err := s.post([]tlvItem{{tState, []byte{1}}, {tMethod, []byte{0}}})
	if err == nil {
		s.salt, s.B = m[tSalt], m[tPub]
	}
	return m, st, err
}

// m3 with the given password; aOverride (if not nil) replaces A; proofOverride replaces M1
func (s *setupRun) m3(password string, aOverride []byte, wrongProof bool, omitProof bool) (map[byte][]byte, int, error) {
	s.srp = srpCompute(password, s.salt, s.B)
	A := s.srp.A.Bytes()
	if aOverride != nil {
		A = aOverride
	}
	proof := s.srp.M1
	if wrongProof {
		proof = h512([]byte("wrong"), proof)
	}
	items := []tlvItem{{tState, []byte{3}}, {tPub, A}}
	if !omitProof {
		items = append(items, tlvItem{tProof, proof})
	}
	m, st, err := s.post(items)
	if err == nil && len(m[tProof]) > 0 {
		if bytes.Equal(m[tProof], s.srp.expectM2()) {
			s.notes = append(s.notes, "M2ok")
		} else {
			s.notes = append(s.notes, "M2BAD")
		}
	}
	s.sesKey = hk(s.srp.K, "Pair-Setup-Encrypt-Salt", "Pair-Setup-Encrypt-Info")
	return m, st, err
}

// m5 sends the key exchange sealed under key (nil = the session key) carrying id signed by signer
func (s *setupRun) m5(key []byte, K []byte, id *identity, signer ed25519.PrivateKey, tamper string) (map[byte][]byte, int, error) {
	if key == nil {
		key = s.sesKey
	}
	if K == nil {
		K = s.srp.K
	}
	x := hk(K, "Pair-Setup-Controller-Sign-Salt", "Pair-Setup-Controller-Sign-Info")
	material := append(append(append([]byte{}, x...), []byte(id.name)...), id.pub...)
	sig := ed25519.Sign(signer, material)
	inner := tlvEncode([]tlvItem{{tName, []byte(id.name)}, {tPub, id.pub}, {tSig, sig}})
	switch tamper {
	case "zerosig":
		inner = tlvEncode([]tlvItem{{tName, []byte(id.name)}, {tPub, id.pub}, {tSig, make([]byte, 64)}})
	case "nosig":
		inner = tlvEncode([]tlvItem{{tName, []byte(id.name)}, {tPub, id.pub}})
	case "othersig":
		// somebody else's genuine signed sub-TLV (signed over another exchange's secret) under this exchange's key
		o := newIdentity("other-signer")
		ox := hk([]byte("another exchange"), "Pair-Setup-Controller-Sign-Salt", "Pair-Setup-Controller-Sign-Info")
		om := append(append(append([]byte{}, ox...), []byte(id.name)...), o.pub...)
		inner = tlvEncode([]tlvItem{{tName, []byte(id.name)}, {tPub, o.pub}, {tSig, ed25519.Sign(o.priv, om)}})
	}
	ct := sealMsg(key, "PS-Msg05", inner)
	switch tamper {
	case "flip":
		ct[len(ct)/2] ^= 1
	case "short":
		ct = ct[:7]
	case "empty":
		ct = nil
	case "inner-garbage":
		ct = sealMsg(key, "PS-Msg05", []byte{1, 200, 3})
	}
	m, st, err := s.post([]tlvItem{{tState, []byte{5}}, {tEnc, ct}})
	if err == nil && len(m[tEnc]) >= 16 {
		if pt, ok := openMsg(key, "PS-Msg06", m[tEnc]); ok {
			in, _ := tlvDecode(pt)
			ax := hk(K, "Pair-Setup-Accessory-Sign-Salt", "Pair-Setup-Accessory-Sign-Info")
			mat := append(append(append([]byte{}, ax...), in[tName]...), in[tPub]...)
			if len(in[tPub]) == 32 && ed25519.Verify(ed25519.PublicKey(in[tPub]), mat, in[tSig]) {
				s.notes = append(s.notes, "M6ok")
				s.accName, s.accLTPK = string(in[tName]), in[tPub]
			} else {
				s.notes = append(s.notes, "M6SIGBAD")
			}
		} else {
			s.notes = append(s.notes, "M6UNDECRYPTABLE")
		}
	}
	return m, st, err
}

// ---- pair-verify ----
type verifyRun struct {
	cc       *ctlConn
	priv     [32]byte
	keepPriv *[32]byte
	pub      []byte
	accPub   []byte
	shared   []byte
	sesKey   []byte
	notes    []string
	accName  string
	accSig   []byte
}

func (v *verifyRun) post(items []tlvItem) (map[byte][]byte, int, error) {
	r, err := v.cc.request("POST", "/pair-verify", tlvCT, tlvEncode(items))
	if err != nil {
		return nil, 0, err
	}
	m, _ := tlvDecode(r.body)
	return m, r.status, nil
}

func (v *verifyRun) m1(pubOverride []byte, accLTPK []byte) (map[byte][]byte, int, error) {
	if v.keepPriv == nil {
		rand.Read(v.priv[:])
	} else {
		v.priv = *v.keepPriv // the controller uses the exchange key pair of an earlier exchange again
	}
	p, _ := curve25519.X25519(v.priv[:], curve25519.Basepoint)
	v.pub = p
	send := v.pub
	if pubOverride != nil {
		send = pubOverride
	}
	m, st, err := v.post([]tlvItem{{tState, []byte{1}}, {tPub, send}})
	if err != nil || st != 200 || len(m[tPub]) != 32 {
		return m, st, err
	}
	v.accPub = m[tPub]
	sh, e := curve25519.X25519(v.priv[:], v.accPub)
	if e != nil {
		return m, st, nil
	}
	v.shared = sh
	v.sesKey = hk(sh, "Pair-Verify-Encrypt-Salt", "Pair-Verify-Encrypt-Info")
	if pt, ok := openMsg(v.sesKey, "PV-Msg02", m[tEnc]); ok {
		in, _ := tlvDecode(pt)
		v.accName, v.accSig = string(in[tName]), in[tSig]
		mat := append(append(append([]byte{}, v.accPub...), in[tName]...), v.pub...)
		if accLTPK != nil {
			if ed25519.Verify(ed25519.PublicKey(accLTPK), mat, in[tSig]) {
				v.notes = append(v.notes, "M2ok")
			} else {
				v.notes = append(v.notes, "M2SIGBAD")
			}
		}
	} else {
		v.notes = append(v.notes, "M2UNDECRYPTABLE")
	}
	return m, st, nil
}

// m3: material order / key / signer selectable
func (v *verifyRun) m3(name string, signer ed25519.PrivateKey, variant string) (map[byte][]byte, int, error) {
	key := v.sesKey
	if key == nil {
		key = make([]byte, 32)
	}
	mat := append(append(append([]byte{}, v.pub...), []byte(name)...), v.accPub...)
	switch variant {
	case "reordered":
		mat = append(append(append([]byte{}, v.accPub...), []byte(name)...), v.pub...)
	case "stale":
		stale := make([]byte, 32)
		copy(stale, v.accPub)
		stale[0] ^= 0xff
		mat = append(append(append([]byte{}, v.pub...), []byte(name)...), stale...)
	}
	sig := ed25519.Sign(signer, mat)
	if variant == "reflect" {
		sig = v.accSig
	}
	inner := tlvEncode([]tlvItem{{tName, []byte(name)}, {tSig, sig}})
	if variant == "inner-garbage" {
		inner = []byte{1, 200, 3}
	}
	if variant == "inner-trailing" {
		// the genuine items followed by one more byte: the tag of an item that has no length
		inner = append(inner, 0x0a)
	}
	if variant == "zerokey" {
		key = make([]byte, 32)
	}
	if variant == "randkey" {
		key = make([]byte, 32)
		rand.Read(key)
	}
	ct := sealMsg(key, "PV-Msg03", inner)
	if strings.HasPrefix(variant, "short") {
		n := 0
		fmt.Sscanf(variant, "short%d", &n)
		if n > len(ct) {
			n = len(ct)
		}
		ct = ct[:n]
	}
	if variant == "flip" {
		ct[0] ^= 1
	}
	return v.post([]tlvItem{{tState, []byte{3}}, {tEnc, ct}})
}

func tlvSummary(m map[byte][]byte, status int) string {
	if status != 200 {
		return fmt.Sprintf("http%d", status)
	}
	s := "st"
	if v, ok := m[tState]; ok && len(v) > 0 {
		s += fmt.Sprintf("%d", v[0])
	} else {
		s += "-"
	}
	if v, ok := m[tErr]; ok && len(v) > 0 {
		s += fmt.Sprintf("/err%d", v[0])
	}
	return s
}
