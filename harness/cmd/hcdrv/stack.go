package main

import (
	"bufio"
	"bytes"
	"crypto/ed25519"
	"crypto/rand"
	"encoding/json"
	"fmt"
	"image"
	"io"
	"io/ioutil"
	"math/big"
	"net"
	"os"
	"regexp"
	"sort"
	"strconv"
	"strings"
	"sync"
	"syscall"
	"time"

	"github.com/brutella/hc"
	"github.com/brutella/hc/accessory"
	"github.com/brutella/hc/characteristic"
	"github.com/brutella/hc/db"
	hclog "github.com/brutella/hc/log"
	"github.com/brutella/hc/service"
)

func init() { families["stack"] = runStack }

var frameSize = 1024

const setupCode = "11122333"

type world struct {
	dir string
	t   interface {
		Start()
		Stop() <-chan struct{}
		VerifPort() int
		VerifTxtRecords() map[string]string
		VerifResponderTxt() map[string]string
		XHMURI() (string, error)
	}
	port           int
	accs           []*accessory.Accessory
	conns          map[string]*ctlConn
	ids            map[string]*identity
	setups         map[string]*setupRun
	verifs         map[string]*verifyRun
	cbMu           sync.Mutex
	cbLog          []string
	accLTPK        []byte
	pin            string
	lastOK         [][]byte             // request bodies of the last completed pair-setup
	lastVerifyPriv map[string]*[32]byte // per controller: the exchange private key of its last accepted pair-verify
	wseg           int
}

func (w *world) code() string { return w.pin[:3] + "-" + w.pin[3:5] + "-" + w.pin[5:] }

func canon(v interface{}) string {
	b, _ := json.Marshal(v)
	// observations are space separated: write spaces inside JSON strings as the JSON escape
	return strings.Replace(string(b), " ", "\\u0020", -1)
}

var intendedPerms map[*characteristic.Characteristic]string
var numberLiteral = regexp.MustCompile(`^-?[0-9]+(\.[0-9]+)?([eE][+-]?[0-9]+)?$`)

// the fixed accessory set of the stack scenarios (ids are assigned by the library)
func buildAccessories() []*accessory.Accessory {
	br := accessory.NewBridge(accessory.Info{Name: "VBridge", SerialNumber: "CANARY-SERIAL-1", Manufacturer: "verif", Model: "m"})
	lb := accessory.NewLightbulb(accessory.Info{Name: "Lamp", SerialNumber: "CANARY-SERIAL-2", Manufacturer: "verif", Model: "m"})
	th := accessory.NewThermostat(accessory.Info{Name: "Thermo", SerialNumber: "CANARY-SERIAL-3", Manufacturer: "verif", Model: "m"}, 20, 10, 38, 0.5)
	sw := accessory.NewSwitch(accessory.Info{Name: "Sw", SerialNumber: "CANARY-SERIAL-4", Manufacturer: "verif", Model: "m"})
	// custom characteristics on an extra service of the switch: write-only string, read-only without events,
	// read/write without events
	svc := service.New("F0000001-0000-1000-8000-0026BB765291")
	rePerms := characteristic.PermsRead() // taken before the other sets are built from the helpers
	wo := characteristic.NewString("F0000002-0000-1000-8000-0026BB765291")
	wo.Perms = characteristic.PermsWriteOnly()
	ro := characteristic.NewInt("F0000003-0000-1000-8000-0026BB765291")
	ro.Format = characteristic.FormatUInt8
	ro.Perms = characteristic.PermsReadOnly()
	ro.Value = 7
	rw := characteristic.NewString("F0000004-0000-1000-8000-0026BB765291")
	rw.Perms = append(characteristic.PermsReadOnly(), characteristic.PermWrite)
	rw.Value = "CANARY-VALUE"
	// an unbounded 32-bit unsigned characteristic (values beyond 2^31 must survive in both directions)
	u32 := characteristic.NewInt("F0000005-0000-1000-8000-0026BB765291")
	u32.Format = characteristic.FormatUInt32
	u32.Perms = characteristic.PermsAll()
	u32.Value = 1
	// the permission sets are taken from the library's helper functions (and extended with append, as applications do);
	// what the application MEANT is recorded here, for the table the model and the oracles work from
	intendedPerms = map[*characteristic.Characteristic]string{wo.Characteristic: "w", ro.Characteristic: "r", rw.Characteristic: "rw",
		u32.Characteristic: "rwe"}
	svc.AddCharacteristic(wo.Characteristic)
	svc.AddCharacteristic(ro.Characteristic)
	svc.AddCharacteristic(rw.Characteristic)
	svc.AddCharacteristic(u32.Characteristic)
	// write + events but NOT readable (a "button"): subscribers are told that it changed, never its value
	we := characteristic.NewString("F0000006-0000-1000-8000-0026BB765291")
	we.Perms = append(characteristic.PermsWriteOnly(), characteristic.PermEvents)
	intendedPerms[we.Characteristic] = "we"
	svc.AddCharacteristic(we.Characteristic)
	// a string anybody may read, write and observe (a configured name): its text travels inside event bodies
	nm := characteristic.NewString("F0000007-0000-1000-8000-0026BB765291")
	nm.Perms = characteristic.PermsAll()
	nm.Value = "name"
	intendedPerms[nm.Characteristic] = "rwe"
	svc.AddCharacteristic(nm.Characteristic)
	// read + events through the helper PermsRead() (a sensor value)
	re := characteristic.NewInt("F0000008-0000-1000-8000-0026BB765291")
	re.Format = characteristic.FormatUInt8
	re.Perms = rePerms
	re.Value = 3
	intendedPerms[re.Characteristic] = "re"
	svc.AddCharacteristic(re.Characteristic)
	// a signed 32-bit integer with a range around zero (a tilt angle)
	ang := characteristic.NewInt("F0000009-0000-1000-8000-0026BB765291")
	ang.Format = characteristic.FormatInt32
	ang.Perms = characteristic.PermsAll()
	ang.SetMinValue(-90)
	ang.SetMaxValue(90)
	ang.Value = 0
	intendedPerms[ang.Characteristic] = "rwe"
	svc.AddCharacteristic(ang.Characteristic)
	// a characteristic from a library constructor (default value set, read/write/events) that the application then
	// restricts to a permission set of the SAME size: read, events, hidden -- not writable any more
	lvl := characteristic.NewBrightness()
	lvl.Perms = []string{characteristic.PermRead, characteristic.PermEvents, characteristic.PermHidden}
	intendedPerms[lvl.Characteristic] = "re"
	svc.AddCharacteristic(lvl.Characteristic)
	sw.AddService(svc)
	return []*accessory.Accessory{br.Accessory, lb.Accessory, th.Accessory, sw.Accessory}
}

func newWorld(pin string, nacc int) (*world, error) {
	accs := buildAccessories()
	for i := 0; i < nacc; i++ {
		lb := accessory.NewLightbulb(accessory.Info{Name: fmt.Sprintf("Extra %d", i), SerialNumber: fmt.Sprintf("CANARY-X-%d", i), Manufacturer: "verif", Model: "m"})
		accs = append(accs, lb.Accessory)
	}
	return newWorldAt(tempDir(), hc.Config{Pin: pin}, accs)
}

// newWorldAt starts a transport for the given accessories on an existing storage directory
func newWorldAt(dir string, cfg hc.Config, accs []*accessory.Accessory) (*world, error) {
	w := &world{conns: map[string]*ctlConn{}, ids: map[string]*identity{}, setups: map[string]*setupRun{}, verifs: map[string]*verifyRun{}, lastVerifyPriv: map[string]*[32]byte{}}
	w.dir = dir
	w.accs = accs
	pin := cfg.Pin
	if pin == "" {
		pin = "00102003"
	}
	w.pin = pin
	cfg.StoragePath = dir
	t, err := hc.NewIPTransport(cfg, w.accs[0], w.accs[1:]...)
	if err != nil {
		return nil, err
	}
	for _, a := range w.accs {
		for _, s := range a.Services {
			for _, c := range s.Characteristics {
				aid, iid := a.ID, c.ID
				c.OnValueUpdateFromConn(func(conn net.Conn, c *characteristic.Characteristic, nw, old interface{}) {
					w.cbMu.Lock()
					w.cbLog = append(w.cbLog, fmt.Sprintf("%d.%d=%s", aid, iid, canon(nw)))
					w.cbMu.Unlock()
				})
			}
		}
	}
	t.CameraSnapshotReq = func(width, height uint) (*image.Image, error) {
		var img image.Image = image.NewRGBA(image.Rect(0, 0, 8, 8))
		return &img, nil
	}
	w.t = t
	go t.Start()
	for i := 0; i < 400 && t.VerifPort() == 0; i++ {
		time.Sleep(5 * time.Millisecond)
	}
	w.port = t.VerifPort()
	if w.port == 0 {
		return nil, fmt.Errorf("transport did not start")
	}
	return w, nil
}

func (w *world) close() {
	w.stop()
	os.RemoveAll(w.dir)
}

// stop shuts the transport down and leaves the storage directory in place
func (w *world) stop() {
	for _, c := range w.conns {
		c.c.Close()
	}
	select {
	case <-w.t.Stop():
	case <-time.After(3 * time.Second):
	}
}

func (w *world) stored() string {
	d, _ := db.NewDatabase(w.dir)
	es, err := d.Entities()
	if err != nil {
		return "stored=ERR"
	}
	var names []string
	for _, e := range es {
		if len(e.PrivateKey) > 0 {
			continue // the accessory's own entity
		}
		names = append(names, hx([]byte(e.Name)))
	}
	sort.Strings(names)
	return "stored=" + strings.Join(names, "+")
}

func (w *world) find(id string) *characteristic.Characteristic {
	p := strings.Split(id, ".")
	aid, _ := strconv.Atoi(p[0])
	iid, _ := strconv.Atoi(p[1])
	for _, a := range w.accs {
		if int(a.ID) == aid {
			for _, s := range a.Services {
				for _, c := range s.Characteristics {
					if int(c.ID) == iid {
						return c
					}
				}
			}
		}
	}
	return nil
}

func (w *world) ident(name string) *identity {
	if strings.HasPrefix(name, "h") && len(name) > 1 && len(name)%2 == 1 {
		if b, err := hexDecode(name[1:]); err == nil {
			name = string(b)
		}
	}
	if id, ok := w.ids[name]; ok {
		return id
	}
	id := newIdentity(name)
	w.ids[name] = id
	return id
}

func hasCanary(b []byte) string {
	if bytes.Contains(b, []byte("CANARY")) {
		return "canary=1"
	}
	return "canary=0"
}

// summarise a characteristics response body: list of aid.iid=value|!status
func charsSummary(body []byte) string {
	var r struct {
		Characteristics []map[string]interface{} `json:"characteristics"`
		Status          interface{}              `json:"status"`
	}
	if len(body) == 0 {
		return "-"
	}
	if err := json.Unmarshal(body, &r); err != nil {
		return "unparsable"
	}
	if r.Characteristics == nil {
		return "status" + canon(r.Status)
	}
	var out []string
	for _, c := range r.Characteristics {
		s := fmt.Sprintf("%v.%v", c["aid"], c["iid"])
		if v, ok := c["value"]; ok {
			s += "=" + canon(v)
		}
		if st, ok := c["status"]; ok {
			s += "!" + canon(st)
		}
		out = append(out, s)
	}
	return strings.Join(out, ",")
}

func runStack(id string, toks []string) (res string) {
	defer func() {
		if r := recover(); r != nil {
			res = fmt.Sprint("harness-panic ", r)
		}
	}()
	hclog.Info.SetOutput(ioutil.Discard)
	if os.Getenv("HC_VERIF_DEBUG") == "1" {
		hclog.Debug.Enable()
		hclog.Info.SetOutput(os.Stderr)
	}
	pin, nacc, wseg := setupCode, 0, 0
	frameSize = 1024
	for _, op := range toks[1:] {
		if strings.HasPrefix(op, "pin=") {
			pin = op[4:]
		}
		if strings.HasPrefix(op, "nacc=") {
			nacc, _ = strconv.Atoi(op[5:])
		}
		if strings.HasPrefix(op, "fsz=") {
			frameSize, _ = strconv.Atoi(op[4:])
		}
		if strings.HasPrefix(op, "wseg=") {
			wseg, _ = strconv.Atoi(op[5:])
		}
	}
	w, err := newWorld(pin, nacc)
	if err != nil {
		return "setup-error " + err.Error()
	}
	defer w.close()
	w.wseg = wseg
	var out []string
	emit := func(s string) { out = append(out, s) }
	for _, op := range toks[1:] {
		if strings.HasPrefix(op, "tbl=") || strings.HasPrefix(op, "pin=") || strings.HasPrefix(op, "nacc=") || strings.HasPrefix(op, "fsz=") || strings.HasPrefix(op, "wseg=") {
			continue
		}
		p := strings.Split(op, ":")
		switch p[0] {
		case "N":
			cc, err := dial(w.port)
			if err != nil {
				emit("N=err")
				continue
			}
			cc.frameSize = frameSize
			cc.writeSeg = w.wseg
			w.conns[p[1]] = cc
		case "NS":
			// NS:<a>:<b>  two connections that are open at the same time and have the SAME remote ip:port as the accessory
			// sees them: both leave from one local ip:port, a goes to 127.0.0.1 and b to 127.0.0.2 (the accessory listens on
			// every local address). a is connected first.
			ca, cb, err := dialSharedSource(w.port)
			if err != nil {
				emit("NS=unsupported")
				continue
			}
			ca.frameSize, cb.frameSize = frameSize, frameSize
			w.conns[p[1]], w.conns[p[2]] = ca, cb
			emit("NS=ok")
		case "K":
			if cc := w.conns[p[1]]; cc != nil {
				cc.c.Close()
				cc.dead = true
			}
			time.Sleep(20 * time.Millisecond)
		case "W":
			time.Sleep(40 * time.Millisecond)
		case "ST":
			emit(w.stored())
		case "CB":
			w.cbMu.Lock()
			emit("cb=" + strings.Join(w.cbLog, ","))
			w.cbLog = nil
			w.cbMu.Unlock()
		case "DUMP":
			var rows []string
			for _, a := range w.accs {
				for _, sv := range a.Services {
					for _, c := range sv.Characteristics {
						perms := ""
						for _, pm := range c.Perms {
							switch pm {
							case characteristic.PermRead:
								perms += "r"
							case characteristic.PermWrite:
								perms += "w"
							case characteristic.PermEvents:
								perms += "e"
							}
						}
						if ip, ok := intendedPerms[c]; ok {
							perms = ip
						}
						b := func(v interface{}) string {
							if v == nil {
								return "-"
							}
							return showVal(v)
						}
						rows = append(rows, fmt.Sprintf("%d.%d,%s,%s,%s,%s,%s", a.ID, c.ID, c.Format, perms, b(c.MinValue), b(c.MaxValue), showVal(c.Value)))
					}
				}
			}
			emit("tbl=" + strings.Join(rows, ";"))
		case "TXT":
			emit("sf=" + w.t.VerifTxtRecords()["sf"])
		case "L":
			c := w.find(p[1])
			v := tokenValue(strings.SplitN(strings.Join(p[2:], ":"), "@", 2)[0])
			if f, ok := v.(float64); ok && c != nil && c.Format != characteristic.FormatFloat {
				c.UpdateValue(int(f))
			} else if c != nil {
				c.UpdateValue(v)
			}
		case "TB":
			// TB:<aid.iid>  the application takes a remote "true" back: its remote-update callback sets the value to false again
			// (the device could not apply it)
			if c := w.find(p[1]); c != nil {
				c.OnValueUpdateFromConn(func(conn net.Conn, c *characteristic.Characteristic, nw, old interface{}) {
					if b, ok := nw.(bool); ok && b {
						c.UpdateValue(false)
					}
				})
			}
		case "GCB":
			// GCB:<aid.iid>:<value|->  the application installs (removes) a read callback that answers with a fixed value
			// (hardware that lags behind what was written)
			if c := w.find(p[1]); c != nil {
				if p[2] == "-" {
					c.OnValueGet(nil)
				} else {
					v := tokenValue(strings.SplitN(strings.Join(p[2:], ":"), "@", 2)[0])
					if f, ok := v.(float64); ok && c.Format != characteristic.FormatFloat {
						v = int(f)
					}
					c.OnValueGet(func() interface{} { return v })
				}
			}
		case "S":
			emit(w.pairSetup(p[1], p[2], p[3]))
		case "V":
			emit(w.pairVerify(p[1], p[2], p[3]))
		case "Q":
			emit(w.probePlain(p[1]))
		case "B":
			// B:<c>:<endpoint>:<hex body>  arbitrary bytes as the body of a request in the connection's current mode
			cc := w.conns[p[1]]
			if cc == nil || cc.dead {
				emit("B=noconn")
				continue
			}
			path := map[string]string{"ps": "/pair-setup", "pv": "/pair-verify", "pairings": "/pairings", "chars": "/characteristics", "resource": "/resource", "identify": "/identify"}[p[2]]
			method := "POST"
			if p[2] == "chars" {
				method = "PUT"
			}
			r, err := cc.request(method, path, "application/octet-stream", unhex(p[3]))
			if err != nil {
				emit("B=closed")
			} else {
				emit(fmt.Sprintf("B=%d", r.status))
			}
		case "PSPLIT":
			// PSPLIT:<c>:<other>:<aid.iid>  connection c subscribes to the characteristic with a write request whose body
			// arrives after its headers; in between, connection <other> sends a plaintext GET /accessories
			cc, oc := w.conns[p[1]], w.conns[p[2]]
			if cc == nil || oc == nil || cc.dead || oc.dead {
				emit("PSPLIT=noconn")
				continue
			}
			ids := strings.Split(p[3], ".")
			aid, _ := strconv.Atoi(ids[0])
			iid, _ := strconv.Atoi(ids[1])
			body, _ := json.Marshal(map[string]interface{}{"characteristics": []interface{}{map[string]interface{}{"aid": aid, "iid": iid, "ev": true}}})
			other := "-"
			r, err := cc.requestSplit("PUT", "/characteristics", "application/hap+json", body, func() {
				saved, br := oc.secured, oc.br
				oc.secured, oc.br = false, oc.raw
				if ro, err := oc.request("GET", "/accessories", "", nil); err == nil {
					other = fmt.Sprintf("%d,%s", ro.status, hasCanary(ro.body))
				} else {
					other = "closed"
					oc.dead = true
				}
				oc.secured, oc.br = saved, br
			})
			if err != nil {
				emit("PSPLIT=closed/" + other)
			} else {
				emit(fmt.Sprintf("PSPLIT=%d/%s", r.status, other))
			}
		case "HSPLIT":
			emit(w.headerSplit(p[1], p[2]))
		case "CHURN":
			emit(w.connectionChurn(p[1]))
		case "DUPW":
			emit(w.sameWriteFromTwo(p[1], p[2], p[3], p[4]))
		case "RSC":
			emit(w.resetAndReconnectSamePort(p[1]))
		case "NSI":
			emit(w.sharedSourceBehindIdentify(p[1], p[2], p[3]))
		case "LSPLIT":
			// LSPLIT:<c>:<aid.iid>:<v1>/<v2>/...  connection c sends the headers of a subscription request for the characteristic;
			// while its body is outstanding (the request is being handled) the application sets the values one after the
			// other; then the body follows
			cc := w.conns[p[1]]
			ch := w.find(p[2])
			if cc == nil || cc.dead || ch == nil {
				emit("LSPLIT=noconn")
				continue
			}
			ids := strings.Split(p[2], ".")
			aid, _ := strconv.Atoi(ids[0])
			iid, _ := strconv.Atoi(ids[1])
			body, _ := json.Marshal(map[string]interface{}{"characteristics": []interface{}{map[string]interface{}{"aid": aid, "iid": iid, "ev": true}}})
			r, err := cc.requestSplit("PUT", "/characteristics", "application/hap+json", body, func() {
				for _, vt := range strings.Split(strings.Join(p[3:], ":"), "/") {
					v := tokenValue(strings.SplitN(vt, "@", 2)[0])
					if f, ok := v.(float64); ok && ch.Format != characteristic.FormatFloat {
						ch.UpdateValue(int(f))
					} else {
						ch.UpdateValue(v)
					}
					time.Sleep(2 * time.Millisecond)
				}
			})
			if err != nil {
				emit("LSPLIT=closed")
			} else {
				emit(fmt.Sprintf("LSPLIT=%d", r.status))
			}
		case "INJ":
			emit(w.injectBehindFinish(p[1], p[2], p[3]))
		case "SRPMANY":
			emit(w.srpMany(p[1]))
		case "STALL":
			emit(w.stalledSubscriber(p[1], p[2], p[3], p[4]))
		case "STORM":
			emit(w.eventStorm(p[1], p[2], "/characteristics?id=1.5"))
		case "STORMA":
			// the same while the subscriber keeps fetching the whole attribute database (an answer of many writes)
			emit(strings.Replace(w.eventStorm(p[1], p[2], "/accessories"), "STORM=", "STORMA=", 1))
		case "VR":
			emit(w.verifyReplay(p[1], p[2]))
		case "RACE":
			emit(w.raceReads(p[1], p[2], p[3]))
		case "G", "A", "P", "PM", "R", "X", "E":
			emit(w.httpOp(p))
		default:
			emit("badop:" + op)
		}
	}
	return strings.Join(out, " ")
}

func (w *world) pairSetup(cn, ctrl, variant string) string {
	cc := w.conns[cn]
	if cc == nil || cc.dead {
		return "S=noconn"
	}
	id := w.ident(ctrl)
	s := w.setups[cn]
	if s == nil || variant == "ok" || variant == "wrongcode" || strings.HasPrefix(variant, "a") || variant == "start" {
		s = &setupRun{cc: cc}
		w.setups[cn] = s
	}
	if s.srp == nil {
		// no exchange was started on this connection: the peer has no SRP session key; its best guesses
		s.srp = &srpClient{K: []byte{}, A: big.NewInt(1), M1: []byte{0}}
		s.sesKey = make([]byte, 32)
	}
	var parts []string
	step := func(m map[byte][]byte, st int, err error) bool {
		if err != nil {
			parts = append(parts, "closed")
			return false
		}
		parts = append(parts, tlvSummary(m, st))
		return st == 200 && len(m[tErr]) == 0
	}
	zero := make([]byte, 32)
	emptyK := func() []byte { return nil }
	_ = emptyK
	switch variant {
	case "ok":
		if step(s.m1()) && step(s.m3(w.code(), nil, false, false)) {
			step(s.m5(nil, nil, id, id.priv, ""))
		}
	case "wrongcode":
		if step(s.m1()) && step(s.m3("999-99-999", nil, false, false)) {
			step(s.m5(nil, nil, id, id.priv, ""))
		}
	case "wrongproof":
		if step(s.m1()) {
			step(s.m3(w.code(), nil, true, false))
			step(s.m5(nil, nil, id, id.priv, ""))
		}
	case "noproof":
		if step(s.m1()) {
			step(s.m3(w.code(), nil, false, true))
			step(s.m5(nil, nil, id, id.priv, ""))
		}
	case "a0", "aN", "a2N", "aempty":
		// invalid SRP public key, then a key exchange sealed under the key HKDF gives for an empty / zero secret
		A := map[string][]byte{"a0": {0}, "aN": srpN.Bytes(), "a2N": new(big.Int).Lsh(srpN, 1).Bytes(), "aempty": {}}[variant]
		if step(s.m1()) {
			step(s.m3(w.code(), A, false, false))
			// the attacker's best guesses for the encryption key: all-zero bytes; HKDF of an empty secret
			step(s.m5(zero, []byte{}, id, id.priv, ""))
			s2 := &setupRun{cc: cc}
			w.setups[cn] = s2
		}
	case "aNforged", "a0forged", "aemptyforged":
		// invalid SRP public key with a proof computed over the EMPTY session key (what a server that ignores the
		// rejection would hold), then a key exchange sealed under HKDF(empty secret) and signed accordingly
		A := map[string][]byte{"aNforged": srpN.Bytes(), "a0forged": {0}, "aemptyforged": {}}[variant]
		if step(s.m1()) {
			s.srp = srpCompute(w.code(), s.salt, s.B)
			B := new(big.Int).SetBytes(s.B)
			hn := new(big.Int).SetBytes(h512(srpN.Bytes()))
			hg := new(big.Int).SetBytes(h512(srpG.Bytes()))
			forged := h512(new(big.Int).Xor(hn, hg).Bytes(), h512([]byte("Pair-Setup")), s.salt, new(big.Int).SetBytes(A).Bytes(), B.Bytes(), []byte{})
			m, st, err := s.post([]tlvItem{{tState, []byte{3}}, {tPub, A}, {tProof, forged}})
			step(m, st, err)
			step(s.m5(hk([]byte{}, "Pair-Setup-Encrypt-Salt", "Pair-Setup-Encrypt-Info"), []byte{}, id, id.priv, ""))
		}
	case "wrongcodezero":
		// wrong-code proof (answered error 2), then a key exchange under the all-zero key signed over an empty secret
		if step(s.m1()) {
			step(s.m3("999-99-999", nil, false, false))
			step(s.m5(zero, []byte{}, id, id.priv, ""))
		}
	case "m5zeroempty":
		step(s.m5(zero, []byte{}, id, id.priv, ""))
	case "m5emptyhkdf":
		step(s.m5(hk([]byte{}, "Pair-Setup-Encrypt-Salt", "Pair-Setup-Encrypt-Info"), []byte{}, id, id.priv, ""))
	case "m5first":
		s.srp = &srpClient{K: []byte{}}
		step(s.m5(zero, []byte{}, id, id.priv, ""))
	case "start":
		step(s.m1())
	case "m3":
		step(s.m3(w.code(), nil, false, false))
	case "m3wrong":
		step(s.m3("999-99-999", nil, false, false))
	case "m5":
		step(s.m5(nil, nil, id, id.priv, ""))
	case "m5flip", "m5short", "m5empty", "m5inner", "m5zerosig", "m5nosig", "m5othersig":
		step(s.m5(nil, nil, id, id.priv, map[string]string{"m5flip": "flip", "m5short": "short", "m5empty": "empty", "m5inner": "inner-garbage",
			"m5zerosig": "zerosig", "m5nosig": "nosig", "m5othersig": "othersig"}[variant]))
	case "replayok":
		// the recorded request bodies of the last completed exchange (of any connection), replayed verbatim
		if len(w.lastOK) == 0 {
			return "S=norecord"
		}
		for _, body := range w.lastOK {
			r, err := cc.request("POST", "/pair-setup", tlvCT, body)
			if err != nil {
				parts = append(parts, "closed")
				break
			}
			m, _ := tlvDecode(r.body)
			parts = append(parts, tlvSummary(m, r.status))
		}
		return "S=" + strings.Join(parts, "/") + "[]"
	case "m5of_a", "m5of_b", "m5of_c":
		// the genuine key exchange of ANOTHER connection's exchange (built from that exchange's secret and session key),
		// delivered on this connection
		other := w.setups[variant[5:]]
		if other == nil || other.srp == nil {
			return "S=nostate"
		}
		step(s.m5(other.sesKey, other.srp.K, id, id.priv, ""))
	case "m5zerokey":
		step(s.m5(zero, nil, id, id.priv, ""))
	case "m5randkey":
		k := make([]byte, 32)
		rand.Read(k)
		step(s.m5(k, nil, id, id.priv, ""))
	case "m5wrongsigner":
		other := newIdentity("other")
		step(s.m5(nil, nil, id, other.priv, ""))
	case "badstep":
		step(s.post([]tlvItem{{tState, []byte{7}}}))
	case "badmethod":
		step(s.post([]tlvItem{{tState, []byte{1}}, {tMethod, []byte{3}}}))
	case "garbage":
		r, err := cc.request("POST", "/pair-setup", tlvCT, []byte{6, 5, 1})
		if err != nil {
			parts = append(parts, "closed")
		} else {
			parts = append(parts, fmt.Sprintf("http%d", r.status))
		}
	default:
		return "S=badvariant"
	}
	if len(s.accLTPK) == 32 {
		w.accLTPK = s.accLTPK
		if variant == "ok" {
			w.lastOK = append([][]byte(nil), s.sent...)
		}
	}
	return "S=" + strings.Join(parts, "/") + "[" + strings.Join(s.notes, "") + "]"
}

func (w *world) pairVerify(cn, ctrl, variant string) string {
	cc := w.conns[cn]
	if cc == nil || cc.dead {
		return "V=noconn"
	}
	id := w.ident(ctrl)
	var parts []string
	step := func(m map[byte][]byte, st int, err error) (map[byte][]byte, bool) {
		if err != nil {
			parts = append(parts, "closed")
			return nil, false
		}
		parts = append(parts, tlvSummary(m, st))
		return m, st == 200 && len(m[tErr]) == 0
	}
	v := w.verifs[cn]
	fresh := func() *verifyRun { v = &verifyRun{cc: cc}; w.verifs[cn] = v; return v }
	success := false
	switch variant {
	case "ok":
		fresh()
		if _, ok := step(v.m1(nil, w.accLTPK)); ok {
			if m, ok := step(v.m3(id.name, id.priv, "")); ok && len(m[tState]) > 0 && m[tState][0] == 4 {
				success = true
				k := v.priv
				w.lastVerifyPriv[id.name] = &k
			}
		}
	case "samekey-badsig", "samekey-reordered":
		// the controller's exchange key pair of its last ACCEPTED exchange is used again (on this other connection), and the
		// finish carries a signature that is not valid for this exchange
		fresh()
		v.keepPriv = w.lastVerifyPriv[id.name]
		if _, ok := step(v.m1(nil, w.accLTPK)); ok {
			if variant == "samekey-badsig" {
				step(v.m3(id.name, newIdentity("x").priv, ""))
			} else {
				step(v.m3(id.name, id.priv, "reordered"))
			}
		}
	case "badsig", "unknown", "unknowntail", "reordered", "stale", "zerokey", "randkey", "flip", "inner-garbage", "inner-trailing", "short0", "short7", "short15", "short16", "reflect", "accname":
		fresh()
		if _, ok := step(v.m1(nil, w.accLTPK)); ok {
			name, signer, vv := id.name, id.priv, variant
			switch variant {
			case "badsig":
				signer = newIdentity("x").priv
				vv = ""
			case "unknown":
				name = "nobody-" + id.name
				vv = ""
			case "unknowntail":
				// a name nobody paired under that differs from a paired one only in its last byte, signed with that
				// pairing's key over the claimed name
				name = id.name[:len(id.name)-1] + string([]byte{id.name[len(id.name)-1] ^ 1})
				vv = ""
			case "reflect", "accname":
				name = v.accName
			}
			step(v.m3(name, signer, vv))
		}
	case "keylen31", "keylen33", "keylen0":
		fresh()
		n := map[string]int{"keylen31": 31, "keylen33": 33, "keylen0": 0}[variant]
		k := make([]byte, n)
		rand.Read(k)
		step(v.m1(k, nil))
	case "finishfirst":
		fresh()
		v.pub = make([]byte, 32)
		v.accPub = make([]byte, 32)
		step(v.m3(id.name, id.priv, ""))
	case "startonly":
		fresh()
		step(v.m1(nil, w.accLTPK))
	case "startlow1", "startlow2", "startlow3", "startlow4", "startlow5", "startlow6":
		// a start whose public key is a point of small order on Curve25519 (the shared secret is all zero whatever the
		// accessory's key): like startzerokeep, the controller's record of its earlier exchange stays
		low := map[string]string{
			"startlow1": "0100000000000000000000000000000000000000000000000000000000000000",
			"startlow2": "e0eb7a7c3b41b8ae1656e3faf19fc46ada098deb9c32b1fd866205165f49b800",
			"startlow3": "5f9c95bca3508c24b1d0b1559c83ef5b04445cc4581c8e86d8224eddd09f1157",
			"startlow4": "ecffffffffffffffffffffffffffffffffffffffffffffffffffffffffffff7f",
			"startlow5": "edffffffffffffffffffffffffffffffffffffffffffffffffffffffffffff7f",
			"startlow6": "eeffffffffffffffffffffffffffffffffffffffffffffffffffffffffffff7f",
		}[variant]
		tmp := &verifyRun{cc: cc}
		step(tmp.m1(unhex(low), nil))
	case "startzerokeep", "badstartkeep":
		// another start on this connection that does NOT replace the controller's record of the earlier exchange:
		// a 32-byte all-zero (small-order) key, or a key of the wrong length
		k := make([]byte, 32)
		if variant == "badstartkeep" {
			k = make([]byte, 31)
			rand.Read(k)
		}
		tmp := &verifyRun{cc: cc}
		step(tmp.m1(k, nil))
	case "finish":
		if v == nil {
			return "V=nostate"
		}
		if m, ok := step(v.m3(id.name, id.priv, "")); ok && len(m[tState]) > 0 && m[tState][0] == 4 {
			success = true
		}
	case "garbage":
		r, err := cc.request("POST", "/pair-verify", tlvCT, []byte{6, 5, 1})
		if err != nil {
			parts = append(parts, "closed")
		} else {
			parts = append(parts, fmt.Sprintf("http%d", r.status))
		}
	default:
		return "V=badvariant"
	}
	notes := ""
	if v != nil {
		notes = strings.Join(v.notes, "")
	}
	if success {
		cc.secure(v.shared)
	}
	return "V=" + strings.Join(parts, "/") + "[" + notes + "]"
}

// probePlain sends a plaintext request for the attribute database on the raw socket, whatever the controller
// believes about the connection, and reports how the accessory reacts
func (w *world) probePlain(cn string) string {
	cc := w.conns[cn]
	if cc == nil || cc.dead {
		return "Q=noconn"
	}
	cc.c.SetDeadline(time.Now().Add(1500 * time.Millisecond))
	cc.c.Write([]byte("GET /accessories HTTP/1.1\r\nHost: x\r\n\r\n"))
	buf := make([]byte, 65536)
	n, _ := cc.c.Read(buf)
	cc.dead = true
	cc.c.Close()
	b := buf[:n]
	switch {
	case bytes.HasPrefix(b, []byte("HTTP/1.1 470")):
		return "Q=refused470," + hasCanary(b)
	case bytes.HasPrefix(b, []byte("HTTP/1.1 200")):
		return "Q=served200," + hasCanary(b)
	case bytes.HasPrefix(b, []byte("HTTP/1.1 400")):
		return "Q=http400," + hasCanary(b)
	case n == 0:
		return "Q=closed"
	}
	return "Q=other," + hasCanary(b)
}

func (w *world) httpOp(p []string) string {
	cc := w.conns[p[1]]
	if cc == nil || cc.dead {
		return p[0] + "=noconn"
	}
	do := func(method, path, ctype string, body []byte) (*httpResp, string) {
		r, err := cc.request(method, path, ctype, body)
		if err != nil {
			if os.Getenv("HC_VERIF_DEBUG") == "2" {
				fmt.Fprintln(os.Stderr, "client error:", method, path, err)
			}
			return nil, "closed"
		}
		return r, ""
	}
	switch p[0] {
	case "G":
		r, e := do("GET", "/characteristics?id="+p[2], "", nil)
		if e != "" {
			return "G=" + e
		}
		return fmt.Sprintf("G=%d:%s,%s", r.status, charsSummary(r.body), hasCanary(r.body))
	case "A":
		r, e := do("GET", "/accessories", "", nil)
		if e != "" {
			return "A=" + e
		}
		var db struct {
			Accessories []struct {
				Aid      int `json:"aid"`
				Services []struct {
					Characteristics []map[string]interface{} `json:"characteristics"`
				} `json:"services"`
			} `json:"accessories"`
		}
		json.Unmarshal(r.body, &db)
		var vals []string
		for _, a := range db.Accessories {
			for _, s := range a.Services {
				for _, c := range s.Characteristics {
					if v, ok := c["value"]; ok {
						vals = append(vals, fmt.Sprintf("%d.%v=%s", a.Aid, c["iid"], canon(v)))
					}
				}
			}
		}
		return fmt.Sprintf("A=%d:n%d,%s;%s", r.status, len(db.Accessories), hasCanary(r.body), strings.Join(vals, ","))
	case "P":
		// P:<c>:<aid.iid>:<value json or ->:<ev 0|1|->
		ids := strings.Split(p[2], ".")
		m := map[string]interface{}{}
		aid, _ := strconv.Atoi(ids[0])
		iid, _ := strconv.Atoi(ids[1])
		m["aid"], m["iid"] = aid, iid
		val := strings.SplitN(strings.Join(p[3:len(p)-1], ":"), "@", 2)[0]
		if val != "-" {
			m["value"] = tokenValue(val)
			if numberLiteral.MatchString(val) {
				m["value"] = json.RawMessage(val) // the number goes out in the notation of the case line (-30, 7.0, 9e1)
			}
		}
		switch ev := p[len(p)-1]; ev {
		case "-":
		case "0", "1":
			m["ev"] = ev == "1"
		case "n1":
			m["ev"] = 1
		case "n0":
			m["ev"] = 0
		case "s1":
			m["ev"] = "1"
		case "st":
			m["ev"] = "true"
		}
		body, _ := json.Marshal(map[string]interface{}{"characteristics": []interface{}{m}})
		r, e := do("PUT", "/characteristics", "application/hap+json", body)
		if e != "" {
			return "P=" + e
		}
		return fmt.Sprintf("P=%d:%s", r.status, charsSummary(r.body))
	case "PM":
		// PM:<c>:<aid.iid>~<value or ->~<ev 0|1|->+<aid.iid>~...   several entries in ONE write request
		var entries []interface{}
		for _, e := range strings.Split(p[2], "+") {
			q := strings.Split(e, "~")
			ids := strings.Split(q[0], ".")
			aid, _ := strconv.Atoi(ids[0])
			iid, _ := strconv.Atoi(ids[1])
			m := map[string]interface{}{"aid": aid, "iid": iid}
			if q[1] != "-" {
				m["value"] = tokenValue(q[1])
			}
			if q[2] == "0" || q[2] == "1" {
				m["ev"] = q[2] == "1"
			}
			entries = append(entries, m)
		}
		body, _ := json.Marshal(map[string]interface{}{"characteristics": entries})
		r, e := do("PUT", "/characteristics", "application/hap+json", body)
		if e != "" {
			return "P=" + e
		}
		return fmt.Sprintf("P=%d:%s", r.status, charsSummary(r.body))
	case "R":
		id := w.ident(p[2])
		method := byte(3)
		if p[3] == "remove" {
			method = 4
		} else if p[3] == "list" {
			method = 5
		}
		items := []tlvItem{{tState, []byte{1}}, {tMethod, []byte{method}}, {tName, []byte(id.name)}, {tPub, id.pub}, {tPerm, []byte{1}}}
		if p[3] == "addnokey" {
			items = []tlvItem{{tState, []byte{1}}, {tMethod, []byte{3}}, {tName, []byte(id.name)}, {tPerm, []byte{1}}}
		}
		if p[3] == "addshortkey" || p[3] == "addlongkey" {
			method = 3
			k := append([]byte(nil), id.pub...)
			if p[3] == "addshortkey" {
				k = k[:31]
			} else {
				k = append(k, 7)
			}
			items = []tlvItem{{tState, []byte{1}}, {tMethod, []byte{3}}, {tName, []byte(id.name)}, {tPub, k}, {tPerm, []byte{1}}}
		}
		body := tlvEncode(items)
		r, e := do("POST", "/pairings", tlvCT, body)
		if e != "" {
			return "R=" + e
		}
		m, _ := tlvDecode(r.body)
		if r.status == 200 {
			return "R=" + tlvSummary(m, 200)
		}
		return fmt.Sprintf("R=http%d", r.status)
	case "X":
		// X:<c>:<endpoint>:<method>  plaintext on the raw socket regardless of what the controller believes
		saved := cc.secured
		cc.secured = false
		br := cc.br
		cc.br = cc.raw
		var body []byte
		ctype := ""
		switch p[2] {
		case "characteristics-put":
			body = []byte(`{"characteristics":[{"aid":2,"iid":9,"value":true,"ev":true}]}`)
			ctype = "application/hap+json"
		case "pairings":
			id := w.ident("intruder")
			body = tlvEncode([]tlvItem{{tState, []byte{1}}, {tMethod, []byte{3}}, {tName, []byte(id.name)}, {tPub, id.pub}, {tPerm, []byte{1}}})
			ctype = tlvCT
		case "pairings-remove":
			id := w.ident("c0")
			body = tlvEncode([]tlvItem{{tState, []byte{1}}, {tMethod, []byte{4}}, {tName, []byte(id.name)}})
			ctype = tlvCT
		case "resource":
			body = []byte(`{"resource-type":"image","image-width":16,"image-height":16}`)
			ctype = "application/hap+json"
		case "put-readonly":
			body = []byte(`{"characteristics":[{"aid":4,"iid":12,"value":9}]}`)
			ctype = "application/hap+json"
		case "put-noevents":
			body = []byte(`{"characteristics":[{"aid":4,"iid":13,"ev":true}]}`)
			ctype = "application/hap+json"
		case "put-missing":
			body = []byte(`{"characteristics":[{"aid":9,"iid":99,"value":1}]}`)
			ctype = "application/hap+json"
		}
		path := map[string]string{"accessories": "/accessories", "characteristics": "/characteristics?id=2.9,4.13", "characteristics-put": "/characteristics",
			"pairings": "/pairings", "pairings-remove": "/pairings", "resource": "/resource", "identify": "/identify",
			// requests whose refusal must not depend on what exists and what it permits
			"get-missing": "/characteristics?id=9.99,1.999", "get-writeonly": "/characteristics?id=1.2,4.11", "get-one": "/characteristics?id=2.9",
			"put-readonly": "/characteristics", "put-noevents": "/characteristics", "put-missing": "/characteristics"}[p[2]]
		r, e := do(p[3], path, ctype, body)
		cc.secured = saved
		cc.br = br
		if e != "" {
			cc.dead = true
			return "X=closed"
		}
		if r.status == 470 {
			// what a refusal says must be the same whatever was asked for: its body is part of the observation
			return fmt.Sprintf("X=%d,%s,body=%s", r.status, hasCanary(r.body), hx(r.body))
		}
		return fmt.Sprintf("X=%d,%s", r.status, hasCanary(r.body))
	case "E":
		// synchronise: a request/response on the same connection delimits the events sent before it
		cc.drainEvents(30 * time.Millisecond)
		if !cc.dead {
			do("GET", "/characteristics?id=1.2", "", nil)
		}
		var evs []string
		for _, e := range cc.events {
			evs = append(evs, charsSummary([]byte(e)))
		}
		cc.events = nil
		sort.Strings(evs)
		return "E=" + strings.Join(evs, ";")
	}
	return "bad"
}

// tokenValue turns the value token of a case line into the Go value encoding/json would produce
func tokenValue(val string) interface{} {
	switch {
	case val == "OBJ":
		return map[string]interface{}{"k": "1"}
	case val == "ARR":
		return []interface{}{"1", 1.0}
	case strings.HasPrefix(val, "J"):
		b, _ := hexDecode(strings.SplitN(val[1:], "~", 2)[0])
		var v interface{}
		json.Unmarshal(b, &v)
		return v
	}
	var v interface{}
	json.Unmarshal([]byte(val), &v)
	return v
}

func hexDecode(s string) ([]byte, error) {
	if len(s)%2 != 0 {
		return nil, fmt.Errorf("odd")
	}
	b := make([]byte, len(s)/2)
	for i := range b {
		v, err := strconv.ParseUint(s[2*i:2*i+2], 16, 8)
		if err != nil {
			return nil, err
		}
		b[i] = byte(v)
	}
	return b, nil
}

var _ = ed25519.Sign

// raceReads: RACE:<connA>:<connB>:<n>   connection A reads /accessories n times while connection B reads many
// characteristics over and over; nothing changes in between, so every answer must be well-formed JSON and equal to the
// first answer of its kind.
func (w *world) raceReads(ca, cb, ns string) string {
	a, b := w.conns[ca], w.conns[cb]
	if a == nil || b == nil || a.dead || b.dead {
		return "RACE=noconn"
	}
	n, _ := strconv.Atoi(ns)
	var ids []string
	for _, acc := range w.accs {
		for _, sv := range acc.Services {
			for _, c := range sv.Characteristics {
				if len(ids) < 120 {
					ids = append(ids, fmt.Sprintf("%d.%d", acc.ID, c.ID))
				}
			}
		}
	}
	path := "/characteristics?id=" + strings.Join(ids, ",")
	check := func(cc *ctlConn, method, p string, first *string) string {
		r, err := cc.request(method, p, "", nil)
		if err != nil {
			return "closed"
		}
		if r.status != 200 && r.status != 207 {
			return fmt.Sprintf("status%d", r.status)
		}
		var v interface{}
		if json.Unmarshal(r.body, &v) != nil {
			return "malformed-json"
		}
		if *first == "" {
			*first = string(r.body)
		} else if *first != string(r.body) {
			return "answer-differs"
		}
		return ""
	}
	done := make(chan string, 1)
	stop := make(chan struct{})
	go func() {
		first := ""
		for {
			select {
			case <-stop:
				done <- ""
				return
			default:
			}
			if e := check(b, "GET", path, &first); e != "" {
				done <- "characteristics:" + e
				return
			}
		}
	}()
	first := ""
	res := ""
	for i := 0; i < n && res == ""; i++ {
		if e := check(a, "GET", "/accessories", &first); e != "" {
			res = fmt.Sprintf("accessories:%s@%d", e, i)
		}
	}
	close(stop)
	if e := <-done; e != "" && res == "" {
		res = e
	}
	if res == "" {
		return "RACE=ok"
	}
	return "RACE=" + res
}

// verifyReplay: VR:<ctrl>:<n>   a passive adversary recorded one genuine pair-verify of <ctrl> (start and finish travel
// in plaintext) and replays the recorded start on n new connections; wherever the accessory answers with the public key
// of the recorded exchange, the recorded finish is replayed too. The accessory's key must be fresh on every connection.
func (w *world) verifyReplay(ctrl, ns string) string {
	n, _ := strconv.Atoi(ns)
	id := w.ident(ctrl)
	cc0, err := dial(w.port)
	if err != nil {
		return "VR=noconn"
	}
	defer cc0.c.Close()
	v := &verifyRun{cc: cc0}
	if m, st, err := v.m1(nil, w.accLTPK); err != nil || st != 200 || len(m[tErr]) > 0 || v.sesKey == nil {
		return "VR=genuine-start-failed"
	}
	mat := append(append(append([]byte{}, v.pub...), []byte(id.name)...), v.accPub...)
	inner := tlvEncode([]tlvItem{{tName, []byte(id.name)}, {tSig, ed25519.Sign(id.priv, mat)}})
	finish := []tlvItem{{tState, []byte{3}}, {tEnc, sealMsg(v.sesKey, "PV-Msg03", inner)}}
	if m, st, err := v.post(finish); err != nil || st != 200 || len(m[tErr]) > 0 {
		return "VR=genuine-finish-failed"
	}
	for i := 1; i <= n; i++ {
		cc, err := dial(w.port)
		if err != nil {
			return fmt.Sprintf("VR=noconn@%d", i)
		}
		r := &verifyRun{cc: cc}
		m, st, err := r.post([]tlvItem{{tState, []byte{1}}, {tPub, v.pub}})
		if err == nil && st == 200 && bytes.Equal(m[tPub], v.accPub) {
			m2, st2, err2 := r.post(finish)
			cc.c.Close()
			if err2 == nil && st2 == 200 && len(m2[tErr]) == 0 && len(m2[tState]) > 0 && m2[tState][0] == 4 {
				return fmt.Sprintf("VR=replay-accepted@%d", i)
			}
			return fmt.Sprintf("VR=key-repeated@%d", i)
		}
		cc.c.Close()
	}
	return "VR=fresh"
}

func dialSharedSource(port int) (*ctlConn, *ctlConn, error) {
	ctl := func(network, address string, c syscall.RawConn) error {
		var e error
		c.Control(func(fd uintptr) {
			e = syscall.SetsockoptInt(int(fd), syscall.SOL_SOCKET, syscall.SO_REUSEADDR, 1)
			if e == nil {
				e = syscall.SetsockoptInt(int(fd), syscall.SOL_SOCKET, 15 /* SO_REUSEPORT */, 1)
			}
		})
		return e
	}
	d1 := net.Dialer{Timeout: 2 * time.Second, Control: ctl, LocalAddr: &net.TCPAddr{IP: net.IPv4(127, 0, 0, 1), Port: 0}}
	c1, err := d1.Dial("tcp", fmt.Sprintf("127.0.0.1:%d", port))
	if err != nil {
		return nil, nil, err
	}
	lp := c1.LocalAddr().(*net.TCPAddr).Port
	d2 := net.Dialer{Timeout: 2 * time.Second, Control: ctl, LocalAddr: &net.TCPAddr{IP: net.IPv4(127, 0, 0, 1), Port: lp}}
	c2, err := d2.Dial("tcp", fmt.Sprintf("127.0.0.2:%d", port))
	if err != nil {
		c1.Close()
		return nil, nil, err
	}
	mk := func(c net.Conn) *ctlConn {
		cc := &ctlConn{c: c}
		cc.raw = bufio.NewReader(c)
		cc.br = cc.raw
		return cc
	}
	return mk(c1), mk(c2), nil
}

// eventStorm: STORM:<conn>:<n>   the connection (verified, subscribed to the unbounded uint32 characteristic 4.14) keeps
// sending requests while the application changes the value n times: every change must arrive as exactly one event, in
// order, and the stream must stay decryptable.
func (w *world) eventStorm(cn, ns, path string) string {
	cc := w.conns[cn]
	if cc == nil || cc.dead {
		return "STORM=noconn"
	}
	n, _ := strconv.Atoi(ns)
	c := w.find("4.14")
	if c == nil {
		return "STORM=nochar"
	}
	base := 1000000
	stop := make(chan struct{})
	done := make(chan string, 1)
	// everything the connection delivers from now on is also recorded (per request), to tell failures apart
	var rec bytes.Buffer
	cc.br = bufio.NewReader(io.TeeReader(cc.br, &rec))
	go func() {
		for {
			select {
			case <-stop:
				done <- ""
				return
			default:
			}
			rec.Reset()
			_, err := cc.request("GET", path, "", nil)
			if err != nil {
				// what went wrong with the answer? an EVENT message inside it (after its status line) is told apart
				raw := rec.Bytes()
				if i := bytes.Index(raw, []byte("HTTP/1.1 ")); i >= 0 && bytes.Contains(raw[i:], []byte("EVENT/1.0 200 OK")) {
					done <- "event-inside-response"
				} else {
					done <- "request-failed:" + err.Error()
				}
				return
			}
		}
	}()
	for i := 1; i <= n; i++ {
		c.UpdateValue(base + i)
		if i%8 == 0 {
			time.Sleep(200 * time.Microsecond)
		}
	}
	time.Sleep(30 * time.Millisecond)
	close(stop)
	if e := <-done; e != "" {
		return "STORM=" + strings.Replace(e, " ", "_", -1)
	}
	// everything that is still on its way gets its time (a loaded machine must not look like a lost event)
	for waited := 0; waited < 60 && len(cc.events) < n && !cc.dead; waited++ {
		cc.drainEvents(50 * time.Millisecond)
	}
	if !cc.dead {
		cc.request("GET", "/characteristics?id=1.5", "", nil)
	}
	next := 1
	for _, e := range cc.events {
		var r struct {
			Characteristics []struct {
				Aid, Iid int
				Value    interface{}
			} `json:"characteristics"`
		}
		if json.Unmarshal([]byte(e), &r) != nil || len(r.Characteristics) != 1 {
			return "STORM=unparsable-event"
		}
		v, _ := r.Characteristics[0].Value.(float64)
		if r.Characteristics[0].Aid != 4 || r.Characteristics[0].Iid != 14 {
			continue
		}
		if int(v) != base+next {
			return fmt.Sprintf("STORM=change-%d-of-%d-not-notified-in-order(got-%d)", next, n, int(v)-base)
		}
		next++
	}
	cc.events = nil
	if next != n+1 {
		return fmt.Sprintf("STORM=only-%d-of-%d-changes-notified", next-1, n)
	}
	return "STORM=ok"
}

// stalledSubscriber: STALL:<conn>:<seconds>:<n>:<size>   the connection (verified, subscribed to the string 4.16) stops
// reading for <seconds> while the application sets n values of <size> bytes (far more than the socket buffers hold, so the
// accessory's writes block); then it reads on: every event must arrive, intact and in order, and the stream must still
// decrypt.
func (w *world) stalledSubscriber(cn, secs, ns, sz string) string {
	cc := w.conns[cn]
	if cc == nil || cc.dead {
		return "STALL=noconn"
	}
	sec, _ := strconv.Atoi(secs)
	n, _ := strconv.Atoi(ns)
	size, _ := strconv.Atoi(sz)
	c := w.find("4.16")
	if c == nil {
		return "STALL=nochar"
	}
	pad := strings.Repeat("x", size)
	fin := make(chan struct{})
	go func() {
		for i := 1; i <= n; i++ {
			c.UpdateValue(fmt.Sprintf("%06d%s", i, pad))
		}
		close(fin)
	}()
	time.Sleep(time.Duration(sec) * time.Second)
	next := 1
	deadline := time.Now().Add(60 * time.Second)
	for next <= n && time.Now().Before(deadline) {
		cc.c.SetReadDeadline(time.Now().Add(5 * time.Second))
		r, isEvent, err := cc.readMessage("GET")
		if err != nil {
			cc.dead = true
			return fmt.Sprintf("STALL=stream-broken-at-event-%d-of-%d(%s)", next, n, strings.Replace(err.Error(), " ", "_", -1))
		}
		if !isEvent {
			continue
		}
		var ev struct {
			Characteristics []struct {
				Value string
			} `json:"characteristics"`
		}
		if json.Unmarshal(r.body, &ev) != nil || len(ev.Characteristics) != 1 || len(ev.Characteristics[0].Value) != 6+size ||
			ev.Characteristics[0].Value[:6] != fmt.Sprintf("%06d", next) {
			return fmt.Sprintf("STALL=event-%d-of-%d-not-intact", next, n)
		}
		next++
	}
	select {
	case <-fin:
	case <-time.After(10 * time.Second):
		return "STALL=application-still-blocked"
	}
	if next != n+1 {
		return fmt.Sprintf("STALL=only-%d-of-%d", next-1, n)
	}
	return "STALL=ok"
}

// srpMany: SRPMANY:<n>   n pair-setup exchanges M1..M4 with the right code on n fresh connections (several at a time): the
// accessory's random SRP key differs every time, about one in 256 has a leading zero byte; every exchange must succeed.
func (w *world) srpMany(ns string) string {
	n, _ := strconv.Atoi(ns)
	type res struct {
		ok    bool
		short bool
		what  string
	}
	jobs := make(chan int, n)
	out := make(chan res, n)
	for i := 0; i < n; i++ {
		jobs <- i
	}
	close(jobs)
	for k := 0; k < 12; k++ {
		go func() {
			for range jobs {
				cc, err := dial(w.port)
				if err != nil {
					out <- res{false, false, "noconn"}
					continue
				}
				s := &setupRun{cc: cc}
				m, st, err := s.m1()
				if err != nil || st != 200 || len(m[tErr]) > 0 {
					cc.c.Close()
					out <- res{false, false, "start-refused"}
					continue
				}
				short := len(s.B) < 384 || s.B[0] == 0
				m, st, err = s.m3(w.code(), nil, false, false)
				cc.c.Close()
				good := err == nil && st == 200 && len(m[tErr]) == 0 && len(s.notes) > 0 && s.notes[len(s.notes)-1] == "M2ok"
				what := ""
				if !good {
					what = fmt.Sprintf("proof-refused(B:%d-bytes,first:%02x,last:%02x)", len(s.B), s.B[0], s.B[len(s.B)-1])
				}
				out <- res{good, short, what}
			}
		}()
	}
	bad, shorts, first := 0, 0, ""
	for i := 0; i < n; i++ {
		r := <-out
		if r.short {
			shorts++
		}
		if !r.ok {
			bad++
			if first == "" {
				first = r.what
			}
		}
	}
	if bad > 0 {
		return fmt.Sprintf("SRPMANY=%d-of-%d-failed:%s", bad, n, first)
	}
	return "SRPMANY=ok"
}

// injectBehindFinish: INJ:<ctrl>:<aid.iid>:<attempts>
// Somebody on the path between a paired controller and the accessory appends PLAINTEXT requests (fillers that are refused and
// writes of `true` to the boolean characteristic) to the segment that carries the controller's genuine pair-verify finish, and
// one stray byte a little later.  What the controller sent ends with the finish; everything behind it is the beginning of the
// encrypted stream and none of it was sealed by the controller.  The application's value must stay false.
// Emits INJ=none, or INJ=hit<k>/<n> when the injected write took effect in k of n attempts.
func (w *world) injectBehindFinish(ctrl, cid, attempts string) string {
	c := w.find(cid)
	if c == nil {
		return "INJ=nochar"
	}
	n, _ := strconv.Atoi(attempts)
	ids := strings.Split(cid, ".")
	aid, _ := strconv.Atoi(ids[0])
	iid, _ := strconv.Atoi(ids[1])
	id := w.ident(ctrl)
	hits, ran := 0, 0
	delays := []time.Duration{300 * time.Microsecond, 100 * time.Microsecond, 600 * time.Microsecond, time.Millisecond, 0, 2 * time.Millisecond}
	for i := 0; i < n; i++ {
		c.UpdateValue(false)
		cc, err := dial(w.port)
		if err != nil {
			continue
		}
		v := &verifyRun{cc: cc}
		if _, st, err := v.m1(nil, w.accLTPK); err != nil || st != 200 {
			cc.c.Close()
			continue
		}
		// one attempt in three: the header lines of the finish and of what is put behind it end with a bare "\n"
		nl := "\r\n"
		if i%3 == 1 {
			nl = "\n"
			cc.bareLF = true
		}
		// every third attempt: the finish is re-framed with chunked transfer encoding plus a Content-Length that covers what
		// is put behind it (net/http goes by the former)
		cc.teBoth = i%3 == 2
		var tail bytes.Buffer
		for k := 0; k < 110; k++ {
			tail.WriteString("GET /x HTTP/1.1" + nl + "Host: x" + nl + nl)
		}
		body := fmt.Sprintf(`{"characteristics":[{"aid":%d,"iid":%d,"value":true}]}`, aid, iid)
		for k := 0; k < 3; k++ {
			fmt.Fprintf(&tail, "PUT /characteristics HTTP/1.1%sHost: x%sContent-Length: %d%s%s%s", nl, nl, len(body), nl, nl, body)
		}
		cc.tail = tail.Bytes()
		ran++
		done := make(chan struct{})
		go func() {
			v.m3(id.name, id.priv, "")
			close(done)
		}()
		time.Sleep(delays[i%len(delays)])
		if i%len(delays) != 4 {
			cc.c.Write([]byte{0xff})
		}
		select {
		case <-done:
		case <-time.After(2 * time.Second):
		}
		time.Sleep(100 * time.Millisecond)
		if b, ok := c.GetValue().(bool); ok && b {
			hits++
		}
		cc.c.Close()
		<-done
	}
	c.UpdateValue(false)
	if hits == 0 {
		return fmt.Sprintf("INJ=none/%d", ran)
	}
	return fmt.Sprintf("INJ=hit%d/%d", hits, ran)
}

// sharedSourceBehindIdentify: NSI:<ctrl>:<aid.iid>:<n>
// Two connections that the accessory sees under the SAME remote ip:port (one local ip:port, destinations 127.0.0.1 and
// 127.0.0.2).  The first never pair-verifies: it sends POST /identify (the application's identify callback takes 300 ms) and,
// in the same segment, a write of `true` to the boolean characteristic.  While the callback runs, the second connection
// pair-verifies as <ctrl> and reads.  The first connection's write must not be served: verification does not carry over.
// Emits NSI=refused/<n>, NSI=served<k>/<n>, or NSI=unsupported.
func (w *world) sharedSourceBehindIdentify(ctrl, cid, ns string) string {
	c := w.find(cid)
	if c == nil {
		return "NSI=nochar"
	}
	n, _ := strconv.Atoi(ns)
	ids := strings.Split(cid, ".")
	aid, _ := strconv.Atoi(ids[0])
	iid, _ := strconv.Atoi(ids[1])
	w.accs[0].OnIdentify(func() { time.Sleep(300 * time.Millisecond) })
	defer w.accs[0].OnIdentify(func() {})
	served, ran := 0, 0
	for i := 0; i < n; i++ {
		c.UpdateValue(false)
		ca, cb, err := dialSharedSource(w.port)
		if err != nil {
			return "NSI=unsupported"
		}
		ran++
		body := fmt.Sprintf(`{"characteristics":[{"aid":%d,"iid":%d,"value":true}]}`, aid, iid)
		seg := "POST /identify HTTP/1.1\r\nHost: x\r\nContent-Length: 0\r\n\r\n" +
			fmt.Sprintf("PUT /characteristics HTTP/1.1\r\nHost: x\r\nContent-Length: %d\r\n\r\n%s", len(body), body)
		ca.c.Write([]byte(seg))
		time.Sleep(50 * time.Millisecond)
		w.conns["nsi-b"] = cb
		w.pairVerify("nsi-b", ctrl, "ok")
		if !cb.dead {
			cb.request("GET", fmt.Sprintf("/characteristics?id=%s", cid), "", nil)
		}
		time.Sleep(450 * time.Millisecond)
		if b, ok := c.GetValue().(bool); ok && b {
			served++
		}
		ca.c.Close()
		cb.c.Close()
		delete(w.conns, "nsi-b")
		delete(w.verifs, "nsi-b")
		time.Sleep(20 * time.Millisecond)
	}
	c.UpdateValue(false)
	if served == 0 {
		return fmt.Sprintf("NSI=refused/%d", ran)
	}
	return fmt.Sprintf("NSI=served%d/%d", served, ran)
}

// resetAndReconnectSamePort: RSC:<n>
// A peer sends a pair-setup start request and resets its connection at once (while the handler computes); it connects again
// from the SAME local port and, after the handler of the first connection has returned, sends a correct start request on
// the new connection.  That request must be answered with M2.  Emits RSC=ok/<rounds> or RSC=unanswered<k>/<rounds>.
func (w *world) resetAndReconnectSamePort(ns string) string {
	n, _ := strconv.Atoi(ns)
	m1 := tlvEncode([]tlvItem{{tState, []byte{1}}, {tMethod, []byte{0}}})
	req := []byte(fmt.Sprintf("POST /pair-setup HTTP/1.1\r\nHost: x\r\nContent-Type: %s\r\nContent-Length: %d\r\n\r\n%s", tlvCT, len(m1), m1))
	addr := fmt.Sprintf("127.0.0.1:%d", w.port)
	bad, done := 0, 0
	for attempt := 0; done < n && attempt < 10*n; attempt++ {
		d1 := net.Dialer{LocalAddr: &net.TCPAddr{IP: net.IPv4(127, 0, 0, 1), Port: 0}, Timeout: time.Second}
		c1, err := d1.Dial("tcp", addr)
		if err != nil {
			continue
		}
		local := c1.LocalAddr().(*net.TCPAddr)
		c1.Write(req)
		time.Sleep(500 * time.Microsecond)
		c1.(*net.TCPConn).SetLinger(0)
		c1.Close()
		var c2 net.Conn
		d := net.Dialer{LocalAddr: &net.TCPAddr{IP: local.IP, Port: local.Port}, Timeout: time.Second}
		for i := 0; i < 200; i++ {
			if c2, err = d.Dial("tcp", addr); err == nil {
				break
			}
			time.Sleep(100 * time.Microsecond)
		}
		if err != nil {
			continue
		}
		done++
		time.Sleep(300 * time.Millisecond)
		cc := &ctlConn{c: c2}
		cc.raw = bufio.NewReader(c2)
		cc.br = cc.raw
		r, err := cc.request("POST", "/pair-setup", tlvCT, m1)
		if err != nil || r.status != 200 || !bytes.Contains(r.body, []byte{6, 1, 2}) {
			bad++
		}
		c2.Close()
		time.Sleep(50 * time.Millisecond)
	}
	if done == 0 {
		return "RSC=unsupported"
	}
	if bad == 0 {
		return fmt.Sprintf("RSC=ok/%d", done)
	}
	return fmt.Sprintf("RSC=unanswered%d/%d", bad, done)
}

// sameWriteFromTwo: DUPW:<ca>:<cb>:<sub>:<rounds>
// Two verified controllers write the SAME new value to the On characteristic of every extra accessory (nacc=) at the same time,
// round after round; a third one is subscribed to all of them.  Each characteristic changed once per round: the subscriber gets
// exactly one event per characteristic and round.  Emits DUPW=ok/<rounds>, or DUPW=events<k>_for<n>@<round>.
func (w *world) sameWriteFromTwo(can, cbn, subn, rs string) string {
	ca, cb, sub := w.conns[can], w.conns[cbn], w.conns[subn]
	if ca == nil || cb == nil || sub == nil || ca.dead || cb.dead || sub.dead {
		return "DUPW=noconn"
	}
	rounds, _ := strconv.Atoi(rs)
	type id struct{ aid, iid uint64 }
	var targets []id
	for _, a := range w.accs[4:] {
		for _, sv := range a.Services {
			for _, c := range sv.Characteristics {
				if c.Type == characteristic.TypeOn {
					targets = append(targets, id{a.ID, c.ID})
				}
			}
		}
	}
	if len(targets) == 0 {
		return "DUPW=notargets"
	}
	body := func(val interface{}, ev bool) []byte {
		var es []interface{}
		for _, t := range targets {
			m := map[string]interface{}{"aid": t.aid, "iid": t.iid}
			if ev {
				m["ev"] = true
			} else {
				m["value"] = val
			}
			es = append(es, m)
		}
		b, _ := json.Marshal(map[string]interface{}{"characteristics": es})
		return b
	}
	if r, err := sub.request("PUT", "/characteristics", "application/hap+json", body(nil, true)); err != nil || r.status != 204 {
		return "DUPW=subscribe-failed"
	}
	sub.events = nil
	for r := 0; r < rounds; r++ {
		b := body(r%2 == 0, false)
		var wg sync.WaitGroup
		for _, cc := range []*ctlConn{ca, cb} {
			wg.Add(1)
			go func(cc *ctlConn) {
				defer wg.Done()
				cc.request("PUT", "/characteristics", "application/hap+json", b)
			}(cc)
		}
		wg.Wait()
		sub.drainEvents(25 * time.Millisecond)
		n := 0
		for _, e := range sub.events {
			n += strings.Count(e, `"iid"`)
		}
		sub.events = nil
		if n != len(targets) {
			return fmt.Sprintf("DUPW=events%d_for%d@%d", n, len(targets), r)
		}
	}
	return fmt.Sprintf("DUPW=ok/%d", rounds)
}

// connectionChurn: CHURN:<milliseconds>
// Peers that never pair keep four connections busy (POST /identify, truncated pair-verify messages) while four others connect
// and disconnect in a loop.  The accessory's bookkeeping of connections is used from all of these goroutines at once.
// Emits CHURN=ok (whether the accessory still serves is asked by the operations that follow; if the process dies there is
// no output at all).
func (w *world) connectionChurn(ms string) string {
	d, _ := strconv.Atoi(ms)
	stop := time.Now().Add(time.Duration(d) * time.Millisecond)
	var wg sync.WaitGroup
	for i := 0; i < 4; i++ {
		wg.Add(2)
		go func(i int) {
			defer wg.Done()
			cc, err := dial(w.port)
			if err != nil {
				return
			}
			defer cc.c.Close()
			for time.Now().Before(stop) && !cc.dead {
				if i%2 == 0 {
					cc.request("POST", "/identify", "application/hap+json", []byte{})
				} else {
					cc.request("POST", "/pair-verify", tlvCT, []byte{6, 1, 1, 3})
				}
			}
		}(i)
		go func() {
			defer wg.Done()
			for time.Now().Before(stop) {
				if c, err := net.DialTimeout("tcp", fmt.Sprintf("127.0.0.1:%d", w.port), time.Second); err == nil {
					c.Close()
				}
			}
		}()
	}
	wg.Wait()
	return "CHURN=ok"
}

// headerSplit: HSPLIT:<c>:<k>
// On the plaintext connection c a pair-setup request (a step nobody has a name for: answered with an error) is sent in two TCP
// segments, cut k bytes before the end of its header; then a second one with a longer body in one piece.  Both must be
// answered.  Emits HSPLIT=answered, HSPLIT=unanswered1 or HSPLIT=unanswered2.
func (w *world) headerSplit(cn, ks string) string {
	cc := w.conns[cn]
	if cc == nil || cc.dead || cc.secured {
		return "HSPLIT=noconn"
	}
	k, _ := strconv.Atoi(ks)
	mk := func(body []byte) (head, rest []byte) {
		h := fmt.Sprintf("POST /pair-setup HTTP/1.1\r\nHost: hc.local\r\nContent-Type: %s\r\nContent-Length: %d\r\n\r\n", tlvCT, len(body))
		return []byte(h), body
	}
	answer := func() bool {
		cc.c.SetReadDeadline(time.Now().Add(2 * time.Second))
		_, _, err := cc.readMessage("POST")
		return err == nil
	}
	h1, b1 := mk(tlvEncode([]tlvItem{{tState, []byte{9}}}))
	cut := len(h1) - k
	cc.c.Write(h1[:cut])
	time.Sleep(30 * time.Millisecond)
	cc.c.Write(append(append([]byte{}, h1[cut:]...), b1...))
	if !answer() {
		cc.dead = true
		return "HSPLIT=unanswered1"
	}
	h2, b2 := mk(tlvEncode([]tlvItem{{tState, []byte{9}}, {tPub, make([]byte, 200)}}))
	cc.c.Write(append(h2, b2...))
	if !answer() {
		cc.dead = true
		return "HSPLIT=unanswered2"
	}
	return "HSPLIT=answered"
}
