module verifharness

go 1.13

require github.com/brutella/hc v0.0.0

replace github.com/brutella/hc => /repo
