module verifharness

go 1.13

require (
	github.com/brutella/hc v0.0.0
	golang.org/x/crypto v0.0.0-20201221181555-eec23a3978ad
)

replace github.com/brutella/hc => /repo
