import sys, os, importlib
sys.path.insert(0,'/verif/tools')
from vlib import core
from vlib.props import stackcommon as sc
pid=sys.argv[1]; tier=sys.argv[2] if len(sys.argv)>2 else 'quick'
mod=importlib.import_module('vlib.props.'+pid.lower())
cases=mod.gen(core.rng_for(pid,1),tier)
lines=["%s %s"%(c['id'],c['line']) for c in cases]
go=core.shard_run(os.path.join(core.BUILD,'hcdrv'),mod.FAMILY,lines)
mo=core.shard_run(os.path.join(core.BUILD,'modelrun'),mod.FAMILY,lines)
n=0
for c in cases:
    g,m=go.get(c['id'],''),mo.get(c['id'],'')
    why=mod.oracle(c,g)
    if not mod.same(c,g,m) or why:
        n+=1
        if n>int(os.environ.get('MAXD','4')): continue
        print('----',c['id'],' '.join(t for t in c['line'].split(' ') if not t.startswith('tbl=')))
        print('ORACLE',why)
        gs,ms=sc.canon_go(g).split(' '),sc.canon_model(m).split(' ')
        for i in range(max(len(gs),len(ms))):
            a=gs[i] if i<len(gs) else '-'; b=ms[i] if i<len(ms) else '-'
            if a!=b: print('!!',i,a[:160],'|',b[:160])
print('cases',len(cases),'bad',n)
