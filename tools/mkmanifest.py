#!/usr/bin/env python3
"""Regenerates MANIFEST.json from the table below (kept valid at all times)."""
import json, os
V = os.path.dirname(os.path.dirname(os.path.abspath(__file__)))
ALL = ["C%02d" % i for i in range(1, 21)]
CLAIMED = {
    "C16": dict(
        technique="Coq theorems over an executable Gallina model of util/tlv8.go (induction on set histories / parser fuel) + extracted-model vs Go differential correspondence",
        text="Machine-checked Coq proofs (round-trip for every set history, fragment shape, standard-reader reassembly, parser totality and parse-only-input) about a hand-written Gallina model; the model is tied to /repo's working tree on every run by executing the extracted model and the real util package on the same set histories and parser inputs and diffing observations; an independent Python oracle evaluates the property on the implementation's own output.",
        design="5/C16",
        note="Trusts: Coq kernel, extraction (ExtrOcamlBasic), OCaml/Go/Python harness, the correspondence sample (model faithful beyond it is not proved). Theorems closed under the global context (no axioms)."),
}
PENDING_REASON = "not yet claimed: model/theorems for this property are still being built in this development (see DESIGN.md section 10 for the order of work)"


def main():
    checks = []
    for pid in ALL:
        if pid not in CLAIMED:
            continue
        c = CLAIMED[pid]
        checks.append({
            "property_id": pid,
            "quick_cmd": "python3 tools/check.py %s --tier quick" % pid,
            "thorough_cmd": "python3 tools/check.py %s --tier thorough" % pid,
            "evidence_file": "/verif/evidence/%s.json" % pid,
            "replay_cmd_template": "python3 tools/check.py %s --replay {path}" % pid,
            "engine": "coq-model+correspondence",
            "level_claimed": {"category": "proof", "text": c["text"], "design_ref": c["design"]},
            "level_note": c["note"],
            "technique": c["technique"],
        })
    m = {
        "version": 1,
        "setup_cmd": "python3 tools/check.py --setup",
        "hooks": {
            "guard": "verif",
            "enable": "go build -tags verif (harness/go.mod replaces github.com/brutella/hc with /repo)",
            "baseline_off_cmd": "cd /repo && GOFLAGS=-mod=mod GOPROXY=off GOSUMDB=off go test -vet=off -count=1 ./...",
            "source_commits": json.load(open(os.path.join(V, "MANIFEST.hooks")))["commits"] if os.path.exists(os.path.join(V, "MANIFEST.hooks")) else [],
            "add_only": True,
        },
        "engines": [{
            "name": "coq-model+correspondence", "path": "/verif/coq, /verif/tools/check.py, /verif/harness, /verif/ocaml",
            "serves_properties": sorted(CLAIMED),
            "kind_free_text": "Coq 8.16.1 development (models, proofs, property theorems), translator for the data part, OCaml extraction + Go harness differential correspondence, Python implementation-side oracles and triage",
        }],
        "checks": checks,
        "notes": "Every check: regenerate Gen/*.v from /repo, make (full .vo), recompile Properties/<id>.v capturing Print Assumptions, extract+run model and Go code on the same cases, evaluate the property oracle on the implementation, triage (DESIGN.md section 4).",
        "not_applicable": [{"property_id": p, "reason": PENDING_REASON} for p in ALL if p not in CLAIMED],
    }
    json.dump(m, open(os.path.join(V, "MANIFEST.json"), "w"), indent=1)


if __name__ == "__main__":
    main()
