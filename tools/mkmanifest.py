#!/usr/bin/env python3
"""Regenerates MANIFEST.json from the table below (kept valid at all times)."""
import json, os
V = os.path.dirname(os.path.dirname(os.path.abspath(__file__)))
ALL = ["C%02d" % i for i in range(1, 21)]
CLAIMED = {
    "C16": dict(
        technique="Coq theorems over an executable Gallina model of util/tlv8.go (induction on set histories / parser fuel) + extracted-model vs Go differential correspondence",
        text="Machine-checked Coq proofs (round-trip for every set history, fragment shape, standard-reader reassembly, parser totality and parse-only-input) about a hand-written Gallina model; the model is tied to /repo's working tree on every run by executing the extracted model and the real util package on the same set histories and parser inputs and diffing observations; an independent Python oracle evaluates the property on the implementation's own output.",
        design="5/C16",
        note="Trusts: Coq kernel, extraction (ExtrOcamlBasic), OCaml/Go/Python harness, the correspondence sample (model faithful beyond it is not proved). Theorems closed under the global context (no axioms)."),
    "C18": dict(
        technique="Coq refinement proof (file-system model of fileStorage/database refines a history-defined map, for all histories and all entity names) + extracted-model vs Go differential correspondence on real temp directories",
        text="Theorems: Get = last Set not deleted for every history and key (keys identified after the ':' sanitiser), listing = exactly the live entries, the pairing database is a map over arbitrary-byte entity names (hex key derivation injective, sanitiser-stable, never a temp name). The model is run against the real util/db packages on random histories with forced shorter overwrites and non-UTF-8 names; an independent in-memory map is the implementation-side oracle.",
        design="5/C18",
        note="Trusts Coq kernel, extraction, harness; POSIX semantics of open/write/rename as modelled; encoding/json round trip exercised not proved; keys ending in '.tmp', containing '/', empty, '.', '..' are outside the theorem (stated as key_ok). No axioms."),
    "C19": dict(
        technique="Coq proof over all crash prefixes of the write's file-system operation sequence + kill experiments at every verif-tagged crash point + strace tie of the operation sequence",
        text="Theorem C19_atomic: for every directory state, key, value and crash index the key holds old-or-new and other files are untouched; C19_sequences lifts it to SaveEntity and the three-Set configuration rewrite. Tie: a child process built from /repo with -tags verif is SIGKILLed at each of the 6 crash points per Set (all old/new length classes, sequences, SaveEntity, full NewIPTransport restart), the directory is re-read by a fresh store and compared with the extracted model's crash state and with the property oracle; strace confirms the system-call sequence equals the model's set_ops.",
        design="5/C19",
        note="Process-kill semantics only (no power-loss reordering); a single write(2) is not torn by SIGKILL; crash points are the hook calls of commit a17b149. No axioms."),
    "C05": dict(
        technique="Coq induction over the frames of an arbitrary input stream (accepted frames = the sent ones or a forgery event), for any AEAD with open∘seal=id and for the Gallina ChaCha20-Poly1305 instance, at the session (Decrypt loop) and at the connection (hap.Connection.Read over arbitrary socket schedules, the caller reading on after errors); differential correspondence on exhaustively bit-flipped / truncated / permuted / replayed / reflected streams at both levels",
        text="C05_prefix_or_forgery quantifies over every key, counter, plaintext list and EVERY input byte string; the code's receive loop releases a frame-prefix of what was sent, ends cleanly only on an exact frame-prefix and errs no later than the first altered frame, unless open accepted a frame the peer never sealed (the AEAD's INT-CTXT assumption, stated not proved). Key separation is proved for the labels regenerated from the Go source. The extracted model (with its own ChaCha20-Poly1305/HKDF-SHA-512, RFC-vector checked) and hc's session run on the same altered streams; an independent oracle checks the prefix property on hc's output. C05_connection_prefix_or_forgery lifts the statement to hap.Connection.Read for every socket schedule and every sequence of reads (found necessary: the read path delivered frames following an undecryptable one, repaired by 1e7d383).",
        design="5/C05",
        note="Cryptographic assumption = no forgery event; x/crypto primitives trusted to implement the RFCs (cross-checked against the Gallina instance byte for byte). No axioms."),
    "C06": dict(
        technique="Coq proofs: packetiser independent of reader chunking, Encrypt = specification wire format, Decrypt∘Encrypt = id for all lengths and message sequences (counter continuity), constants regenerated from the Go source equal the specification's; byte-exact differential correspondence incl. a Gallina ChaCha20-Poly1305 + HKDF-SHA-512",
        text="Theorems hold for every shared secret, payload, reader schedule and message sequence; the wire-format theorem is parametric in the AEAD and the round trip is proved for the concrete Gallina ChaCha20-Poly1305 (open∘seal=id proved). Gen/Extracted.v (frame size, HKDF labels per direction, nonce offset) is regenerated from /repo on every run and the constants theorem recompiled. The extracted model, hc and an x/crypto reference framer are compared byte for byte over all payload lengths (thorough: 0..4097 exhaustively) and reader behaviours.",
        design="5/C06",
        note="Readers return non-empty pieces until exhausted. x/crypto trusted; Gallina crypto validated by RFC 8439 / FIPS 180-4 / RFC 5869 vectors under vm_compute. No axioms."),
    "C07": dict(
        technique="Coq refinement of the connection read path (readFrame/DecryptedRead model over an arbitrary socket-read schedule) to a byte FIFO, by invariant over reads; progress theorem; differential correspondence through hap.Connection over a scripted net.Conn",
        text="C07_refines_fifo: for every chunk list, every segmentation/timeout schedule delivering the ciphertext and every sequence of caller buffer sizes, every Read result is data or timeout (never EOF / decrypt error) and delivered ++ buffered ++ undecrypted = sent (no loss, duplication, reordering); C07_progress: a complete buffered frame is served without consuming a socket event. Proved for any AEAD with open∘seal=id and for the Gallina ChaCha20-Poly1305. The extracted model and the real hap.Connection (session installed through the public context API) run on the same schedules, ciphertext from an x/crypto reference framer.",
        design="5/C07",
        note="The socket delivers bytes in order; schedules are explicit; net/http's buffering above Connection.Read is outside. Fixed defect 85a235f (lost read-ahead, spurious EOF, k*1024 stall). No axioms."),
    "C08": dict(
        technique="Coq invariant proof over all interleavings (schedules of Enter/Step events) of the locked write path: counters on the socket are 0,1,2,... in order and each completed write's frames are contiguous and intact; refuted for the unlocked variant; gated-socket enumeration of release orders against the real Connection.Write",
        text="C08_no_counter_reuse_in_order and C08_payloads_intact_contiguous hold for every schedule, number of writers and payloads (fewer than 2^64 events). The real code is exercised with 2..4 concurrent writers over a scripted net.Conn that holds socket writes; every release-order preference is enumerated for N<=3; the captured stream is decrypted by an x/crypto reference framer. The observable compared with the model is the multiset of intact payloads (mutex acquisition order is nondeterministic).",
        design="5/C08",
        note="Partial: the Go memory model below the granularity of the micro-steps (torn counter reads) is not represented; sync.Mutex semantics assumed; the race detector is not part of the registered check. No axioms."),
    'C01': dict(
        technique='Coq invariant proofs over the world model (connections, sessions, Authenticate middleware): an adversary connection is never verified for any history with arbitrary interleaving of other connections; a refused request has no effect and a constant answer; translator-regenerated endpoint table; full-stack differential correspondence',
        text='C01_adversary_never_verified (all histories, all interleavings), C01_refused_no_disclosure_no_effect, C01_no_carry_over, C01_connections_independent, and the endpoint table / middleware shape recompiled from the Go source each run. The real transport is driven over loopback TCP by an independent reference controller plus adversary connections (plaintext requests to all endpoints, failed / forged handshakes); canary strings must never reach an unverified connection.',
        design='5/C01',
        note='Symbolic (Dolev-Yao style) cryptography in the world model: forging a proof / signature / sealed message is impossible by construction of the message alphabet; INT-CTXT, EUF-CMA, SRP-6a soundness, CDH, HKDF-as-RO are assumed, not proved. net/http parsing modelled as 400-and-close. Model tied to the code by the translator (endpoint table, Authenticate shape, labels, nonces, tags) and by running the real ipTransport over TCP against an independent reference controller on the same scenarios as the extracted model. No axioms.'),
    'C02': dict(
        technique='Coq proofs on the pair-setup controller model: store changes only by a genuine key exchange after a right SRP proof (controller invariant step 4 => SRP key), adversary histories never change the store; full-stack message-sequence correspondence with a math/big SRP reference client',
        text='C02_store_only_after_proof, C02_invariant_reachable, C02_no_proof_no_key_exchange, C02_adversary_never_stores for every message sequence on any number of interleaved connections. The real controller is driven message by message (23 message kinds incl. A=0/N/2N, zero / random keys, tampered / short / malformed payloads) and the store is read after every message; an independent state machine written from the specification is the oracle.',
        design='5/C02',
        note='Symbolic (Dolev-Yao style) cryptography in the world model: forging a proof / signature / sealed message is impossible by construction of the message alphabet; INT-CTXT, EUF-CMA, SRP-6a soundness, CDH, HKDF-as-RO are assumed, not proved. net/http parsing modelled as 400-and-close. Model tied to the code by the translator (endpoint table, Authenticate shape, labels, nonces, tags) and by running the real ipTransport over TCP against an independent reference controller on the same scenarios as the extracted model. No axioms.'),
    'C03': dict(
        technique='Coq proofs: the endpoint installs the session iff the finish is a genuine signature of a stored controller in the right step; one-step and all-history versions; full-stack pair-verify variants with plaintext probes',
        text="C03_install_iff_genuine, C03_verified_only_by_valid_signature, C03_unverified_stays_unverified. 19 finish / start variants (bad signature, stale / reordered material, reflection of the accessory's own signature, unknown names, wrong keys and lengths) are run against the real server; after each, a plaintext probe must still be refused in plaintext.",
        design='5/C03',
        note='Symbolic (Dolev-Yao style) cryptography in the world model: forging a proof / signature / sealed message is impossible by construction of the message alphabet; INT-CTXT, EUF-CMA, SRP-6a soundness, CDH, HKDF-as-RO are assumed, not proved. net/http parsing modelled as 400-and-close. Model tied to the code by the translator (endpoint table, Authenticate shape, labels, nonces, tags) and by running the real ipTransport over TCP against an independent reference controller on the same scenarios as the extracted model. No axioms.'),
    'C04': dict(
        technique="Coq symbolic-evaluation theorems (honest run completes from every world; wrong code => error 2, nothing stored), constants and signature-material orders regenerated from the Go source proved equal to the specification's, session interop from C06; independent reference controller (math/big SRP over the RFC 3526 prime re-derived from pi, x/crypto) against the real transport",
        text='C04_completes and C04_wrong_code hold for every world, connection, controller name and key; C04_constants_are_the_specification and C04_signature_material_order are recompiled against Gen/Extracted.v each run. The reference controller verifies every accessory proof and signature (M2, M4, M6), for random setup codes, 1..64-byte / UTF-8 / binary identifiers, 4..154 accessories (multi-frame, multi-chunk responses).',
        design='5/C04',
        note='Symbolic (Dolev-Yao style) cryptography in the world model: forging a proof / signature / sealed message is impossible by construction of the message alphabet; INT-CTXT, EUF-CMA, SRP-6a soundness, CDH, HKDF-as-RO are assumed, not proved. net/http parsing modelled as 400-and-close. Model tied to the code by the translator (endpoint table, Authenticate shape, labels, nonces, tags) and by running the real ipTransport over TCP against an independent reference controller on the same scenarios as the extracted model. No axioms.'),
    'C09': dict(
        technique='Coq proofs: GET answer shape for every id list (order, one entry per id, 207 iff missing, status on every entry), valid values stored exactly, chunking transparent; full-stack write/set-then-read correspondence incl. string escaping, multi-frame values, large databases',
        text='C09_get_shape, C09_write_then_read, C09_chunked_identity (+ C06 for framing). Real PUT / application sets followed by GET with random id lists and /accessories through JSON, 2048-byte chunking and encryption, parsed by the reference controller; a Python oracle tracks the expected value of every characteristic.',
        design='5/C09',
        note='Symbolic (Dolev-Yao style) cryptography in the world model: forging a proof / signature / sealed message is impossible by construction of the message alphabet; INT-CTXT, EUF-CMA, SRP-6a soundness, CDH, HKDF-as-RO are assumed, not proved. net/http parsing modelled as 400-and-close. Model tied to the code by the translator (endpoint table, Authenticate shape, labels, nonces, tags) and by running the real ipTransport over TCP against an independent reference controller on the same scenarios as the extracted model. No axioms.'),
    'C10': dict(
        technique='Coq characterisation of the fan-out (exactly the open, subscribed, non-originating connections, each at most once; nothing without change / permission) + full-stack event histories over several connections with an independent subscription oracle',
        text='C10_exactly_the_subscribed_others, C10_at_most_once, C10_no_event_without_change, C10_no_subscription_without_event_permission. Histories of subscribe / unsubscribe / local set / remote write / close / reconnect over 2-4 verified connections of the real transport (the wiring in ipTransport.addAccessory / notifyListener is the code under test); events are drained per connection, delimited by a following request.',
        design='5/C10',
        note='Symbolic (Dolev-Yao style) cryptography in the world model: forging a proof / signature / sealed message is impossible by construction of the message alphabet; INT-CTXT, EUF-CMA, SRP-6a soundness, CDH, HKDF-as-RO are assumed, not proved. net/http parsing modelled as 400-and-close. Model tied to the code by the translator (endpoint table, Authenticate shape, labels, nonces, tags) and by running the real ipTransport over TCP against an independent reference controller on the same scenarios as the extracted model. No axioms.'),
    'C11': dict(
        technique='Coq proofs on the characteristic and PUT-handler models (no write without pw, no stored value without pr, subscription without ev answered -70406 and ineffective) + API-level and HTTP-level correspondence',
        text='C11_no_write, C11_no_read (all update sequences), C11_no_event. Through HTTP: writes to read-only characteristics, reads of write-only ones, subscriptions to characteristics without event permission followed by local changes; values, callbacks, /accessories and events observed.',
        design='5/C11',
        note='Symbolic (Dolev-Yao style) cryptography in the world model: forging a proof / signature / sealed message is impossible by construction of the message alphabet; INT-CTXT, EUF-CMA, SRP-6a soundness, CDH, HKDF-as-RO are assumed, not proved. net/http parsing modelled as 400-and-close. Model tied to the code by the translator (endpoint table, Authenticate shape, labels, nonces, tags) and by running the real ipTransport over TCP against an independent reference controller on the same scenarios as the extracted model. No axioms.'),
    'C12': dict(
        technique='Coq invariant proof over arbitrary update sequences with arbitrary values (conversion, clamping, equality test, permissions) + differential correspondence on every format with Python-annotated strconv / float conversions',
        text='C12_invariant: for every declared format and bounds, every sequence of local / remote / getter-function updates with any value keeps the stored value of the declared type and within bounds, without panic; C12_getters_total. The extracted model and the real characteristic package run on the same update sequences (all formats, permission sets, bounds; numbers of any magnitude, NaN / Inf, numeric and non-numeric strings, null, arrays, objects, repeated composites).',
        design='5/C12',
        note='strconv / uint64(float64) results are oracles universally quantified in the theorem and annotated by the generator; unknown (custom) format names are outside the statement. No axioms.'),
    'C13': dict(
        technique='Coq totality: no handler outcome is a panic in any world; recovery lemmas for pair-setup / pair-verify from any controller state; full-stack malformed-input battery at five protocol states followed by honest handshakes',
        text='C13_no_panic, C13_setup_recovers_same_connection, C13_verify_recovers_same_connection, C13_updates_never_panic. Real server: malformed TLV8, hostile JSON (1e400, 12000-deep nesting, wrong types), short / undecryptable payloads, unknown steps / methods, composite values at five protocol states; every request must be answered (no dropped connection) and a correct handshake must succeed afterwards on the same and on a new connection.',
        design='5/C13',
        note='Symbolic (Dolev-Yao style) cryptography in the world model: forging a proof / signature / sealed message is impossible by construction of the message alphabet; INT-CTXT, EUF-CMA, SRP-6a soundness, CDH, HKDF-as-RO are assumed, not proved. net/http parsing modelled as 400-and-close. Model tied to the code by the translator (endpoint table, Authenticate shape, labels, nonces, tags) and by running the real ipTransport over TCP against an independent reference controller on the same scenarios as the extracted model. No axioms.'),
    "C20": dict(
        technique="Coq proofs over arbitrary histories of restarts / pairings / unpairings (identity invariant, configuration number = count of structure changes, discoverable <-> no controller entity), structural induction on JSON trees (value members never reach the hash input), setup-code acceptance characterised against the HAP trivial-code list regenerated from the Go source, X-HM payload round trip for all codes < 10^8, categories, flags and ids; differential correspondence on real NewIPTransport restart histories with live pairing through the reference controller",
        text="C20_identity_stable / _restart_keeps_pairings (every history), C20_version_counts_structure_changes (every history; pairing never changes c#), C20_values_do_not_reach_the_hash (all JSON trees differing only in value members at any depth), C20_discoverable_iff_unpaired (every history), C20_pin_accepted_iff (all byte strings; trivial list from password.go), C20_setup_uri_roundtrip (all accepted codes, all categories, flag lists, setup ids; independent decoder). The model runs against hc on restart histories on one storage directory (structure / value / pairing changes, live pair-setup / add / remove, version / configHash files deleted), on setup codes and on util.XHMURI; Config.same_hash_input runs on the real JSON trees against equality of ContentHash().",
        design="5/C20",
        note="The structure hash is opaque in the history model (MD5 collision freedom outside the model); histories keep the uuid and the accessory's own entity file. No axioms."),
    "C17": dict(
        technique="Coq proofs over a deep embedding of Go struct types and values: (1) Unmarshal (Marshal v) = v for every well-formed struct type and every value of the stated class, at any nesting depth, list length and string length, by mutual induction over values through the fragment-merging reader (frame lemma for the bucket map, column invariant for the decoder loops); (2) wire format: the bytes are the concatenation of TLV items of at most 255 value bytes, fragments concatenate to the value, integers are little-endian two's complement; (3) Unmarshal is total (no panic, no divergence) for every struct type and every byte string; RTP message types regenerated from rtp/*.go and proved well-formed; differential correspondence of the extracted encoder / reader / decoder against tlv8.Marshal / Unmarshal on the real RTP types and on reflect.StructOf types of every field kind",
        text="C17_roundtrip / _rtp_roundtrip, C17_wire_items / _fragments / _little_endian, C17_unmarshal_total / _never_panics; the class boundary is exact on both sides (C17_roundtrip_outside_class_refuted gives the two recorded findings, C17_pinned_* the repaired defects). Every Go operation that can panic is a partial operation in the model and every loop runs on fuel. The executable model is compared with hc on every RTP message type and on synthetic types with extreme values, fragments beyond 255 bytes, lists, and on mutated / random decoder input; an independent Python reference encoder judges the wire bytes and the round trip.",
        design="5/C17",
        note="Two decoder limitations are recorded as known findings (empty string / byte-string fields inside list elements; outside the theorem's value class); struct types are assumed well-formed (distinct tags 1..255, inline element tags disjoint from sibling tags, inline elements of scalars). No axioms."),
    "C14": dict(
        technique="Coq proofs: instance ids are exactly 1..n in construction order for every accessory shape, container ids unique and non-zero for every composition (invariant of AddAccessory); JSON mandatory members and catalog format / permission facts recompiled from the Go source; differential correspondence on random compositions of real constructors",
        text="C14_instance_ids_sequential / _unique_nonzero (all shapes), C14_accessory_ids_unique_nonzero (all compositions with explicit and automatic ids), C14_json_mandatory_members (struct tags regenerated by the translator), C14_every_ctor_sets_format_and_perms (finite, by computation over the regenerated catalog). Compositions of up to 40 (thorough 60) accessories from every service constructor with hidden / primary / linked services are built twice; ids are read from the objects and from the generic JSON, which is checked for HAP well-formedness.",
        design="5/C14",
        note="Premise: services are added before the accessory is added and each accessory is added once. No axioms."),
    "C15": dict(
        technique="translator regenerates the whole constructor catalog and the metadata as Coq data on every run; finite statements proved by computing boolean checkers (vm_compute) lifted by soundness lemmas; run-time dump of every constructor cross-checks the translator",
        text="C15_every_meta_char_has_ctor (type, format, permissions, unit, min / max / step, default of the right type within bounds, embedded Go type and literal types), C15_ctor_type_is_declared, C15_every_meta_service_has_ctor (required characteristics), C15_services_usable_and_distinct (base initialised, known characteristics, no duplicate types) are recompiled against Gen/CatalogGen.v and Gen/MetadataGen.v; every zero-argument constructor (169 + 54 + 11 accessories) is called under recover and compared field by field with its translated record.",
        design="5/C15",
        note="Finite domain: the catalog present at check time (bound stated in the theorems). Translator (go/parser) trusted but cross-checked dynamically. vm_compute used. No axioms."),
}
PENDING_REASON = "not yet claimed: model/theorems for this property are still being built in this development (see DESIGN.md section 10 for the order of work)"


def main():
    checks = []
    for pid in ALL:
        if pid not in CLAIMED:
            continue
        c = CLAIMED[pid]
        checks.append({
            "property_id": pid,
            "quick_cmd": "python3 tools/check.py %s --tier quick" % pid,
            "thorough_cmd": "python3 tools/check.py %s --tier thorough" % pid,
            "evidence_file": "/verif/evidence/%s.json" % pid,
            "replay_cmd_template": "python3 tools/check.py %s --replay {path}" % pid,
            "engine": "coq-model+correspondence",
            "level_claimed": {"category": "proof", "text": c["text"], "design_ref": c["design"]},
            "level_note": c["note"],
            "technique": c["technique"],
        })
    m = {
        "version": 1,
        "setup_cmd": "python3 tools/check.py --setup",
        "hooks": {
            "guard": "verif",
            "enable": "go build -tags verif (harness/go.mod replaces github.com/brutella/hc with /repo)",
            "baseline_off_cmd": "cd /repo && GOFLAGS=-mod=mod GOPROXY=off GOSUMDB=off go test -vet=off -count=1 ./...",
            "source_commits": json.load(open(os.path.join(V, "MANIFEST.hooks")))["commits"] if os.path.exists(os.path.join(V, "MANIFEST.hooks")) else [],
            "add_only": True,
        },
        "engines": [{
            "name": "coq-model+correspondence", "path": "/verif/coq, /verif/tools/check.py, /verif/harness, /verif/ocaml",
            "serves_properties": sorted(CLAIMED),
            "kind_free_text": "Coq 8.16.1 development (models, proofs, property theorems), translator for the data part, OCaml extraction + Go harness differential correspondence, Python implementation-side oracles and triage",
        }],
        "checks": checks,
        "notes": "Every check: regenerate Gen/*.v from /repo, make (full .vo), recompile Properties/<id>.v capturing Print Assumptions, extract+run model and Go code on the same cases, evaluate the property oracle on the implementation, triage (DESIGN.md section 4).",
        "not_applicable": [{"property_id": p, "reason": PENDING_REASON} for p in ALL if p not in CLAIMED],
    }
    json.dump(m, open(os.path.join(V, "MANIFEST.json"), "w"), indent=1)


if __name__ == "__main__":
    main()
