#!/usr/bin/env python3
"""check.py <property-id> [--tier quick|thorough] [--replay FILE]   |   check.py --setup
One check = regenerate+build, correspondence, implementation-side oracle, triage+evidence."""
import argparse, importlib, json, os, sys
sys.path.insert(0, os.path.dirname(os.path.abspath(__file__)))
from vlib import core


def main():
    ap = argparse.ArgumentParser()
    ap.add_argument("pid", nargs="?")
    ap.add_argument("--tier", default=os.environ.get("VERIF_TIER", "quick"))
    ap.add_argument("--setup", action="store_true")
    ap.add_argument("--replay")
    a = ap.parse_args()
    if a.setup:
        return setup()
    seed = int(os.environ.get("VERIF_SEED", "1"))
    mod = importlib.import_module("vlib.props." + a.pid.lower())
    res = core.Result(a.pid, a.tier, seed)
    try:
        if hasattr(mod, "run"):
            mod.run(res, a)
        else:
            generic(mod, res, a)
    except Exception:
        # The machinery itself could not complete on this tree (the harness no longer compiles against it, a driver died
        # in a way no stage expected, ...). On the unchanged tree this does not happen; the property is then no longer
        # shown to hold, which is reported as such — never as a bare traceback.
        import traceback
        tb = traceback.format_exc()
        sys.stderr.write(tb)
        res.broken.append("the check could not be completed on this tree: " + tb.strip().splitlines()[-1][:300] + " | " + " / ".join(l.strip() for l in tb.strip().splitlines()[-7:-1])[:900])
    core.report_broken_without_input(res)
    return core.finish(res)


def generic(mod, res, a):
    res.rule = mod.RULE
    res.assumptions = list(getattr(mod, "ASSUMPTIONS", []))
    core.build_everything(res, mod.ID, extra_files=getattr(mod, "EXTRA_FILES", ()))
    res.trusted += list(getattr(mod, "TRUSTED", []))
    if a.replay:
        rep = json.load(open(a.replay))
        cases = [{"id": "replay", "line": rep["case"], "kind": "replay"}]
    else:
        rng = core.rng_for(mod.ID, res.seed)
        cases = core.load_corpus(mod.FAMILY) + mod.gen(rng, a.tier)
    core.run_correspondence(res, mod.FAMILY, cases, mod)


def setup():
    """MANIFEST.setup_cmd: full clean build of everything from files on disk"""
    import shutil
    with core.Lock():
        core.run_translator()
        core.sh("coq_makefile -f _CoqProject -o Makefile", cwd=core.COQ)
        core.sh("make clean", cwd=core.COQ, check=False)
        rc, out = core.coq_make(keep_going=False)
        if rc != 0:
            print(out[-3000:])
            return 1
        exe = os.path.join(core.BUILD, "modelrun")
        if os.path.exists(exe):
            os.remove(exe)
        core.build_modelrun()
        core.build_harness()
    print("setup ok")
    return 0


if __name__ == "__main__":
    sys.exit(main())
