#!/usr/bin/env python3
"""Emits the 'As built' paragraph of every per-property section of DESIGN.md (from the manifest table, the
Properties files, known_findings.json and the stored seed runs) and splices section 0 + paragraphs into DESIGN.md."""
import glob, json, os, re, subprocess, sys
V = os.path.dirname(os.path.dirname(os.path.abspath(__file__)))
sys.path.insert(0, os.path.join(V, "tools"))
import mkmanifest, mkdesign_tables

MODELS = {
    "C01": ("Model/Hap.v, Model/Spec.v, Model/Sessions.v (the session table and its key); Proofs/HapProofs.v, SessionsProofs.v", "stack (incl. the shared-address runs NS / NSI) + sess"), "C02": ("Model/Hap.v; Proofs/HapProofs.v", "stack"),
    "C03": ("Model/Hap.v; Proofs/HapProofs.v", "stack"), "C04": ("Model/Hap.v, Model/Spec.v, Model/Framing.v, Model/Srp.v; Proofs/HapProofs.v, SpecProofs.v, FramingProofs.v, SrpProofs.v (and SrpFast.v for the evaluation of the SRP model)", "stack + srp + config"),
    "C05": ("Model/Framing.v, Model/ConnRead.v, Model/Pipeline.v (requests buffered across the switch to the secure session), Model/PlainFrame.v (where a plain text message ends: plainHeaderEnd / plainMessageBytes byte for byte), Model/PlainRead.v (the plain text phase of Connection.Read with the HTTP layer above it, up to the switch to the secure session), Base/ChaCha20Poly1305 + HKDF-SHA-512; Proofs/FramingProofs.v, ConnAdvProofs.v, PipelineProofs.v, PlainFrameProofs.v, PlainReadProofs.v, Base/ChaChaPolyProofs.v", "frame + conn + stack (VR, INJ) + plain"),
    "C06": ("Model/Framing.v; Proofs/FramingProofs.v", "frame"), "C07": ("Model/ConnRead.v; Proofs/ConnReadProofs.v", "conn"),
    "C08": ("Model/ConnWrite.v; Proofs/ConnWriteProofs.v", "connw"), "C09": ("Model/Hap.v (do_get / do_put), Model/Charac.v, Model/Respond.v; Proofs/HapProofs.v, RespondProofs.v", "stack + connw (resp)"),
    "C10": ("Model/Hap.v (notify, subscriptions), Model/Update.v (several writers of one value); Proofs/HapProofs.v, UpdateProofs.v", "stack (incl. DUPW, LSPLIT)"), "C11": ("Model/Charac.v, Model/Hap.v; Proofs/CharacProofs.v, HapProofs.v", "charac + stack"),
    "C12": ("Model/Charac.v; Proofs/CharacProofs.v", "charac"), "C13": ("Model/Hap.v, Model/Charac.v, Model/Sessions.v (late close); Proofs/HapProofs.v, CharacProofs.v, SessionsProofs.v", "stack (incl. RSC)"),
    "C14": ("Model/Ids.v, Gen/CatalogGen.v; Proofs/IdsProofs.v", "ids"), "C15": ("Model/Catalog.v, Gen/CatalogGen.v, Gen/MetadataGen.v; Proofs/CatalogProofs.v", "catalog"),
    "C16": ("Model/Tlv8.v; Proofs/Tlv8Proofs.v", "tlv"), "C17": ("Model/TlvStruct.v, Gen/RtpGen.v; Proofs/TlvStructProofs.v, Proofs/TlvRoundtrip.v", "tstruct"),
    "C18": ("Model/Storage.v (incl. merge: interleaved writes); Proofs/StorageProofs.v", "storage + db (incl. CS)"), "C19": ("Model/Storage.v (set_ops, writes_ops: sets, deletes, names at NAME_MAX; crash prefixes); Proofs/StorageProofs.v", "crash + storage (CS)"),
    "C20": ("Model/Pin.v, Model/Config.v (incl. first_start_cut: a first start that ends early); Proofs/ConfigProofs.v", "config"),
}


def paragraphs():
    kf = json.load(open(os.path.join(V, "known_findings.json")))["findings"]
    out = {}
    for pid in mkmanifest.ALL:
        c = mkmanifest.CLAIMED[pid]
        names = re.findall(r"^(?:Theorem|Example|Corollary)\s+(\w+)", open(os.path.join(V, "coq", "Properties", pid + ".v")).read(), flags=re.M)
        fixes = [f for f in kf if f["property"] == pid and f["state"] == "fixed"]
        known = [f for f in kf if f["property"] == pid and f["state"] == "known"]
        seeds = []
        for m in sorted(glob.glob(os.path.join(V, "seeded", pid + "-*", "meta.json"))):
            j = json.load(open(m))
            det = [p for p, d in sorted(j.get("detected_by", {}).items()) if d.get("exit") == 1]
            seeds.append("%s (%s)" % (os.path.basename(os.path.dirname(m)), "caught by " + ", ".join(det) if det else ("harmless since " + j["obsolete_since"]["commit"] + ", nothing to report" if j.get("obsolete_since") else "MISSED")))
        p = ["**As built.** Files: %s; harness family `%s`." % MODELS[pid],
             "Theorems in `Properties/%s.v` (each `Closed under the global context`): %s." % (pid, ", ".join("`%s`" % n for n in names)),
             c["text"], "Technique: " + c["technique"] + ".", "Limits / trusted: " + c["note"]]
        if fixes:
            p.append("Repaired defects: " + "; ".join("%s — %s" % (f["commit"], re.sub(r"^fixed: property=\S+ \S+ ", "", f["what"])) for f in fixes) + ".")
        if known:
            p.append("Known findings (not repaired, see §0.4): " + "; ".join(f["key"] for f in known) + ".")
        if not fixes and not known:
            p.append("No defect of this property was found in the pinned tree.")
        p.append("Seeded changes: " + ", ".join(seeds) + " (details in §0.6).")
        out[pid] = "\n".join(p)
    return out


def main():
    path = os.path.join(V, "DESIGN.md")
    s = open(path).read()
    # drop previous generated parts
    s = re.sub(r"<!-- BEGIN AS-BUILT (\w+) -->.*?<!-- END AS-BUILT \1 -->\n*", "", s, flags=re.S)
    s = re.sub(r"<!-- BEGIN SECTION0 -->.*?<!-- END SECTION0 -->\n*", "", s, flags=re.S)
    sec0 = open(os.path.join(V, "tools", "design_section0.md")).read().replace("@@SEEDS@@", mkdesign_tables.seeds()).replace("@@EVIDENCE@@", mkdesign_tables.evidence())
    marker = "## 1. What is being built, and why it can reach what the tests cannot"
    assert marker in s
    s = s.replace(marker, "<!-- BEGIN SECTION0 -->\n" + sec0 + "\n---------------------------------------------------------------------------\n<!-- END SECTION0 -->\n\n" + marker, 1)
    paras = paragraphs()
    heads = list(re.finditer(r"^### (C\d\d) ", s, flags=re.M))
    end_all = s.index("## 6. Hooks in /repo")
    for i in reversed(range(len(heads))):
        pid = heads[i].group(1)
        end = heads[i + 1].start() if i + 1 < len(heads) else end_all
        block = "<!-- BEGIN AS-BUILT %s -->\n%s\n<!-- END AS-BUILT %s -->\n\n" % (pid, paras[pid], pid)
        # keep a trailing separator line (-----) after the block if the section ended with one
        s = s[:end] + block + s[end:]
    open(path, "w").write(s)


if __name__ == "__main__":
    main()
