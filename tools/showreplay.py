import json,glob,sys
sys.path.insert(0,'/verif/tools')
from vlib.props import stackcommon as sc
for f in glob.glob('/verif/replays/%s*' % sys.argv[1]):
    r=json.load(open(f))
    if 'case' not in r:
        print(json.dumps(r)[:1500]); continue
    line=r['case']; print(' '.join(t for t in line.split(' ') if not t.startswith('tbl=')))
    print('REQ',r.get('required'))
    g=sc.canon_go(r['implementation_observed']); m=sc.canon_model(r['model_predicted'])
    gs,ms=g.split(' '),m.split(' ')
    for i in range(max(len(gs),len(ms))):
        a=gs[i] if i<len(gs) else '-'; b=ms[i] if i<len(ms) else '-'
        if a!=b or len(sys.argv)>2: print(('  ' if a==b else '!!'),a[:150],'|',b[:150])
