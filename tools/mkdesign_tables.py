#!/usr/bin/env python3
"""Prints the generated tables of DESIGN.md section 0 (seeded changes, theorem lists, evidence numbers)."""
import glob, json, os, re, sys
V = os.path.dirname(os.path.dirname(os.path.abspath(__file__)))


def seeds():
    out = ["| seed | change (written by a sub-agent that saw only the property text) | caught by | how the check reports it |", "|---|---|---|---|"]
    for m in sorted(glob.glob(os.path.join(V, "seeded", "*", "meta.json"))):
        j = json.load(open(m))
        sid = os.path.basename(os.path.dirname(m))
        summ = re.sub(r"\s+", " ", j.get("summary", ""))[:260]
        det = j.get("detected_by", {})
        by, how = [], []
        for pid, d in sorted(det.items()):
            if d.get("exit") == 1:
                by.append(pid)
                req = d.get("replay_required") or ""
                if isinstance(req, list):
                    req = "; ".join(str(x) for x in req)
                nf = any("no-failing-input-found" in l for l in d.get("lines", []))
                how.append(("%s: " % pid) + ("proof obligation / correspondence broken, no failing input found" if nf and not req else "failing input: " + re.sub(r"\s+", " ", req)[:170]))
        out.append("| %s | %s | %s | %s |" % (sid, summ.replace("|", "/"), ", ".join(by) or ("nothing to report: made harmless by " + j["obsolete_since"]["commit"] if j.get("obsolete_since") else "MISSED"), "; ".join(how).replace("|", "/")))
    return "\n".join(out)


def theorems():
    out = []
    for f in sorted(glob.glob(os.path.join(V, "coq", "Properties", "C*.v"))):
        names = re.findall(r"^(?:Theorem|Example|Corollary)\s+(\w+)", open(f).read(), flags=re.M)
        out.append("* %s: %s" % (os.path.basename(f)[:-2], ", ".join("`%s`" % n for n in names)))
    return "\n".join(out)


def evidence():
    out = ["| property | obligations discharged | correspondence cases (quick) | non-trivial | known findings hit | wall s |", "|---|---|---|---|---|---|"]
    for f in sorted(glob.glob(os.path.join(V, "evidence", "C*.json"))):
        e = json.load(open(f))
        c = e["coverage"]
        out.append("| %s | %d/%d | %d | %d | %d | %s |" % (e["property_id"], c["discharged"], c["obligations"], c["evaluations"], c["distinct_nontrivial"], len(c.get("known_findings_hit", [])), e["wall_s"]))
    return "\n".join(out)


if __name__ == "__main__":
    print({"seeds": seeds, "theorems": theorems, "evidence": evidence}[sys.argv[1]]())
