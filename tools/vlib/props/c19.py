"""C19 — a crash during a storage write never corrupts the stored value."""
import json, os, re, shutil, subprocess, tempfile
from .. import core

ID = "C19"
RULE = ("fault enumeration: EVERY crash point (6 per Set: before open, after open, after write, after sync, after "
        "close, after rename; the child process is SIGKILLed there) x old value in {absent, shorter, equal length, "
        "longer, empty} x new value, for plain Set, sequences of 2-3 Sets, SaveEntity, and the configuration "
        "rewrite of a restart with a changed accessory set (18+ crash points); plus the strace tie (T3). "
        "non-trivial = the crash point lies strictly inside a write (not before the first or after the last operation)")
EXTRA_FILES = ("Proofs/StorageProofs.v",)
ASSUMPTIONS = ["process-kill semantics: completed system calls persist, in order (power-loss reordering is outside the statement)",
               "a single write(2) of these sizes to a regular file is not interrupted half-way by SIGKILL",
               "crash points are the verif-tagged verifCrashPoint() calls between the file operations of fileStorage.Set"]


def rb(rng, n):
    return bytes(rng.getrandbits(8) for _ in range(n))


def kvs(l):
    return ",".join("%s:%s" % (k.hex(), v.hex()) for k, v in l) if l else "-"


def gen(rng, tier):
    cases = []

    def add(kind, line, g, total):
        cases.append({"id": "%s%d" % (kind, len(cases)), "line": line, "kind": kind, "g": g, "total": total})

    news = [b"ab", b"", rb(rng, 9), rb(rng, 700)] if tier == "quick" else [b"ab", b"", rb(rng, 9), rb(rng, 700), rb(rng, 4096), b"\x00" * 40]
    for fam in ("crash", "crashdb"):
        for new in news:
            olds_opts = [None, new[:-1] if new else None, rb(rng, len(new)), new + rb(rng, 5), b"", rb(rng, 3000)]
            for old in olds_opts:
                key = rng.choice([b"k", b"a:b", b"version", b"uuid"]) if fam == "crash" else rng.choice([b"ctrl", rb(rng, 12), "ü😀".encode()])
                other = (b"other", rb(rng, 7))
                olds = [other] + ([(key, old)] if old is not None else [])
                for g in range(0, 7):
                    i = min(g, 5) if g < 6 else 5
                    add(fam, "%s %s %s %d %d" % (fam, kvs(olds), kvs([(key, new)]), i, g), g, 6)
    # sequences of sets (config save shape): crash anywhere in the whole sequence
    nseq = 4 if tier == "quick" else 40
    for _ in range(nseq):
        keys = [b"uuid", b"version", b"configHash"]
        olds = [(k, rb(rng, rng.choice([0, 2, 17, 32]))) for k in keys if rng.random() < 0.8]
        sets = [(k, rb(rng, rng.choice([0, 1, 17, 32, 64]))) for k in keys]
        for g in range(0, 19):
            i = (g // 6) * 5 + (g % 6)
            add("crash", "crash %s %s %d %d" % (kvs(olds), kvs(sets), min(i, 15), g), g % 6, 6)
    for g in range(0, 26 if tier == "quick" else 32):
        add("crashcfg", "crashcfg %d" % g, g % 6, 6)
    # names at the file system's limit (NAME_MAX = 255): when the temp name does not fit, the Set fails before anything is
    # written -- the key keeps what it had (it can only be absent), whatever the kill point; a Set that follows is not affected
    def name(n):
        return bytes(rng.choice(b"abcdefghijklmnopqrstuvwxyz0123456789") for _ in range(n))
    for L in ([250, 251, 252, 255, 256] if tier == "quick" else [249, 250, 251, 252, 253, 254, 255, 256, 300]):
        key, new = name(L), rb(rng, 9)
        fits = L + 4 <= 255
        olds = [(b"other", rb(rng, 7))] + ([(key, rb(rng, 5))] if fits else [])
        for g in range(0, 7):
            add("crash-longname", "crash %s %s %d %d" % (kvs(olds), kvs([(key, new)]), min(g, 5) if fits else 0, g), g, 6)
        if not fits:
            for g in range(0, 8):
                add("crash-longname", "crash %s %s %d %d" % (kvs(olds), kvs([(key, new), (b"k", b"after")]), min(max(g - 1, 0), 5), g), max(g - 1, 0), 6)
    for L in ([121, 122, 123, 124] if tier == "quick" else [120, 121, 122, 123, 124, 125, 150]):
        nm, new = name(L), rb(rng, 32)
        fits = 2 * L + 7 + 4 <= 255
        olds = [(b"other", rb(rng, 32))] + ([(nm, rb(rng, 32))] if fits else [])
        for g in range(0, 7):
            add("crashdb-longname", "crashdb %s %s %d %d" % (kvs(olds), kvs([(nm, new)]), min(g, 5) if fits else 0, g), g, 6)
    # deletes (one unlink) between sets: the deleted key is gone or still holds its value, never anything else
    for fam, k1, k2 in (("crash", b"k", b"version"), ("crash", b"a:b", b"k"), ("crashdb", b"ctrl", b"other-ctrl")):
        old, new = rb(rng, 32), rb(rng, 32)
        olds = [(k1, old), (b"zz", rb(rng, 32))]
        dl = "%s:DEL" % k1.hex()
        for g in range(0, 7):
            add(fam + "-delete", "%s %s %s,%s %d %d" % (fam, kvs(olds), dl, kvs([(k2, new)]), 1 + min(g, 5), g), g, 6)
            add(fam + "-delete", "%s %s %s,%s %d %d" % (fam, kvs(olds), kvs([(k2, new)]), dl, min(g, 5) if g < 6 else 6, g), g, 6)
        add(fam + "-delete", "%s %s %s %d %d" % (fam, kvs(olds), dl, 1, 0), 0, 6)
    # after the restart the application writes the key again (shorter, equal, longer, empty): whatever the interrupted
    # write left behind (a temp file with any content) must not show up in the value
    for new in ([rb(rng, 700), rb(rng, 9)] if tier == "quick" else [rb(rng, 700), rb(rng, 9), rb(rng, 4096), b"", rb(rng, 64)]):
        for then in (new[:len(new) // 3], rb(rng, 3), new + rb(rng, 7), b""):
            key = rng.choice([b"k", b"a:b", b"version"])
            olds = [(b"other", rb(rng, 7)), (key, rb(rng, 20))]
            for g in range(0, 7):
                add("crashthen", "crash %s %s %d %d %s" % (kvs(olds), kvs([(key, new)]), min(g, 5), g, kvs([(key, then)])), g, 6)
    return cases


def nontrivial(c):
    return 0 < c["g"] < 5


def outcome_class(c, obs):
    return c["kind"] + "/" + ("pt%d" % c["g"])


def oracle(c, obs):
    if obs.startswith("panic") or obs.startswith("DRIVER-DIED") or obs == "NO-OUTPUT" or obs.startswith("child-") or obs == "badcase":
        return "harness/child failure: " + obs[:100]
    toks = c["line"].split(" ")
    if toks[0] == "crashcfg":
        for f in obs.split(" ")[1:]:
            k, v = f.split("=", 1)
            if k == "entities":
                if v == "err" or v == "0":
                    return "after the crash the pairing database must still list the accessory's own entity; observed entities=" + v
            elif v not in ("old", "new", "same"):
                return "after a crash during restart, %s must hold its previous or its new value in full; observed %s" % (bytes.fromhex(k).decode(), v[:80])
        return None

    def parse(s):
        return [] if s == "-" else [tuple(x.split(":")) for x in s.split(",")]
    olds, sets = dict(parse(toks[1])), parse(toks[2])
    new = {}
    for k, v in sets:
        new.setdefault(k, []).append("nf" if v == "DEL" else v)
    if len(toks) > 5:
        # written again after the restart: exactly that value
        for k, v in parse(toks[5]):
            olds[k] = v
            new[k] = []
    for f in obs.split(" "):
        k, v = f.split("=", 1)
        if k == "list":
            if v == "err":
                return "entity listing fails after the crash (a value file is unreadable)"
            continue
        allowed = set()
        allowed.add(olds.get(k, "nf"))
        for nv in new.get(k, []):
            allowed.add(nv)
        if v not in allowed:
            return "key %s holds %s after the crash: neither its previous value nor the new value in full" % (k, v[:60] or "<empty>")
    return None


def same(c, g, m):
    if c["kind"] == "crashcfg":
        return True          # no model line for the restart case: the oracle decides
    return g == m


def classify(c, obs, why):
    return None


def strace_tie(res):
    """T3: the system calls of one Set must be the model's set_ops"""
    exe = os.path.join(core.BUILD, "hcdrv")
    d = tempfile.mkdtemp(prefix="hct3", dir=core.BUILD)
    try:
        tr = os.path.join(d, "trace")
        key, val = b"a:key", b"hello-value"
        sub = os.path.join(d, "store")
        os.makedirs(sub)
        p = subprocess.run(["strace", "-f", "-qq", "-o", tr, "-e", "trace=openat,write,fsync,fdatasync,close,rename,renameat,renameat2,unlink,unlinkat",
                            exe, "crash"], input=("t setonce %s %s %s\n" % (sub, key.hex(), val.hex())).encode(),
                           stdout=subprocess.PIPE, stderr=subprocess.PIPE, timeout=120)
        if not os.path.exists(tr):
            res.obligations.append(("T3 strace tie (set_ops = system calls of one Set)", False, "strace unavailable: " + p.stderr.decode()[:200]))
            res.broken.append("T3 strace tie could not run")
            return
        seq, fds = [], {}
        for line in open(tr):
            line = re.sub(r"^\d+\s+", "", line.strip())
            m = re.match(r'openat\(AT_FDCWD, "([^"]+)", ([A-Z_|]+)(?:, \d+)?\)\s+= (\d+)', line)
            if m and m.group(1).startswith(sub + "/"):
                name, flags, fd = os.path.basename(m.group(1)), m.group(2), m.group(3)
                if "O_WRONLY" in flags or "O_RDWR" in flags:
                    fds[fd] = name
                    kind = "OpenCreateTrunc" if ("O_TRUNC" in flags and "O_CREAT" in flags) else ("OpenCreate" if "O_CREAT" in flags else "OpenPlain")
                    seq.append("%s:%s" % (kind, name.encode().hex()))
                continue
            m = re.match(r'write\((\d+), (".*?")(?:\.\.\.)?, (\d+)\)\s+= (\d+)', line)
            if m and m.group(1) in fds:
                seq.append("WriteAt0:%s:%s" % (fds[m.group(1)].encode().hex(), val.hex() if int(m.group(4)) == len(val) else "short"))
                continue
            m = re.match(r'(fsync|fdatasync)\((\d+)\)', line)
            if m and m.group(2) in fds:
                seq.append("Sync:%s" % fds[m.group(2)].encode().hex())
                continue
            m = re.match(r'close\((\d+)\)', line)
            if m and m.group(1) in fds:
                seq.append("Close:%s" % fds.pop(m.group(1)).encode().hex())
                continue
            m = re.match(r'rename(?:at2?)?\((?:AT_FDCWD, )?"([^"]+)", (?:AT_FDCWD, )?"([^"]+)"', line)
            if m and m.group(1).startswith(sub + "/"):
                seq.append("Rename:%s:%s" % (os.path.basename(m.group(1)).encode().hex(), os.path.basename(m.group(2)).encode().hex()))
                continue
            m = re.match(r'unlink(?:at)?\((?:AT_FDCWD, )?"([^"]+)"', line)
            if m and m.group(1).startswith(sub + "/"):
                seq.append("Remove:%s" % os.path.basename(m.group(1)).encode().hex())
        mo = subprocess.run([os.path.join(core.BUILD, "modelrun"), "crash"], input=("t ops %s %s\n" % (key.hex(), val.hex())).encode(),
                            stdout=subprocess.PIPE, timeout=60).stdout.decode().strip().split(" ")[1:]
        ok = seq == mo
        res.obligations.append(("T3 strace tie (set_ops = system calls of one Set)", ok, "syscalls: %s | model: %s" % (" ".join(seq), " ".join(mo))))
        res.extra["strace_sequence"] = seq
        if not ok:
            res.broken.append("T3: system-call sequence of Set differs from the model's set_ops: %s vs %s" % (seq, mo))
    finally:
        shutil.rmtree(d, ignore_errors=True)


def run(res, a):
    res.rule = RULE
    res.assumptions = ASSUMPTIONS
    core.build_everything(res, ID, extra_files=EXTRA_FILES)
    me = __import__(__name__, fromlist=["x"])
    if a.replay:
        rep = json.load(open(a.replay))
        toks = rep["case"].split(" ")
        core.run_correspondence(res, "crash", [{"id": "replay", "line": rep["case"], "kind": toks[0], "g": 1, "total": 6}], me)
        return
    strace_tie(res)
    rng = core.rng_for(ID, res.seed)
    cases = core.load_corpus("crash") + gen(rng, a.tier)
    core.run_correspondence(res, "crash", cases, me)
    from . import c18
    c18.concurrent_sets(res, a, ID)      # two writes of one key share the temp file: they must not overlap
    res.extra["exhaustive"] = True
    res.trusted.append("strace (T3) output parsing; SIGKILL self-delivery in the verif-tagged hook")
