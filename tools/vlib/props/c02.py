"""C02 — full-stack check (see stackprops.py / stackcommon.py)."""
from . import stackprops as sp, stackcommon as sc

ID = "C02"
FAMILY = "stack"
RETRY = 2
RULE = 'pair-setup message sequences on 1-2 interleaved connections over 23 message kinds (start; verify with right / wrong / missing proof, A = 0, N, 2N, empty; key exchange genuine, flipped, short, empty, under zero / random key, wrong signer, malformed inner; unknown step / method; garbage), the store read after every message; plus all (quick: sampled) two-message adversary prefixes followed by a zero-key key exchange. non-trivial = contains a key exchange message'
ASSUMPTIONS = ["symbolic cryptography in the model (forging is impossible by construction of the message alphabet: INT-CTXT of ChaCha20-Poly1305, EUF-CMA of Ed25519, SRP-6a soundness, CDH on Curve25519, HKDF as a random oracle are assumed, not proved); net/http request parsing is modelled as 400-and-close for ciphertext on a plaintext connection; the reference controller's abstract message kinds are realised by concrete builders in harness/cmd/hcdrv/stack.go"]
TRUSTED = ["reference controller harness/cmd/hcdrv/refctl.go (math/big SRP with the RFC 3526 prime re-derived from pi, crypto/ed25519, x/crypto curve25519 / chacha20poly1305 / hkdf)", "scenario translation ocaml/fam_stack.ml and canonicalisation tools/vlib/props/stackcommon.py"]
EXTRA_FILES = ("Proofs/HapProofs.v", "Proofs/CharacProofs.v")
gen = sp.gen_c02
oracle = sp.oracle_c02
same = sc.same


def nontrivial(c):
    return len(c["line"].split(" ")) > 6


def outcome_class(c, obs):
    return c["kind"]


def classify(c, obs, why):
    return None


def run(res, a):
    """the generic correspondence, then (implementation side, judged by the oracle of the C20 histories) runs in which the setup
    code is changed between two starts on the same storage: the code of an EARLIER run proves nothing"""
    import json, os, sys
    from .. import core
    from . import c20
    mod = sys.modules[__name__]
    res.rule = RULE + "; additionally (implementation side): pair-setup with the previous and with the current setup code after the code was changed between two runs on one storage"
    res.assumptions = list(ASSUMPTIONS)
    core.build_everything(res, ID, extra_files=EXTRA_FILES)
    res.trusted += TRUSTED
    rng = core.rng_for(ID, res.seed)
    if a.replay:
        rep = json.load(open(a.replay))
        if not rep["case"].startswith("hist "):
            core.run_correspondence(res, FAMILY, [{"id": "replay", "line": rep["case"], "kind": "replay", "meta": rep.get("meta") or {}}], mod)
            return
        cases = [{"id": "replay", "line": rep["case"], "kind": "hist/pin-changed"}]
    else:
        core.run_correspondence(res, FAMILY, core.load_corpus(FAMILY) + gen(rng, a.tier), mod)
        cases = c20.pin_changed(rng, a.tier)
    obs = core.shard_run(os.path.join(core.BUILD, "hcdrv"), "config", ["%s %s" % (c["id"], c["line"]) for c in cases])
    bad = 0
    for c in cases:
        o = obs.get(c["id"], "NO-OUTPUT")
        res.cases += 1
        h = core.sha(c["line"])
        res.distinct.add(h)
        res.nontrivial.add(h)
        res.count("kind:setup-code-changed")
        why = c20.oracle_hist(c, o)
        if why:
            bad += 1
            res.violations.append(("setup-code-changed", {"property": ID, "family": "config", "seed": res.seed, "case": c["line"], "implementation_observed": o[:400],
                                                          "required": why, "failing_input_found": True, "replay": "python3 tools/check.py C02 --replay <this file>"}))
    res.obligations.append(("implementation-side runs: the setup code changed between two runs on one storage", bad == 0, "%d runs, %d failing" % (len(cases), bad)))
