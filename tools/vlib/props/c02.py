"""C02 — full-stack check (see stackprops.py / stackcommon.py)."""
from . import stackprops as sp, stackcommon as sc

ID = "C02"
FAMILY = "stack"
RETRY = 2
RULE = 'pair-setup message sequences on 1-2 interleaved connections over 23 message kinds (start; verify with right / wrong / missing proof, A = 0, N, 2N, empty; key exchange genuine, flipped, short, empty, under zero / random key, wrong signer, malformed inner; unknown step / method; garbage), the store read after every message; plus all (quick: sampled) two-message adversary prefixes followed by a zero-key key exchange. non-trivial = contains a key exchange message'
ASSUMPTIONS = ["symbolic cryptography in the model (forging is impossible by construction of the message alphabet: INT-CTXT of ChaCha20-Poly1305, EUF-CMA of Ed25519, SRP-6a soundness, CDH on Curve25519, HKDF as a random oracle are assumed, not proved); net/http request parsing is modelled as 400-and-close for ciphertext on a plaintext connection; the reference controller's abstract message kinds are realised by concrete builders in harness/cmd/hcdrv/stack.go"]
TRUSTED = ["reference controller harness/cmd/hcdrv/refctl.go (math/big SRP with the RFC 3526 prime re-derived from pi, crypto/ed25519, x/crypto curve25519 / chacha20poly1305 / hkdf)", "scenario translation ocaml/fam_stack.ml and canonicalisation tools/vlib/props/stackcommon.py"]
EXTRA_FILES = ("Proofs/HapProofs.v", "Proofs/CharacProofs.v")
gen = sp.gen_c02
oracle = sp.oracle_c02
same = sc.same


def nontrivial(c):
    return len(c["line"].split(" ")) > 6


def outcome_class(c, obs):
    return c["kind"]


def classify(c, obs, why):
    return None
